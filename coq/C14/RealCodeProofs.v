(* Proofs about the real_code model: length preservation and characters outside the regions, for every text
   and every well-formed region list. *)
From Coq Require Import List NArith ZArith Bool Lia.
From RopeVerif.Lib Require Import Text.
From RopeVerif.C14 Require Import Base Lines LinesProofs Regions RegionsProofs RealCode.
Import ListNotations.
Open Scope N_scope.

(* ------------------------------------------------------------------ list facts *)
Lemma nth_error_skipn' {A} (l : list A) : forall n i, nth_error (skipn n l) i = nth_error l (n + i).
Proof. induction l as [|x l IH]; intros [|n] i; cbn; auto. destruct i; reflexivity. Qed.

Lemma nth_error_firstn' {A} (l : list A) : forall n i, (i < n)%nat -> nth_error (firstn n l) i = nth_error l i.
Proof.
  induction l as [|x l IH]; intros [|n] [|i] H; cbn; try reflexivity; try lia. apply IH. lia.
Qed.

Lemma sliceN_length a b s : a <= b -> b <= lenN s -> length (sliceN a b s) = N.to_nat (b - a).
Proof.
  intros Hab Hb. unfold sliceN. rewrite firstn_length, skipn_length. unfold lenN in Hb. lia.
Qed.

Lemma sliceN_nth a b s o : a <= o -> o < b -> nth_error (sliceN a b s) (N.to_nat (o - a)) = nth_error s (N.to_nat o).
Proof.
  intros Hao Hob. unfold sliceN. rewrite nth_error_firstn' by lia. rewrite nth_error_skipn'. f_equal. lia.
Qed.

Lemma spaces_length n : lenN (spaces n) = n.
Proof. unfold spaces, lenN. rewrite repeat_length. lia. Qed.

(* ------------------------------------------------------------------ change lists *)
Fixpoint changes_wf (n lo : N) (chs : list change) : Prop :=
  match chs with
  | [] => True
  | (a, b, t) :: r => lo <= a /\ a <= b /\ b <= n /\ lenN t = b - a /\ changes_wf n b r
  end.

Lemma changes_wf_mono n chs : forall lo lo', lo' <= lo -> changes_wf n lo chs -> changes_wf n lo' chs.
Proof. destruct chs as [|[[a b] t] r]; intros lo lo' H Hw; [exact I|]. cbn in *. intuition lia. Qed.

Lemma region_changes_wf s : forall rs lo, regions_wf_from s lo rs = true -> changes_wf (lenN s) lo (region_changes s rs).
Proof.
  induction rs as [|[[a b] pre] rest IH]; intros lo H; [exact I|].
  cbn [regions_wf_from] in H. repeat (apply andb_true_iff in H; destruct H as [H ?]).
  apply N.leb_le in H. apply N.leb_le in H2.
  cbn [region_changes]. specialize (IH b H0).
  assert (Hab : a <= b).
  { destruct pre; apply andb_true_iff in H1; destruct H1 as [H1 _]; [apply N.leb_le in H1|apply N.ltb_lt in H1]; lia. }
  revert H1. destruct (getN s a) as [c|]; intros H1; [|eapply changes_wf_mono; [|exact IH]; lia].
  destruct (c =? cHASH) eqn:Hc.
  - cbn [changes_wf]. rewrite spaces_length. repeat split; try lia. exact IH.
  - destruct (has_f pre); [eapply changes_wf_mono; [|exact IH]; lia|].
    cbn [changes_wf]. repeat split; try lia; [|exact IH].
    destruct pre as [p|]; [|rewrite andb_false_r in H1; discriminate].
    apply andb_true_iff in H1. destruct H1 as [H1 _]. apply N.leb_le in H1.
    rewrite lenN_cons, lenN_app, spaces_length. change (lenN [cDQ]) with 1. lia.
Qed.

Lemma region_changes_in s : forall rs a b t, In (a, b, t) (region_changes s rs) ->
  exists pre, In (a, b, pre) rs /\ (getN s a = Some cHASH \/ has_f pre = false).
Proof.
  induction rs as [|[[a0 b0] pre0] rest IH]; intros a b t H; [contradiction|].
  cbn [region_changes] in H.
  assert (Hrest : In (a, b, t) (region_changes s rest) ->
            exists pre, In (a, b, pre) ((a0, b0, pre0) :: rest) /\ (getN s a = Some cHASH \/ has_f pre = false)).
  { intros H'. apply IH in H'. destruct H' as [p [Hp Hq]]. exists p. split; [right; exact Hp|exact Hq]. }
  destruct (getN s a0) as [c|] eqn:Eg; [|auto].
  destruct (N.eqb_spec c cHASH) as [->|Hc].
  - destruct H as [H|H]; [injection H as <- <- _; exists pre0; split; [left; reflexivity|left; exact Eg]|auto].
  - destruct (has_f pre0) eqn:Hf; [auto|].
    destruct H as [H|H]; [injection H as <- <- _; exists pre0; split; [left; reflexivity|right; exact Hf]|auto].
Qed.

Lemma sort_changes_wf n : forall chs lo, changes_wf n lo chs -> sort_changes chs = chs.
Proof.
  induction chs as [|[[a b] t] r IH]; intros lo H; [reflexivity|].
  cbn [changes_wf] in H. destruct H as (Hlo & Hab & Hbn & Ht & Hr).
  cbn [sort_changes]. rewrite (IH b Hr).
  destruct r as [|[[c d] t'] r']; [reflexivity|].
  cbn [changes_wf] in Hr. destruct Hr as (Hbc & Hcd & _).
  cbn [insert_change change_le].
  destruct (N.ltb_spec a c); [reflexivity|].
  assert (a = c) by lia. subst c. rewrite N.eqb_refl. cbn [andb orb].
  destruct (N.leb_spec b d); [reflexivity|lia].
Qed.

Lemma apply_changes_length s : forall chs lo, changes_wf (lenN s) lo chs -> lo <= lenN s ->
  length (apply_changes s lo chs) = (length s - N.to_nat lo)%nat.
Proof.
  induction chs as [|[[a b] t] r IH]; intros lo H Hlo.
  - cbn [apply_changes]. rewrite sliceN_length by lia. unfold lenN. lia.
  - cbn [changes_wf] in H. destruct H as (Hloa & Hab & Hbn & Ht & Hr).
    cbn [apply_changes]. rewrite !app_length. rewrite sliceN_length by lia.
    rewrite (IH b Hr Hbn). unfold lenN in *. lia.
Qed.

Lemma apply_changes_nth s o : forall chs lo, changes_wf (lenN s) lo chs -> lo <= o -> o < lenN s ->
  (forall a b t, In (a, b, t) chs -> ~ (a <= o /\ o < b)) ->
  nth_error (apply_changes s lo chs) (N.to_nat (o - lo)) = nth_error s (N.to_nat o).
Proof.
  induction chs as [|[[a b] t] r IH]; intros lo H Hlo Ho Hout.
  - cbn [apply_changes]. apply sliceN_nth; lia.
  - cbn [changes_wf] in H. destruct H as (Hloa & Hab & Hbn & Ht & Hr).
    cbn [apply_changes].
    assert (Hnot : ~ (a <= o /\ o < b)) by (apply (Hout a b t); left; reflexivity).
    destruct (N.ltb_spec o a) as [Hoa|Hoa].
    + rewrite nth_error_app1 by (rewrite sliceN_length by lia; lia). apply sliceN_nth; lia.
    + assert (Hbo : b <= o) by lia.
      rewrite nth_error_app2 by (rewrite sliceN_length by lia; lia).
      rewrite sliceN_length by lia.
      rewrite nth_error_app2 by (unfold lenN in Ht; lia).
      replace (N.to_nat (o - lo) - N.to_nat (a - lo) - length t)%nat with (N.to_nat (o - b)) by (unfold lenN in Ht; lia).
      apply IH; try assumption. intros a' b' t' Hin. apply (Hout a' b' t'). right. exact Hin.
Qed.

Lemma sliceN_all s : sliceN 0 (lenN s) s = s.
Proof. unfold sliceN, lenN. cbn [skipn N.to_nat]. rewrite N.sub_0_r, Nat2N.id. apply firstn_all. Qed.

Lemma changed_or_source_wf s chs : changes_wf (lenN s) 0 chs -> changed_or_source s chs = apply_changes s 0 chs.
Proof.
  intros H. unfold changed_or_source. destruct chs as [|x r]; [cbn [apply_changes]; rewrite sliceN_all; reflexivity|].
  rewrite (sort_changes_wf _ _ _ H).
  pose proof (apply_changes_length s (x :: r) 0 H ltac:(lia)) as Hlen.
  destruct (apply_changes s 0 (x :: r)) eqn:E; [|reflexivity].
  cbn [length] in Hlen. destruct s; [reflexivity|cbn [length] in Hlen; lia].
Qed.

(* ------------------------------------------------------------------ the three character passes *)
Lemma parens_pass_length r : forall d, length (parens_pass r d) = length r.
Proof.
  induction r as [|c r IH]; intros d; [reflexivity|]. cbn [parens_pass].
  destruct (is_open c); [cbn [length]; rewrite IH; reflexivity|].
  destruct (is_close c); [cbn [length]; rewrite IH; reflexivity|].
  destruct ((c =? cNL) && (0 <? d)%Z); cbn [length]; rewrite IH; reflexivity.
Qed.

Lemma parens_pass_nth r : forall d o c, nth_error r o = Some c ->
  nth_error (parens_pass r d) o = Some c \/ (c = cNL /\ nth_error (parens_pass r d) o = Some cSP).
Proof.
  induction r as [|x r IH]; intros d o c H; [destruct o; discriminate|].
  cbn [parens_pass]. destruct o as [|o]; cbn [nth_error] in H.
  - injection H as ->.
    destruct (is_open c); [left; reflexivity|]. destruct (is_close c); [left; reflexivity|].
    destruct (N.eqb_spec c cNL) as [->|Hc]; cbn [andb].
    + destruct (0 <? d)%Z; [right; split; reflexivity|left; reflexivity].
    + left; reflexivity.
  - destruct (is_open x); [apply IH; exact H|]. destruct (is_close x); [apply IH; exact H|].
    destruct ((x =? cNL) && (0 <? d)%Z); apply IH; exact H.
Qed.

Lemma repl_bsnl_spec : forall n r, (length r <= n)%nat ->
  length (repl_bsnl r) = length r /\
  forall o c, nth_error r o = Some c ->
    nth_error (repl_bsnl r) o = Some c \/ ((c = cNL \/ c = cBSL) /\ nth_error (repl_bsnl r) o = Some cSP).
Proof.
  induction n as [|n IH]; intros r Hn.
  - destruct r; [|cbn in Hn; lia]. split; [reflexivity|]. intros o c H. destruct o; discriminate.
  - destruct r as [|c0 r1]; [split; [reflexivity|intros o c H; destruct o; discriminate]|].
    cbn [length] in Hn. cbn [repl_bsnl].
    destruct (IH r1 ltac:(lia)) as [L1 P1].
    destruct (N.eqb_spec c0 cBSL) as [->|Hc0].
    + destruct r1 as [|c1 r2].
      * split; [reflexivity|]. intros o c H. left. exact H.
      * destruct (N.eqb_spec c1 cNL) as [->|Hc1].
        -- cbn [length] in Hn. destruct (IH r2 ltac:(lia)) as [L2 P2].
           split; [cbn [length]; rewrite L2; reflexivity|].
           intros o c H. destruct o as [|[|o]]; cbn [nth_error] in *.
           ++ injection H as <-. right. split; [right; reflexivity|reflexivity].
           ++ injection H as <-. right. split; [left; reflexivity|reflexivity].
           ++ apply P2. exact H.
        -- split; [cbn [length] in *; rewrite L1; reflexivity|].
           intros o c H. destruct o as [|o]; cbn [nth_error] in *; [left; exact H|apply P1; exact H].
    + split; [cbn [length]; rewrite L1; reflexivity|].
      intros o c H. destruct o as [|o]; cbn [nth_error] in *; [left; exact H|apply P1; exact H].
Qed.

Lemma repl_tab_semi_spec c :
  repl_tab_semi c = c \/ (c = cTAB /\ repl_tab_semi c = cSP) \/ (c = cSEMI /\ repl_tab_semi c = cNL).
Proof.
  unfold repl_tab_semi. destruct (N.eqb_spec c cTAB) as [->|H1]; [right; left; split; reflexivity|].
  destruct (N.eqb_spec c cSEMI) as [->|H2]; [right; right; split; reflexivity|left; reflexivity].
Qed.

(* ------------------------------------------------------------------ the theorems *)
Theorem real_code_length rs s : regions_wf s rs = true -> length (real_code_with rs s) = length s.
Proof.
  intros H. unfold real_code_with. rewrite map_length.
  destruct (repl_bsnl_spec _ _ (le_n (length (parens_pass (changed_or_source s (region_changes s rs)) 0)))) as [L _].
  rewrite L, parens_pass_length.
  pose proof (region_changes_wf s rs 0 H) as Hw.
  rewrite (changed_or_source_wf _ _ Hw), (apply_changes_length s _ 0 Hw) by lia. cbn. lia.
Qed.

(* general form: the offset may lie inside regions that real_code leaves verbatim (f-strings) *)
Theorem real_code_outside_or_fstring rs s : regions_wf s rs = true ->
  forall o c, nth_error s o = Some c ->
    (forall a b pre, In (a, b, pre) rs -> a <= N.of_nat o /\ N.of_nat o < b ->
       has_f pre = true /\ getN s a <> Some cHASH) ->
    exists c', nth_error (real_code_with rs s) o = Some c'
      /\ (c' = c \/ (c = cTAB /\ c' = cSP) \/ (c = cSEMI /\ c' = cNL) \/ ((c = cNL \/ c = cBSL) /\ c' = cSP)).
Proof.
  intros H o c Hc Hout. unfold real_code_with.
  pose proof (region_changes_wf s rs 0 H) as Hw.
  rewrite (changed_or_source_wf _ _ Hw).
  assert (Holen : (o < length s)%nat) by (apply nth_error_Some; congruence).
  assert (H1 : nth_error (apply_changes s 0 (region_changes s rs)) o = Some c).
  { rewrite <- Hc. replace o with (N.to_nat (N.of_nat o - 0)) at 1 by lia.
    rewrite (apply_changes_nth s (N.of_nat o) _ 0 Hw); [rewrite Nat2N.id; reflexivity|lia|unfold lenN; lia|].
    intros a b t Hin Hab. apply region_changes_in in Hin. destruct Hin as [pre [Hin Hq]].
    destruct (Hout _ _ _ Hin Hab) as [Hf Hh]. destruct Hq as [Hq|Hq]; [contradiction|congruence]. }
  set (s1 := apply_changes s 0 (region_changes s rs)) in *.
  destruct (repl_bsnl_spec _ (parens_pass s1 0) (le_n _)) as [_ P3].
  assert (Hfin : forall c3, nth_error (repl_bsnl (parens_pass s1 0)) o = Some c3 ->
            exists c', nth_error (map repl_tab_semi (repl_bsnl (parens_pass s1 0))) o = Some c' /\ c' = repl_tab_semi c3).
  { intros c3 E. exists (repl_tab_semi c3). split; [|reflexivity]. rewrite nth_error_map, E. reflexivity. }
  destruct (parens_pass_nth s1 0%Z o c H1) as [H2|[-> H2]].
  - destruct (P3 o c H2) as [H3|[Hcc H3]].
    + destruct (Hfin c H3) as (c' & E & ->). exists (repl_tab_semi c). split; [exact E|].
      destruct (repl_tab_semi_spec c) as [->|[[-> ->]|[-> ->]]]; auto.
    + destruct (Hfin cSP H3) as (c' & E & ->). exists cSP. split; [exact E|]. right; right; right. split; [exact Hcc|reflexivity].
  - destruct (P3 o cSP H2) as [H3|[_ H3]];
      destruct (Hfin cSP H3) as (c' & E & ->); exists cSP; (split; [exact E|]); right; right; right; (split; [left; reflexivity|reflexivity]).
Qed.

Theorem real_code_outside rs s : regions_wf s rs = true ->
  forall o c, nth_error s o = Some c ->
    (forall a b pre, In (a, b, pre) rs -> ~ (a <= N.of_nat o /\ N.of_nat o < b)) ->
    exists c', nth_error (real_code_with rs s) o = Some c'
      /\ (c' = c \/ (c = cTAB /\ c' = cSP) \/ (c = cSEMI /\ c' = cNL) \/ ((c = cNL \/ c = cBSL) /\ c' = cSP)).
Proof.
  intros H o c Hc Hout. apply (real_code_outside_or_fstring rs s H o c Hc).
  intros a b pre Hin Hab. exfalso. eapply Hout; eassumption.
Qed.
