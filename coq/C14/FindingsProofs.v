(* Computed witnesses for the places where the faithful model of rope does not satisfy the property
   (each witness is also a replay file under findings/ and is re-run against rope on every check). *)
From Coq Require Import List NArith ZArith Bool Lia.
From RopeVerif.Lib Require Import Text.
From RopeVerif.C14 Require Import Base Lines Regions RealCode Logical Words Spec.
Import ListNotations.
Open Scope N_scope.

(* x = f<dq>{{<dq> NL y = 1 NL (dq = double quote): the newline at offset 9 is outside every region, the text has no bracket outside
   the regions, and real_code turns it into a space *)
Definition fbrace_witness : text :=
  [120; 32; 61; 32; 102; 34; 123; 123; 34; 10; 121; 32; 61; 32; 49; 10].

Theorem real_code_newline_refuted :
  exists s o, nth_error s o = Some cNL
    /\ outside (scan_regions (table_of [] [] [] []) s) (N.of_nat o) = true
    /\ plain_outside (scan_regions (table_of [] [] [] []) s) s = true
    /\ nth_error (real_code (table_of [] [] [] []) s) o = Some cSP.
Proof. exists fbrace_witness, 9%nat. vm_compute. repeat split; reflexivity. Qed.

(* x = <dq><dq><dq>a<backslash><dq><dq><dq><dq> NL y = 1 NL : the string region ends at the end of line 1, nothing but plain characters
   outside the regions, and custom_generator reports one logical line 1..3 *)
Definition escq_witness : text :=
  [120; 32; 61; 32; 34; 34; 34; 97; 92; 34; 34; 34; 34; 10; 121; 32; 61; 32; 49; 10].
(* x = <sq>a<sq> immediately followed by six single quotes, NL y = 1 NL *)
Definition adjstr_witness : text :=
  [120; 32; 61; 32; 39; 97; 39; 39; 39; 39; 39; 39; 39; 10; 121; 32; 61; 32; 49; 10].

Definition merges_after_line1 (s : text) : Prop :=
  exists e, line_end s 1 = Some e
    /\ outside (scan_regions (table_of [] [] [] []) s) e = true               (* the newline that ends line 1 is outside every string/comment *)
    /\ plain_outside (scan_regions (table_of [] [] [] []) s) s = true         (* no bracket, no backslash outside strings/comments *)
    /\ exists b rest, custom_generator (table_of [] [] [] []) (all_lines s) = (1%nat, b) :: rest /\ (1 < b)%nat.

Theorem logical_lines_escaped_quote_refuted : exists s, merges_after_line1 s.
Proof.
  exists escq_witness. exists 13. vm_compute. repeat split; try reflexivity.
  exists 3%nat, []. split; [reflexivity|lia].
Qed.

Theorem logical_lines_adjacent_quotes_refuted : exists s, merges_after_line1 s.
Proof.
  exists adjstr_witness. exists 13. vm_compute. repeat split; try reflexivity.
  exists 3%nat, []. split; [reflexivity|lia].
Qed.

(* FIXED by rope commit d70e7ea.  e U+0301 x = 1 : a valid identifier (U+0301 is XID_Continue but not str.isalnum()).
   With the identifier table Python uses (769 is in the XID table of the case) the word is the lexer's word [0,3).
   Under the old definition (isalnum or underscore, i.e. the same model with an XID table that lacks 769) it was [0,1):
   that old behaviour is the second conjunct, kept as documentation of the repaired defect. *)
Definition xid_witness : text := [101; 769; 120; 32; 61; 32; 49; 10].

Example word_at_xid_fixed :
  lex_word_range xid_witness 0 = (0, 3)%nat
  /\ w_word_range (table_of [] [] [769] []) xid_witness 0 = Val (0, 3)%Z
  /\ w_word_range (table_of [] [] [] []) xid_witness 0 = Val (0, 1)%Z.
Proof. vm_compute. repeat split; reflexivity. Qed.

(* FIXED by rope commit b8cf919.  x = date_from.year : the dotted name around offset 14 is [4,18) and that is now
   what rope reports (it reported [13,18): the relative-import test fired on the last four letters of date_from) *)
Definition fromname_witness : text :=
  [120; 32; 61; 32; 100; 97; 116; 101; 95; 102; 114; 111; 109; 46; 121; 101; 97; 114; 10].

Example primary_from_fixed :
  lex_chain_range fromname_witness 14 = (4, 18)%nat
  /\ w_primary_range (table_of [] [] [] []) fromname_witness 14 = Val (4, 18)%Z.
Proof. vm_compute. split; reflexivity. Qed.

(* y(.5).z and y(f<dq>a<backslash><dq>b<dq>).z : the reported start of the expression is negative *)
Definition dotnum_witness : text := [121; 40; 46; 53; 41; 46; 122; 10].
Definition fquote_witness : text := [121; 40; 102; 34; 97; 92; 34; 98; 34; 41; 46; 122; 10].

Definition negative_primary_start (code : text) : Prop :=
  exists o a b, (0 <= o < lenZ code)%Z /\ w_primary_range (table_of [] [] [] []) code o = Val (a, b) /\ (a < 0)%Z.

Theorem primary_dot_number_refuted : negative_primary_start (real_code (table_of [] [] [] []) dotnum_witness).
Proof. exists 6%Z, (-1)%Z, 7%Z. vm_compute. repeat split; try reflexivity; discriminate. Qed.

Theorem primary_fstring_quote_refuted : negative_primary_start (real_code (table_of [] [] [] []) fquote_witness).
Proof. exists 11%Z, (-1)%Z, 12%Z. vm_compute. repeat split; try reflexivity; discriminate. Qed.

(* ---- the logical-line simulation statement and its exclusion (Logical.shape_free).
   Both witnesses above violate shape_free, the reference lexer reads them as two statements, rope as one; the same
   texts with one blank between the offending quotes satisfy shape_free and rope agrees with the reference. *)
Definition u0 : utable := table_of [] [] [] [].

Theorem shape_free_witnesses :
  shape_free u0 (all_lines escq_witness) = false
  /\ ref_generator u0 (all_lines escq_witness) = Some [(1, 1); (2, 2)]%nat
  /\ custom_generator u0 (all_lines escq_witness) = [(1, 3)]%nat
  /\ shape_free u0 (all_lines adjstr_witness) = false
  /\ ref_generator u0 (all_lines adjstr_witness) = Some [(1, 1); (2, 2)]%nat
  /\ custom_generator u0 (all_lines adjstr_witness) = [(1, 3)]%nat.
Proof. vm_compute. repeat split; reflexivity. Qed.

(* x = <dq><dq><dq>a<backslash><dq> <dq><dq><dq> NL y = 1 NL   and   x = <sq>a<sq> <sq><sq><sq><sq><sq><sq> NL y = 1 NL *)
Definition escq_neighbour : text :=
  [120; 32; 61; 32; 34; 34; 34; 97; 92; 34; 32; 34; 34; 34; 10; 121; 32; 61; 32; 49; 10].
Definition adjstr_neighbour : text :=
  [120; 32; 61; 32; 39; 97; 39; 32; 39; 39; 39; 39; 39; 39; 10; 121; 32; 61; 32; 49; 10].

Example shape_free_neighbours :
  shape_free u0 (all_lines escq_neighbour) = true
  /\ ref_generator u0 (all_lines escq_neighbour) = Some (custom_generator u0 (all_lines escq_neighbour))
  /\ custom_generator u0 (all_lines escq_neighbour) = [(1, 1); (2, 2)]%nat
  /\ shape_free u0 (all_lines adjstr_neighbour) = true
  /\ ref_generator u0 (all_lines adjstr_neighbour) = Some (custom_generator u0 (all_lines adjstr_neighbour))
  /\ custom_generator u0 (all_lines adjstr_neighbour) = [(1, 1); (2, 2)]%nat.
Proof. vm_compute. repeat split; reflexivity. Qed.

(* FIXED by rope commit 06a46a8.  y = b if 3. else (c).r : at the final r the expression is (c).r = [17,22).
   History (as-found variant of _follows_dot, rope 2b4039e, Words.w_primary_range_as_found_2b4039e): the reported range was
   [9,22), which contains the keyword else (offsets 12..16). The current model (and rope) report [17,22). *)
Definition kwdot_witness : text :=
  [121; 32; 61; 32; 98; 32; 105; 102; 32; 51; 46; 32; 101; 108; 115; 101; 32; 40; 99; 41; 46; 114; 10].

Theorem primary_keyword_after_float_refuted_as_found :
  w_primary_range_as_found_2b4039e u0 (real_code u0 kwdot_witness) 21 = Val (9, 22)%Z
  /\ iskeyword (sliceZ kwdot_witness 12 16) = true.
Proof. vm_compute. split; reflexivity. Qed.

Example primary_keyword_after_float_fixed :
  w_primary_range u0 (real_code u0 kwdot_witness) 21 = Val (17, 22)%Z.
Proof. vm_compute. reflexivity. Qed.
