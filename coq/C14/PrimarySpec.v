(* C14 — notions used in the statement of the dotted-chain theorem (definitions only). *)
From Coq Require Import List NArith ZArith Bool.
From RopeVerif.Lib Require Import Text.
From RopeVerif.C14 Require Import Base Words.
Import ListNotations.
Open Scope Z_scope.

Section S.
  Variable u : utable.
  Variable code : text.
  Variable L : Z.              (* len(code) *)
  Variable F : nat.            (* fuel of the finder *)

  Definition chr (i : Z) (c : N) : Prop := nth_error code (Z.to_nat i) = Some c.

  (* a maximal-on-the-left run of identifier characters [s, e) *)
  Definition name_at (s e : Z) : Prop :=
    0 <= s < e /\ e <= L /\ (forall i, s <= i < e -> idc u code i true) /\ (s = 0 \/ idc u code (s - 1) false).

  (* the last non-space character before offset a (as _find_last_non_space_char finds it) is not a dot *)
  Definition stops_before (a : Z) : Prop :=
    a = 0 \/ exists p cp, last_non_space u code L F (a - 1) = Val p /\ getC code L p = Val cp /\ cp <> cDOT.

  (* the name starting at s follows an attribute dot: the character before it is a dot, and the word before that dot
     (a maximal identifier run ending right at the dot) does not start with a digit (so the dot does not end a number) *)
  Definition attr_dot (s : Z) : Prop :=
    1 < s /\ chr (s - 1) cDOT /\ exists s'' c, name_at s'' (s - 1) /\ chr s'' c /\ isdigit u c = false.

  (* chain_from s a n: to the left of the name starting at s there are n more names, each followed by one dot and
     nothing else; a name before a dot is no keyword unless it follows an attribute dot itself (attr_dot; rope 2b4039e and
     06a46a8), no name before a dot is the word from itself (the relative-import test of _find_primary_start
     would fire); the chain starts at a, not preceded by a dot *)
  Inductive chain_from : Z -> Z -> nat -> Prop :=
  | chain_one s : 0 <= s -> stops_before s -> chain_from s s O
  | chain_more s s' e' a n :
      name_at s' e' -> e' + 1 = s -> chr e' cDOT -> s <= L ->
      (iskeyword (sliceC code L s' e') = false \/ attr_dot s') ->
      text_eqb (sliceC code L s' e') s_from = false ->
      chain_from s' a n -> chain_from s a (S n).
End S.
