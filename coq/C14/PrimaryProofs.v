(* Proofs about the primary finder on dotted names: for name_1.name_2. ... .name_k written without spaces,
   get_primary_range at any offset of name_k is the whole chain, provided the first name is no keyword, no name before
   a dot is the word from itself, and the chain is not preceded by a dot (names after a dot may be spelled like keywords:
   rope commit 2b4039e, _follows_dot).  (Names ending in the letters f-r-o-m are covered since rope commit b8cf919: the relative-import
   test only fires on the whole word.)  For every text and every Unicode table in which identifier characters are not white space. *)
From Coq Require Import List NArith ZArith Bool Lia.
From RopeVerif.Lib Require Import Text.
From RopeVerif.C14 Require Import Base Words WordsProofs PrimarySpec RealCodeProofs.
Import ListNotations.
Open Scope Z_scope.

Section P.
  Variable u : utable.
  Variable code : text.
  Variable L : Z.
  Variable F : nat.
  Hypothesis HL : L = lenZ code.
  Hypothesis HF : (length code + 2 <= F)%nat.
  (* no character is both an identifier character and white space (true of str.isalnum / str.isspace) *)
  Hypothesis Hsp : forall c, is_id_char u c = true -> isspace u c = false.

  Local Notation idc := (Words.idc u code).
  Local Notation chr := (PrimarySpec.chr code).
  Local Notation name_at := (PrimarySpec.name_at u code L).
  Local Notation stops_before := (PrimarySpec.stops_before u code L F).
  Local Notation chain_from := (PrimarySpec.chain_from u code L F).
  Local Notation attr_dot := (PrimarySpec.attr_dot u code L).

  Lemma getC_chr i c : 0 <= i < L -> chr i c -> getC code L i = Val c.
  Proof.
    intros Hi Hc. unfold getC. destruct (Z.ltb_spec i 0); [lia|]. destruct (Z.ltb_spec i 0); [lia|].
    unfold PrimarySpec.chr in Hc. rewrite Hc. reflexivity.
  Qed.

  Lemma idc_chr i : idc i true -> exists c, chr i c /\ is_id_char u c = true.
  Proof. intros (c & H1 & H2). exists c. split; assumption. Qed.

  Lemma idc_in_range i b : 0 <= i -> idc i b -> i < L.
  Proof.
    intros Hi (c & H1 & _). assert (Z.to_nat i < length code)%nat by (apply nth_error_Some; congruence).
    unfold lenZ in HL. lia.
  Qed.

  (* identifier characters are none of the ASCII characters the finder treats specially *)
  Lemma id_char_special c : is_id_char u c = true ->
    (c =? cDOT)%N = false /\ (c =? cNL)%N = false
    /\ existsb (N.eqb c) c_close2 = false /\ existsb (N.eqb c) c_atom_end = false
    /\ existsb (N.eqb c) c_quotes = false /\ existsb (N.eqb c) c_close3 = false.
  Proof.
    intros H.
    assert (Hne : forall v, is_id_char u v = false -> (c =? v)%N = false).
    { intros v Hv. destruct (N.eqb_spec c v) as [->|]; [congruence|reflexivity]. }
    assert (H46 : (c =? 46)%N = false) by (apply Hne; reflexivity).
    assert (H10 : (c =? 10)%N = false) by (apply Hne; reflexivity).
    assert (H41 : (c =? 41)%N = false) by (apply Hne; reflexivity).
    assert (H93 : (c =? 93)%N = false) by (apply Hne; reflexivity).
    assert (H125 : (c =? 125)%N = false) by (apply Hne; reflexivity).
    assert (H34 : (c =? 34)%N = false) by (apply Hne; reflexivity).
    assert (H39 : (c =? 39)%N = false) by (apply Hne; reflexivity).
    unfold cDOT, cNL, c_close2, c_atom_end, c_quotes, c_close3. cbn [existsb].
    rewrite H46, H10, H41, H93, H125, H34, H39. repeat split; reflexivity.
  Qed.

  Lemma lns_stop fuel o c : 0 <= o < L -> chr o c -> (isspace u c = false \/ c = cNL) -> (1 <= fuel)%nat ->
    last_non_space u code L fuel o = Val o.
  Proof.
    intros Ho Hc Hs Hf. destruct fuel as [|f]; [lia|]. cbn [last_non_space].
    destruct (Z.ltb_spec o 0); [lia|]. rewrite (getC_chr o c Ho Hc). cbn [bind].
    destruct Hs as [Hs| ->].
    - rewrite Hs. f_equal. lia.
    - destruct (isspace u cNL); [rewrite N.eqb_refl; reflexivity|f_equal; lia].
  Qed.

  Lemma word_start_in_name s e o : name_at s e -> s <= o < e -> word_start u code L F o = Val s.
  Proof.
    intros (Hse & HeL & Hall & Hleft) Ho. unfold lenZ in HL.
    destruct (word_start_go_spec u code L HL F o ltac:(lia) ltac:(lia)) as (a & Ha & Hra & Halla & Hedge).
    unfold word_start. rewrite Ha. f_equal.
    assert (Hid : idc o true) by (apply Hall; lia).
    assert (Hao : a <= o).
    { destruct Hedge as [->|Hf]; [lia|]. destruct (Z.eq_dec a (o + 1)) as [->|]; [|lia].
      replace (o + 1 - 1) with o in Hf by lia. pose proof (idc_fun u code _ _ _ Hf Hid). discriminate. }
    destruct (Z.lt_trichotomy a s) as [Hlt|[Heq|Hgt]]; [|exact Heq|].
    - destruct Hleft as [->|Hf]; [lia|].
      assert (Ht : idc (s - 1) true) by (apply Halla; lia).
      pose proof (idc_fun u code _ _ _ Hf Ht). discriminate.
    - destruct Hedge as [->|Hf]; [lia|].
      assert (Ht : idc (a - 1) true) by (apply Hall; lia).
      pose proof (idc_fun u code _ _ _ Hf Ht). discriminate.
  Qed.

  Lemma is_id_true i : 0 <= i -> idc i true -> is_id u code L i = Val true.
  Proof.
    intros Hi Hid. pose proof (idc_in_range i true Hi Hid).
    destruct (idc_chr i Hid) as (c & Hc & Hcid). unfold is_id. rewrite (getC_chr i c ltac:(lia) Hc). cbn [bind]. rewrite Hcid. reflexivity.
  Qed.

  Lemma char_in_id i cs : 0 <= i -> idc i true ->
    (forall c, is_id_char u c = true -> existsb (N.eqb c) cs = false) -> char_in code L i cs = Val false.
  Proof.
    intros Hi Hid Hcs. pose proof (idc_in_range i true Hi Hid).
    destruct (idc_chr i Hid) as (c & Hc & Hcid). unfold char_in. rewrite (getC_chr i c ltac:(lia) Hc). cbn [bind].
    rewrite (Hcs c Hcid). reflexivity.
  Qed.

  (* _find_primary_without_dot_start at an offset inside a name returns the start of the name *)
  Lemma pwds_in_name s e o aux fuel : name_at s e -> s <= o < e ->
    (iskeyword (sliceC code L s (o + 1)) = false \/ o + 1 < e \/ attr_dot s) -> (3 <= fuel)%nat ->
    finder u code L F false fuel 1 o aux = Val s.
  Proof.
    intros Hn Ho Hkw Hf. pose proof Hn as (Hse & HeL & Hall & Hleft).
    destruct fuel as [|[|[|f]]]; try lia.
    assert (Hid : idc o true) by (apply Hall; lia).
    destruct (idc_chr o Hid) as (c & Hc & Hcid).
    destruct (id_char_special c Hcid) as (S1 & S2 & S3 & S4 & S5 & S6).
    cbn [finder].
    rewrite (lns_stop F o c ltac:(lia) Hc (or_introl (Hsp c Hcid)) ltac:(lia)). cbn [bind].
    assert (Hag : (if 0 <? o then char_in code L o c_close2 else Val false) = Val false).
    { destruct (0 <? o); [|reflexivity]. unfold char_in. rewrite (getC_chr o c ltac:(lia) Hc). cbn [bind]. rewrite S3. reflexivity. }
    rewrite Hag. cbn [bind].
    destruct (Z.leb_spec 0 o); [|lia].
    unfold char_in at 1. rewrite (getC_chr o c ltac:(lia) Hc). cbn [bind]. rewrite S4.
    rewrite (is_id_true o ltac:(lia) Hid). cbn [bind].
    (* _find_atom_start *)
    rewrite ?(getC_chr o c ltac:(lia) Hc). cbn [bind]. rewrite S2. rewrite (Hsp c Hcid). cbn [bind].
    unfold char_in. rewrite ?(getC_chr o c ltac:(lia) Hc). cbn [bind]. rewrite S5. cbn [bind]. rewrite S6. cbn [bind].
    rewrite ?(is_id_true o ltac:(lia) Hid). cbn [bind].
    rewrite (word_start_in_name s e o Hn Ho). cbn [bind].
    destruct Hkw as [Hkw|[Hnext|(Hs0 & Hdot & s2 & c2 & Hn2 & Hc2 & Hdig)]].
    - rewrite Hkw. cbn [negb orb]. destruct (Z.ltb_spec (o + 1) L); [|reflexivity].
      destruct (is_id_in u code L HL (o + 1) ltac:(lia)) as (b & Hb & _). rewrite Hb. reflexivity.
    - destruct (Z.ltb_spec (o + 1) L); [|lia].
      rewrite (is_id_true (o + 1) ltac:(lia) (Hall (o + 1) ltac:(lia))). cbn [bind]. rewrite orb_true_r. reflexivity.
    - (* the name follows a dot: whatever the keyword test says, _follows_dot accepts *)
      assert (Hnx : exists b, (if o + 1 <? L then is_id u code L (o + 1) else Val false) = Val b).
      { destruct (Z.ltb_spec (o + 1) L); [|exists false; reflexivity].
        destruct (is_id_in u code L HL (o + 1) ltac:(lia)) as (b & Hb & _). exists b. exact Hb. }
      destruct Hnx as (b & Hb). rewrite Hb. cbn [bind].
      destruct (negb (iskeyword (sliceC code L s (o + 1))) || b); [reflexivity|].
      unfold follows_dot.
      rewrite (lns_stop F (s - 1) cDOT ltac:(lia) Hdot (or_introl eq_refl) ltac:(lia)). cbn [bind].
      destruct (Z.ltb_spec (s - 1) 0); [lia|].
      rewrite (getC_chr (s - 1) cDOT ltac:(lia) Hdot). cbn [bind]. rewrite N.eqb_refl. cbn [negb].
      (* the word before the dot is the name [s2, s-1): it does not start with a digit *)
      pose proof Hn2 as (Hse2 & HeL2 & Hall2 & _).
      assert (Hid2 : idc (s - 1 - 1) true) by (apply Hall2; lia).
      destruct (idc_chr _ Hid2) as (cb & Hcb & Hcbid).
      rewrite (lns_stop F (s - 1 - 1) cb ltac:(lia) Hcb (or_introl (Hsp cb Hcbid)) ltac:(lia)). cbn [bind].
      destruct (Z.ltb_spec (s - 1 - 1) 0); [lia|].
      rewrite (is_id_true (s - 1 - 1) ltac:(lia) Hid2). cbn [bind negb].
      rewrite (word_start_in_name s2 (s - 1) (s - 1 - 1) Hn2 ltac:(lia)). cbn [bind].
      rewrite (getC_chr s2 c2 ltac:(lia) Hc2). cbn [bind]. rewrite Hdig. reflexivity.
  Qed.

  (* the four characters before the dot spell f-r-o-m only when the name is longer than that (the name is not from itself) *)
  Lemma from_slice_long s' e' : name_at s' e' -> text_eqb (sliceC code L s' e') s_from = false ->
    text_eqb (sliceC code L (e' - 4) e') s_from = true -> s' <= e' - 5.
  Proof.
    intros (Hse & HeL & Hall & Hleft) Hkw Hfrom. apply text_eqb_eq in Hfrom.
    destruct (Z_le_gt_dec s' (e' - 5)) as [|Hgt]; [assumption|exfalso].
    assert (HL1 : L = Z.of_nat (length code)) by exact HL.
    assert (Hce : clampC L e' = e').
    { unfold clampC. destruct (Z.ltb_spec e' 0); [lia|]. destruct (Z.ltb_spec e' 0); [lia|]. destruct (Z.ltb_spec L e'); lia. }
    destruct (Z_lt_ge_dec (e' - 4) 0) as [Hneg|Hpos].
    - assert (Hlen : (length (sliceC code L (e' - 4) e') < 4)%nat).
      { unfold sliceC. rewrite Hce, firstn_length. unfold clampC. destruct (Z.ltb_spec (e' - 4) 0); [|lia].
        destruct (Z.ltb_spec (e' - 4 + L) 0); [lia|]. destruct (Z.ltb_spec L (e' - 4 + L)); lia. }
      rewrite Hfrom in Hlen. cbn in Hlen. lia.
    - assert (Hca : clampC L (e' - 4) = e' - 4).
      { unfold clampC. destruct (Z.ltb_spec (e' - 4) 0); [lia|]. destruct (Z.ltb_spec (e' - 4) 0); [lia|].
        destruct (Z.ltb_spec L (e' - 4)); lia. }
      destruct (Z.eq_dec s' (e' - 4)) as [->|Hne].
      + rewrite Hfrom in Hkw. cbv in Hkw. discriminate.
      + assert (Hs1 : 0 <= s' - 1) by lia.
        destruct Hleft as [->|(c & Hc & Hcid)]; [lia|].
        unfold sliceC in Hfrom. rewrite Hce, Hca in Hfrom.
        replace (Z.to_nat (e' - (e' - 4))) with 4%nat in Hfrom by lia.
        assert (Hn : nth_error s_from (Z.to_nat (s' - 1 - (e' - 4))) = Some c).
        { rewrite <- Hfrom. rewrite nth_error_firstn' by lia. rewrite nth_error_skipn'. rewrite <- Hc. f_equal. lia. }
        destruct (Z.to_nat (s' - 1 - (e' - 4))) as [|[|[|[|j]]]]; cbn in Hn;
          try (injection Hn as <-; cbv in Hcid; discriminate). destruct j; discriminate.
  Qed.

  (* one step of the loop of _find_primary_start: from the start s of a name preceded by "name'." to the start of name' *)
  Lemma loop6_step s s' e' f : name_at s' e' -> e' + 1 = s -> chr e' cDOT -> s <= L ->
    (iskeyword (sliceC code L s' e') = false \/ attr_dot s') ->
    text_eqb (sliceC code L s' e') s_from = false ->
    (3 <= f)%nat ->
    finder u code L F false (S f) 6 s 0 = finder u code L F false f 6 s' 0.
  Proof.
    intros Hn Hes Hdot HsL Hkw Hnf Hf. pose proof Hn as (Hse & HeL & Hall & Hleft).
    cbn [finder]. destruct (Z.ltb_spec 0 s); [|lia].
    replace (s - 1) with e' by lia.
    rewrite (lns_stop F e' cDOT ltac:(lia) Hdot (or_introl eq_refl) ltac:(lia)). cbn [bind].
    rewrite (getC_chr e' cDOT ltac:(lia) Hdot). cbn [bind]. rewrite N.eqb_refl. cbn [negb].
    assert (Hid : idc (e' - 1) true) by (apply Hall; lia).
    destruct (idc_chr _ Hid) as (c & Hc & Hcid).
    rewrite (lns_stop F (e' - 1) c ltac:(lia) Hc (or_introl (Hsp c Hcid)) ltac:(lia)). cbn [bind].
    replace (e' - 1 - 3) with (e' - 4) by lia. replace (e' - 1 + 1) with e' by lia.
    assert (Hisfrom : (if text_eqb (sliceC code L (e' - 4) e') s_from
                       then (if e' - 1 <? 4 then Val true else do b <- is_id u code L (e' - 1 - 4); Val (negb b))
                       else Val false) = Val false).
    { destruct (text_eqb (sliceC code L (e' - 4) e') s_from) eqn:Efrom; [|reflexivity].
      pose proof (from_slice_long s' e' Hn Hnf Efrom) as Hlong.
      destruct (Z.ltb_spec (e' - 1) 4); [lia|].
      rewrite (is_id_true (e' - 1 - 4) ltac:(lia) (Hall (e' - 1 - 4) ltac:(lia))). reflexivity. }
    rewrite Hisfrom. cbn [bind].
    rewrite (pwds_in_name s' e' (e' - 1) 0 f Hn ltac:(lia)); [|replace (e' - 1 + 1) with e' by lia; destruct Hkw as [Hkw|Hkw]; [left; exact Hkw|right; right; exact Hkw]|exact Hf].
    cbn [bind]. rewrite (is_id_true s' ltac:(lia) (Hall s' ltac:(lia))). cbn [bind]. reflexivity.
  Qed.

  Lemma loop6_end a f : 0 <= a -> stops_before a -> finder u code L F false (S f) 6 a 0 = Val a.
  Proof.
    intros Ha Hst. cbn [finder]. destruct (Z.ltb_spec 0 a); [|reflexivity].
    destruct Hst as [->|(p & cp & Hp & Hcp & Hne)]; [lia|].
    rewrite Hp. cbn [bind]. rewrite Hcp. cbn [bind].
    destruct (N.eqb_spec cp cDOT); [contradiction|reflexivity].
  Qed.

  (* sufficient structural conditions for stops_before *)
  Lemma stops_before_char a c : 0 < a <= L -> chr (a - 1) c -> (isspace u c = false \/ c = cNL) -> c <> cDOT -> stops_before a.
  Proof.
    intros Ha Hc Hs Hne. right. exists (a - 1), c.
    split; [apply (lns_stop F (a - 1) c ltac:(lia) Hc Hs ltac:(lia))|]. split; [apply getC_chr; [lia|exact Hc]|exact Hne].
  Qed.

  Lemma chain_loop s a n : chain_from s a n -> forall fuel, (4 * n + 4 <= fuel)%nat ->
    finder u code L F false fuel 6 s 0 = Val a.
  Proof.
    induction 1 as [s Hs Hst|s s' e' a n Hn Hes Hdot HsL Hkw Hnf Hch IH]; intros fuel Hf.
    - destruct fuel as [|f]; [lia|]. apply loop6_end; assumption.
    - destruct fuel as [|f]; [lia|].
      rewrite (loop6_step s s' e' f Hn Hes Hdot HsL Hkw Hnf ltac:(lia)). apply IH. lia.
  Qed.

  Lemma chain_size s a n : chain_from s a n -> 0 <= a /\ a + 2 * Z.of_nat n <= s.
  Proof.
    induction 1 as [s Hs Hst|s s' e' a n (Hse & _) Hes _ _ _ _ _ IH]; [lia|]. lia.
  Qed.

  (* the theorem: at any offset o of the last name [s, e) of a chain starting at a, the primary is [a, e) *)
  Theorem primary_chain s e o a n :
    name_at s e -> (e = L \/ idc e false) -> s <= o < e ->
    (iskeyword (sliceC code L s (o + 1)) = false \/ o + 1 < e \/ attr_dot s) ->
    chain_from s a n -> (4 * n + 6 <= F)%nat ->
    get_primary_range u code L F false o = Val (a, e).
  Proof.
    intros Hn Hright Ho Hkw Hch HFn. pose proof Hn as (Hse & HeL & Hall & Hleft).
    unfold get_primary_range, primary_start.
    assert (Hid : idc o true) by (apply Hall; lia).
    destruct (idc_chr o Hid) as (c & Hc & Hcid).
    destruct (id_char_special c Hcid) as (S1 & _).
    assert (Hfind : forall fuel, (4 * n + 6 <= fuel)%nat -> finder u code L F false fuel 0 o 0 = Val a).
    { intros fuel Hfu. destruct fuel as [|f]; [lia|].
      cbn [finder]. destruct (Z.leb_spec L o); [lia|].
      rewrite (getC_chr o c ltac:(lia) Hc). cbn [bind]. rewrite S1.
      rewrite (pwds_in_name s e o 0 f Hn Ho Hkw ltac:(lia)). cbn [bind].
      apply (chain_loop s a n Hch). lia. }
    rewrite (Hfind F HFn). cbn [bind].
    unfold lenZ in HL.
    destruct (word_end_go_spec u code L HL F o ltac:(lia) ltac:(lia)) as (x & Hx & Hrx & Hallx & Hedgex).
    unfold word_end. rewrite Hx. cbn [bind]. f_equal. f_equal.
    destruct (Z.lt_trichotomy (x + 1) e) as [Hlt|[Heq|Hgt]]; [|exact Heq|].
    - destruct Hedgex as [Hx1|Hf]; [lia|].
      assert (Ht : idc (x + 1) true) by (apply Hall; lia).
      pose proof (idc_fun u code _ _ _ Hf Ht). discriminate.
    - destruct Hright as [->|Hf]; [lia|].
      assert (Ht : idc e true) by (apply Hallx; lia).
      pose proof (idc_fun u code _ _ _ Hf Ht). discriminate.
  Qed.
End P.

(* at the entry point Worder.get_primary_range (length and fuel computed from the text) *)
Theorem primary_chain_entry u code s e o a n :
  (forall c, is_id_char u c = true -> isspace u c = false) ->
  name_at u code (lenZ code) s e -> (e = lenZ code \/ idc u code e false) -> s <= o < e ->
  (iskeyword (sliceC code (lenZ code) s (o + 1)) = false \/ o + 1 < e \/ attr_dot u code (lenZ code) s) ->
  chain_from u code (lenZ code) (fuel_for code) s a n ->
  w_primary_range u code o = Val (a, e).
Proof.
  intros Hsp Hn Hr Ho Hkw Hch. unfold w_primary_range.
  assert (HF : (length code + 2 <= fuel_for code)%nat) by (unfold fuel_for; lia).
  apply (primary_chain u code (lenZ code) (fuel_for code) eq_refl HF Hsp s e o a n Hn Hr Ho Hkw Hch).
  destruct (chain_size u code (lenZ code) (fuel_for code) HF s a n Hch) as [Ha Hs].
  destruct Hn as (Hse & HeL & _). unfold fuel_for, lenZ in *. lia.
Qed.

(* the ASCII-only table satisfies the white-space hypothesis *)
Lemma ascii_table_ok : forall c, is_id_char (table_of [] [] [] []) c = true -> isspace (table_of [] [] [] []) c = false.
Proof.
  intros c H. unfold is_id_char, isspace, table_of, xid_hi, space_hi, cUNDER in *. cbn [existsb] in *.
  destruct (N.ltb_spec c 128) as [Hc|Hc].
  - destruct (ascii_space c) eqn:Es; [exfalso|reflexivity].
    unfold ascii_space in Es. unfold ascii_alnum in H.
    repeat (rewrite orb_true_iff in H || rewrite andb_true_iff in H || rewrite N.leb_le in H || rewrite N.eqb_eq in H).
    repeat (rewrite orb_true_iff in Es || rewrite andb_true_iff in Es || rewrite N.leb_le in Es).
    lia.
  - reflexivity.
Qed.

(* non-vacuity: ab.cd.ef  at offset 7 (inside ef): all hypotheses hold and the primary is [0, 8) *)
Example primary_chain_example :
  w_primary_range (table_of [] [] [] []) [97; 98; 46; 99; 100; 46; 101; 102]%N 7 = Val (0, 8).
Proof.
  set (code := [97; 98; 46; 99; 100; 46; 101; 102]%N). set (u := table_of [] [] [] []).
  assert (Hid : forall i lo hi, 0 <= lo -> lo <= i < hi -> (forall k, (k < Z.to_nat (hi - lo))%nat ->
            exists c, nth_error code (Z.to_nat lo + k) = Some c /\ is_id_char u c = true) -> idc u code i true).
  { intros i lo hi Hlo Hi Hk. destruct (Hk (Z.to_nat (i - lo)) ltac:(lia)) as (c & H1 & H2).
    exists c. split; [|exact H2]. rewrite <- H1. f_equal. lia. }
  assert (N1 : name_at u code (lenZ code) 0 2).
  { split; [lia|]. split; [cbn; lia|]. split; [|left; reflexivity].
    intros i Hi. apply (Hid i 0 2 ltac:(lia) Hi). intros k Hk. cbn in Hk.
    destruct k as [|[|k]]; [eexists; split; reflexivity|eexists; split; reflexivity|lia]. }
  assert (N2 : name_at u code (lenZ code) 3 5).
  { split; [lia|]. split; [cbn; lia|]. split; [|right; eexists; split; reflexivity].
    intros i Hi. apply (Hid i 3 5 ltac:(lia) Hi). intros k Hk. cbn in Hk.
    destruct k as [|[|k]]; [eexists; split; reflexivity|eexists; split; reflexivity|lia]. }
  assert (N3 : name_at u code (lenZ code) 6 8).
  { split; [lia|]. split; [cbn; lia|]. split; [|right; eexists; split; reflexivity].
    intros i Hi. apply (Hid i 6 8 ltac:(lia) Hi). intros k Hk. cbn in Hk.
    destruct k as [|[|k]]; [eexists; split; reflexivity|eexists; split; reflexivity|lia]. }
  apply (primary_chain_entry u code 6 8 7 0 2 ascii_table_ok N3).
  - left; reflexivity.
  - lia.
  - left; reflexivity.
  - eapply chain_more with (s' := 3) (e' := 5); [exact N2|reflexivity|reflexivity|cbn; lia|left; reflexivity|reflexivity|].
    eapply chain_more with (s' := 0) (e' := 2); [exact N1|reflexivity|reflexivity|cbn; lia|left; reflexivity|reflexivity|].
    apply chain_one; [lia|left; reflexivity].
Qed.

(* names after a dot may be spelled like keywords (rope 2b4039e):  s.is.x  at the x, and at the last letter of is *)
Example primary_keyword_attribute_example :
  w_primary_range (table_of [] [] [] []) [115; 46; 105; 115; 46; 120]%N 5 = Val (0, 6)
  /\ w_primary_range (table_of [] [] [] []) [115; 46; 105; 115; 46; 120]%N 3 = Val (0, 4).
Proof. vm_compute. split; reflexivity. Qed.
