(* The scanner's string bodies are exactly the literals of the lexical grammar (LiteralSpec), for every text. *)
From Coq Require Import List NArith ZArith Bool Lia.
From RopeVerif.Lib Require Import Text.
From RopeVerif.C14 Require Import Base Regions LiteralSpec.
Import ListNotations.
Open Scope N_scope.

Section Q.
  Variable q : N.
  Hypothesis Hq : q <> cBSL.

  Lemma short_body_sound : forall r n, short_body q r = Some n -> short_lit q r n.
  Proof.
    fix IH 1. intros r n H. destruct r as [|c r1]; cbn [short_body] in H; [discriminate|].
    destruct (N.eqb_spec c q) as [->|Hcq]; [injection H as <-; apply sl_close|].
    destruct (N.eqb_spec c cBSL) as [->|Hcb].
    - destruct r1 as [|c1 r2]; [discriminate|].
      destruct (short_body q r2) eqn:E; [|discriminate]. injection H as <-. apply sl_esc. apply IH. exact E.
    - destruct (N.eqb_spec c cNL) as [->|Hcn]; [discriminate|].
      destruct (short_body q r1) eqn:E; [|discriminate]. injection H as <-. apply sl_char; try assumption. apply IH. exact E.
  Qed.

  Lemma short_body_complete r n : short_lit q r n -> short_body q r = Some n.
  Proof.
    induction 1 as [r|c r n H1 H2 H3 _ IH|c r n _ IH]; cbn [short_body].
    - rewrite N.eqb_refl. reflexivity.
    - destruct (N.eqb_spec c q); [contradiction|]. destruct (N.eqb_spec c cBSL); [contradiction|].
      destruct (N.eqb_spec c cNL); [contradiction|]. rewrite IH. reflexivity.
    - destruct (N.eqb_spec cBSL q) as [E|_]; [symmetry in E; contradiction|]. rewrite N.eqb_refl, IH. reflexivity.
  Qed.

  Lemma long_body_sound : forall r n, long_body q r = Some n -> long_lit q r n.
  Proof.
    fix IH 1. intros r n H. destruct r as [|c r1]; cbn [long_body] in H; [discriminate|].
    destruct (N.eqb_spec c q) as [->|Hcq].
    - assert (Hitem : ~ starts_qq q r1 -> option_map S (long_body q r1) = Some n -> long_lit q (q :: r1) n).
      { intros Hn Hm. destruct (long_body q r1) eqn:E; [|discriminate]. injection Hm as <-.
        apply ll_quote; [exact Hn|apply IH; exact E]. }
      destruct r1 as [|c1 [|c2 r3]].
      + apply Hitem; [intros (r' & Hr'); discriminate|exact H].
      + apply Hitem; [intros (r' & Hr'); discriminate|exact H].
      + destruct (N.eqb_spec c1 q) as [->|H1]; cbn [andb] in H.
        * destruct (N.eqb_spec c2 q) as [->|H2].
          -- injection H as <-. apply ll_close.
          -- apply Hitem; [intros (r' & Hr'); injection Hr' as ? ?; congruence|exact H].
        * apply Hitem; [intros (r' & Hr'); injection Hr' as ? ?; congruence|exact H].
    - destruct (N.eqb_spec c cBSL) as [->|Hcb].
      + destruct r1 as [|c1 r2]; [discriminate|].
        destruct (long_body q r2) eqn:E; [|discriminate]. injection H as <-. apply ll_esc. apply IH. exact E.
      + destruct (long_body q r1) eqn:E; [|discriminate]. injection H as <-. apply ll_char; try assumption. apply IH. exact E.
  Qed.

  Lemma long_body_complete r n : long_lit q r n -> long_body q r = Some n.
  Proof.
    induction 1 as [r|r n Hn _ IH|c r n H1 H2 _ IH|c r n _ IH]; cbn [long_body].
    - rewrite !N.eqb_refl. reflexivity.
    - rewrite N.eqb_refl. rewrite IH. destruct r as [|c1 [|c2 r3]]; try reflexivity.
      destruct (N.eqb_spec c1 q) as [->|]; [|reflexivity]. destruct (N.eqb_spec c2 q) as [->|]; [|reflexivity].
      exfalso. apply Hn. exists r3. reflexivity.
    - destruct (N.eqb_spec c q); [contradiction|]. destruct (N.eqb_spec c cBSL); [contradiction|]. rewrite IH. reflexivity.
    - destruct (N.eqb_spec cBSL q) as [E|_]; [symmetry in E; contradiction|]. rewrite N.eqb_refl, IH. reflexivity.
  Qed.
End Q.

Theorem short_body_iff q r n : q <> cBSL -> (short_body q r = Some n <-> short_lit q r n).
Proof. intros Hq. split; [apply short_body_sound|apply short_body_complete; exact Hq]. Qed.

Theorem long_body_iff q r n : q <> cBSL -> (long_body q r = Some n <-> long_lit q r n).
Proof. intros Hq. split; [apply long_body_sound|apply long_body_complete; exact Hq]. Qed.

Lemma is_quote_not_bsl q : is_quote q = true -> q <> cBSL.
Proof.
  unfold is_quote, cDQ, cSQ, cBSL. intros H ->. discriminate.
Qed.

(* string_at: a long literal when the text starts with qqq and the long literal is terminated, else a short one
   (so an unterminated triple quote falls back to the empty short string, as the regular expression does) *)
Theorem string_at_spec q r1 n : is_quote q = true ->
  (string_at (q :: r1) = Some n <->
   (exists r3 m, r1 = q :: q :: r3 /\ long_lit q r3 m /\ n = (3 + m)%nat)
   \/ ((forall r3 m, r1 = q :: q :: r3 -> ~ long_lit q r3 m) /\ exists m, short_lit q r1 m /\ n = S m)).
Proof.
  intros Hq. pose proof (is_quote_not_bsl q Hq) as Hb. unfold string_at. rewrite Hq.
  set (long := match r1 with
               | c1 :: c2 :: r3 => if (c1 =? q) && (c2 =? q) then option_map (fun n => (3 + n)%nat) (long_body q r3) else None
               | _ => None end).
  assert (Hlong : forall k, long = Some k <-> exists r3 m, r1 = q :: q :: r3 /\ long_lit q r3 m /\ k = (3 + m)%nat).
  { intros k. subst long. split.
    - intros H. destruct r1 as [|c1 [|c2 r3]]; try discriminate.
      destruct (N.eqb_spec c1 q) as [->|]; [|discriminate]. destruct (N.eqb_spec c2 q) as [->|]; [|discriminate].
      cbn [andb] in H. destruct (long_body q r3) as [m|] eqn:E; [|discriminate]. injection H as <-.
      exists r3, m. split; [reflexivity|]. split; [apply long_body_sound; exact E|reflexivity].
    - intros (r3 & m & -> & Hl & ->). rewrite !N.eqb_refl. cbn [andb].
      rewrite (long_body_complete q Hb _ _ Hl). reflexivity. }
  destruct long as [k|] eqn:El.
  - split.
    + intros H. injection H as <-. left. apply Hlong. reflexivity.
    + intros [H|[Hno _]].
      * apply Hlong in H. exact H.
      * exfalso. destruct (proj1 (Hlong k) eq_refl) as (r3 & m & Hr & Hl & _). eapply Hno; eassumption.
  - assert (Hno : forall r3 m, r1 = q :: q :: r3 -> ~ long_lit q r3 m).
    { intros r3 m Hr Hl. assert (H : @None nat = Some (3 + m)%nat) by (apply Hlong; exists r3, m; auto). discriminate. }
    split.
    + intros H. right. split; [exact Hno|].
      destruct (short_body q r1) as [m|] eqn:E; [|discriminate]. injection H as <-.
      exists m. split; [apply short_body_sound; exact E|reflexivity].
    + intros [(r3 & m & Hr & Hl & _)|[_ (m & Hs & ->)]].
      * exfalso. eapply Hno; eassumption.
      * rewrite (short_body_complete q Hb _ _ Hs). reflexivity.
Qed.
