(* Model of rope.base.codeanalyze.SourceLinesAdapter. Definitions only.
   starts = [0] ++ [i+1 for every "\n" at i] ++ [len(code)+1]; line numbers are 1-based nat. *)
From Coq Require Import List NArith ZArith Bool.
From RopeVerif.Lib Require Import Text.
From RopeVerif.C14 Require Import Base.
Import ListNotations.
Open Scope N_scope.

(* the loop `i = code.index("\n", i) + 1; starts.append(i)`, i = offset of the head of s *)
Fixpoint nl_starts (i : N) (s : text) : list N :=
  match s with
  | [] => []
  | c :: r => if c =? cNL then N.succ i :: nl_starts (N.succ i) r else nl_starts (N.succ i) r
  end.

Definition line_starts (s : text) : list N := 0 :: nl_starts 0 s ++ [lenN s + 1].

(* bisect.bisect(a, x) (= bisect_right): on a sorted list the index of the first element > x.
   The library function is trusted to meet this documented result on sorted input; sortedness of
   line_starts is proved (C14_starts_sorted). *)
Fixpoint bisect_right (a : list N) (x : N) : nat :=
  match a with
  | [] => O
  | y :: r => if x <? y then O else S (bisect_right r x)
  end.

Definition length_lines (s : text) : nat := length (line_starts s) - 1.
Definition line_number (s : text) (o : N) : nat := bisect_right (line_starts s) o.
(* starts[lineno - 1]; None = IndexError (lineno = 0 would be Python's starts[-1]: outside the modelled domain) *)
Definition line_start (s : text) (n : nat) : option N :=
  match n with O => None | S k => nth_error (line_starts s) k end.
(* starts[lineno] - 1 *)
Definition line_end (s : text) (n : nat) : option N :=
  match n with O => None | S _ => option_map N.pred (nth_error (line_starts s) n) end.
(* code[starts[lineno-1] : starts[lineno]-1] *)
Definition get_line (s : text) (n : nat) : option text :=
  match line_start s n, line_end s n with
  | Some a, Some b => Some (sliceN a b s)
  | _, _ => None
  end.

(* [get_line(n) for n in 1 .. length()]: the slices between consecutive starts *)
Fixpoint segs (a : N) (st : list N) (s : text) : list text :=
  match st with
  | [] => []
  | b :: r => sliceN a (b - 1) s :: segs b r s
  end.
Definition all_lines (s : text) : list text := segs 0 (nl_starts 0 s ++ [lenN s + 1]) s.

(* reference: str.split("\n") *)
Fixpoint split_nl (s : text) : list text :=
  match s with
  | [] => [[]]
  | c :: r =>
      if c =? cNL then [] :: split_nl r
      else match split_nl r with
           | l :: ls => (c :: l) :: ls
           | [] => [[c]]
           end
  end.

(* strictly increasing list *)
Fixpoint increasing (l : list N) : Prop :=
  match l with
  | [] => True
  | x :: r => match r with [] => True | y :: _ => x < y end /\ increasing r
  end.
