(* What the regions of the scanner are, for every text: each region is a match of the pattern at its start
   (match_at on the suffix), comment regions run exactly to the end of their line, and every '#' of the text lies
   inside some region (it starts a comment unless a string or comment already covers it). *)
From Coq Require Import List NArith ZArith Bool Lia.
From RopeVerif.Lib Require Import Text.
From RopeVerif.C14 Require Import Base Lines LinesProofs Regions RegionsProofs RealCodeProofs.
Import ListNotations.
Open Scope N_scope.

(* every region is a match of the pattern at its start (whatever the word-boundary flag was, the match is also a
   match of the pattern without the lookbehind) *)
Lemma scan_go_in u : forall r p skip pw x, In x (scan_go u r p skip pw) ->
  exists k n, (k < length r)%nat /\ r_start x = p + N.of_nat k
    /\ match_at false (skipn k r) = Some (n, r_prefix x) /\ r_end x = r_start x + N.of_nat n.
Proof.
  induction r as [|c r1 IH]; intros p skip pw x H; [contradiction|].
  cbn [scan_go] in H.
  assert (Htail : forall k' w, In x (scan_go u r1 (N.succ p) k' w) ->
            exists k n, (k < length (c :: r1))%nat /\ r_start x = p + N.of_nat k
              /\ match_at false (skipn k (c :: r1)) = Some (n, r_prefix x) /\ r_end x = r_start x + N.of_nat n).
  { intros k' w H'. destruct (IH _ _ _ _ H') as (k & n & Hk & Hs & Hm & He).
    exists (S k), n. cbn [length skipn]. repeat split; try assumption; lia. }
  destruct skip as [|k']; [|eapply Htail; exact H].
  destruct (match_at pw (c :: r1)) as [[n pre]|] eqn:E; [|eapply Htail; exact H].
  destruct H as [<-|H]; [|eapply Htail; exact H].
  exists O, n. cbn [length skipn r_start r_end r_prefix fst snd]. repeat split; try lia.
  destruct (match_at_flag pw (c :: r1)) as [E'|E']; congruence.
Qed.

Lemma until_nl_spec r : (forall i c, (i < until_nl r)%nat -> nth_error r i = Some c -> c <> cNL)
  /\ (nth_error r (until_nl r) = None \/ nth_error r (until_nl r) = Some cNL).
Proof.
  induction r as [|c r IH]; cbn [until_nl].
  - split; [intros i c H; lia|left; reflexivity].
  - destruct (N.eqb_spec c cNL) as [->|Hc].
    + split; [intros i c' H; lia|right; reflexivity].
    + destruct IH as [IH1 IH2]. split; [|exact IH2].
      intros i c' Hi Hn. destruct i as [|i]; cbn [nth_error] in Hn; [congruence|]. eapply IH1; [|exact Hn]. lia.
Qed.

(* a comment region starts at '#', contains no newline and stops at a newline or at the end of the text *)
Theorem comment_region_exact u s a b : In (a, b, None) (scan_regions u s) ->
  getN s a = Some cHASH
  /\ (forall o c, a <= o -> o < b -> getN s o = Some c -> c <> cNL)
  /\ (b = lenN s \/ getN s b = Some cNL).
Proof.
  intros H. destruct (scan_go_in _ _ _ _ _ _ H) as (k & n & Hk & Hs & Hm & He).
  cbn [r_start r_end r_prefix fst snd] in *. rewrite N.add_0_l in Hs. subst a.
  unfold match_at in Hm. destruct (skipn k s) as [|c r1] eqn:Esk; [discriminate|].
  destruct (N.eqb_spec c cHASH) as [->|Hc].
  - injection Hm as <-. destruct (until_nl_spec r1) as [U1 U2].
    assert (Hnth : forall i, nth_error s (k + i) = nth_error (cHASH :: r1) i)
      by (intros i; rewrite <- Esk; symmetry; apply nth_error_skipn').
    split; [|split].
    + unfold getN. rewrite Nat2N.id. rewrite <- (Nat.add_0_r k), Hnth. reflexivity.
    + intros o c Hao Hob Hg. unfold getN in Hg.
      replace (N.to_nat o) with (k + (N.to_nat o - k))%nat in Hg by lia. rewrite Hnth in Hg.
      destruct (N.to_nat o - k)%nat as [|i] eqn:Ei; cbn [nth_error] in Hg; [injection Hg as <-; discriminate|].
      eapply (U1 i); [lia|exact Hg].
    + subst b. unfold getN.
      replace (N.to_nat (N.of_nat k + N.of_nat (S (until_nl r1)))) with (k + S (until_nl r1))%nat by lia.
      rewrite Hnth. cbn [nth_error]. destruct U2 as [U2|U2]; [left|right; exact U2].
      apply nth_error_None in U2.
      assert (length s = k + length (cHASH :: r1))%nat.
      { rewrite <- Esk, skipn_length. lia. }
      pose proof (until_nl_le r1). cbn [length] in *. unfold lenN. lia.
  - cbn [andb] in Hm. rewrite andb_false_r in Hm.
    destruct (prefixed 4 (c :: r1)) as [[p m]|]; [injection Hm as _ Hp; discriminate|discriminate].
Qed.

(* every '#' of the text is inside a region *)
Lemma hash_covered_go u : forall r p skip pw o, nth_error r o = Some cHASH -> (skip <= o)%nat ->
  exists x, In x (scan_go u r p skip pw) /\ r_start x <= p + N.of_nat o /\ p + N.of_nat o < r_end x.
Proof.
  induction r as [|c r1 IH]; intros p skip pw o Ho Hs; [destruct o; discriminate|].
  cbn [scan_go].
  assert (Htail : forall k' w o', nth_error r1 o' = Some cHASH -> (k' <= o')%nat -> o = S o' ->
            exists x, In x (scan_go u r1 (N.succ p) k' w) /\ r_start x <= p + N.of_nat o /\ p + N.of_nat o < r_end x).
  { intros k' w o' H1 H2 ->. destruct (IH (N.succ p) k' w o' H1 H2) as (x & Hin & Ha & Hb). exists x. split; [exact Hin|]. lia. }
  destruct skip as [|k'].
  - destruct o as [|o'].
    + cbn [nth_error] in Ho. injection Ho as ->. unfold match_at. rewrite N.eqb_refl.
      eexists. split; [left; reflexivity|]. cbn [r_start r_end fst snd]. lia.
    + cbn [nth_error] in Ho. destruct (match_at pw (c :: r1)) as [[n pre]|] eqn:E.
      * destruct (Nat.leb_spec (n - 1) o') as [Hle|Hgt].
        -- destruct (Htail (n - 1)%nat (is_word_char u c) o' Ho Hle eq_refl) as (x & Hin & Hx). exists x. split; [right; exact Hin|exact Hx].
        -- eexists. split; [left; reflexivity|]. cbn [r_start r_end fst snd]. lia.
      * apply (Htail O (is_word_char u c) o' Ho); [lia|reflexivity].
  - destruct o as [|o']; [lia|]. cbn [nth_error] in Ho. apply (Htail k' (is_word_char u c) o' Ho); [lia|reflexivity].
Qed.

Theorem hash_covered u s o : getN s o = Some cHASH ->
  exists a b pre, In (a, b, pre) (scan_regions u s) /\ a <= o /\ o < b.
Proof.
  intros H. unfold getN in H.
  destruct (hash_covered_go u s 0 O false (N.to_nat o) H ltac:(lia)) as ([[a b] pre] & Hin & Ha & Hb).
  exists a, b, pre. cbn [r_start r_end fst snd] in *. split; [exact Hin|]. lia.
Qed.

(* a string region: at most four prefix letters, then a quote, and at least the two quote characters *)
Theorem string_region_shape u s a b pre : In (a, b, Some pre) (scan_regions u s) ->
  (length pre <= 4)%nat /\ forallb is_prefix_char pre = true
  /\ sliceN a (a + lenN pre) s = pre
  /\ (exists q, getN s (a + lenN pre) = Some q /\ is_quote q = true)
  /\ a + lenN pre + 2 <= b.
Proof.
  intros H. destruct (scan_go_in _ _ _ _ _ _ H) as (k & n & Hk & Hs & Hm & He).
  cbn [r_start r_end r_prefix fst snd] in *. rewrite N.add_0_l in Hs. subst a b.
  unfold match_at in Hm. destruct (skipn k s) as [|c r1] eqn:Esk; [discriminate|].
  destruct (c =? cHASH); [discriminate|]. rewrite andb_false_r in Hm.
  destruct (prefixed 4 (c :: r1)) as [[p m]|] eqn:Ep; [|discriminate]. injection Hm as <- <-.
  assert (Hgen : forall kk r pp mm, prefixed kk r = Some (pp, mm) ->
            (pp <= kk)%nat /\ length (firstn pp r) = pp /\ forallb is_prefix_char (firstn pp r) = true
            /\ (exists q, nth_error r pp = Some q /\ is_quote q = true) /\ (2 <= mm)%nat).
  { induction kk as [|kk IHk]; intros r pp mm Hp; destruct r as [|x r']; cbn [prefixed] in Hp; try discriminate.
    - destruct (is_prefix_char x) eqn:Hx; [discriminate|].
      destruct (string_at (x :: r')) eqn:Es; [|discriminate]. injection Hp as <- <-.
      apply string_at_bounds in Es. destruct Es as [Es (q & r'' & Hr & Hq)]. injection Hr as <- <-.
      cbn. repeat split; try lia. exists x. auto.
    - destruct (is_prefix_char x) eqn:Hx.
      + destruct (prefixed kk r') as [[p' m']|] eqn:E; [|discriminate]. cbn in Hp. injection Hp as <- <-.
        destruct (IHk _ _ _ E) as (I1 & I2 & I3 & I4 & I5). cbn [firstn length forallb nth_error].
        rewrite Hx, I2, I3. repeat split; try lia. exact I4.
      + destruct (string_at (x :: r')) eqn:Es; [|discriminate]. injection Hp as <- <-.
        apply string_at_bounds in Es. destruct Es as [Es (q & r'' & Hr & Hq)]. injection Hr as <- <-.
        cbn. repeat split; try lia. exists x. auto. }
  destruct (Hgen _ _ _ _ Ep) as (G1 & G2 & G3 & (q & G4 & G5) & G6).
  assert (Hlen : lenN (firstn p (c :: r1)) = N.of_nat p) by (unfold lenN; rewrite G2; reflexivity).
  split; [rewrite G2; exact G1|]. split; [exact G3|]. rewrite Hlen. split; [|split].
  - unfold sliceN. replace (N.to_nat (N.of_nat k + N.of_nat p - N.of_nat k)) with p by lia.
    rewrite Nat2N.id, Esk. reflexivity.
  - exists q. split; [|exact G5]. unfold getN. replace (N.to_nat (N.of_nat k + N.of_nat p)) with (k + p)%nat by lia.
    rewrite <- nth_error_skipn', Esk. exact G4.
  - lia.
Qed.

(* a string region is, after its prefix, exactly one literal of the lexical grammar (LiteralSpec) *)
From RopeVerif.C14 Require Import LiteralSpec LiteralProofs.

Lemma skipn_add {A} (l : list A) : forall k p, skipn (p + k) l = skipn p (skipn k l).
Proof.
  induction l as [|x l IH]; intros k p.
  - rewrite !skipn_nil. reflexivity.
  - destruct k as [|k]; [rewrite Nat.add_0_r; reflexivity|]. rewrite Nat.add_succ_r. cbn [skipn]. apply IH.
Qed.

Lemma prefixed_string_at : forall kk r pp mm, prefixed kk r = Some (pp, mm) -> string_at (skipn pp r) = Some mm.
Proof.
  induction kk as [|kk IH]; intros r pp mm H; destruct r as [|x r']; cbn [prefixed] in H; try discriminate.
  - destruct (is_prefix_char x); [discriminate|].
    destruct (string_at (x :: r')) eqn:E; [|discriminate]. injection H as <- <-. exact E.
  - destruct (is_prefix_char x).
    + destruct (prefixed kk r') as [[p' m']|] eqn:E; [|discriminate]. cbn in H. injection H as <- <-.
      cbn [skipn]. apply IH. exact E.
    + destruct (string_at (x :: r')) eqn:E; [|discriminate]. injection H as <- <-. exact E.
Qed.

Theorem string_region_is_literal u s a b pre : In (a, b, Some pre) (scan_regions u s) ->
  exists q r1 n, skipn (N.to_nat (a + lenN pre)) s = q :: r1 /\ is_quote q = true
    /\ b = a + lenN pre + N.of_nat n
    /\ ((exists r3 m, r1 = q :: q :: r3 /\ long_lit q r3 m /\ n = (3 + m)%nat)
        \/ ((forall r3 m, r1 = q :: q :: r3 -> ~ long_lit q r3 m) /\ exists m, short_lit q r1 m /\ n = S m)).
Proof.
  intros H. destruct (scan_go_in _ _ _ _ _ _ H) as (k & n & Hk & Hs & Hm & He).
  cbn [r_start r_end r_prefix fst snd] in *. rewrite N.add_0_l in Hs. subst a b.
  unfold match_at in Hm. destruct (skipn k s) as [|c r1] eqn:Esk; [discriminate|].
  destruct (c =? cHASH); [discriminate|]. rewrite andb_false_r in Hm.
  destruct (prefixed 4 (c :: r1)) as [[p m]|] eqn:Ep; [|discriminate]. injection Hm as <- <-.
  pose proof (prefixed_string_at _ _ _ _ Ep) as Hst.
  pose proof (prefixed_bounds _ _ _ _ Ep) as [[_ Hlen] _].
  assert (Hp : length (firstn p (c :: r1)) = p) by (apply firstn_length_le; lia).
  assert (Hsk : skipn (N.to_nat (N.of_nat k + lenN (firstn p (c :: r1)))) s = skipn p (c :: r1)).
  { unfold lenN. rewrite Hp. replace (N.to_nat (N.of_nat k + N.of_nat p)) with (p + k)%nat by lia.
    rewrite skipn_add, Esk. reflexivity. }
  destruct (string_at_bounds _ _ Hst) as [_ (q & r' & Hr & Hq)].
  exists q, r', m. rewrite Hsk, Hr. split; [reflexivity|]. split; [exact Hq|].
  split; [unfold lenN; rewrite Hp; lia|].
  rewrite Hr in Hst. apply (string_at_spec q r' m Hq). exact Hst.
Qed.
