(* C14 — the lexical grammar of string literal bodies from the language reference, as relations (definitions only).
   short_lit q r n : r starts with n characters "items* q" of a short string delimited by q
     item = any character except q, backslash and newline | backslash followed by any character
   long_lit q r n  : r starts with n characters "items* qqq" of a long string; the literal ends at the first
     unescaped qqq:  item = any character except backslash (a q only when it is not followed by qq)
                          | backslash followed by any character *)
From Coq Require Import List NArith ZArith Bool.
From RopeVerif.Lib Require Import Text.
From RopeVerif.C14 Require Import Base.
Import ListNotations.
Open Scope N_scope.

Inductive short_lit (q : N) : text -> nat -> Prop :=
| sl_close r : short_lit q (q :: r) 1
| sl_char c r n : c <> q -> c <> cBSL -> c <> cNL -> short_lit q r n -> short_lit q (c :: r) (S n)
| sl_esc c r n : short_lit q r n -> short_lit q (cBSL :: c :: r) (S (S n)).

Definition starts_qq (q : N) (r : text) : Prop := exists r', r = q :: q :: r'.

Inductive long_lit (q : N) : text -> nat -> Prop :=
| ll_close r : long_lit q (q :: q :: q :: r) 3
| ll_quote r n : ~ starts_qq q r -> long_lit q r n -> long_lit q (q :: r) (S n)
| ll_char c r n : c <> q -> c <> cBSL -> long_lit q r n -> long_lit q (c :: r) (S n)
| ll_esc c r n : long_lit q r n -> long_lit q (cBSL :: c :: r) (S (S n)).
