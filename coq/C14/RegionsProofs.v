(* Proofs about the ignored_regions scanner: well-formedness of its output for every text, agreement with the
   reference lexer on glue-free texts, and the refutation on a keyword glued to a literal. *)
From Coq Require Import List NArith ZArith Bool Lia.
From RopeVerif.Lib Require Import Text.
From RopeVerif.C14 Require Import Base Lines LinesProofs Regions.
Import ListNotations.
Open Scope N_scope.

Lemma until_nl_le r : (until_nl r <= length r)%nat.
Proof. induction r as [|c r IH]; cbn [until_nl length]; [lia|]. destruct (c =? cNL); lia. Qed.

Lemma short_body_bounds q : forall r n, short_body q r = Some n -> (1 <= n <= length r)%nat.
Proof.
  fix IH 1. intros r n H. destruct r as [|c r1]; cbn [short_body] in H; [discriminate|]. cbn [length].
  destruct (c =? q); [injection H as <-; lia|].
  destruct (c =? cBSL).
  - destruct r1 as [|c1 r2]; [discriminate|]. cbn [length].
    destruct (short_body q r2) eqn:E; [|discriminate]. injection H as <-. apply IH in E. lia.
  - destruct (c =? cNL); [discriminate|].
    destruct (short_body q r1) eqn:E; [|discriminate]. injection H as <-. apply IH in E. lia.
Qed.

Lemma long_body_bounds q : forall r n, long_body q r = Some n -> (3 <= n <= length r)%nat.
Proof.
  fix IH 1. intros r n H. destruct r as [|c r1]; cbn [long_body] in H; [discriminate|]. cbn [length].
  assert (Hrec : forall m, option_map S (long_body q r1) = Some m -> (3 <= m <= S (length r1))%nat).
  { intros m Hm. destruct (long_body q r1) eqn:E; [|discriminate]. injection Hm as <-. apply IH in E. lia. }
  destruct (c =? q).
  - destruct r1 as [|c1 [|c2 r3]]; try (apply Hrec; exact H).
    destruct ((c1 =? q) && (c2 =? q)); [|apply Hrec; exact H]. injection H as <-. cbn [length]. lia.
  - destruct (c =? cBSL); [|apply Hrec; exact H].
    destruct r1 as [|c1 r2]; [discriminate|]. cbn [length].
    destruct (long_body q r2) eqn:E; [|discriminate]. injection H as <-. apply IH in E. lia.
Qed.

Lemma string_at_bounds r n : string_at r = Some n -> (2 <= n <= length r)%nat /\ exists q r1, r = q :: r1 /\ is_quote q = true.
Proof.
  unfold string_at. destruct r as [|q r1]; [discriminate|]. destruct (is_quote q) eqn:Hq; [|discriminate].
  intros H. split; [|exists q, r1; auto]. cbn [length].
  set (long := match r1 with
               | c1 :: c2 :: r3 => if (c1 =? q) && (c2 =? q) then option_map (fun n => (3 + n)%nat) (long_body q r3) else None
               | _ => None end) in *.
  destruct long as [m|] eqn:El.
  - injection H as <-. subst long. destruct r1 as [|c1 [|c2 r3]]; try discriminate.
    destruct ((c1 =? q) && (c2 =? q)); [|discriminate].
    destruct (long_body q r3) eqn:E; [|discriminate]. injection El as <-. apply long_body_bounds in E. cbn [length]. lia.
  - destruct (short_body q r1) eqn:E; [|discriminate]. injection H as <-. apply short_body_bounds in E. lia.
Qed.

Lemma is_quote_not_hash q : is_quote q = true -> (q =? cHASH) = false.
Proof.
  unfold is_quote, cDQ, cSQ, cHASH. intros H. apply orb_true_iff in H.
  destruct H as [H|H]; apply N.eqb_eq in H; subst; reflexivity.
Qed.

Lemma is_prefix_char_not_hash c : is_prefix_char c = true -> (c =? cHASH) = false.
Proof.
  unfold is_prefix_char, cHASH. intros H.
  repeat (apply orb_true_iff in H; destruct H as [H|H]); apply N.eqb_eq in H; subst; reflexivity.
Qed.

Lemma prefixed_bounds : forall k r p n, prefixed k r = Some (p, n) ->
  (2 <= n /\ p + n <= length r)%nat /\ match r with c :: _ => (c =? cHASH) = false | [] => False end.
Proof.
  induction k as [|k IH]; intros r p n H; destruct r as [|c r1]; cbn [prefixed] in H; try discriminate.
  - destruct (is_prefix_char c) eqn:Hp; [discriminate|].
    destruct (string_at (c :: r1)) eqn:E; [|discriminate]. injection H as <- <-.
    apply string_at_bounds in E. destruct E as [E (q & r' & Hr & Hq)]. injection Hr as -> ->.
    split; [lia|apply is_quote_not_hash; exact Hq].
  - destruct (is_prefix_char c) eqn:Hp.
    + destruct (prefixed k r1) as [[p' n']|] eqn:E; [|discriminate]. cbn in H. injection H as <- <-.
      apply IH in E. cbn [length]. split; [lia|apply is_prefix_char_not_hash; exact Hp].
    + destruct (string_at (c :: r1)) eqn:E; [|discriminate]. injection H as <- <-.
      apply string_at_bounds in E. destruct E as [E (q & r' & Hr & Hq)]. injection Hr as -> ->.
      split; [lia|apply is_quote_not_hash; exact Hq].
Qed.

Lemma match_at_bounds pw r n pre : match_at pw r = Some (n, pre) ->
  (1 <= n <= length r)%nat /\
  match r with
  | c :: _ => match pre with None => (c =? cHASH) = true | Some _ => (c =? cHASH) = false /\ (2 <= n)%nat end
  | [] => False
  end.
Proof.
  unfold match_at. destruct r as [|c r1]; [discriminate|].
  destruct (c =? cHASH) eqn:Hc.
  - intros H. injection H as <- <-. pose proof (until_nl_le r1). cbn [length]. split; [lia|reflexivity].
  - destruct (is_prefix_char c && pw); [discriminate|].
    destruct (prefixed 4 (c :: r1)) as [[p m]|] eqn:E; [|discriminate]. intros H. injection H as <- <-.
    apply prefixed_bounds in E. destruct E as [E1 E2]. split; [lia|]. split; [reflexivity|lia].
Qed.

Lemma getN_at pre c r : getN (pre ++ c :: r) (lenN pre) = Some c.
Proof.
  unfold getN, lenN. rewrite Nat2N.id. rewrite nth_error_app2 by lia. rewrite Nat.sub_diag. reflexivity.
Qed.

Lemma regions_wf_from_mono s rs : forall lo lo', lo' <= lo -> regions_wf_from s lo rs = true -> regions_wf_from s lo' rs = true.
Proof.
  destruct rs as [|[[a b] pre] rest]; intros lo lo' Hle H; [reflexivity|].
  cbn [regions_wf_from] in *. repeat (apply andb_true_iff in H; destruct H as [H ?]).
  repeat (apply andb_true_iff; split); try assumption. apply N.leb_le in H. apply N.leb_le. lia.
Qed.

Lemma scan_go_wf u : forall r pre skip pw,
  regions_wf_from (pre ++ r) (lenN pre + N.of_nat skip) (scan_go u r (lenN pre) skip pw) = true.
Proof.
  induction r as [|c r1 IH]; intros pre skip pw; [reflexivity|].
  cbn [scan_go].
  assert (Hpre : forall k w, regions_wf_from (pre ++ c :: r1) (lenN pre + 1 + N.of_nat k) (scan_go u r1 (N.succ (lenN pre)) k w) = true).
  { intros k w. specialize (IH (pre ++ [c]) k w). rewrite lenN_app in IH. change (lenN [c]) with 1 in IH.
    rewrite <- app_assoc in IH. cbn [app] in IH. rewrite <- N.add_1_r. exact IH. }
  destruct skip as [|k].
  - destruct (match_at pw (c :: r1)) as [[n p]|] eqn:E.
    + apply match_at_bounds in E. destruct E as [Hn Hc]. cbn [length] in Hn.
      cbn [regions_wf_from].
      repeat (apply andb_true_iff; split).
      * apply N.leb_le. lia.
      * apply N.leb_le. rewrite lenN_app, lenN_cons. unfold lenN. lia.
      * rewrite getN_at. destruct p as [p|].
        -- destruct Hc as [Hc H2]. rewrite Hc. cbn [negb]. rewrite andb_true_r. apply N.leb_le. lia.
        -- rewrite Hc. rewrite andb_true_r. apply N.ltb_lt. lia.
      * eapply regions_wf_from_mono; [|apply (Hpre (n - 1)%nat)]. lia.
    + eapply regions_wf_from_mono; [|apply (Hpre O)]. lia.
  - eapply regions_wf_from_mono; [|apply (Hpre k)]. lia.
Qed.

Theorem scan_regions_wf u s : regions_wf s (scan_regions u s) = true.
Proof. exact (scan_go_wf u s [] O false). Qed.

(* ------------------------------------------------------------------ scanner vs reference lexer *)
(* at a head that is not a prefix letter the regular expression and the lexer start the same thing, whatever the
   word-boundary flags are *)
Lemma match_ref_nonprefix pw pl r : match r with c :: _ => is_prefix_char c = false | [] => True end ->
  match_at pw r = ref_match_at pl r.
Proof.
  destruct r as [|c r1]; [reflexivity|]. intros Hp. unfold match_at, ref_match_at. rewrite Hp. cbn [andb].
  destruct (c =? cHASH); [reflexivity|].
  cbn [prefixed]. rewrite Hp.
  destruct (is_quote c) eqn:Hq.
  - destruct (string_at (c :: r1)); reflexivity.
  - unfold string_at. rewrite Hq. reflexivity.
Qed.

(* the word-boundary flag only matters in front of a prefix letter *)
Lemma match_at_flag pw r : match_at pw r = None \/ match_at pw r = match_at false r.
Proof.
  unfold match_at. destruct r as [|c r1]; [left; reflexivity|].
  destruct (c =? cHASH); [right; reflexivity|].
  destruct (is_prefix_char c && pw) eqn:E; [left; reflexivity|].
  right. rewrite andb_false_r. reflexivity.
Qed.

Lemma match_eqb_eq a b : match_eqb a b = true -> a = b.
Proof.
  destruct a as [[n pa]|], b as [[m pb]|]; cbn; try discriminate; [|reflexivity].
  intros H. apply andb_true_iff in H. destruct H as [H1 H2]. apply Nat.eqb_eq in H1. subst m.
  destruct pa as [x|], pb as [y|]; try discriminate; [|reflexivity].
  apply text_eqb_eq in H2. subst. reflexivity.
Qed.

Lemma scan_ref_lockstep u : forall r p skip pw pl,
  lex_sane_go u r skip pw pl = true -> scan_go u r p skip pw = ref_go r p skip pl.
Proof.
  induction r as [|c r1 IH]; intros p skip pw pl H; [reflexivity|].
  cbn [scan_go ref_go lex_sane_go] in *.
  destruct skip as [|k]; [|apply IH; exact H].
  apply andb_true_iff in H. destruct H as [Hm H].
  assert (E : match_at pw (c :: r1) = ref_match_at pl (c :: r1)).
  { destruct (is_prefix_char c) eqn:Hp; cbn [negb orb] in Hm.
    - apply match_eqb_eq. exact Hm.
    - apply match_ref_nonprefix. exact Hp. }
  rewrite <- E. destruct (match_at pw (c :: r1)) as [[n pre]|]; [f_equal|]; apply IH; exact H.
Qed.

Theorem regions_are_tokens_partial u s : lex_sane u s = true -> scan_regions u s = ref_regions s.
Proof. intros H. apply (scan_ref_lockstep u s 0 O false false). exact H. Qed.

(* x = a or"s"  : before commit 704800d the region started inside the keyword; now rope, the reference and the tokenizer agree *)
Definition glued_witness : text :=
  [120; 32; 61; 32; 97; 32; 111; 114; 34; 115; 34; 10].

Example prefix_glued_fixed :
  lex_sane (table_of [] [] [] []) glued_witness = true
  /\ scan_regions (table_of [] [] [] []) glued_witness = [(8, 11, Some [])].
Proof. vm_compute. split; reflexivity. Qed.

(* the side condition cannot be dropped: an illegal prefix spelling still separates rope from the lexer
   (only on texts that are not valid programs):  bb<dq>x<dq>  *)
Theorem prefix_spelling_refuted : exists s, scan_regions (table_of [] [] [] []) s <> ref_regions s.
Proof. exists [98; 98; 34; 120; 34]. vm_compute. discriminate. Qed.

(* ... and, on a VALID program, the nesting of Python 3.12 f-strings (open finding):  x = f<dq>{d[<dq>k<dq>]}<dq>
   the lexer has one f-literal 4..15, the regular expression two regions *)
Definition fnest_witness : text :=
  [120; 32; 61; 32; 102; 34; 123; 100; 91; 34; 107; 34; 93; 125; 34; 10].

Theorem fstring_nesting_refuted :
  ref_regions fnest_witness = [(4, 15, Some [102])]
  /\ scan_regions (table_of [] [] [] []) fnest_witness = [(4, 10, Some [102]); (11, 15, Some [])]
  /\ lex_sane (table_of [] [] [] []) fnest_witness = false.
Proof. vm_compute. repeat split; reflexivity. Qed.

Example lex_sane_example :
  (* x = rb<dq>a<dq> + f<dq>{d[<sq>k<sq>]:>{w}}<dq> # c *)
  let s := [120; 32; 61; 32; 114; 98; 34; 97; 34; 32; 43; 32; 102; 34; 123; 100; 91; 39; 107; 39; 93; 58; 62; 123; 119; 125; 125; 34; 32; 35; 32; 99; 10] in
  lex_sane (table_of [] [] [] []) s = true
  /\ scan_regions (table_of [] [] [] []) s = [(4, 9, Some [114; 98]); (12, 28, Some [102]); (29, 32, None)].
Proof. vm_compute. split; reflexivity. Qed.

(* the same family on another VALID program (PEP 701 allows a newline inside a replacement field of a single-quoted
   f-literal):  x = f<sq>{a}{ NL b}<sq> NL  — the lexer has the f-literal 4..15, the regular expression finds nothing
   (open finding C14-fstring-newline-in-field) *)
Definition fnl_witness : text :=
  [120; 32; 61; 32; 102; 39; 123; 97; 125; 123; 10; 98; 125; 39; 10].

Theorem fstring_newline_refuted :
  ref_regions fnl_witness = [(4, 14, Some [102])]
  /\ scan_regions (table_of [] [] [] []) fnl_witness = []
  /\ lex_sane (table_of [] [] [] []) fnl_witness = false.
Proof. vm_compute. repeat split; reflexivity. Qed.
