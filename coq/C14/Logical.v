(* Model of rope.base.codeanalyze._CustomGenerator (custom_generator) and CachingLogicalLineFinder.
   Definitions only. *)
From Coq Require Import List NArith ZArith Bool.
From RopeVerif.Lib Require Import Text.
From RopeVerif.C14 Require Import Base.
Import ListNotations.
Open Scope N_scope.

(* _main_tokens: a run of backslashes (group 1) followed by one token (group 2): a triple quote, a single
   quote character, the hash sign or one of the six brackets; alternatives tried in that order. *)
Definition is_single_tok (c : N) : bool := (c =? cHASH) || is_open c || is_close c.

Definition token_at (r : text) : option text :=
  match r with
  | c :: r1 =>
      if is_quote c then
        match r1 with
        | c1 :: c2 :: _ => if (c1 =? c) && (c2 =? c) then Some [c; c; c] else Some [c]
        | _ => Some [c]
        end
      else if is_single_tok c then Some [c] else None
  | [] => None
  end.

(* a match starting at the head of r: (number of backslashes, token). The greedy group 1 takes the whole run;
   backtracking to fewer backslashes leaves a backslash where the token must start, so it cannot help. *)
Fixpoint main_match_at (r : text) : option (nat * text) :=
  match r with
  | c :: r1 =>
      if c =? cBSL then option_map (fun nt => (S (fst nt), snd nt)) (main_match_at r1)
      else option_map (fun t => (O, t)) (token_at r)
  | [] => None
  end.

Record lstate := { in_string : text; open_count : Z; continuation : bool }.
Definition init_state : lstate := {| in_string := []; open_count := 0%Z; continuation := false |}.

(* per-line scan state: (in_string, open_count, last token matched, comment reached) *)
Record scan_st := { s_in : text; s_open : Z; s_tok : option text; s_stop : bool }.

Definition is_quote_tok (t : text) : bool := match t with c :: _ => is_quote c | [] => false end.

(* body of the `for match in finditer` loop *)
Definition step_token (st : scan_st) (nbs : nat) (tok : text) : scan_st :=
  let st0 := {| s_in := s_in st; s_open := s_open st; s_tok := Some tok; s_stop := false |} in
  if Nat.odd nbs then st0
  else
    let ins :=
      if is_quote_tok tok then
        match s_in st with
        | [] => tok
        | cur => if text_eqb cur tok || (Nat.eqb (length cur) 1 && text_eqb tok (cur ++ cur ++ cur)) then [] else cur
        end
      else s_in st in
    match ins with
    | _ :: _ => {| s_in := ins; s_open := s_open st; s_tok := Some tok; s_stop := false |}
    | [] =>
        match tok with
        | [c] =>
            if c =? cHASH then {| s_in := ins; s_open := s_open st; s_tok := Some tok; s_stop := true |}
            else if is_open c then {| s_in := ins; s_open := (s_open st + 1)%Z; s_tok := Some tok; s_stop := false |}
            else if is_close c then {| s_in := ins; s_open := (s_open st - 1)%Z; s_tok := Some tok; s_stop := false |}
            else {| s_in := ins; s_open := s_open st; s_tok := Some tok; s_stop := false |}
        | _ => {| s_in := ins; s_open := s_open st; s_tok := Some tok; s_stop := false |}
        end
    end.

(* finditer over the line; skip = characters still covered by the previous match *)
Fixpoint scan_line (r : text) (skip : nat) (st : scan_st) : scan_st :=
  match r with
  | [] => st
  | _ :: r1 =>
      if s_stop st then st
      else
        match skip with
        | S k => scan_line r1 k st
        | O =>
            match main_match_at r with
            | Some (n, tok) => scan_line r1 (n + length tok - 1) (step_token st n tok)
            | None => scan_line r1 O st
            end
        end
  end.

Definition ends_with_bsl (line : text) : bool :=
  match rev line with c :: _ => c =? cBSL | [] => false end.

(* _analyze_line *)
Definition analyze_line (st : lstate) (line : text) : lstate :=
  let r := scan_line line O {| s_in := in_string st; s_open := open_count st; s_tok := None; s_stop := false |} in
  let tok_is_hash := match s_tok r with Some [c] => c =? cHASH | _ => false end in
  {| in_string := s_in r; open_count := s_open r;
     continuation := negb tok_is_hash && ends_with_bsl line |}.

Definition line_open (st : lstate) : bool :=        (* self.continuation or self.open_count or self.in_string *)
  continuation st || negb (open_count st =? 0)%Z || match in_string st with [] => false | _ => true end.

(* __call__: i = number of the head of ls; cur = Some start while inside a logical line *)
Fixpoint custom_go (u : utable) (ls : list text) (i : nat) (st : lstate) (cur : option nat) : list (nat * nat) :=
  match ls with
  | [] => []
  | l :: rest =>
      match cur with
      | None =>
          if is_blank u l then custom_go u rest (S i) st None
          else
            let st' := analyze_line st l in
            if negb (line_open st') || match rest with [] => true | _ => false end
            then (i, i) :: custom_go u rest (S i) st' None
            else custom_go u rest (S i) st' (Some i)
      | Some start =>
          let st' := analyze_line st l in
          if negb (line_open st') || match rest with [] => true | _ => false end
          then (start, i) :: custom_go u rest (S i) st' None
          else custom_go u rest (S i) st' (Some start)
      end
  end.

Definition custom_generator (u : utable) (lines : list text) : list (nat * nat) :=
  custom_go u lines 1 init_state None.

(* CachingLogicalLineFinder.logical_line_in over the ranges produced by the generator; size = lines.length() *)
Fixpoint last_start_le (rs : list (nat * nat)) (n : nat) (acc : option nat) : option nat :=
  match rs with
  | [] => acc
  | (a, _) :: r => if Nat.leb a n then last_start_le r n (Some (match acc with Some x => Nat.max x a | None => a end))
                   else last_start_le r n acc
  end.
Fixpoint min_ge (xs : list nat) (n : nat) (acc : option nat) : option nat :=
  match xs with
  | [] => acc
  | a :: r => if Nat.leb n a then min_ge r n (Some (match acc with Some x => Nat.min x a | None => a end))
              else min_ge r n acc
  end.

Definition logical_line_in (rs : list (nat * nat)) (n : nat) : nat * nat :=
  let start :=
    match last_start_le rs n None with
    | Some a => Some a
    | None => min_ge (map fst rs) n None
    end in
  match start with
  | None => (n, n)
  | Some a => match min_ge (map snd rs) a None with
              | Some b => (a, b)
              | None => (a, a)          (* ValueError in rope: cannot happen, every start has an end *)
              end
  end.

(* specification of "the reported ranges partition the non-blank lines": ranges ascend, lines before a range
   are blank, the first line of a range is not, and the rest continues right after the range. i = number of
   the first line of ls *)
Fixpoint parts_ok (u : utable) (rs : list (nat * nat)) (ls : list text) (i : nat) : Prop :=
  match rs with
  | [] => Forall (fun l => is_blank u l = true) ls
  | (a, b) :: rest =>
      (i <= a)%nat /\ (a <= b)%nat /\ (b < i + length ls)%nat
      /\ Forall (fun l => is_blank u l = true) (firstn (a - i) ls)
      /\ (exists l, nth_error ls (a - i) = Some l /\ is_blank u l = false)
      /\ parts_ok u rest (skipn (S b - i) ls) (S b)
  end.

(* ---------------------------------------------------------------------------------------------
   Reference: how Python's lexer moves through one physical line, character by character (strings end at the first
   unescaped closing delimiter, a backslash escapes exactly one character inside a string, outside strings a
   backslash is only legal as the last character of the line). f-literals are treated as plain literals (no 3.12
   nesting: texts with nested same-type quotes are outside this reference).
   Result: (open string delimiter, bracket depth, explicit continuation), None = the lexer rejects the line. *)
Fixpoint starts_with_l (d r : text) : bool :=
  match d, r with
  | [], _ => true
  | x :: d', y :: r' => (x =? y) && starts_with_l d' r'
  | _ :: _, [] => false
  end.
Definition delim_at (r : text) : text :=
  match r with
  | q :: c1 :: c2 :: _ => if (c1 =? q) && (c2 =? q) then [q; q; q] else [q]
  | q :: _ => [q]
  | [] => []
  end.

Fixpoint ref_chars (fuel : nat) (ins : text) (op : Z) (r : text) {struct fuel} : option (text * Z * bool) :=
  match fuel with
  | O => None
  | S f =>
      match r with
      | [] => Some (ins, op, false)
      | c :: r1 =>
          match ins with
          | _ :: _ =>
              if c =? cBSL then match r1 with [] => Some (ins, op, true) | _ :: r2 => ref_chars f ins op r2 end
              else if starts_with_l ins r then ref_chars f [] op (skipn (length ins) r)
              else ref_chars f ins op r1
          | [] =>
              if c =? cHASH then Some ([], op, false)
              else if is_quote c then ref_chars f (delim_at r) op (skipn (length (delim_at r)) r)
              else if is_open c then ref_chars f [] (op + 1)%Z r1
              else if is_close c then ref_chars f [] (op - 1)%Z r1
              else if c =? cBSL then match r1 with [] => Some ([], op, true) | _ => None end
              else ref_chars f [] op r1
          end
      end
  end.

Definition ref_line (st : lstate) (line : text) : option lstate :=
  match ref_chars (S (length line)) (in_string st) (open_count st) line with
  | Some (ins, op, cont) => Some {| in_string := ins; open_count := op; continuation := cont |}
  | None => None
  end.

(* the same outer loop as custom_go, over the reference line analysis *)
Fixpoint ref_gen_go (u : utable) (ls : list text) (i : nat) (st : lstate) (cur : option nat) : option (list (nat * nat)) :=
  match ls with
  | [] => Some []
  | l :: rest =>
      let step start :=
        match ref_line st l with
        | None => None
        | Some st' =>
            if negb (line_open st') || match rest with [] => true | _ => false end
            then option_map (cons (start, i)) (ref_gen_go u rest (S i) st' None)
            else ref_gen_go u rest (S i) st' (Some start)
        end in
      match cur with
      | None => if is_blank u l then ref_gen_go u rest (S i) st None else step i
      | Some start => step start
      end
  end.
Definition ref_generator (u : utable) (lines : list text) : option (list (nat * nat)) :=
  ref_gen_go u lines 1 init_state None.

(* ---- the two open defect shapes of _analyze_line, as a boolean computed along rope's own scan of a line:
   a triple-quote token directly followed by one more quote of the same kind, which is
     - matched after an odd run of backslashes while inside the triple-quoted string of that kind
       (rope skips all three quotes, the lexer only the first: C14-escaped-quote-before-closing-triple), or
     - matched unescaped while inside the short string of that kind
       (rope closes the string with all three quotes, the lexer with the first: C14-short-string-followed-by-triple-quote) *)
Definition bad_shape (ins : text) (nbs : nat) (tok : text) (after : text) : bool :=
  match tok with
  | [q; _; _] =>
      match after with
      | c :: _ => (c =? q) && (if Nat.odd nbs then text_eqb ins tok else text_eqb ins [q])
      | [] => false
      end
  | _ => false
  end.

Fixpoint scan_line_ok (r : text) (skip : nat) (st : scan_st) : bool :=
  match r with
  | [] => true
  | _ :: r1 =>
      if s_stop st then true
      else
        match skip with
        | S k => scan_line_ok r1 k st
        | O =>
            match main_match_at r with
            | Some (n, tok) =>
                negb (bad_shape (s_in st) n tok (skipn (n + length tok) r))
                && scan_line_ok r1 (n + length tok - 1) (step_token st n tok)
            | None => scan_line_ok r1 O st
            end
        end
  end.

Definition line_shape_ok (st : lstate) (line : text) : bool :=
  scan_line_ok line O {| s_in := in_string st; s_open := open_count st; s_tok := None; s_stop := false |}.

(* along custom_go: every analysed line avoids the two shapes (blank lines between logical lines are not analysed) *)
Fixpoint shape_free_go (u : utable) (ls : list text) (st : lstate) (cur : bool) : bool :=
  match ls with
  | [] => true
  | l :: rest =>
      if negb cur && is_blank u l then shape_free_go u rest st false
      else
        let st' := analyze_line st l in
        line_shape_ok st l
        && shape_free_go u rest st' (negb (negb (line_open st') || match rest with [] => true | _ => false end))
  end.
Definition shape_free (u : utable) (lines : list text) : bool := shape_free_go u lines init_state false.
