(* Model of rope.base.codeanalyze._CustomGenerator (custom_generator) and CachingLogicalLineFinder.
   Definitions only. *)
From Coq Require Import List NArith ZArith Bool.
From RopeVerif.Lib Require Import Text.
From RopeVerif.C14 Require Import Base.
Import ListNotations.
Open Scope N_scope.

(* _main_tokens: a run of backslashes (group 1) followed by one token (group 2): a triple quote, a single
   quote character, the hash sign or one of the six brackets; alternatives tried in that order. *)
Definition is_single_tok (c : N) : bool := (c =? cHASH) || is_open c || is_close c.

Definition token_at (r : text) : option text :=
  match r with
  | c :: r1 =>
      if is_quote c then
        match r1 with
        | c1 :: c2 :: _ => if (c1 =? c) && (c2 =? c) then Some [c; c; c] else Some [c]
        | _ => Some [c]
        end
      else if is_single_tok c then Some [c] else None
  | [] => None
  end.

(* a match starting at the head of r: (number of backslashes, token). The greedy group 1 takes the whole run;
   backtracking to fewer backslashes leaves a backslash where the token must start, so it cannot help. *)
Fixpoint main_match_at (r : text) : option (nat * text) :=
  match r with
  | c :: r1 =>
      if c =? cBSL then option_map (fun nt => (S (fst nt), snd nt)) (main_match_at r1)
      else option_map (fun t => (O, t)) (token_at r)
  | [] => None
  end.

Record lstate := { in_string : text; open_count : Z; continuation : bool }.
Definition init_state : lstate := {| in_string := []; open_count := 0%Z; continuation := false |}.

(* per-line scan state: (in_string, open_count, last token matched, comment reached) *)
Record scan_st := { s_in : text; s_open : Z; s_tok : option text; s_stop : bool }.

Definition is_quote_tok (t : text) : bool := match t with c :: _ => is_quote c | [] => false end.

(* body of the `for match in finditer` loop *)
Definition step_token (st : scan_st) (nbs : nat) (tok : text) : scan_st :=
  let st0 := {| s_in := s_in st; s_open := s_open st; s_tok := Some tok; s_stop := false |} in
  if Nat.odd nbs then st0
  else
    let ins :=
      if is_quote_tok tok then
        match s_in st with
        | [] => tok
        | cur => if text_eqb cur tok || (Nat.eqb (length cur) 1 && text_eqb tok (cur ++ cur ++ cur)) then [] else cur
        end
      else s_in st in
    match ins with
    | _ :: _ => {| s_in := ins; s_open := s_open st; s_tok := Some tok; s_stop := false |}
    | [] =>
        match tok with
        | [c] =>
            if c =? cHASH then {| s_in := ins; s_open := s_open st; s_tok := Some tok; s_stop := true |}
            else if is_open c then {| s_in := ins; s_open := (s_open st + 1)%Z; s_tok := Some tok; s_stop := false |}
            else if is_close c then {| s_in := ins; s_open := (s_open st - 1)%Z; s_tok := Some tok; s_stop := false |}
            else {| s_in := ins; s_open := s_open st; s_tok := Some tok; s_stop := false |}
        | _ => {| s_in := ins; s_open := s_open st; s_tok := Some tok; s_stop := false |}
        end
    end.

(* finditer over the line; skip = characters still covered by the previous match *)
Fixpoint scan_line (r : text) (skip : nat) (st : scan_st) : scan_st :=
  match r with
  | [] => st
  | _ :: r1 =>
      if s_stop st then st
      else
        match skip with
        | S k => scan_line r1 k st
        | O =>
            match main_match_at r with
            | Some (n, tok) => scan_line r1 (n + length tok - 1) (step_token st n tok)
            | None => scan_line r1 O st
            end
        end
  end.

Definition ends_with_bsl (line : text) : bool :=
  match rev line with c :: _ => c =? cBSL | [] => false end.

(* _analyze_line *)
Definition analyze_line (st : lstate) (line : text) : lstate :=
  let r := scan_line line O {| s_in := in_string st; s_open := open_count st; s_tok := None; s_stop := false |} in
  let tok_is_hash := match s_tok r with Some [c] => c =? cHASH | _ => false end in
  {| in_string := s_in r; open_count := s_open r;
     continuation := negb tok_is_hash && ends_with_bsl line |}.

Definition line_open (st : lstate) : bool :=        (* self.continuation or self.open_count or self.in_string *)
  continuation st || negb (open_count st =? 0)%Z || match in_string st with [] => false | _ => true end.

(* __call__: i = number of the head of ls; cur = Some start while inside a logical line *)
Fixpoint custom_go (u : utable) (ls : list text) (i : nat) (st : lstate) (cur : option nat) : list (nat * nat) :=
  match ls with
  | [] => []
  | l :: rest =>
      match cur with
      | None =>
          if is_blank u l then custom_go u rest (S i) st None
          else
            let st' := analyze_line st l in
            if negb (line_open st') || match rest with [] => true | _ => false end
            then (i, i) :: custom_go u rest (S i) st' None
            else custom_go u rest (S i) st' (Some i)
      | Some start =>
          let st' := analyze_line st l in
          if negb (line_open st') || match rest with [] => true | _ => false end
          then (start, i) :: custom_go u rest (S i) st' None
          else custom_go u rest (S i) st' (Some start)
      end
  end.

Definition custom_generator (u : utable) (lines : list text) : list (nat * nat) :=
  custom_go u lines 1 init_state None.

(* CachingLogicalLineFinder.logical_line_in over the ranges produced by the generator; size = lines.length() *)
Fixpoint last_start_le (rs : list (nat * nat)) (n : nat) (acc : option nat) : option nat :=
  match rs with
  | [] => acc
  | (a, _) :: r => if Nat.leb a n then last_start_le r n (Some (match acc with Some x => Nat.max x a | None => a end))
                   else last_start_le r n acc
  end.
Fixpoint min_ge (xs : list nat) (n : nat) (acc : option nat) : option nat :=
  match xs with
  | [] => acc
  | a :: r => if Nat.leb n a then min_ge r n (Some (match acc with Some x => Nat.min x a | None => a end))
              else min_ge r n acc
  end.

Definition logical_line_in (rs : list (nat * nat)) (n : nat) : nat * nat :=
  let start :=
    match last_start_le rs n None with
    | Some a => Some a
    | None => min_ge (map fst rs) n None
    end in
  match start with
  | None => (n, n)
  | Some a => match min_ge (map snd rs) a None with
              | Some b => (a, b)
              | None => (a, a)          (* ValueError in rope: cannot happen, every start has an end *)
              end
  end.

(* specification of "the reported ranges partition the non-blank lines": ranges ascend, lines before a range
   are blank, the first line of a range is not, and the rest continues right after the range. i = number of
   the first line of ls *)
Fixpoint parts_ok (u : utable) (rs : list (nat * nat)) (ls : list text) (i : nat) : Prop :=
  match rs with
  | [] => Forall (fun l => is_blank u l = true) ls
  | (a, b) :: rest =>
      (i <= a)%nat /\ (a <= b)%nat /\ (b < i + length ls)%nat
      /\ Forall (fun l => is_blank u l = true) (firstn (a - i) ls)
      /\ (exists l, nth_error ls (a - i) = Some l /\ is_blank u l = false)
      /\ parts_ok u rest (skipn (S b - i) ls) (S b)
  end.
