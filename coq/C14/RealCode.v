(* Model of rope.base.simplify.real_code (with codeanalyze.ChangeCollector). Definitions only. *)
From Coq Require Import List NArith ZArith Bool.
From RopeVerif.Lib Require Import Text.
From RopeVerif.C14 Require Import Base Regions.
Import ListNotations.
Open Scope N_scope.

Definition change := (N * N * text)%type.

(* "f" in prefix.lower() *)
Definition has_f (pre : option text) : bool :=
  match pre with
  | Some p => existsb (fun c => (c =? 102) || (c =? 70)) p
  | None => false
  end.

(* first loop of real_code: one change per region, none for f-strings *)
Fixpoint region_changes (s : text) (rs : list region) : list change :=
  match rs with
  | [] => []
  | (a, b, pre) :: rest =>
      match getN s a with
      | Some c =>
          if c =? cHASH then (a, b, spaces (b - a)) :: region_changes s rest
          else if has_f pre then region_changes s rest
          else (a, b, cDQ :: spaces (b - a - 2) ++ [cDQ]) :: region_changes s rest
      | None => region_changes s rest           (* IndexError in rope; excluded by regions_wf *)
      end
  end.

(* changes.sort(key=lambda x: x[:2]) — stable insertion sort on (start, end) *)
Definition change_le (x y : change) : bool :=
  let '(a, b, _) := x in let '(c, d, _) := y in (a <? c) || ((a =? c) && (b <=? d)).
Fixpoint insert_change (x : change) (l : list change) : list change :=
  match l with
  | [] => [x]
  | y :: r => if change_le x y then x :: l else y :: insert_change x r
  end.
Fixpoint sort_changes (l : list change) : list change :=
  match l with
  | [] => []
  | x :: r => insert_change x (sort_changes r)
  end.

(* the loop of ChangeCollector.get_changed: pieces = text[last:start] + new_text ..., then text[last:] *)
Fixpoint apply_changes (s : text) (last : N) (chs : list change) : text :=
  match chs with
  | [] => sliceN last (lenN s) s
  | (a, b, t) :: r => sliceN last a s ++ t ++ apply_changes s b r
  end.

(* collector.get_changed() or source *)
Definition changed_or_source (s : text) (chs : list change) : text :=
  match chs with
  | [] => s
  | _ => let t := apply_changes s 0 (sort_changes chs) in
         match t with [] => s | _ => t end
  end.

(* second loop: newlines inside brackets become spaces (the counter may go negative) *)
Fixpoint parens_pass (r : text) (depth : Z) : text :=
  match r with
  | [] => []
  | c :: r1 =>
      if is_open c then c :: parens_pass r1 (depth + 1)%Z
      else if is_close c then c :: parens_pass r1 (depth - 1)%Z
      else if (c =? cNL) && (0 <? depth)%Z then cSP :: parens_pass r1 depth
      else c :: parens_pass r1 depth
  end.

(* source.replace("\\\n", "  ") *)
Fixpoint repl_bsnl (r : text) : text :=
  match r with
  | [] => []
  | c :: r1 =>
      if c =? cBSL then
        match r1 with
        | c1 :: r2 => if c1 =? cNL then cSP :: cSP :: repl_bsnl r2 else c :: repl_bsnl r1
        | [] => [c]
        end
      else c :: repl_bsnl r1
  end.

Definition repl_tab_semi (c : N) : N := if c =? cTAB then cSP else if c =? cSEMI then cNL else c.

Definition real_code_with (rs : list region) (s : text) : text :=
  let s1 := changed_or_source s (region_changes s rs) in
  let s2 := parens_pass s1 0%Z in
  map repl_tab_semi (repl_bsnl s2).

Definition real_code (u : utable) (s : text) : text := real_code_with (scan_regions u s) s.
