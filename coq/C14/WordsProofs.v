(* Proofs about the word finder: at an identifier character the reported word range is the maximal run of
   identifier characters around the offset (for every text, every Unicode table). *)
From Coq Require Import List NArith ZArith Bool Lia.
From RopeVerif.Lib Require Import Text.
From RopeVerif.C14 Require Import Base Words.
Import ListNotations.
Open Scope Z_scope.

Section W.
  Variable u : utable.
  Variable code raw : text.
  Variable L : Z.
  Variable F : nat.
  Hypothesis HL : L = lenZ code.

  Local Notation idc := (Words.idc u code).

  Lemma is_id_in i : 0 <= i < L -> exists b, is_id u code L i = Val b /\ idc i b.
  Proof.
    intros Hi. unfold is_id, getC. destruct (Z.ltb_spec i 0); [lia|]. destruct (Z.ltb_spec i 0); [lia|].
    destruct (nth_error code (Z.to_nat i)) as [c|] eqn:E.
    - exists (is_id_char u c). split; [reflexivity|]. exists c. auto.
    - apply nth_error_None in E. unfold lenZ in HL. lia.
  Qed.

  Lemma idc_fun i b b' : idc i b -> idc i b' -> b = b'.
  Proof. intros (c & H1 & H2) (c' & H1' & H2'). congruence. Qed.

  Lemma word_start_go_spec : forall fuel cur, -1 <= cur < L -> (Z.to_nat (cur + 1) < fuel)%nat ->
    exists a, word_start_go u code L fuel cur = Val a /\ 0 <= a <= cur + 1
      /\ (forall i, a <= i <= cur -> idc i true) /\ (a = 0 \/ idc (a - 1) false).
  Proof.
    induction fuel as [|f IH]; intros cur Hc Hf; [lia|].
    cbn [word_start_go]. destruct (Z.ltb_spec cur 0).
    - exists 0. assert (cur = -1) by lia. subst.
      split; [reflexivity|]. split; [lia|]. split; [intros i Hi; lia|left; reflexivity].
    - destruct (is_id_in cur ltac:(lia)) as (b & Hb & Hidc). rewrite Hb. cbn [bind].
      destruct b.
      + destruct (IH (cur - 1) ltac:(lia) ltac:(lia)) as (a & Ha & Hr & Hall & Hedge).
        exists a. replace (cur - 1 + 1) with cur in Hr by lia.
        split; [exact Ha|]. split; [lia|]. split; [|exact Hedge].
        intros i Hi. destruct (Z.eq_dec i cur) as [->|]; [exact Hidc|apply Hall; lia].
      + exists (cur + 1). split; [reflexivity|]. split; [lia|]. split; [intros i Hi; lia|].
        right. replace (cur + 1 - 1) with cur by lia. exact Hidc.
  Qed.

  Lemma word_end_go_spec : forall fuel o, 0 <= o < L -> (Z.to_nat (L - o) <= fuel)%nat ->
    exists e, word_end_go u code L fuel o = Val e /\ o <= e < L
      /\ (forall i, o < i <= e -> idc i true) /\ (e + 1 = L \/ idc (e + 1) false).
  Proof.
    induction fuel as [|f IH]; intros o Ho Hf; [lia|].
    cbn [word_end_go]. destruct (Z.ltb_spec (o + 1) L).
    - destruct (is_id_in (o + 1) ltac:(lia)) as (b & Hb & Hidc). rewrite Hb. cbn [bind].
      destruct b.
      + destruct (IH (o + 1) ltac:(lia) ltac:(lia)) as (e & He & Hr & Hall & Hedge).
        exists e. split; [exact He|]. split; [lia|]. split; [|exact Hedge].
        intros i Hi. destruct (Z.eq_dec i (o + 1)) as [->|]; [exact Hidc|apply Hall; lia].
      + exists o. split; [reflexivity|]. split; [lia|]. split; [intros i Hi; lia|right; exact Hidc].
    - exists o. split; [reflexivity|]. split; [lia|]. split; [intros i Hi; lia|left; lia].
  Qed.

  Hypothesis HF : (length code + 2 <= F)%nat.

  Theorem word_range_maximal o : 0 <= o < L -> idc o true ->
    exists a b, get_word_range u code L F o = Val (a, b) /\ get_word_at u code raw L F o = Val (sliceZ raw a b)
      /\ 0 <= a <= o /\ o < b <= L
      /\ (forall i, a <= i < b -> idc i true)
      /\ (a = 0 \/ idc (a - 1) false) /\ (b = L \/ idc b false).
  Proof.
    intros Ho Hid. unfold lenZ in HL.
    destruct (word_start_go_spec F o ltac:(lia) ltac:(lia)) as (a & Ha & Hra & Halla & Hedgea).
    destruct (word_end_go_spec F o ltac:(lia) ltac:(lia)) as (e & He & Hre & Halle & Hedgee).
    exists a, (e + 1).
    assert (Hfix : fixed_offset u code L o = Val o).
    { unfold fixed_offset. destruct (Z.leb_spec L o); [lia|].
      destruct (is_id_in o Ho) as (b & Hb & Hb'). rewrite Hb. cbn [bind].
      rewrite (idc_fun _ _ _ Hb' Hid). reflexivity. }
    assert (Hao : a <= o).
    { destruct Hedgea as [->|Hf]; [lia|]. destruct (Z.eq_dec a (o + 1)) as [->|]; [|lia].
      replace (o + 1 - 1) with o in Hf by lia. pose proof (idc_fun _ _ _ Hf Hid). discriminate. }
    split; [|split; [|split; [lia|split; [lia|split; [|split]]]]].
    - unfold get_word_range. rewrite Z.max_r by lia. unfold word_start, word_end. rewrite Ha, He. reflexivity.
    - unfold get_word_at. rewrite Hfix. cbn [bind]. unfold word_start, word_end. rewrite Ha, He. reflexivity.
    - intros i Hi. destruct (Z_le_gt_dec i o); [apply Halla; lia|apply Halle; lia].
    - exact Hedgea.
    - destruct Hedgee as [H|H]; [left; lia|right; exact H].
  Qed.
End W.

