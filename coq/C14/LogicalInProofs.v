(* CachingLogicalLineFinder.logical_line_in over the ranges of custom_generator: a line inside a reported
   range is mapped to exactly that range. *)
From Coq Require Import List NArith ZArith Bool Lia.
From RopeVerif.Lib Require Import Text.
From RopeVerif.C14 Require Import Base Logical Spec LogicalProofs.
Import ListNotations.

Lemma parts_ok_sorted u : forall rs ls i, parts_ok u rs ls i -> ranges_sorted i rs.
Proof.
  induction rs as [|[a b] r IH]; intros ls i H; [exact I|].
  cbn [parts_ok] in H. destruct H as (H1 & H2 & H3 & _ & _ & H6).
  cbn [ranges_sorted]. repeat split; try assumption. eapply IH. exact H6.
Qed.

Lemma ranges_sorted_mono rs : forall lo lo', (lo' <= lo)%nat -> ranges_sorted lo rs -> ranges_sorted lo' rs.
Proof. destruct rs as [|[a b] r]; intros lo lo' H Hs; [exact I|]. cbn in *. intuition lia. Qed.

Lemma ranges_sorted_in rs : forall lo a b, ranges_sorted lo rs -> In (a, b) rs -> (lo <= a /\ a <= b)%nat.
Proof.
  induction rs as [|[a0 b0] r IH]; intros lo a b Hs Hin; [contradiction|].
  cbn [ranges_sorted] in Hs. destruct Hs as (H1 & H2 & H3).
  destruct Hin as [E|Hin]; [injection E as <- <-; lia|].
  destruct (IH _ _ _ H3 Hin). lia.
Qed.

Lemma last_start_le_none_above rs n : forall acc, (forall a b, In (a, b) rs -> (n < a)%nat) -> last_start_le rs n acc = acc.
Proof.
  induction rs as [|[a0 b0] r IH]; intros acc H; [reflexivity|].
  cbn [last_start_le]. assert (n < a0)%nat by (eapply H; left; reflexivity).
  destruct (Nat.leb_spec a0 n); [lia|]. apply IH. intros a b Hin. eapply H. right. exact Hin.
Qed.

Lemma last_start_le_found rs n a b : forall lo acc, ranges_sorted lo rs -> In (a, b) rs -> (a <= n <= b)%nat ->
  match acc with Some x => (x < lo)%nat | None => True end ->
  last_start_le rs n acc = Some a.
Proof.
  induction rs as [|[a0 b0] r IH]; intros lo acc Hs Hin Hn Hacc; [contradiction|].
  cbn [ranges_sorted] in Hs. destruct Hs as (H1 & H2 & H3). cbn [last_start_le].
  destruct Hin as [E|Hin].
  - injection E as -> ->. destruct (Nat.leb_spec a n); [|lia].
    rewrite last_start_le_none_above.
    + f_equal. destruct acc as [x|]; [lia|reflexivity].
    + intros a' b' Hin'. destruct (ranges_sorted_in _ _ _ _ H3 Hin'). lia.
  - destruct (ranges_sorted_in _ _ _ _ H3 Hin) as [Ha Hab].
    destruct (Nat.leb_spec a0 n); [|lia].
    eapply IH; try eassumption. destruct acc as [x|]; lia.
Qed.

Lemma min_ge_none_below xs n : forall acc, (forall x, In x xs -> (x < n)%nat) -> min_ge xs n acc = acc.
Proof.
  induction xs as [|x r IH]; intros acc H; [reflexivity|].
  cbn [min_ge]. assert (x < n)%nat by (apply H; left; reflexivity).
  destruct (Nat.leb_spec n x); [lia|]. apply IH. intros y Hy. apply H. right. exact Hy.
Qed.

Lemma min_ge_keep xs n : forall m, (forall x, In x xs -> (m <= x)%nat) -> (n <= m)%nat -> min_ge xs n (Some m) = Some m.
Proof.
  induction xs as [|x r IH]; intros m H Hn; [reflexivity|].
  cbn [min_ge]. assert (m <= x)%nat by (apply H; left; reflexivity).
  destruct (Nat.leb_spec n x); [|lia]. rewrite Nat.min_l by lia. apply IH; [|lia].
  intros y Hy. apply H. right. exact Hy.
Qed.

Lemma min_ge_found rs a b : forall lo, ranges_sorted lo rs -> In (a, b) rs ->
  min_ge (map snd rs) a None = Some b.
Proof.
  induction rs as [|[a0 b0] r IH]; intros lo Hs Hin; [contradiction|].
  cbn [ranges_sorted] in Hs. destruct Hs as (H1 & H2 & H3). cbn [map snd min_ge].
  destruct Hin as [E|Hin].
  - injection E as -> ->. destruct (Nat.leb_spec a b); [|lia].
    apply min_ge_keep; [|lia]. intros x Hx. apply in_map_iff in Hx. destruct Hx as ([a' b'] & <- & Hin').
    destruct (ranges_sorted_in _ _ _ _ H3 Hin'). cbn [snd]. lia.
  - destruct (ranges_sorted_in _ _ _ _ H3 Hin) as [Ha Hab].
    destruct (Nat.leb_spec a b0); [lia|]. eapply IH; eassumption.
Qed.

Theorem logical_line_in_range rs lo a b n : ranges_sorted lo rs -> In (a, b) rs -> (a <= n <= b)%nat ->
  logical_line_in rs n = (a, b).
Proof.
  intros Hs Hin Hn. unfold logical_line_in.
  rewrite (last_start_le_found rs n a b lo None Hs Hin Hn I).
  rewrite (min_ge_found rs a b lo Hs Hin). reflexivity.
Qed.

Theorem logical_line_in_custom u lines a b n :
  In (a, b) (custom_generator u lines) -> (a <= n <= b)%nat ->
  logical_line_in (custom_generator u lines) n = (a, b).
Proof.
  intros Hin Hn. eapply logical_line_in_range; [|exact Hin|exact Hn].
  eapply parts_ok_sorted. apply custom_generator_partition.
Qed.
