(* Correspondence runner for C14: the harness writes a text, the Unicode facts about its characters and
   everything rope answered about it; the model is evaluated here (vm_compute) and compared. *)
From Coq Require Import List NArith ZArith Bool Ascii.
From Coq Require String.
From RopeVerif.Lib Require Import Text.
From RopeVerif.C14 Require Import Base Lines Regions RealCode Logical Words.
Import ListNotations.
Open Scope N_scope.

(* compact notation for texts in case files: printable ASCII runs as Coq strings, anything else as a code point *)
Inductive chunk := A (s : String.string) | C (c : N).
Fixpoint text_of_string (s : String.string) : text :=
  match s with
  | String.EmptyString => []
  | String.String a r => N_of_ascii a :: text_of_string r
  end.
Definition T (l : list chunk) : text :=
  flat_map (fun ch => match ch with A s => text_of_string s | C c => [c] end) l.

(* run-length encoding of a list of naturals: (value, count) *)
Fixpoint rle (l : list N) : list (N * N) :=
  match l with
  | [] => []
  | x :: r =>
      match rle r with
      | (y, k) :: t => if x =? y then (y, N.succ k) :: t else (x, 1) :: (y, k) :: t
      | [] => [(x, 1)]
      end
  end.

Definition opt_eqb {A} (eqb : A -> A -> bool) (a b : option A) : bool :=
  match a, b with Some x, Some y => eqb x y | None, None => true | _, _ => false end.

Fixpoint list_eqb {A} (eqb : A -> A -> bool) (a b : list A) : bool :=
  match a, b with
  | [], [] => true
  | x :: a', y :: b' => eqb x y && list_eqb eqb a' b'
  | _, _ => false
  end.

Definition region_eqb (x y : region) : bool :=
  (r_start x =? r_start y) && (r_end x =? r_end y) && opt_eqb text_eqb (r_prefix x) (r_prefix y).

Definition pairN_eqb (x y : N * N) : bool := (fst x =? fst y) && (snd x =? snd y).
Definition pairZ_eqb (x y : Z * Z) : bool := (fst x =? fst y)%Z && (snd x =? snd y)%Z.

(* one Worder query: offset, then rope's answers (None = an exception was raised) *)
Record query := {
  q_off : Z;
  q_word_range : option (Z * Z);
  q_word_at : option text;
  q_primary_range : option (Z * Z);
  q_primary_at : option text
}.

Record case := {
  c_text : text;
  c_alnum : list N;                 (* code points >= 128 of the case with str.isalnum() *)
  c_space : list N;                 (* code points >= 128 of the case with str.isspace() *)
  c_digit : list N;                 (* code points >= 128 of the case with str.isdigit() *)
  c_xid : list N;                   (* code points >= 128 of the case with (a + c).isidentifier() *)
  c_regions : list region;          (* simplify.ignored_regions *)
  c_real : text;                    (* simplify.real_code *)
  c_nlines : N;                     (* SourceLinesAdapter.length() *)
  c_linenos : list (N * N);         (* run-length encoding of [get_line_number(o) for o = 0 .. len+1] *)
  c_lstarts : list N;               (* get_line_start(n) for n = 1 .. length *)
  c_lends : list N;                 (* get_line_end(n) for n = 1 .. length *)
  c_lines : list text;              (* get_line(n) for n = 1 .. length *)
  c_custom : list (N * N);          (* custom_generator(lines) *)
  c_logical_in : list (N * N);      (* CachingLogicalLineFinder(lines).logical_line_in(n), n = 1 .. length *)
  c_queries : list query;
  c_tok_regions : option (list region);  (* tokenize's comment/string spans with prefixes (valid texts only) *)
  c_tok_logical : option (list (N * N))  (* tokenize's statements plus the comment-only lines between them (valid texts
                                            without nested same-quote f-strings and without lone-backslash lines) *)
}.

Definition res_opt {A} (r : res A) : option (option A) :=     (* None = out of fuel *)
  match r with Val a => Some (Some a) | Err => Some None | OutOfFuel => None end.

Definition res_matches {A} (eqb : A -> A -> bool) (r : res A) (impl : option A) : bool :=
  match r, impl with
  | Val a, Some b => eqb a b
  | Err, None => true
  | _, _ => false
  end.

Definition is_fuel {A} (r : res A) : bool := match r with OutOfFuel => true | _ => false end.

Definition natpair (x : nat * nat) : N * N := (N.of_nat (fst x), N.of_nat (snd x)).

Fixpoint n_range (start : N) (k : nat) : list N :=
  match k with O => [] | S k' => start :: n_range (N.succ start) k' end.

Definition check_query (u : utable) (code raw : text) (L : Z) (F : nat) (q : query) : list N :=
  let o := q_off q in
  let wr := get_word_range u code L F o in
  let wa := get_word_at u code raw L F o in
  let pr := get_primary_range u code L F false o in
  let pa := get_primary_at u code raw L F false o in
  (if res_matches pairZ_eqb wr (q_word_range q) && res_matches text_eqb wa (q_word_at q) then [] else [9])
  ++ (if res_matches pairZ_eqb pr (q_primary_range q) && res_matches text_eqb pa (q_primary_at q) then [] else [10])
  ++ (if is_fuel wr || is_fuel wa || is_fuel pr || is_fuel pa then [11] else []).

Definition dedup (l : list N) : list N :=
  fold_right (fun x acc => if existsb (N.eqb x) acc then acc else x :: acc) [] l.

(* codes: 1 regions, 2 real_code, 3 length, 4 get_line_number, 5 get_line_start/end, 6 get_line,
   7 custom_generator, 8 logical_line_in, 9 word query, 10 primary query, 11 out of fuel,
   20 reference lexer (ref_regions) differs from the tokenizer's spans (a fact about the spec, not about rope),
   22 reference logical lines (ref_generator) differ from the tokenizer's statements (a fact about the spec),
   21 a theorem's conclusion fails on this case (cannot happen while the proofs are in force) *)
Definition run_case (c : case) : list N :=
  let u := table_of (c_alnum c) (c_space c) (c_xid c) (c_digit c) in
  let s := c_text c in
  let rs := scan_regions u s in
  let rc := real_code u s in
  let nl := length_lines s in
  let ns := seq 1 nl in
  let lines := all_lines s in
  let cg := custom_generator u lines in
  (if list_eqb region_eqb rs (c_regions c) then [] else [1])
  ++ (if text_eqb rc (c_real c) then [] else [2])
  ++ (if N.of_nat nl =? c_nlines c then [] else [3])
  ++ (let st := line_starts s in       (* line_number s o = bisect_right (line_starts s) o, starts computed once *)
      if list_eqb pairN_eqb (rle (map (fun o => N.of_nat (bisect_right st o)) (n_range 0 (length s + 2)))) (c_linenos c)
      then [] else [4])
  ++ (if list_eqb (opt_eqb N.eqb) (map (line_start s) ns) (map Some (c_lstarts c))
         && list_eqb (opt_eqb N.eqb) (map (line_end s) ns) (map Some (c_lends c)) then [] else [5])
  ++ (if list_eqb text_eqb lines (c_lines c) && (length lines =? nl)%nat then [] else [6])
  ++ (if list_eqb pairN_eqb (map natpair cg) (c_custom c) then [] else [7])
  ++ (if list_eqb pairN_eqb (map (fun n => natpair (logical_line_in cg n)) ns) (c_logical_in c) then [] else [8])
  ++ dedup (flat_map (check_query u rc s (lenZ rc) (fuel_for rc)) (c_queries c))
  ++ (match c_tok_regions c with
      | Some ts => if list_eqb region_eqb (ref_regions s) ts then [] else [20]
      | None => []
      end)
  ++ (match c_tok_logical c with
      | Some ts => if opt_eqb (list_eqb pairN_eqb) (option_map (map natpair) (ref_generator u lines)) (Some ts) then [] else [22]
      | None => []
      end)
  ++ (if regions_wf s rs && (lenN rc =? lenN s) && text_eqb (join_nl lines) s
         && (negb (lex_sane u s) || list_eqb region_eqb rs (ref_regions s)) then [] else [21])
  (* 23: the unproved simulation statement fails on this case: the line scanner avoids both defect shapes and the
     reference accepts the text, yet custom_generator differs from the reference logical lines *)
  ++ (match ref_generator u lines with
      | Some rg => if negb (shape_free u lines) || list_eqb pairN_eqb (map natpair cg) (map natpair rg) then [] else [23]
      | None => []
      end).

Fixpoint mismatches_from (i : N) (cs : list case) : list (N * N) :=
  match cs with
  | [] => []
  | c :: r => map (fun code => (i, code)) (run_case c) ++ mismatches_from (N.succ i) r
  end.
Definition mismatches (cs : list case) : list (N * N) := mismatches_from 0 cs.

(* how many cases are inside the domain of C14_regions_are_tokens_partial *)
Definition count_shape_free (cs : list case) : N :=
  N.of_nat (length (filter (fun c => let u := table_of (c_alnum c) (c_space c) (c_xid c) (c_digit c) in
                                     shape_free u (all_lines (c_text c))
                                     && match ref_generator u (all_lines (c_text c)) with Some _ => true | None => false end) cs)).
Definition count_lex_sane (cs : list case) : N :=
  N.of_nat (length (filter (fun c => lex_sane (table_of (c_alnum c) (c_space c) (c_xid c) (c_digit c)) (c_text c)) cs)).

(* per case: 1 if lex_sane holds, +2 if shape_free holds (what the model predicts about the two defect families) *)
Fixpoint flags_from (i : N) (cs : list case) : list (N * N) :=
  match cs with
  | [] => []
  | c :: r =>
      let u := table_of (c_alnum c) (c_space c) (c_xid c) (c_digit c) in
      (i, (if lex_sane u (c_text c) then 1 else 0) + (if shape_free u (all_lines (c_text c)) then 2 else 0))
      :: flags_from (N.succ i) r
  end.
Definition case_flags (cs : list case) : list (N * N) := flags_from 0 cs.
