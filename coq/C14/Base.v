(* C14 — shared definitions: characters, Python-style indexing and slicing on text = list N.
   Offsets are N (values) and are turned into nat only to access a list. Definitions only. *)
From Coq Require Import List NArith ZArith Bool.
From RopeVerif.Lib Require Import Text.
Import ListNotations.
Open Scope N_scope.

Definition cNL : N := 10.      (* "\n" *)
Definition cTAB : N := 9.
Definition cSP : N := 32.
Definition cDQ : N := 34.      (* double quote *)
Definition cHASH : N := 35.
Definition cSQ : N := 39.      (* single quote *)
Definition cSEMI : N := 59.
Definition cBSL : N := 92.     (* backslash *)
Definition cDOT : N := 46.
Definition cUNDER : N := 95.

Definition lenN (s : text) : N := N.of_nat (length s).

(* s[a:b] for non-negative a, b (Python slicing: clipped, empty when b <= a) *)
Definition sliceN (a b : N) (s : text) : text := firstn (N.to_nat (b - a)) (skipn (N.to_nat a) s).

Definition getN (s : text) (i : N) : option N := nth_error s (N.to_nat i).

Definition spaces (n : N) : text := repeat cSP (N.to_nat n).

Definition is_open (c : N) : bool := (c =? 40) || (c =? 91) || (c =? 123).       (* ( [ { *)
Definition is_close (c : N) : bool := (c =? 41) || (c =? 93) || (c =? 125).      (* ) ] } *)
Definition is_quote (c : N) : bool := (c =? cDQ) || (c =? cSQ).

(* str.isalnum / str.isspace / str.isidentifier on one code point: ASCII part fixed here, the rest of the Unicode table is an
   input (the harness supplies the finite part that concerns the case; theorems hold for every table). *)
Definition ascii_alnum (c : N) : bool :=
  ((48 <=? c) && (c <=? 57)) || ((65 <=? c) && (c <=? 90)) || ((97 <=? c) && (c <=? 122)).
Definition ascii_space (c : N) : bool := ((9 <=? c) && (c <=? 13)) || ((28 <=? c) && (c <=? 32)).

Record utable := {
  alnum_hi : N -> bool;      (* str.isalnum() above 127 *)
  space_hi : N -> bool;      (* str.isspace() above 127 *)
  xid_hi : N -> bool;        (* ("a" + c).isidentifier() above 127, i.e. XID_Continue *)
  digit_hi : N -> bool       (* str.isdigit() above 127 *)
}.

Definition isalnum (u : utable) (c : N) : bool := if c <? 128 then ascii_alnum c else alnum_hi u c.
Definition isspace (u : utable) (c : N) : bool := if c <? 128 then ascii_space c else space_hi u c.
(* the regular expression class \w of Python's re on str patterns: alphanumeric or underscore *)
Definition is_word_char (u : utable) (c : N) : bool := isalnum u c || (c =? cUNDER).
(* Worder._is_id_char: ("a" + c).isidentifier() — the characters Python accepts inside an identifier *)
Definition is_id_char (u : utable) (c : N) : bool :=
  if c <? 128 then ascii_alnum c || (c =? cUNDER) else xid_hi u c.

Definition isdigit (u : utable) (c : N) : bool := if c <? 128 then (48 <=? c) && (c <=? 57) else digit_hi u c.

Definition table_of (al sp xi dg : list N) : utable :=
  {| alnum_hi := fun c => existsb (N.eqb c) al; space_hi := fun c => existsb (N.eqb c) sp;
     xid_hi := fun c => existsb (N.eqb c) xi; digit_hi := fun c => existsb (N.eqb c) dg |}.

(* str.strip() *)
Fixpoint lstrip (u : utable) (s : text) : text :=
  match s with
  | c :: r => if isspace u c then lstrip u r else s
  | [] => []
  end.
Definition strip (u : utable) (s : text) : text := rev (lstrip u (rev (lstrip u s))).
Definition is_blank (u : utable) (s : text) : bool := forallb (isspace u) s.      (* not s.strip() *)

(* "\n".join(ls) *)
Definition join_nl (ls : list text) : text :=
  match ls with
  | [] => []
  | l :: r => l ++ concat (map (fun x => cNL :: x) r)
  end.

(* result of a model function that may hit a Python exception (IndexError/ValueError) or run out of fuel *)
Inductive res (A : Type) := Val (a : A) | Err | OutOfFuel.
Arguments Val {A} a.
Arguments Err {A}.
Arguments OutOfFuel {A}.

Definition bind {A B} (r : res A) (f : A -> res B) : res B :=
  match r with Val a => f a | Err => Err | OutOfFuel => OutOfFuel end.
Notation "'do' x <- r ; k" := (bind r (fun x => k)) (at level 200, x ident, r at level 100, k at level 200).
