(* Proofs about the custom_generator model: for every list of lines (every text) the reported logical lines
   are ordered, disjoint and cover exactly the non-blank lines. *)
From Coq Require Import List NArith ZArith Bool Lia.
From RopeVerif.Lib Require Import Text.
From RopeVerif.C14 Require Import Base Logical.
Import ListNotations.

Section P.
  Variable u : utable.

  Lemma custom_go_some : forall ls i st start, ls <> [] ->
    exists b st', (i <= b < i + length ls)%nat /\
      custom_go u ls i st (Some start) = (start, b) :: custom_go u (skipn (S b - i) ls) (S b) st' None.
  Proof.
    induction ls as [|l rest IH]; intros i st start Hne; [congruence|].
    cbn [custom_go].
    destruct (negb (line_open (analyze_line st l)) || match rest with [] => true | _ => false end) eqn:E.
    - exists i, (analyze_line st l). cbn [length]. split; [lia|].
      replace (S i - i)%nat with 1%nat by lia. reflexivity.
    - assert (Hr : rest <> []) by (destruct rest; [rewrite orb_true_r in E; discriminate|discriminate]).
      destruct (IH (S i) (analyze_line st l) start Hr) as (b & st' & Hb & Heq).
      exists b, st'. cbn [length]. split; [lia|]. rewrite Heq.
      replace (S b - i)%nat with (S (S b - S i)) by lia. reflexivity.
  Qed.

  Lemma parts_ok_blank_cons rs l rest i : is_blank u l = true -> parts_ok u rs rest (S i) -> parts_ok u rs (l :: rest) i.
  Proof.
    intros Hl H. destruct rs as [|[a b] rs']; cbn [parts_ok] in *.
    - constructor; assumption.
    - destruct H as (H1 & H2 & H3 & H4 & (l0 & H5 & H6) & H7). cbn [length].
      replace (a - i)%nat with (S (a - S i)) by lia. replace (S b - i)%nat with (S (S b - S i)) by lia.
      cbn [firstn nth_error skipn]. repeat split; try lia.
      + constructor; assumption.
      + exists l0. split; assumption.
      + exact H7.
  Qed.

  Lemma custom_go_none : forall n ls i st, (length ls <= n)%nat -> parts_ok u (custom_go u ls i st None) ls i.
  Proof.
    induction n as [|n IH]; intros ls i st Hn.
    - destruct ls; [cbn; constructor|cbn in Hn; lia].
    - destruct ls as [|l rest]; [cbn; constructor|]. cbn [length] in Hn.
      cbn [custom_go]. destruct (is_blank u l) eqn:Hb.
      + apply parts_ok_blank_cons; [exact Hb|]. apply IH. lia.
      + destruct (negb (line_open (analyze_line st l)) || match rest with [] => true | _ => false end) eqn:E.
        * cbn [parts_ok length]. replace (i - i)%nat with O by lia. replace (S i - i)%nat with 1%nat by lia.
          cbn [firstn nth_error skipn]. repeat split; try lia; [constructor|exists l; split; [reflexivity|exact Hb]|].
          apply IH. lia.
        * assert (Hr : rest <> []) by (destruct rest; [rewrite orb_true_r in E; discriminate|discriminate]).
          destruct (custom_go_some rest (S i) (analyze_line st l) i Hr) as (b & st' & Hbd & Heq).
          rewrite Heq. cbn [parts_ok length]. replace (i - i)%nat with O by lia.
          replace (S b - i)%nat with (S (S b - S i)) by lia.
          cbn [firstn nth_error skipn]. repeat split; try lia; [constructor|exists l; split; [reflexivity|exact Hb]|].
          apply IH. rewrite skipn_length. lia.
  Qed.

  Theorem custom_generator_partition lines : parts_ok u (custom_generator u lines) lines 1.
  Proof. unfold custom_generator. apply (custom_go_none (length lines)). lia. Qed.
End P.
