(* C14 — reference notions used only in statements (definitions only). *)
From Coq Require Import List NArith ZArith Bool.
From RopeVerif.Lib Require Import Text.
From RopeVerif.C14 Require Import Base Regions.
Import ListNotations.
Open Scope N_scope.

(* offset o lies outside every region *)
Definition outside (rs : list region) (o : N) : bool :=
  forallb (fun r => negb ((r_start r <=? o) && (o <? r_end r))) rs.

(* no bracket character and no backslash outside the regions: every newline outside a region then ends a
   statement (or a blank/comment line) for Python's lexer *)
Fixpoint plain_outside_from (rs : list region) (r : text) (p : N) : bool :=
  match r with
  | [] => true
  | c :: r1 => (negb (outside rs p) || negb (is_open c || is_close c || (c =? cBSL))) && plain_outside_from rs r1 (N.succ p)
  end.
Definition plain_outside (rs : list region) (s : text) : bool := plain_outside_from rs s 0.

(* maximal run of lexer word characters around offset o: [a, b) *)
Fixpoint run_len (p : N -> bool) (r : text) : nat :=
  match r with
  | c :: r' => if p c then S (run_len p r') else O
  | [] => O
  end.
Definition lex_word_range (code : text) (o : nat) : nat * nat :=
  (S o - run_len lex_word_char (rev (firstn (S o) code)), o + run_len lex_word_char (skipn o code))%nat.

(* ranges (a, b) of line numbers: ascending, non-empty, pairwise disjoint, all >= lo *)
Fixpoint ranges_sorted (lo : nat) (rs : list (nat * nat)) : Prop :=
  match rs with
  | [] => True
  | (a, b) :: r => (lo <= a)%nat /\ (a <= b)%nat /\ ranges_sorted (S b) r
  end.

(* reference for a dotted name: the maximal run of word characters and dots around offset o (no spaces) *)
Definition lex_chain_char (c : N) : bool := lex_word_char c || (c =? cDOT).
Definition lex_chain_range (code : text) (o : nat) : nat * nat :=
  (S o - run_len lex_chain_char (rev (firstn (S o) code)), o + run_len lex_word_char (skipn o code))%nat.
