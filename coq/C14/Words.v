(* Model of rope.base.worder._RealFinder: word and primary (dotted expression) finders.
   Offsets are Z because the code walks to -1 and then indexes (Python's negative indexing is modelled).
   Loops carry explicit fuel; OutOfFuel is a distinct result.  Definitions only. *)
From Coq Require Import List NArith ZArith Bool.
From RopeVerif.Lib Require Import Text.
From RopeVerif.C14 Require Import Base.
Import ListNotations.
Open Scope Z_scope.

Definition lenZ (s : text) : Z := Z.of_nat (length s).

(* s[i] with Python semantics: negative i counts from the end; Err = IndexError *)
Definition getZ (s : text) (i : Z) : res N :=
  let j := if i <? 0 then i + lenZ s else i in
  if j <? 0 then Err
  else match nth_error s (Z.to_nat j) with Some c => Val c | None => Err end.

(* s[a:b] with Python semantics for any integers *)
Definition clampZ (s : text) (i : Z) : Z :=
  let j := if i <? 0 then i + lenZ s else i in
  if j <? 0 then 0 else if lenZ s <? j then lenZ s else j.
Definition sliceZ (s : text) (a b : Z) : text :=
  let a' := clampZ s a in let b' := clampZ s b in
  firstn (Z.to_nat (b' - a')) (skipn (Z.to_nat a') s).

(* keyword.kwlist of Python 3.12 *)
Definition keywords : list text :=
  [ [70;97;108;115;101]; [78;111;110;101]; [84;114;117;101]; [97;110;100]; [97;115]; [97;115;115;101;114;116];
    [97;115;121;110;99]; [97;119;97;105;116]; [98;114;101;97;107]; [99;108;97;115;115];
    [99;111;110;116;105;110;117;101]; [100;101;102]; [100;101;108]; [101;108;105;102]; [101;108;115;101];
    [101;120;99;101;112;116]; [102;105;110;97;108;108;121]; [102;111;114]; [102;114;111;109];
    [103;108;111;98;97;108]; [105;102]; [105;109;112;111;114;116]; [105;110]; [105;115];
    [108;97;109;98;100;97]; [110;111;110;108;111;99;97;108]; [110;111;116]; [111;114]; [112;97;115;115];
    [114;97;105;115;101]; [114;101;116;117;114;110]; [116;114;121]; [119;104;105;108;101]; [119;105;116;104];
    [121;105;101;108;100] ]%N.
Definition iskeyword (w : text) : bool := existsb (text_eqb w) keywords.
Definition s_from : text := [102;114;111;109]%N.

Section Finder.
  Variable u : utable.
  Variable code : text.        (* simplified source (real_code) *)
  Variable raw : text.         (* original source *)
  Variable L : Z.              (* len(code), computed once by the caller: L = L *)
  Variable F : nat.            (* fuel, computed once by the caller: F = fuel_for code *)
  Variable as_found : bool.    (* true = _follows_dot as introduced by rope 2b4039e (kept as history: it took the dot of a
                                  float literal for an attribute access); false = the current code (06a46a8) *)

  (* code[i] and code[a:b] with the length passed in *)
  Definition getC (i : Z) : res N :=
    let j := if i <? 0 then i + L else i in
    if j <? 0 then Err
    else match nth_error code (Z.to_nat j) with Some c => Val c | None => Err end.
  Definition clampC (i : Z) : Z :=
    let j := if i <? 0 then i + L else i in
    if j <? 0 then 0 else if L <? j then L else j.
  Definition sliceC (a b : Z) : text :=
    let a' := clampC a in let b' := clampC b in
    firstn (Z.to_nat (b' - a')) (skipn (Z.to_nat a') code).

  Definition is_id (o : Z) : res bool := do c <- getC o; Val (is_id_char u c).
  Definition char_in (o : Z) (cs : list N) : res bool := do c <- getC o; Val (existsb (N.eqb c) cs).

  (* _find_word_start: while cur >= 0 and is_id(cur): cur -= 1; return cur + 1 *)
  Fixpoint word_start_go (fuel : nat) (cur : Z) : res Z :=
    match fuel with
    | O => OutOfFuel
    | S f =>
        if cur <? 0 then Val (cur + 1)
        else do b <- is_id cur; if b then word_start_go f (cur - 1) else Val (cur + 1)
    end.
  (* _find_word_end: while offset + 1 < len and is_id(offset + 1): offset += 1; return offset *)
  Fixpoint word_end_go (fuel : nat) (o : Z) : res Z :=
    match fuel with
    | O => OutOfFuel
    | S f =>
        if o + 1 <? L
        then do b <- is_id (o + 1); if b then word_end_go f (o + 1) else Val o
        else Val o
    end.

  Definition word_start (o : Z) : res Z := word_start_go F o.
  Definition word_end (o : Z) : res Z := word_end_go F o.

  (* _get_fixed_offset *)
  Definition fixed_offset (o : Z) : res Z :=
    if L <=? o then Val (o - 1)
    else
      do b <- is_id o;
      if b then Val o
      else
        do b1 <- (if 0 <? o then is_id (o - 1) else Val false);
        if b1 then Val (o - 1)
        else
          do b2 <- (if o <? L - 1 then is_id (o + 1) else Val false);
          if b2 then Val (o + 1) else Val o.

  Definition get_word_at (o : Z) : res text :=
    do f <- fixed_offset o; do a <- word_start f; do b <- word_end f; Val (sliceZ raw a (b + 1)).

  Definition get_word_range (o : Z) : res (Z * Z) :=
    let o := Z.max 0 o in
    do a <- word_start o; do b <- word_end o; Val (a, b + 1).

  (* _find_last_non_space_char *)
  Fixpoint last_non_space (fuel : nat) (o : Z) : res Z :=
    match fuel with
    | O => OutOfFuel
    | S f =>
        if o <? 0 then Val (Z.max (-1) o)
        else
          do c <- getC o;
          if isspace u c then (if (c =? cNL)%N then Val o else last_non_space f (o - 1))
          else Val (Z.max (-1) o)
    end.

  (* code.rindex(kind, 0, offset), 0 when absent *)
  Fixpoint rindex_go (fuel : nat) (kind : N) (i : Z) : Z :=
    match fuel with
    | O => 0
    | S f =>
        if i <? 0 then 0
        else match nth_error code (Z.to_nat i) with
             | Some c => if (c =? kind)%N then i else rindex_go f kind (i - 1)
             | None => rindex_go f kind (i - 1)
             end
    end.
  (* _find_string_start; a negative offset in the slice bound follows Python (end counted from the end) *)
  Definition string_start (o : Z) : res Z :=
    do kind <- getC o;
    let stop := clampC o in
    Val (rindex_go (S (length code)) kind (stop - 1)).

  (* _follows_dot(offset): the last non-space character before offset is a dot, and (06a46a8) that dot does not end a
     number: the word before it, if any, does not start with a digit *)
  Definition follows_dot (o : Z) : res bool :=
    do prev <- last_non_space F (o - 1);
    if prev <? 0 then Val false
    else
      do cp <- getC prev;
      if negb (cp =? cDOT)%N then Val false
      else if as_found then Val true
      else
        do before <- last_non_space F (prev - 1);
        if before <? 0 then Val true
        else
          do b <- is_id before;
          if negb b then Val true
          else do ws <- word_start before; do c <- getC ws; Val (negb (isdigit u c)).

  Definition c_open3 : list N := [91; 40; 123]%N.           (* open brackets *)
  Definition c_colon_comma : list N := [58; 44]%N.          (* colon, comma *)
  Definition c_quotes : list N := [39; 34]%N.               (* both quotes *)
  Definition c_close3 : list N := [41; 93; 125]%N.          (* closing brackets *)
  Definition c_close2 : list N := [41; 93]%N.               (* ) and ] *)
  Definition c_atom_end : list N := [34; 39; 125; 41; 93]%N.  (* quotes and closing brackets *)

  (* the mutually recursive finders, one fuel for all: `which` selects the function
       0 = _find_primary_start   1 = _find_primary_without_dot_start   2 = _find_parens_start
       3 = _find_atom_start      4 = loop of _find_parens_start        5 = loop 1 of primary_without_dot (carries last_atom)
       6 = loop of _find_primary_start *)
  Fixpoint finder (fuel : nat) (which : nat) (o : Z) (aux : Z) {struct fuel} : res Z :=
    match fuel with
    | O => OutOfFuel
    | S f =>
        match which with
        | 0%nat =>   (* _find_primary_start(o) *)
            let o := if L <=? o then L - 1 else o in
            do c <- getC o;
            do o1 <- (if (c =? cDOT)%N then Val (o + 1) else finder f 1 o 0);
            finder f 6 o1 0
        | 6%nat =>   (* while offset > 0: ... *)
            if 0 <? o then
              do prev <- last_non_space F (o - 1);
              do cp <- getC prev;
              if negb (cp =? cDOT)%N then Val o
              else
                do pwe <- last_non_space F (prev - 1);
                (* code[pwe-3:pwe+1] == "from" and (pwe < 4 or not is_id_char(pwe - 4)) *)
                do isfrom <- (if text_eqb (sliceC (pwe - 3) (pwe + 1)) s_from
                              then (if pwe <? 4 then Val true else do b <- is_id (pwe - 4); Val (negb b))
                              else Val false);
                if isfrom then Val prev
                else
                  do o2 <- finder f 1 (prev - 1) 0;
                  do b <- is_id o2;
                  if b then finder f 6 o2 0 else Val o2
            else Val o
        | 1%nat =>   (* _find_primary_without_dot_start(o) *)
            do o1 <- last_non_space F o;
            finder f 5 o1 o
        | 5%nat =>   (* o = offset, aux = last_atom *)
            do again <- (if 0 <? o then char_in o c_close2 else Val false);
            if again then
              do la <- finder f 2 o 0;
              do o1 <- last_non_space F (la - 1);
              finder f 5 o1 la
            else
              do ok <- (if 0 <=? o
                        then do b1 <- char_in o c_atom_end; if b1 then Val true else is_id o
                        else Val false);
              if ok then
                do atom <- finder f 3 o 0;
                do nxt <- (if o + 1 <? L then is_id (o + 1) else Val false);
                if negb (iskeyword (sliceC atom (o + 1))) || nxt then Val atom
                else
                  (* or self._follows_dot(atom_start) *)
                  do fd <- follows_dot atom;
                  if fd then Val atom else Val aux
              else Val aux
        | 2%nat =>   (* _find_parens_start(o) *)
            do o1 <- last_non_space F (o - 1);
            finder f 4 o1 0
        | 4%nat =>   (* while offset >= 0 and code[offset] is not an opening bracket: ... *)
            if 0 <=? o then
              do isopen <- char_in o c_open3;
              if isopen then Val o
              else
                do sep <- char_in o c_colon_comma;
                do o1 <- (if sep then Val o else finder f 0 o 0);
                do o2 <- last_non_space F (o1 - 1);
                finder f 4 o2 0
            else Val o
        | 3%nat =>   (* _find_atom_start(o) *)
            do c <- getC o;
            if (c =? cNL)%N then Val (o + 1)
            else
              do o1 <- (if isspace u c then last_non_space F o else Val o);
              do q <- char_in o1 c_quotes;
              if q then string_start o1
              else
                do cl <- char_in o1 c_close3;
                if cl then finder f 2 o1 0
                else
                  do b <- is_id o1;
                  if b then word_start o1 else Val o
        | _ => Err
        end
    end.

  Definition primary_start (o : Z) : res Z := finder F 0 o 0.

  Definition get_primary_range (o : Z) : res (Z * Z) :=
    do a <- primary_start o; do b <- word_end o; Val (a, b + 1).

  Definition get_primary_at (o : Z) : res text :=
    do f <- fixed_offset o;
    do ab <- get_primary_range f;
    Val (strip u (sliceZ raw (fst ab) (snd ab))).
End Finder.

(* the character at offset i exists and its identifier-ness ((a + c).isidentifier()) is b *)
Definition idc (u : utable) (code : text) (i : Z) (b : bool) : Prop :=
  exists c, nth_error code (Z.to_nat i) = Some c /\ is_id_char u c = b.

Definition fuel_for (code : text) : nat := (4 * length code + 40)%nat.

(* the entry points: length and fuel are computed once per call *)
Definition w_word_range (u : utable) (code : text) (o : Z) : res (Z * Z) :=
  get_word_range u code (lenZ code) (fuel_for code) o.
Definition w_word_at (u : utable) (code raw : text) (o : Z) : res text :=
  get_word_at u code raw (lenZ code) (fuel_for code) o.
Definition w_primary_range (u : utable) (code : text) (o : Z) : res (Z * Z) :=
  get_primary_range u code (lenZ code) (fuel_for code) false o.
Definition w_primary_at (u : utable) (code raw : text) (o : Z) : res text :=
  get_primary_at u code raw (lenZ code) (fuel_for code) false o.
(* history: get_primary_range with _follows_dot as rope 2b4039e introduced it (before 06a46a8) *)
Definition w_primary_range_as_found_2b4039e (u : utable) (code : text) (o : Z) : res (Z * Z) :=
  get_primary_range u code (lenZ code) (fuel_for code) true o.
