(* Model of rope.base.simplify.ignored_regions: a hand-written scanner equivalent to re.finditer over
   the alternation COMMENT | (?P<prefix>[bBfFrRuU]{,4})(LONG_DQ | LONG_SQ | SHORT_DQ | SHORT_SQ)
   (patterns of rope.base.codeanalyze.get_comment_pattern / get_any_string_pattern; the four string bodies are
   spelled out at short_body / long_body below).
   Python's re module is modelled, not verified: the scanner is tied to it by the correspondence run.
   Why the scanner is deterministic: every repetition item is decided by its first character, so the
   greedy star stops at the first position where no item matches and backtracking over item boundaries
   can never find the closing quote(s) earlier.  Definitions only. *)
From Coq Require Import List NArith ZArith Bool.
From RopeVerif.Lib Require Import Text.
From RopeVerif.C14 Require Import Base.
Import ListNotations.
Open Scope N_scope.

Definition is_prefix_char (c : N) : bool :=            (* [bBfFrRuU] *)
  (c =? 98) || (c =? 66) || (c =? 102) || (c =? 70) || (c =? 114) || (c =? 82) || (c =? 117) || (c =? 85).

(* comment body: number of characters up to the next newline *)
Fixpoint until_nl (r : text) : nat :=
  match r with
  | [] => O
  | c :: r' => if c =? cNL then O else S (until_nl r')
  end.

(* short string after the opening quote q: items are backslash+any character, or any character other than q,
   backslash and newline; then q. Result: characters consumed, closing quote included *)
Fixpoint short_body (q : N) (r : text) : option nat :=
  match r with
  | [] => None
  | c :: r1 =>
      if c =? q then Some 1%nat
      else if c =? cBSL then
        match r1 with
        | [] => None
        | _ :: r2 => option_map (fun n => S (S n)) (short_body q r2)
        end
      else if c =? cNL then None
      else option_map S (short_body q r1)
  end.

(* long string after the opening qqq: items are backslash+any character, q not followed by qq, or any character
   other than q and backslash; then qqq *)
Fixpoint long_body (q : N) (r : text) : option nat :=
  match r with
  | [] => None
  | c :: r1 =>
      if c =? q then
        match r1 with
        | c1 :: c2 :: _ => if (c1 =? q) && (c2 =? q) then Some 3%nat else option_map S (long_body q r1)
        | _ => option_map S (long_body q r1)
        end
      else if c =? cBSL then
        match r1 with
        | [] => None
        | _ :: r2 => option_map (fun n => S (S n)) (long_body q r2)
        end
      else option_map S (long_body q r1)
  end.

(* the four alternatives in the order of the pattern, r starts at the quote *)
Definition string_at (r : text) : option nat :=
  match r with
  | q :: r1 =>
      if is_quote q then
        let long := match r1 with
                    | c1 :: c2 :: r3 =>
                        if (c1 =? q) && (c2 =? q) then option_map (fun n => (3 + n)%nat) (long_body q r3) else None
                    | _ => None
                    end in
        match long with
        | Some n => Some n
        | None => option_map S (short_body q r1)
        end
      else None
  | [] => None
  end.

(* [bBfFrRuU]{,k} then a string: (prefix length, length of the quoted part) *)
Fixpoint prefixed (k : nat) (r : text) : option (nat * nat) :=
  match r with
  | c :: r1 =>
      if is_prefix_char c then
        match k with
        | O => None
        | S k' => option_map (fun pn => (S (fst pn), snd pn)) (prefixed k' r1)
        end
      else option_map (fun n => (O, n)) (string_at r)
  | [] => None
  end.

(* a match starting exactly at the head of r: (total length, Some prefix | None for a comment).
   prev_w: the character before r is a \w character. The prefix group is  (?:(?<!\w)[bBfFrRuU]{1,4})?  : prefix
   letters only count when no word character precedes them; without the group the quote must be at the head. *)
Definition match_at (prev_w : bool) (r : text) : option (nat * option text) :=
  match r with
  | c :: r1 =>
      if c =? cHASH then Some (S (until_nl r1), None)
      else if is_prefix_char c && prev_w then None
      else match prefixed 4 r with
           | Some (p, n) => Some ((p + n)%nat, Some (firstn p r))
           | None => None
           end
  | [] => None
  end.

Definition region := (N * N * option text)%type.        (* (match.start(), match.end(), groupdict()["prefix"]) *)
Definition r_start (x : region) : N := fst (fst x).
Definition r_end (x : region) : N := snd (fst x).
Definition r_prefix (x : region) : option text := snd x.

(* finditer: p = offset of the head of r; skip = characters still covered by the previous match;
   pw = the character before the head is a \w character (the lookbehind sees the real text, also after a match) *)
Fixpoint scan_go (u : utable) (r : text) (p : N) (skip : nat) (pw : bool) : list region :=
  match r with
  | [] => []
  | c :: r1 =>
      match skip with
      | S k => scan_go u r1 (N.succ p) k (is_word_char u c)
      | O =>
          match match_at pw r with
          | Some (n, pre) => (p, p + N.of_nat n, pre) :: scan_go u r1 (N.succ p) (n - 1) (is_word_char u c)
          | None => scan_go u r1 (N.succ p) O (is_word_char u c)
          end
      end
  end.

Definition scan_regions (u : utable) (s : text) : list region := scan_go u s 0 O false.

(* ---------------------------------------------------------------------------------------------
   Reference: where Python's lexer starts a comment or a string literal.  A literal may start at a quote,
   or at a *whole* word (maximal run of identifier characters, preceded by a non-identifier character)
   that is one of the legal prefixes r u b f br rb fr rf (any case); inside a word nothing starts.
   Identifier characters for the lexer: ASCII letters, digits, underscore and everything >= 128. *)
Definition lex_word_char (c : N) : bool := ascii_alnum c || (c =? cUNDER) || (128 <=? c).

Definition lower (c : N) : N := if (65 <=? c) && (c <=? 90) then c + 32 else c.

Definition legal_prefix (p : text) : bool :=
  let l := map lower p in
  existsb (text_eqb l)
    [[]; [114]; [117]; [98]; [102]; [98; 114]; [114; 98]; [102; 114]; [114; 102]].

(* like match_at, but a prefixed literal needs a lexer word boundary before it and a legal prefix *)
Definition ref_match_at (prev_word : bool) (r : text) : option (nat * option text) :=
  match match_at false r with
  | Some (n, Some pre) =>
      match pre with
      | [] => Some (n, Some pre)
      | _ => if negb prev_word && legal_prefix pre then Some (n, Some pre) else None
      end
  | other => other
  end.

Fixpoint ref_go (r : text) (p : N) (skip : nat) (prev_word : bool) : list region :=
  match r with
  | [] => []
  | c :: r1 =>
      match skip with
      | S k => ref_go r1 (N.succ p) k (lex_word_char c)
      | O =>
          match ref_match_at prev_word r with
          | Some (n, pre) => (p, p + N.of_nat n, pre) :: ref_go r1 (N.succ p) (n - 1) (lex_word_char c)
          | None => ref_go r1 (N.succ p) O (lex_word_char c)
          end
      end
  end.

Definition ref_regions (s : text) : list region := ref_go s 0 O false.

(* the same scan as scan_go, reporting for every region whether the character before it is a lexer word character *)
Fixpoint scan_ext_go (u : utable) (r : text) (p : N) (skip : nat) (pw pl : bool) : list (region * bool) :=
  match r with
  | [] => []
  | c :: r1 =>
      match skip with
      | S k => scan_ext_go u r1 (N.succ p) k (is_word_char u c) (lex_word_char c)
      | O =>
          match match_at pw r with
          | Some (n, pre) =>
              ((p, p + N.of_nat n, pre), pl) :: scan_ext_go u r1 (N.succ p) (n - 1) (is_word_char u c) (lex_word_char c)
          | None => scan_ext_go u r1 (N.succ p) O (is_word_char u c) (lex_word_char c)
          end
      end
  end.

Definition scan_ext (u : utable) (s : text) : list (region * bool) := scan_ext_go u s 0 O false false.

(* boolean side condition: every prefixed region carries a legal prefix spelling and is not preceded by a character
   that the lexer counts as a word character although it is not \w (a non-alphanumeric character above 127).
   Both can only fail on texts that are not valid programs (an identifier directly followed by a literal). *)
Definition region_clean (x : region * bool) : bool :=
  match r_prefix (fst x) with
  | Some ((_ :: _) as pre) => negb (snd x) && legal_prefix pre
  | _ => true
  end.
Definition prefix_sane (u : utable) (s : text) : bool := forallb region_clean (scan_ext u s).

(* well-formed region list for a text of length n, starting at offset lo:
   ascending, disjoint, inside the text; comments have length >= 1, strings length >= 2 *)
Fixpoint regions_wf_from (s : text) (lo : N) (rs : list region) : bool :=
  match rs with
  | [] => true
  | (a, b, pre) :: rest =>
      (lo <=? a) && (b <=? lenN s)
      && match pre with
         | None => (a <? b) && match getN s a with Some c => c =? cHASH | None => false end
         | Some _ => (a + 2 <=? b) && match getN s a with Some c => negb (c =? cHASH) | None => false end
         end
      && regions_wf_from s b rest
  end.
Definition regions_wf (s : text) (rs : list region) : bool := regions_wf_from s 0 rs.
