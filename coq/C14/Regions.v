(* Model of rope.base.simplify.ignored_regions: a hand-written scanner equivalent to re.finditer over
   the alternation COMMENT | (?P<prefix>[bBfFrRuU]{,4})(LONG_DQ | LONG_SQ | SHORT_DQ | SHORT_SQ)
   (patterns of rope.base.codeanalyze.get_comment_pattern / get_any_string_pattern; the four string bodies are
   spelled out at short_body / long_body below).
   Python's re module is modelled, not verified: the scanner is tied to it by the correspondence run.
   Why the scanner is deterministic: every repetition item is decided by its first character, so the
   greedy star stops at the first position where no item matches and backtracking over item boundaries
   can never find the closing quote(s) earlier.  Definitions only. *)
From Coq Require Import List NArith ZArith Bool.
From RopeVerif.Lib Require Import Text.
From RopeVerif.C14 Require Import Base.
Import ListNotations.
Open Scope N_scope.

Definition is_prefix_char (c : N) : bool :=            (* [bBfFrRuU] *)
  (c =? 98) || (c =? 66) || (c =? 102) || (c =? 70) || (c =? 114) || (c =? 82) || (c =? 117) || (c =? 85).

(* comment body: number of characters up to the next newline *)
Fixpoint until_nl (r : text) : nat :=
  match r with
  | [] => O
  | c :: r' => if c =? cNL then O else S (until_nl r')
  end.

(* short string after the opening quote q: items are backslash+any character, or any character other than q,
   backslash and newline; then q. Result: characters consumed, closing quote included *)
Fixpoint short_body (q : N) (r : text) : option nat :=
  match r with
  | [] => None
  | c :: r1 =>
      if c =? q then Some 1%nat
      else if c =? cBSL then
        match r1 with
        | [] => None
        | _ :: r2 => option_map (fun n => S (S n)) (short_body q r2)
        end
      else if c =? cNL then None
      else option_map S (short_body q r1)
  end.

(* long string after the opening qqq: items are backslash+any character, q not followed by qq, or any character
   other than q and backslash; then qqq *)
Fixpoint long_body (q : N) (r : text) : option nat :=
  match r with
  | [] => None
  | c :: r1 =>
      if c =? q then
        match r1 with
        | c1 :: c2 :: _ => if (c1 =? q) && (c2 =? q) then Some 3%nat else option_map S (long_body q r1)
        | _ => option_map S (long_body q r1)
        end
      else if c =? cBSL then
        match r1 with
        | [] => None
        | _ :: r2 => option_map (fun n => S (S n)) (long_body q r2)
        end
      else option_map S (long_body q r1)
  end.

(* the four alternatives in the order of the pattern, r starts at the quote *)
Definition string_at (r : text) : option nat :=
  match r with
  | q :: r1 =>
      if is_quote q then
        let long := match r1 with
                    | c1 :: c2 :: r3 =>
                        if (c1 =? q) && (c2 =? q) then option_map (fun n => (3 + n)%nat) (long_body q r3) else None
                    | _ => None
                    end in
        match long with
        | Some n => Some n
        | None => option_map S (short_body q r1)
        end
      else None
  | [] => None
  end.

(* [bBfFrRuU]{,k} then a string: (prefix length, length of the quoted part) *)
Fixpoint prefixed (k : nat) (r : text) : option (nat * nat) :=
  match r with
  | c :: r1 =>
      if is_prefix_char c then
        match k with
        | O => None
        | S k' => option_map (fun pn => (S (fst pn), snd pn)) (prefixed k' r1)
        end
      else option_map (fun n => (O, n)) (string_at r)
  | [] => None
  end.

(* a match starting exactly at the head of r: (total length, Some prefix | None for a comment).
   prev_w: the character before r is a \w character. The prefix group is  (?:(?<!\w)[bBfFrRuU]{1,4})?  : prefix
   letters only count when no word character precedes them; without the group the quote must be at the head. *)
Definition match_at (prev_w : bool) (r : text) : option (nat * option text) :=
  match r with
  | c :: r1 =>
      if c =? cHASH then Some (S (until_nl r1), None)
      else if is_prefix_char c && prev_w then None
      else match prefixed 4 r with
           | Some (p, n) => Some ((p + n)%nat, Some (firstn p r))
           | None => None
           end
  | [] => None
  end.

Definition region := (N * N * option text)%type.        (* (match.start(), match.end(), groupdict()["prefix"]) *)
Definition r_start (x : region) : N := fst (fst x).
Definition r_end (x : region) : N := snd (fst x).
Definition r_prefix (x : region) : option text := snd x.

(* finditer: p = offset of the head of r; skip = characters still covered by the previous match;
   pw = the character before the head is a \w character (the lookbehind sees the real text, also after a match) *)
Fixpoint scan_go (u : utable) (r : text) (p : N) (skip : nat) (pw : bool) : list region :=
  match r with
  | [] => []
  | c :: r1 =>
      match skip with
      | S k => scan_go u r1 (N.succ p) k (is_word_char u c)
      | O =>
          match match_at pw r with
          | Some (n, pre) => (p, p + N.of_nat n, pre) :: scan_go u r1 (N.succ p) (n - 1) (is_word_char u c)
          | None => scan_go u r1 (N.succ p) O (is_word_char u c)
          end
      end
  end.

Definition scan_regions (u : utable) (s : text) : list region := scan_go u s 0 O false.

(* ---------------------------------------------------------------------------------------------
   Reference: where Python's lexer starts a comment or a string literal.  A literal may start at a quote,
   or at a *whole* word (maximal run of identifier characters, preceded by a non-identifier character)
   that is one of the legal prefixes r u b f br rb fr rf (any case); inside a word nothing starts.
   Identifier characters for the lexer: ASCII letters, digits, underscore and everything >= 128. *)
Definition lex_word_char (c : N) : bool := ascii_alnum c || (c =? cUNDER) || (128 <=? c).

Definition lower (c : N) : N := if (65 <=? c) && (c <=? 90) then c + 32 else c.

Definition legal_prefix (p : text) : bool :=
  let l := map lower p in
  existsb (text_eqb l)
    [[]; [114]; [117]; [98]; [102]; [98; 114]; [114; 98]; [102; 114]; [114; 102]].

(* ---- Python 3.12 f-strings (PEP 701): the extent of an f-string with nested replacement fields.
   d = the delimiter (one or three quote characters), raw = the prefix has an r.
   Modes: literal part; expression part of a replacement field (bracket depth, the word read so far — a quote after
   a legal prefix word starts a nested, possibly f-, literal, even with the enclosing quote character); format spec.
   stack: where each open replacement field returns to (false = literal part, true = a format spec). *)
Inductive fmode := FLit | FExpr (depth : Z) (word : text) | FSpec.

Fixpoint starts_with (d r : text) : bool :=
  match d, r with
  | [], _ => true
  | x :: d', y :: r' => (x =? y) && starts_with d' r'
  | _ :: _, [] => false
  end.

Fixpoint until_char (k : N) (r : text) : option nat :=      (* characters up to and including the first k *)
  match r with
  | [] => None
  | c :: r' => if c =? k then Some 1%nat else option_map S (until_char k r')
  end.

Definition has_f_text (p : text) : bool := existsb (fun c => (c =? 102) || (c =? 70)) p.
Definition has_r_text (p : text) : bool := existsb (fun c => (c =? 114) || (c =? 82)) p.
Definition delim_of (r : text) : text :=
  match r with
  | q :: c1 :: c2 :: _ => if (c1 =? q) && (c2 =? q) then [q; q; q] else [q]
  | q :: _ => [q]
  | [] => []
  end.

Fixpoint fscan (fuel : nat) (d : text) (raw : bool) (m : fmode) (stack : list bool) (r : text) {struct fuel} : option nat :=
  match fuel with
  | O => None
  | S f =>
      let skip1 m' st' := match r with _ :: r1 => option_map S (fscan f d raw m' st' r1) | [] => None end in
      let skip2 m' := match r with _ :: _ :: r2 => option_map (fun n => S (S n)) (fscan f d raw m' stack r2) | _ => None end in
      let pop := match stack with
                 | b :: st' => skip1 (if b then FSpec else FLit) st'
                 | [] => None
                 end in
      match r with
      | [] => None
      | c :: r1 =>
          match m with
          | FLit =>
              if starts_with d r then Some (length d)
              else if c =? 123 then
                match r1 with
                | c1 :: _ => if c1 =? 123 then skip2 FLit else skip1 (FExpr 0 []) (false :: stack)
                | [] => None
                end
              else if c =? 125 then
                match r1 with
                | c1 :: _ => if c1 =? 125 then skip2 FLit else None
                | [] => None
                end
              else if c =? cBSL then
                match r1 with
                | [] => None
                | n :: r2 =>
                    if (n =? 123) || (n =? 125) then skip1 FLit stack
                    else if negb raw && (n =? 78) && match r2 with c2 :: _ => c2 =? 123 | [] => false end then
                      match until_char 125 r2 with
                      | Some k => option_map (fun x => (2 + k + x)%nat) (fscan f d raw FLit stack (skipn k r2))
                      | None => None
                      end
                    else skip2 FLit
                end
              else if (c =? cNL) && Nat.eqb (length d) 1 then None
              else skip1 FLit stack
          | FExpr depth word =>
              if is_quote c then
                let w := map lower word in
                let n :=
                  if legal_prefix w && has_f_text w then
                    let d' := delim_of r in
                    option_map (fun x => (length d' + x)%nat) (fscan f d' (has_r_text w) FLit [] (skipn (length d') r))
                  else string_at r in
                match n with
                | Some k => option_map (fun x => (k + x)%nat) (fscan f d raw (FExpr depth []) stack (skipn k r))
                | None => None
                end
              else if is_open c then skip1 (FExpr (depth + 1) []) stack
              else if (c =? 41) || (c =? 93) then skip1 (FExpr (depth - 1) []) stack
              else if c =? 125 then (if (depth =? 0)%Z then pop else skip1 (FExpr (depth - 1) []) stack)
              else if (c =? 58) && (depth =? 0)%Z then skip1 FSpec stack
              else if c =? cHASH then
                let k := until_nl r in
                option_map (fun x => (k + x)%nat) (fscan f d raw (FExpr depth []) stack (skipn k r))
              else skip1 (FExpr depth (if lex_word_char c then word ++ [c] else [])) stack
          | FSpec =>
              if c =? 123 then skip1 (FExpr 0 []) (true :: stack)
              else if c =? 125 then pop
              else if starts_with d r then None
              else if (c =? cNL) && Nat.eqb (length d) 1 then None
              else if (c =? cBSL) && match r1 with n :: _ => negb ((n =? 123) || (n =? 125)) | [] => false end then skip2 FSpec
              else skip1 FSpec stack
          end
      end
  end.

(* r starts at the opening quote of an f-string: characters up to and including the closing delimiter *)
Definition fstring_ref (raw : bool) (r : text) : option nat :=
  let d := delim_of r in
  option_map (fun x => (length d + x)%nat) (fscan (S (length r)) d raw FLit [] (skipn (length d) r)).

(* number of leading prefix letters (at most 5 are counted) *)
Fixpoint prefix_run (k : nat) (r : text) : nat :=
  match k, r with
  | S k', c :: r1 => if is_prefix_char c then S (prefix_run k' r1) else O
  | _, _ => O
  end.

(* what the lexer starts at the head of r: a comment, a literal at a quote, or — at a word boundary — a legal
   prefix followed by a literal; f-literals extend as Python 3.12 nests them *)
Definition ref_match_at (prev_word : bool) (r : text) : option (nat * option text) :=
  match r with
  | c :: r1 =>
      if c =? cHASH then Some (S (until_nl r1), None)
      else if is_quote c then option_map (fun n => (n, Some [])) (string_at r)
      else if is_prefix_char c && negb prev_word then
        let p := prefix_run 5 r in
        let pre := firstn p r in
        let rest := skipn p r in
        match rest with
        | q :: _ =>
            if is_quote q && legal_prefix pre then
              option_map (fun n => ((p + n)%nat, Some pre))
                         (if has_f_text pre then fstring_ref (has_r_text pre) rest else string_at rest)
            else None
        | [] => None
        end
      else None
  | [] => None
  end.

Fixpoint ref_go (r : text) (p : N) (skip : nat) (prev_word : bool) : list region :=
  match r with
  | [] => []
  | c :: r1 =>
      match skip with
      | S k => ref_go r1 (N.succ p) k (lex_word_char c)
      | O =>
          match ref_match_at prev_word r with
          | Some (n, pre) => (p, p + N.of_nat n, pre) :: ref_go r1 (N.succ p) (n - 1) (lex_word_char c)
          | None => ref_go r1 (N.succ p) O (lex_word_char c)
          end
      end
  end.

Definition ref_regions (s : text) : list region := ref_go s 0 O false.

Definition match_eqb (a b : option (nat * option text)) : bool :=
  match a, b with
  | Some (n, pa), Some (m, pb) =>
      Nat.eqb n m && match pa, pb with Some x, Some y => text_eqb x y | None, None => true | _, _ => false end
  | None, None => true
  | _, _ => false
  end.

(* boolean side condition of C14_regions_are_tokens_partial: at every position the scanner reaches whose head is a
   prefix letter, the regular expression and the lexer start the same thing. It fails exactly for: an illegal prefix
   spelling in front of a literal, a prefix directly after a non-alphanumeric character above 127 (both: not valid
   programs), and an f-literal whose extent under 3.12 nesting differs from the regular expression's (open finding). *)
Fixpoint lex_sane_go (u : utable) (r : text) (skip : nat) (pw pl : bool) : bool :=
  match r with
  | [] => true
  | c :: r1 =>
      match skip with
      | S k => lex_sane_go u r1 k (is_word_char u c) (lex_word_char c)
      | O =>
          (negb (is_prefix_char c) || match_eqb (match_at pw r) (ref_match_at pl r))
          && match match_at pw r with
             | Some (n, _) => lex_sane_go u r1 (n - 1) (is_word_char u c) (lex_word_char c)
             | None => lex_sane_go u r1 O (is_word_char u c) (lex_word_char c)
             end
      end
  end.
Definition lex_sane (u : utable) (s : text) : bool := lex_sane_go u s O false false.

(* well-formed region list for a text of length n, starting at offset lo:
   ascending, disjoint, inside the text; comments have length >= 1, strings length >= 2 *)
Fixpoint regions_wf_from (s : text) (lo : N) (rs : list region) : bool :=
  match rs with
  | [] => true
  | (a, b, pre) :: rest =>
      (lo <=? a) && (b <=? lenN s)
      && match pre with
         | None => (a <? b) && match getN s a with Some c => c =? cHASH | None => false end
         | Some _ => (a + 2 <=? b) && match getN s a with Some c => negb (c =? cHASH) | None => false end
         end
      && regions_wf_from s b rest
  end.
Definition regions_wf (s : text) (rs : list region) : bool := regions_wf_from s 0 rs.
