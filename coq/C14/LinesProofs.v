(* Proofs about the SourceLinesAdapter model: sortedness of starts, inverse laws, lines partition the text. *)
From Coq Require Import List NArith ZArith Bool Lia.
From RopeVerif.Lib Require Import Text.
From RopeVerif.C14 Require Import Base Lines.
Import ListNotations.
Open Scope N_scope.

Lemma lenN_cons c s : lenN (c :: s) = N.succ (lenN s).
Proof. unfold lenN. cbn [length]. lia. Qed.

Lemma lenN_app a b : lenN (a ++ b) = lenN a + lenN b.
Proof. unfold lenN. rewrite app_length. lia. Qed.

Lemma nl_starts_bounds s : forall i x, In x (nl_starts i s) -> i < x /\ x <= i + lenN s.
Proof.
  induction s as [|c r IH]; intros i x H; cbn [nl_starts] in H; [contradiction|].
  rewrite lenN_cons.
  destruct (c =? cNL).
  - destruct H as [<-|H]; [lia|]. apply IH in H. lia.
  - apply IH in H. lia.
Qed.

Lemma increasing_cons_all x l : increasing l -> (forall y, In y l -> x < y) -> increasing (x :: l).
Proof.
  intros Hl Hx. cbn [increasing]. split; [|exact Hl].
  destruct l as [|y r]; [exact I|]. apply Hx. left; reflexivity.
Qed.

Lemma increasing_head_lt x l : increasing (x :: l) -> forall y, In y l -> x < y.
Proof.
  revert x; induction l as [|z r IH]; intros x H y Hy; [contradiction|].
  cbn [increasing] in H. destruct H as [Hxz Hr].
  destruct Hy as [<-|Hy]; [exact Hxz|].
  assert (z < y) by (apply IH; assumption). lia.
Qed.

Lemma increasing_tail x l : increasing (x :: l) -> increasing l.
Proof. cbn [increasing]. tauto. Qed.

Lemma increasing_app_last l z : increasing l -> (forall y, In y l -> y < z) -> increasing (l ++ [z]).
Proof.
  induction l as [|x r IH]; intros Hl Hz; [cbn; tauto|].
  cbn [app]. apply increasing_cons_all.
  - apply IH; [eapply increasing_tail; eassumption|]. intros y Hy. apply Hz. right; exact Hy.
  - intros y Hy. apply in_app_or in Hy. destruct Hy as [Hy|[<-|[]]].
    + eapply increasing_head_lt; eassumption.
    + apply Hz. left; reflexivity.
Qed.

Lemma nl_starts_increasing s : forall i, increasing (nl_starts i s).
Proof.
  induction s as [|c r IH]; intros i; cbn [nl_starts]; [exact I|].
  destruct (c =? cNL); [|apply IH].
  apply increasing_cons_all; [apply IH|].
  intros y Hy. apply nl_starts_bounds in Hy. lia.
Qed.

Theorem starts_sorted s : increasing (line_starts s).
Proof.
  unfold line_starts. apply increasing_cons_all.
  - apply increasing_app_last; [apply nl_starts_increasing|].
    intros y Hy. apply nl_starts_bounds in Hy. lia.
  - intros y Hy. apply in_app_or in Hy. destruct Hy as [Hy|[<-|[]]].
    + apply nl_starts_bounds in Hy. lia.
    + lia.
Qed.

(* bisect on an increasing list *)
Lemma bisect_right_nth l : increasing l -> forall k a, nth_error l k = Some a -> bisect_right l a = S k.
Proof.
  induction l as [|x r IH]; intros Hl k a Hk; [destruct k; discriminate|].
  cbn [bisect_right]. destruct k as [|k]; cbn [nth_error] in Hk.
  - injection Hk as ->. rewrite N.ltb_irrefl. f_equal.
    destruct r as [|y r']; [reflexivity|]. cbn [bisect_right].
    assert (a < y) by (eapply increasing_head_lt; [eassumption|left; reflexivity]).
    destruct (N.ltb_spec a y); [reflexivity|lia].
  - assert (x < a) by (eapply increasing_head_lt; [eassumption|eapply nth_error_In; eassumption]).
    destruct (N.ltb_spec a x); [lia|]. f_equal. apply IH; [eapply increasing_tail; eassumption|exact Hk].
Qed.

Lemma bisect_right_between l : increasing l -> forall o k a b,
  nth_error l k = Some a -> nth_error l (S k) = Some b -> a <= o -> o < b -> bisect_right l o = S k.
Proof.
  induction l as [|x r IH]; intros Hl o k a b Ha Hb Hao Hob; [destruct k; discriminate|].
  cbn [bisect_right]. destruct k as [|k]; cbn [nth_error] in Ha, Hb.
  - injection Ha as ->. destruct (N.ltb_spec o a); [lia|]. f_equal.
    destruct r as [|y r']; [discriminate|]. cbn [nth_error] in Hb. injection Hb as ->.
    cbn [bisect_right]. destruct (N.ltb_spec o b); [reflexivity|lia].
  - assert (x < a) by (eapply increasing_head_lt; [eassumption|eapply nth_error_In; eassumption]).
    destruct (N.ltb_spec o x); [lia|]. f_equal.
    eapply IH; try eassumption. eapply increasing_tail; eassumption.
Qed.

(* for an increasing list and an offset between its first and last element, bisect lands in a proper slot *)
Lemma bisect_right_slot l : increasing l -> forall o first last,
  nth_error l 0 = Some first -> nth_error l (length l - 1) = Some last -> first <= o -> o < last ->
  exists k a b, bisect_right l o = S k /\ nth_error l k = Some a /\ nth_error l (S k) = Some b /\ a <= o /\ o < b.
Proof.
  induction l as [|x r IH]; intros Hl o first last Hf Hlast Hfo Hol; [discriminate|].
  cbn [nth_error] in Hf. injection Hf as ->.
  destruct r as [|y r'].
  - cbn in Hlast. injection Hlast as ->. lia.
  - destruct (N.ltb_spec o y) as [Hoy|Hoy].
    + exists 0%nat, first, y. cbn [bisect_right nth_error].
      destruct (N.ltb_spec o first); [lia|]. destruct (N.ltb_spec o y); [|lia]. repeat split; try reflexivity; assumption.
    + assert (Hlast' : nth_error (y :: r') (length (y :: r') - 1) = Some last).
      { cbn [length] in *. replace (S (S (length r')) - 1)%nat with (S (length r')) in Hlast by lia.
        cbn [nth_error] in Hlast. replace (S (length r') - 1)%nat with (length r') by lia. exact Hlast. }
      destruct (IH (increasing_tail _ _ Hl) o y last eq_refl Hlast' Hoy Hol) as (k & a & b & Hb & Hka & Hkb & Hao & Hob).
      exists (S k), a, b.
      change (bisect_right (first :: y :: r') o) with (if o <? first then O else S (bisect_right (y :: r') o)).
      destruct (N.ltb_spec o first); [lia|].
      rewrite Hb. repeat split; try reflexivity; assumption.
Qed.

Lemma line_starts_length s : length (line_starts s) = S (S (length (nl_starts 0 s))).
Proof. unfold line_starts. cbn [length]. rewrite app_length. cbn [length]. lia. Qed.

Lemma line_starts_last s : nth_error (line_starts s) (length (line_starts s) - 1) = Some (lenN s + 1).
Proof.
  rewrite line_starts_length. unfold line_starts.
  replace (S (S (length (nl_starts 0 s))) - 1)%nat with (S (length (nl_starts 0 s))) by lia.
  cbn [nth_error]. rewrite nth_error_app2 by lia. rewrite Nat.sub_diag. reflexivity.
Qed.

(* line -> offset -> line *)
Theorem line_offset_inverse s n a : line_start s n = Some a -> line_number s a = n.
Proof.
  unfold line_start, line_number. destruct n as [|k]; [discriminate|]. intros H.
  apply bisect_right_nth; [apply starts_sorted|exact H].
Qed.

(* offset -> line -> offsets around it *)
Theorem offset_line s o : o <= lenN s ->
  exists a b, (1 <= line_number s o <= length_lines s)%nat
    /\ line_start s (line_number s o) = Some a /\ line_end s (line_number s o) = Some b /\ a <= o /\ o <= b.
Proof.
  intros Ho.
  destruct (bisect_right_slot (line_starts s) (starts_sorted s) o 0 (lenN s + 1) eq_refl (line_starts_last s))
    as (k & a & b & Hb & Hka & Hkb & Hao & Hob); [lia|lia|].
  exists a, (N.pred b). unfold line_number. rewrite Hb. unfold line_start, line_end, length_lines.
  rewrite Hka, Hkb. cbn [option_map].
  assert (S k < length (line_starts s))%nat by (apply nth_error_Some; congruence).
  repeat split; try reflexivity; lia.
Qed.

(* ------------------------------------------------------------------ lines partition the text *)
Lemma split_nl_nonempty s : split_nl s <> [].
Proof.
  destruct s as [|c r]; cbn [split_nl]; [discriminate|].
  destruct (c =? cNL); [discriminate|]. destruct (split_nl r); discriminate.
Qed.

Lemma join_split s : join_nl (split_nl s) = s.
Proof.
  induction s as [|c r IH]; [reflexivity|]. cbn [split_nl].
  pose proof (split_nl_nonempty r) as Hne.
  destruct (split_nl r) as [|l ls]; [congruence|].
  destruct (N.eqb_spec c cNL) as [->|Hc].
  - unfold join_nl in *. cbn [map concat app]. rewrite IH. reflexivity.
  - unfold join_nl in *. cbn [app]. rewrite IH. reflexivity.
Qed.

Lemma split_nl_no_newline s : Forall (fun l => ~ In cNL l) (split_nl s).
Proof.
  induction s as [|c r IH]; cbn [split_nl]; [constructor; [intros []|constructor]|].
  destruct (N.eqb_spec c cNL) as [->|Hc].
  - constructor; [intros []|exact IH].
  - destruct (split_nl r) as [|l ls]; [constructor; [|constructor]|].
    + intros [H|[]]. congruence.
    + inversion IH; subst. constructor; [|assumption]. intros [H|H]; [congruence|contradiction].
Qed.

(* all_lines lists exactly get_line(1), ..., get_line(length) *)
Lemma segs_nth s : forall st a k,
  nth_error (segs a st s) k =
  match nth_error (a :: st) k, nth_error (a :: st) (S k) with
  | Some x, Some y => Some (sliceN x (N.pred y) s)
  | _, _ => None
  end.
Proof.
  induction st as [|b r IH]; intros a k.
  - cbn [segs]. destruct k as [|k]; cbn [nth_error]; [reflexivity|]. destruct k; reflexivity.
  - cbn [segs]. destruct k as [|k].
    + cbn [nth_error]. rewrite N.sub_1_r. reflexivity.
    + cbn [nth_error]. rewrite IH. reflexivity.
Qed.

Theorem all_lines_get_line s n : (1 <= n)%nat -> nth_error (all_lines s) (n - 1) = get_line s n.
Proof.
  intros Hn. destruct n as [|k]; [lia|]. replace (S k - 1)%nat with k by lia.
  unfold all_lines, get_line, line_start, line_end, line_starts. rewrite segs_nth.
  destruct (nth_error _ k); [|reflexivity]. destruct (nth_error _ (S k)); reflexivity.
Qed.

Lemma all_lines_segs s : all_lines s = segs 0 (nl_starts 0 s ++ [lenN s + 1]) s.
Proof. reflexivity. Qed.

Lemma skipn_exact {A} (pre x : list A) : skipn (length pre) (pre ++ x) = x.
Proof. induction pre; cbn; auto. Qed.

Lemma sliceN_at pre x a b : lenN pre = a -> sliceN a b (pre ++ x) = firstn (N.to_nat (b - a)) x.
Proof.
  intros <-. unfold sliceN, lenN. rewrite Nat2N.id. rewrite skipn_exact. reflexivity.
Qed.

Lemma segs_shift c pre r : forall st a, lenN pre = a -> st <> [] -> (forall y, In y st -> a + 1 < y) -> increasing st ->
  segs a st (pre ++ c :: r) =
  match segs (a + 1) st (pre ++ c :: r) with
  | l :: ls => (c :: l) :: ls
  | [] => []
  end.
Proof.
  intros st a Ha Hne Hgt Hinc. destruct st as [|b t]; [congruence|].
  cbn [segs]. f_equal.
  assert (a + 1 < b) by (apply Hgt; left; reflexivity).
  rewrite (sliceN_at pre (c :: r) a (b - 1) Ha).
  replace (pre ++ c :: r) with ((pre ++ [c]) ++ r) by (rewrite <- app_assoc; reflexivity).
  rewrite (sliceN_at (pre ++ [c]) r (a + 1) (b - 1)) by (rewrite lenN_app, Ha; reflexivity).
  replace (N.to_nat (b - 1 - a)) with (S (N.to_nat (b - 1 - (a + 1)))) by lia. reflexivity.
Qed.

Lemma segs_split s : forall pre,
  segs (lenN pre) (nl_starts (lenN pre) s ++ [lenN pre + lenN s + 1]) (pre ++ s) = split_nl s.
Proof.
  induction s as [|c r IH]; intros pre.
  - cbn [nl_starts app segs split_nl]. f_equal.
    rewrite (sliceN_at pre [] (lenN pre)) by reflexivity. destruct (N.to_nat _); reflexivity.
  - cbn [nl_starts split_nl]. rewrite lenN_cons.
    specialize (IH (pre ++ [c])). rewrite lenN_app in IH. change (lenN [c]) with 1 in IH.
    rewrite <- app_assoc in IH. cbn [app] in IH.
    replace (lenN pre + 1 + lenN r + 1) with (lenN pre + N.succ (lenN r) + 1) in IH by lia.
    destruct (N.eqb_spec c cNL) as [->|Hc].
    + cbn [app segs]. rewrite <- N.add_1_r. rewrite IH. f_equal.
      rewrite (sliceN_at pre (cNL :: r) (lenN pre)) by reflexivity.
      replace (N.to_nat (lenN pre + 1 - 1 - lenN pre)) with O by lia. reflexivity.
    + rewrite <- N.add_1_r.
      rewrite segs_shift; [rewrite IH; destruct (split_nl r) eqn:E; [exfalso; eapply split_nl_nonempty; eassumption|reflexivity]
                          |reflexivity| | |].
      * destruct (nl_starts (lenN pre + 1) r); discriminate.
      * intros y Hy. apply in_app_or in Hy. destruct Hy as [Hy|[<-|[]]]; [apply nl_starts_bounds in Hy|]; lia.
      * apply increasing_app_last; [apply nl_starts_increasing|].
        intros y Hy. apply nl_starts_bounds in Hy. lia.
Qed.

Theorem all_lines_split s : all_lines s = split_nl s.
Proof. rewrite all_lines_segs. apply (segs_split s []). Qed.

Theorem lines_partition s : join_nl (all_lines s) = s.
Proof. rewrite all_lines_split. apply join_split. Qed.

Lemma split_nl_length s : length (split_nl s) = S (length (nl_starts 0 s)).
Proof.
  assert (H : forall i, length (split_nl s) = S (length (nl_starts i s))).
  { induction s as [|c r IH]; intros i; cbn [split_nl nl_starts]; [reflexivity|].
    destruct (c =? cNL); cbn [length]; [rewrite (IH (N.succ i)); reflexivity|].
    specialize (IH (N.succ i)). destruct (split_nl r); cbn [length] in *; [discriminate IH|exact IH]. }
  apply H.
Qed.

Theorem all_lines_length s : length (all_lines s) = length_lines s.
Proof.
  rewrite all_lines_split, split_nl_length. unfold length_lines. rewrite line_starts_length. lia.
Qed.
