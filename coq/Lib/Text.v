(* Shared conventions: text = list of Unicode code points (N); decimal rendering of naturals. *)
From Coq Require Import List NArith Bool Decimal DecimalN DecimalNat DecimalPos.
Import ListNotations.

Notation text := (list N).

Fixpoint text_eqb (a b : text) : bool :=
  match a, b with
  | [], [] => true
  | x :: a', y :: b' => N.eqb x y && text_eqb a' b'
  | _, _ => false
  end.

Lemma text_eqb_spec a b : reflect (a = b) (text_eqb a b).
Proof.
  revert b; induction a as [|x a IH]; intros [|y b]; cbn; try (constructor; congruence).
  destruct (N.eqb_spec x y); cbn; [|constructor; congruence].
  destruct (IH b); constructor; congruence.
Qed.

Lemma text_eqb_refl a : text_eqb a a = true.
Proof. destruct (text_eqb_spec a a); congruence. Qed.

Lemma text_eqb_eq a b : text_eqb a b = true <-> a = b.
Proof. destruct (text_eqb_spec a b); split; congruence. Qed.

(* ASCII decimal digits of a Decimal.uint, most significant first: Python's str(int) for n >= 0. *)
Fixpoint uint_to_text (u : uint) : text :=
  match u with
  | Nil => []
  | D0 u => 48%N :: uint_to_text u
  | D1 u => 49%N :: uint_to_text u
  | D2 u => 50%N :: uint_to_text u
  | D3 u => 51%N :: uint_to_text u
  | D4 u => 52%N :: uint_to_text u
  | D5 u => 53%N :: uint_to_text u
  | D6 u => 54%N :: uint_to_text u
  | D7 u => 55%N :: uint_to_text u
  | D8 u => 56%N :: uint_to_text u
  | D9 u => 57%N :: uint_to_text u
  end.

(* Python's int(s) restricted to non-empty ASCII decimal strings; anything else is None. *)
Fixpoint text_to_uint (t : text) : option uint :=
  match t with
  | [] => Some Nil
  | c :: t' =>
      match text_to_uint t' with
      | None => None
      | Some u =>
          if N.eqb c 48 then Some (D0 u) else if N.eqb c 49 then Some (D1 u)
          else if N.eqb c 50 then Some (D2 u) else if N.eqb c 51 then Some (D3 u)
          else if N.eqb c 52 then Some (D4 u) else if N.eqb c 53 then Some (D5 u)
          else if N.eqb c 54 then Some (D6 u) else if N.eqb c 55 then Some (D7 u)
          else if N.eqb c 56 then Some (D8 u) else if N.eqb c 57 then Some (D9 u)
          else None
      end
  end.

Lemma text_to_uint_to_text u : text_to_uint (uint_to_text u) = Some u.
Proof. induction u; cbn; try reflexivity; rewrite IHu; reflexivity. Qed.

Definition N_to_dec (n : N) : text := uint_to_text (N.to_uint n).
Definition dec_to_N (t : text) : option N :=
  match t with
  | [] => None
  | _ => option_map N.of_uint (text_to_uint t)
  end.

Lemma uint_to_text_nil u : uint_to_text u = [] -> u = Nil.
Proof. destruct u; cbn; congruence. Qed.

Lemma N_to_dec_nonempty n : N_to_dec n <> [].
Proof.
  unfold N_to_dec. intro H. apply uint_to_text_nil in H.
  destruct n as [|p]; cbn in H; [discriminate|].
  exact (DecimalPos.Unsigned.to_uint_nonnil p H).
Qed.

Lemma dec_to_N_to_dec n : dec_to_N (N_to_dec n) = Some n.
Proof.
  unfold dec_to_N. pose proof (N_to_dec_nonempty n) as H.
  destruct (N_to_dec n) eqn:E; [congruence|]. rewrite <- E. unfold N_to_dec.
  rewrite text_to_uint_to_text. cbn. f_equal. apply DecimalN.Unsigned.of_to.
Qed.

Definition is_ascii_digit (c : N) : bool := N.leb 48 c && N.leb c 57.

Lemma uint_to_text_digits u : forallb is_ascii_digit (uint_to_text u) = true.
Proof. induction u; cbn; try reflexivity; exact IHu. Qed.

Lemma N_to_dec_digits n : forallb is_ascii_digit (N_to_dec n) = true.
Proof. apply uint_to_text_digits. Qed.
