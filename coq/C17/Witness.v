(* C17 — concrete programs used as non-vacuity examples and as witnesses of the refutation lemmas.
   Interned names: __init__ 0, C 1, x 2, get_x 3, set_x 4, self 5, value 6, v 7, a 8, ident 9, o 10,
   noisy 11, n 12, inc 13, k 14, create 15, D 16, c 17, d 18. *)
From Coq Require Import List NArith ZArith Bool.
From RopeVerif.C17 Require Import Obj Refactor.
Import ListNotations.

Definition w_cfg : cfg := enc_cfg false 1 2 3 4 0 5 6.
Definition w_cfg_paren : cfg := enc_cfg true 1 2 3 4 0 5 6.

Definition w_init : mdef :=
  {| m_name := 0; m_static := false; m_params := [5%N; 7%N];
     m_body := BCode [SWrite true (EVar 5) 2 (EVar 7)] |}.
Definition w_ident : mdef :=
  {| m_name := 9; m_static := false; m_params := [10%N];
     m_body := BCode [SPrint (EInt 77); SReturn (EVar 10)] |}.
Definition w_noisy : mdef :=
  {| m_name := 11; m_static := false; m_params := [12%N];
     m_body := BCode [SPrint (EInt 88); SReturn (EVar 12)] |}.
Definition w_classC (ms : list mdef) : cdef := {| c_name := 1; c_base := None; c_methods := w_init :: ms |}.

(* ident(a).x += 1 *)
Definition w_aug_effect : prog :=
  {| p_classes := [w_classC []]; p_funcs := [w_ident];
     p_main := [SAssign 8 (ENew 1 [EInt 1]); SAug true (ECall 9 [EVar 8]) 2 Add (EInt 1);
                SPrint (EAttr true (EVar 8) 2)] |}.

(* a.x *= 1 + 2 *)
Definition w_aug_prec : prog :=
  {| p_classes := [w_classC []]; p_funcs := [];
     p_main := [SAssign 8 (ENew 1 [EInt 2]); SAug true (EVar 8) 2 Mul (EBin Add (EInt 1) (EInt 2));
                SPrint (EAttr true (EVar 8) 2)] |}.

(* ident(a).x = noisy(5) *)
Definition w_write_order : prog :=
  {| p_classes := [w_classC []]; p_funcs := [w_ident; w_noisy];
     p_main := [SAssign 8 (ENew 1 [EInt 1]); SWrite true (ECall 9 [EVar 8]) 2 (ECall 11 [EInt 5]);
                SPrint (EAttr true (EVar 8) 2)] |}.

(* a class with a method that reads, writes and augments self.x, a second class holding a C, a client
   that uses locals, a chain d.c.x, a fresh instance, a loop and a multi-operator right-hand side *)
Definition w_inc : mdef :=
  {| m_name := 13; m_static := false; m_params := [5%N; 12%N];
     m_body := BCode [SAug true (EVar 5) 2 Add (EVar 12);
                      SWrite true (EVar 5) 2 (EBin Mul (EAttr true (EVar 5) 2) (EInt 2));
                      SReturn (EAttr true (EVar 5) 2)] |}.
Definition w_classD : cdef :=
  {| c_name := 16; c_base := None; c_methods := [ {| m_name := 0; m_static := false; m_params := [5%N; 7%N];
       m_body := BCode [SWrite false (EVar 5) 17 (ENew 1 [EVar 7]); SWrite false (EVar 5) 2 (EInt 40)] |} ] |}.
Definition w_good : prog :=
  {| p_classes := [w_classC [w_inc]; w_classD]; p_funcs := [w_ident];
     p_main := [SAssign 8 (ENew 1 [EInt 3]);
                SAssign 18 (ENew 16 [EInt 5]);
                SPrint (EMeth (EVar 8) 13 [EInt 4]);
                SAssign 14 (EInt 0);
                SWhile (EBin Lt (EVar 14) (EInt 3))
                  [SAug true (EVar 8) 2 Sub (EParen (EBin Sub (EVar 14) (EInt 1)));
                   SAssign 14 (EBin Add (EVar 14) (EInt 1))];
                SWrite true (EAttr false (EVar 18) 17) 2 (EBin Add (EAttr true (EVar 8) 2) (EAttr false (EVar 18) 2));
                SAug true (EAttr false (EVar 18) 17) 2 Mul (EInt 3);
                SPrint (EAttr true (EAttr false (EVar 18) 17) 2);
                SPrint (EAttr true (ECall 9 [EVar 8]) 2);
                SPrint (EAttr true (ENew 1 [EInt 9]) 2);
                SPrint (EAttr false (EVar 18) 2)] |}.

(* class B (19) defines get_x; C inherits from it: EncapsulateField refuses the default accessor names *)
Definition w_inherit : prog :=
  {| p_classes := [ {| c_name := 19; c_base := None;
                       c_methods := [ {| m_name := 3; m_static := false; m_params := [5%N];
                                         m_body := BCode [SReturn (EBin Mul (EAttr false (EVar 5) 2) (EInt 10))] |} ] |};
                    {| c_name := 1; c_base := Some 19%N; c_methods := [w_init] |} ];
     p_funcs := []; p_main := [] |}.

(* class B (19) defines scaled (20): return self.x * 3 + 1; C inherits it; inside the theorems' domain *)
Definition w_inherit_ok : prog :=
  {| p_classes := [ {| c_name := 19; c_base := None;
                       c_methods := [ {| m_name := 20; m_static := false; m_params := [5%N];
                                         m_body := BCode [SReturn (EBin Add (EBin Mul (EAttr false (EVar 5) 2) (EInt 3)) (EInt 1))] |} ] |};
                    {| c_name := 1; c_base := Some 19%N; c_methods := [w_init; w_inc] |} ];
     p_funcs := [];
     p_main := [SAssign 8 (ENew 1 [EInt 2]); SAug true (EVar 8) 2 Add (EInt 1);
                SPrint (EMeth (EVar 8) 20 []); SPrint (EMeth (EVar 8) 13 [EInt 1]);
                SPrint (EMeth (EVar 8) 20 [])] |}.
