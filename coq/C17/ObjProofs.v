(* C17 — generic facts about the Obj semantics: monotonicity in the fuel, effect-free expressions. *)
From Coq Require Import List NArith ZArith Bool Lia.
From RopeVerif.C17 Require Import Obj.
Import ListNotations.

Lemma bind_le {A B} (m m' : res A) (k k' : A -> res B) :
  bind m k <> OOF ->
  (m <> OOF -> m' = m) ->
  (forall a, m = Done a -> k a <> OOF -> k' a = k a) ->
  bind m' k' = bind m k.
Proof.
  intros H Hm Hk. destruct m; cbn in *.
  - rewrite Hm by discriminate. cbn. apply Hk; auto.
  - rewrite Hm by discriminate. reflexivity.
  - rewrite Hm by discriminate. reflexivity.
  - congruence.
Qed.

Lemma bind_Done {A B} (m : res A) (k : A -> res B) r :
  bind m k = Done r -> exists a, m = Done a /\ k a = Done r.
Proof. destruct m; cbn; intros; try discriminate. eauto. Qed.

Definition le_ev (ev ev' : st -> expr -> res (value * st)) : Prop :=
  forall s e, ev s e <> OOF -> ev' s e = ev s e.
Definition le_ex (ex ex' : env -> st -> stmt -> xres) : Prop :=
  forall en s c, ex en s c <> OOF -> ex' en s c = ex en s c.

Lemma eval_list_le ev ev' : le_ev ev ev' ->
  forall l s, eval_list ev s l <> OOF -> eval_list ev' s l = eval_list ev s l.
Proof.
  intros L l. induction l as [|e r IH]; intros s H; cbn in *; [reflexivity|].
  eapply bind_le; [exact H| intro; apply L; assumption |].
  intros [v s1] _ H1. eapply bind_le; [exact H1 | intro; apply IH; assumption |].
  intros [vs s2] _ _. reflexivity.
Qed.

Lemma exec_list_le ex ex' : le_ex ex ex' ->
  forall l en s, exec_list ex en s l <> OOF -> exec_list ex' en s l = exec_list ex en s l.
Proof.
  intros L l. induction l as [|c r IH]; intros en s H; cbn in *; [reflexivity|].
  eapply bind_le; [exact H| intro; apply L; assumption |].
  intros [[k en1] s1] _ H1. destruct k; [apply IH; assumption | reflexivity].
Qed.

Lemma run_code_le ex ex' : le_ex ex ex' ->
  forall ps b vs s, run_code ex ps b vs s <> OOF -> run_code ex' ps b vs s = run_code ex ps b vs s.
Proof.
  intros L ps b vs s H. unfold run_code in *. destruct (bind_params ps vs); [|reflexivity].
  eapply bind_le; [exact H | intro; apply exec_list_le; assumption |].
  intros [[k en1] s1] _ _. reflexivity.
Qed.

Section Mono.
  Variable chk : heap -> value -> bool.
  Variable P : prog.

  Lemma construct_le ex ex' : le_ex ex ex' ->
    forall c vs s, construct P ex c vs s <> OOF -> construct P ex' c vs s = construct P ex c vs s.
  Proof.
    intros L c vs s H. unfold construct in *.
    destruct (find_c (p_classes P) c); [|reflexivity].
    destruct (find_meth (p_classes P) c0 init_name); [|reflexivity].
    destruct (m_body m); [|reflexivity].
    destruct (m_static m); [reflexivity|].
    eapply bind_le; [exact H | intro; apply run_code_le; assumption |].
    intros; reflexivity.
  Qed.

  Lemma run_body_le ex ex' : le_ex ex ex' ->
    forall d vs s, run_body P ex d vs s <> OOF -> run_body P ex' d vs s = run_body P ex d vs s.
  Proof.
    intros L d vs s H. unfold run_body in *. destruct (m_body d).
    - apply run_code_le; assumption.
    - apply construct_le; assumption.
  Qed.

  Lemma call_method_le ex ex' : le_ex ex ex' ->
    forall o m vs s, call_method P ex o m vs s <> OOF -> call_method P ex' o m vs s = call_method P ex o m vs s.
  Proof.
    intros L o m vs s H. unfold call_method in *.
    destruct (class_of (fst s) o); [|reflexivity].
    destruct (find_c (p_classes P) n); [|reflexivity].
    destruct (find_meth (p_classes P) c m); [|reflexivity].
    destruct (m_static m0); [reflexivity|]. apply run_body_le; assumption.
  Qed.

  Lemma call_static_le ex ex' : le_ex ex ex' ->
    forall c m vs s, call_static P ex c m vs s <> OOF -> call_static P ex' c m vs s = call_static P ex c m vs s.
  Proof.
    intros L c m vs s H. unfold call_static in *.
    destruct (find_c (p_classes P) c); [|reflexivity].
    destruct (find_m (c_methods c0) m); [|reflexivity].
    destruct (m_static m0); [|reflexivity]. apply run_body_le; assumption.
  Qed.

  Lemma call_func_le ex ex' : le_ex ex ex' ->
    forall f vs s, call_func P ex f vs s <> OOF -> call_func P ex' f vs s = call_func P ex f vs s.
  Proof.
    intros L f vs s H. unfold call_func in *.
    destruct (find_m (p_funcs P) f); [|reflexivity]. apply run_body_le; assumption.
  Qed.

  Lemma mono_step : forall n,
    (forall m en, n <= m -> le_ev (eval chk P n en) (eval chk P m en)) /\
    (forall m, n <= m -> le_ex (exec chk P n) (exec chk P m)).
  Proof.
    induction n as [|n [IHe IHx]].
    { split; unfold le_ev, le_ex; intros; cbn in *; congruence. }
    split.
    - intros m en Hle s e H. destruct m as [|m]; [lia|]. assert (Hnm : n <= m) by lia.
      pose proof (IHe m en Hnm) as Le. pose proof (IHx m Hnm) as Lx.
      cbn [eval] in *. destruct e; try reflexivity.
      + apply Le; assumption.
      + eapply bind_le; [exact H | intro; apply Le; assumption |]. intros [o s1] _ _. reflexivity.
      + eapply bind_le; [exact H | intro; apply Le; assumption |]. intros [va s1] _ H1.
        eapply bind_le; [exact H1 | intro; apply Le; assumption |]. intros [vb s2] _ _. reflexivity.
      + eapply bind_le; [exact H | intro; apply eval_list_le; assumption |]. intros [vs s1] _ H1.
        apply call_func_le; assumption.
      + eapply bind_le; [exact H | intro; apply Le; assumption |]. intros [o s1] _ H1.
        eapply bind_le; [exact H1 | intro; apply eval_list_le; assumption |]. intros [vs s2] _ H2.
        apply call_method_le; assumption.
      + eapply bind_le; [exact H | intro; apply eval_list_le; assumption |]. intros [vs s1] _ H1.
        apply construct_le; assumption.
      + eapply bind_le; [exact H | intro; apply eval_list_le; assumption |]. intros [vs s1] _ H1.
        apply call_static_le; assumption.
    - intros m Hle en s c H. destruct m as [|m]; [lia|]. assert (Hnm : n <= m) by lia.
      pose proof (IHe m en Hnm) as Le. pose proof (IHx m Hnm) as Lx.
      cbn [exec] in *. destruct c; try reflexivity.
      + eapply bind_le; [exact H | intro; apply Le; assumption |]. intros [v s1] _ _. reflexivity.
      + eapply bind_le; [exact H | intro; apply Le; assumption |]. intros [v s1] _ H1.
        eapply bind_le; [exact H1 | intro; apply Le; assumption |]. intros [o s2] _ _. reflexivity.
      + eapply bind_le; [exact H | intro; apply Le; assumption |]. intros [o s1] _ H1.
        destruct (tagged_ok chk tag (fst s1) o); [|reflexivity].
        destruct (read_attr (fst s1) o f) as [old|]; [|reflexivity].
        eapply bind_le; [exact H1 | intro; apply Le; assumption |]. intros [v s2] _ _. reflexivity.
      + eapply bind_le; [exact H | intro; apply Le; assumption |]. intros; reflexivity.
      + eapply bind_le; [exact H | intro; apply Le; assumption |]. intros [v s1] _ _. reflexivity.
      + eapply bind_le; [exact H | intro; apply Le; assumption |]. intros [v s1] _ _. reflexivity.
      + eapply bind_le; [exact H | intro; apply Le; assumption |]. intros [v s1] _ H1.
        apply exec_list_le; assumption.
      + eapply bind_le; [exact H | intro; apply Le; assumption |]. intros [v s1] _ H1.
        destruct (truthy v); [|reflexivity].
        eapply bind_le; [exact H1 | intro; apply exec_list_le; assumption |]. intros [[k en2] s2] _ H2.
        destruct k; [|reflexivity]. apply (IHx m Hnm). assumption.
  Qed.

  Lemma eval_mono n m en s e :
    n <= m -> eval chk P n en s e <> OOF -> eval chk P m en s e = eval chk P n en s e.
  Proof. intros H. apply (proj1 (mono_step n) m en H). Qed.

  Lemma exec_mono n m en s c :
    n <= m -> exec chk P n en s c <> OOF -> exec chk P m en s c = exec chk P n en s c.
  Proof. intros H. apply (proj2 (mono_step n) m H). Qed.

  Lemma eval_mono_Done n m en s e r :
    n <= m -> eval chk P n en s e = Done r -> eval chk P m en s e = Done r.
  Proof. intros H E. rewrite (eval_mono n m) by (auto; congruence). exact E. Qed.

  Lemma exec_mono_Done n m en s c r :
    n <= m -> exec chk P n en s c = Done r -> exec chk P m en s c = Done r.
  Proof. intros H E. rewrite (exec_mono n m) by (auto; congruence). exact E. Qed.

  Lemma exec_le_of_le n m : n <= m -> le_ex (exec chk P n) (exec chk P m).
  Proof. intros H. apply (proj2 (mono_step n) m H). Qed.

  Lemma eval_le_of_le n m en : n <= m -> le_ev (eval chk P n en) (eval chk P m en).
  Proof. intros H. apply (proj1 (mono_step n) m en H). Qed.

  Lemma run_mono n m en s :
    n <= m -> run chk P n en s <> OOF -> run chk P m en s = run chk P n en s.
  Proof. intros H E. unfold run in *. apply exec_list_le; [apply exec_le_of_le; assumption | assumption]. Qed.
End Mono.

(* Effect-free expressions: the state is unchanged and the value does not depend on the program. *)
Lemma pure_eval chk P : forall n en s e v s1,
  pure e = true -> eval chk P n en s e = Done (v, s1) ->
  s1 = s /\ forall P2, eval chk P2 n en s e = Done (v, s).
Proof.
  induction n as [|n IH]; intros en s e v s1 Hp H; [discriminate|].
  destruct e; cbn in Hp; try discriminate; cbn [eval] in *.
  - inversion H; subst. split; auto.
  - inversion H; subst. split; auto.
  - destruct (lookup en x); inversion H; subst. split; auto.
  - apply IH in H; auto.
  - apply bind_Done in H. destruct H as [[o s2] [H1 H2]]. apply IH in H1; auto. destruct H1 as [-> H1].
    destruct (tagged_ok chk tag (fst s) o) eqn:T; [|discriminate].
    destruct (read_attr (fst s) o f) eqn:R; inversion H2; subst. split; auto.
    intros P2. rewrite H1. cbn. rewrite T, R. reflexivity.
  - apply andb_true_iff in Hp. destruct Hp as [Ha Hb].
    apply bind_Done in H. destruct H as [[va s2] [H1 H2]]. apply IH in H1; auto. destruct H1 as [-> H1].
    apply bind_Done in H2. destruct H2 as [[vb s3] [H2 H3]]. apply IH in H2; auto. destruct H2 as [-> H2].
    destruct (binop_eval op va vb) eqn:B; inversion H3; subst. split; auto.
    intros P2. rewrite H1. cbn. rewrite H2. cbn. rewrite B. reflexivity.
Qed.
