(* C17 — text-level model of rope/refactor/encapsulate_field.py:_FindChangesForModule (get_changed_module and
   _manage_writes) and of worder.get_assignment_type, statement by statement.  Definitions only.

   Input: the module's source text, the occurrences the finder yielded (word range, start of the primary,
   end offset of the logical line that contains the occurrence, "is in a tuple assignment"), the region to
   skip (body of the defining method), getter and setter names.  Output: the new text, None (no change), or
   a refusal.  Offsets are nat (the harness passes N literals, converted by the runner). *)
From Coq Require Import List NArith Bool.
Import ListNotations.

Notation text := (list N).

Record occ := {
  o_start : nat;        (* occurrence.get_word_range() *)
  o_end : nat;
  o_prim : nat;         (* occurrence.get_primary_range()[0] *)
  o_tuple : bool;       (* worder.is_assigned_in_a_tuple_assignment *)
  o_line_end : nat;     (* _statement_end(end of '=', lines.get_line_end(logical_line_in(line of start)[1])): the end of
                           the statement's value (before a trailing comment / `;`).  Before fix 807a6f1 the code used
                           the end of the physical line: the state machine itself is unchanged, see
                           SpliceProofs.comment_refuted *)
  o_rhs_primary : bool  (* _is_primary(value text): the value of the (augmented) write is a constant, name,
                           attribute, call or subscript (fix f343c81) *)
}.

Definition slice (s : text) (a b : nat) : text := firstn (b - a) (skipn a s).

(* str.isspace for the ASCII range *)
Definition is_space (c : N) : bool :=
  N.eqb c 32 || N.eqb c 9 || N.eqb c 10 || N.eqb c 13 || N.eqb c 11 || N.eqb c 12.

Fixpoint lstrip (s : text) : text :=
  match s with
  | c :: r => if is_space c then lstrip r else s
  | [] => []
  end.
Definition strip (s : text) : text := rev (lstrip (rev (lstrip s))).

(* _find_first_non_space_char: stops at a newline *)
Fixpoint drop_spaces (s : text) : text :=
  match s with
  | c :: r => if N.eqb c 10 then s else if is_space c then drop_spaces r else s
  | [] => []
  end.

Fixpoint text_eqb (a b : text) : bool :=
  match a, b with
  | [], [] => true
  | x :: a', y :: b' => N.eqb x y && text_eqb a' b'
  | _, _ => false
  end.

Definition ends_with_eq (s : text) : bool :=
  match rev s with c :: _ => N.eqb c 61 | [] => false end.

(* worder._RealFinder.get_assignment_type applied to the text that follows the word, as it was before fix
   aad0d13 (kept as documentation of the fixed defect, see SpliceProofs.misread_refuted) *)
Definition assignment_type_old (after : text) : option text :=
  let t := drop_spaces after in
  let single := firstn 1 t in
  let double := firstn 2 t in
  let triple := firstn 3 t in
  if text_eqb double [61%N; 61%N] || text_eqb double [60%N; 61%N] || text_eqb double [62%N; 61%N] || text_eqb double [33%N; 61%N]
  then None
  else if ends_with_eq single then Some single
  else if ends_with_eq double then Some double
  else if ends_with_eq triple then Some triple
  else None.

(* all(c in "+-*/%&|^@<>:" for c in op[:-1]) *)
Definition op_char (c : N) : bool :=
  N.eqb c 43 || N.eqb c 45 || N.eqb c 42 || N.eqb c 47 || N.eqb c 37 || N.eqb c 38 || N.eqb c 124 || N.eqb c 94
  || N.eqb c 64 || N.eqb c 60 || N.eqb c 62 || N.eqb c 58.
Definition is_op (s : text) : bool := ends_with_eq s && forallb op_char (removelast s).

(* worder._RealFinder.get_assignment_type (current code) applied to the text that follows the word *)
Definition assignment_type (after : text) : option text :=
  let t := drop_spaces after in
  let single := firstn 1 t in
  let double := firstn 2 t in
  let triple := firstn 3 t in
  if text_eqb double [61%N; 61%N] || text_eqb double [60%N; 61%N] || text_eqb double [62%N; 61%N] || text_eqb double [33%N; 61%N]
  then None
  else if is_op single then Some single
  else if is_op double then Some double
  else if is_op triple then Some triple
  else None.

(* source.index("=", i) *)
Fixpoint index_eq (s : text) (i : nat) : option nat :=
  match s with
  | [] => None
  | c :: r => if N.eqb c 61 then Some i else index_eq r (S i)
  end.

Record state := {
  res : list text;            (* result *)
  lm : nat;                   (* last_modified *)
  ls : option nat;            (* last_set *)
  si : nat;                   (* set_index *)
  wrap : bool;                (* set_augmented and not _is_primary(value): parenthesise the value *)
  n_open : nat;               (* bookkeeping only (never part of the output): setter calls opened ... *)
  n_close : nat               (* ... and closed *)
}.

Section Splice.
  Variable src : text.
  Variable getter setter : text.
  Variable skip_start skip_end : nat.

  Definition manage_writes (offset : nat) (st : state) : state :=
    match ls st with
    | Some l =>
        if Nat.leb l offset
        then
          let r1 := res st ++ [slice src (lm st) l] in
          let set_value0 := strip (concat (skipn (si st) r1)) in
          let set_value := if wrap st then [40%N] ++ set_value0 ++ [41%N] else set_value0 in
          {| res := firstn (si st) r1 ++ [set_value ++ [41%N]]; lm := l; ls := None; si := si st; wrap := wrap st;
             n_open := n_open st; n_close := S (n_close st) |}
        else st
    | None => st
    end.

  Inductive outcome := Changed (t : text) | Unchanged | Refused | Crash.

  Definition step (st : state) (o : occ) : state + outcome :=
    if Nat.leb skip_start (o_start o) && Nat.ltb (o_start o) skip_end then inl st
    else
      let st1 := manage_writes (o_start o) st in
      let r := res st1 ++ [slice src (lm st1) (o_start o)] in
      if o_tuple o then inr Refused
      else
        match assignment_type (skipn (o_end o) src) with
        | Some at_ =>
            let opening :=
              if text_eqb at_ [61%N] then setter ++ [40%N]
              else setter ++ [40%N] ++ slice src (o_prim o) (o_start o) ++ getter ++ [40%N; 41%N]
                   ++ [32%N] ++ removelast at_ ++ [32%N] in
            match index_eq (skipn (o_end o) src) (o_end o) with
            | Some e =>
                let r2 := r ++ [opening] in
                inl {| res := r2; lm := S e; ls := Some (o_line_end o); si := length r2;
                       wrap := negb (text_eqb at_ [61%N]) && negb (o_rhs_primary o);
                       n_open := S (n_open st1); n_close := n_close st1 |}
            | None => inr Crash
            end
        | None =>
            inl {| res := r ++ [getter ++ [40%N; 41%N]]; lm := o_end o; ls := ls st1; si := si st1; wrap := wrap st1;
                   n_open := n_open st1; n_close := n_close st1 |}
        end.

  Definition init_state : state := {| res := []; lm := 0; ls := None; si := 0; wrap := false; n_open := 0; n_close := 0 |}.

  Fixpoint loop (st : state) (os : list occ) : state + outcome :=
    match os with
    | [] => inl st
    | o :: r => match step st o with inl st' => loop st' r | inr x => inr x end
    end.

  Definition changed_module (os : list occ) : outcome :=
    match loop init_state os with
    | inr x => x
    | inl st =>
        if Nat.eqb (lm st) 0 then Unchanged
        else
          let st1 := manage_writes (length src) st in
          Changed (concat (res st1 ++ [skipn (lm st1) src]))
    end.

  Definition is_written (o : occ) : bool :=
    match assignment_type (skipn (o_end o) src) with Some _ => true | None => false end.
  Definition skipped (o : occ) : bool := Nat.leb skip_start (o_start o) && Nat.ltb (o_start o) skip_end.

  (* static condition: when a written occurrence is reached no earlier setter call is still pending (i.e. no
     earlier written occurrence of the same logical line), and every logical line ends inside the text *)
  Fixpoint no_overlap (pending : option nat) (os : list occ) : bool :=
    match os with
    | [] => true
    | o :: r =>
        if skipped o then no_overlap pending r
        else
          let p := match pending with Some l => if Nat.leb l (o_start o) then None else Some l | None => None end in
          if is_written o
          then match p with None => Nat.leb (o_line_end o) (length src) && no_overlap (Some (o_line_end o)) r
                          | Some _ => false end
          else no_overlap p r
    end.
End Splice.
