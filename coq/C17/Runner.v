(* C17 — correspondence runner.  A case carries the generated program (with the finder tags and the explicit
   parentheses of its source text), the refactoring's parameters, the program parsed back from rope's
   output (tags false, no parentheses), and the output CPython printed when the original project was run.
   Everything is compared here, by vm_compute. *)
From Coq Require Import List NArith ZArith Bool.
From RopeVerif.C17 Require Import Obj Refactor Reverse.
Import ListNotations.

Fixpoint erase_e (e : expr) : expr :=
  match e with
  | EInt _ | ENone | EVar _ => e
  | EParen a => erase_e a
  | EAttr _ a f => EAttr false (erase_e a) f
  | EBin op a b => EBin op (erase_e a) (erase_e b)
  | ECall f args => ECall f (map erase_e args)
  | EMeth a m args => EMeth (erase_e a) m (map erase_e args)
  | ENew c args => ENew c (map erase_e args)
  | EStatic c m args => EStatic c m (map erase_e args)
  end.

Definition is_pass (c : stmt) : bool := match c with SPass => true | _ => false end.

Fixpoint erase_s (c : stmt) : stmt :=
  match c with
  | SPass => SPass
  | SAssign x e => SAssign x (erase_e e)
  | SWrite _ p f e => SWrite false (erase_e p) f (erase_e e)
  | SAug _ p f op e => SAug false (erase_e p) f op (erase_e e)
  | SExpr e => SExpr (erase_e e)
  | SPrint e => SPrint (erase_e e)
  | SReturn e => SReturn (erase_e e)
  | SIf c a b => SIf (erase_e c) (map erase_s a) (map erase_s b)
  | SWhile c b => SWhile (erase_e c) (map erase_s b)
  end.

Definition erase_b (b : list stmt) : list stmt := map erase_s b.

Definition erase_m (d : mdef) : mdef :=
  {| m_name := m_name d; m_static := m_static d; m_params := m_params d;
     m_body := match m_body d with BCode b => BCode (erase_b b) | BForward c => BForward c end |}.

Definition erase_p (P : prog) : prog :=
  {| p_classes := map (fun cd => {| c_name := c_name cd; c_base := c_base cd; c_methods := map erase_m (c_methods cd) |}) (p_classes P);
     p_funcs := map erase_m (p_funcs P);
     p_main := erase_b (p_main P) |}.

(* --- decidable equality --------------------------------------------------------------------------- *)
Definition binop_eqb (a b : binop) : bool :=
  match a, b with
  | Add, Add | Sub, Sub | Mul, Mul | FloorDiv, FloorDiv | Mod, Mod | Lt, Lt | Eq, Eq => true
  | _, _ => false
  end.

Fixpoint list_eqb {A} (eqb : A -> A -> bool) (l m : list A) : bool :=
  match l, m with
  | [], [] => true
  | x :: l', y :: m' => eqb x y && list_eqb eqb l' m'
  | _, _ => false
  end.

Fixpoint expr_eqb (a b : expr) {struct a} : bool :=
  match a, b with
  | EInt x, EInt y => Z.eqb x y
  | ENone, ENone => true
  | EVar x, EVar y => N.eqb x y
  | EParen x, EParen y => expr_eqb x y
  | EAttr t x f, EAttr u y g => Bool.eqb t u && expr_eqb x y && N.eqb f g
  | EBin o x1 x2, EBin p y1 y2 => binop_eqb o p && expr_eqb x1 y1 && expr_eqb x2 y2
  | ECall f l, ECall g m => N.eqb f g &&
      (fix go (l m : list expr) {struct l} : bool :=
         match l, m with [], [] => true | x :: l', y :: m' => expr_eqb x y && go l' m' | _, _ => false end) l m
  | EMeth x f l, EMeth y g m => expr_eqb x y && N.eqb f g &&
      (fix go (l m : list expr) {struct l} : bool :=
         match l, m with [], [] => true | x :: l', y :: m' => expr_eqb x y && go l' m' | _, _ => false end) l m
  | ENew f l, ENew g m => N.eqb f g &&
      (fix go (l m : list expr) {struct l} : bool :=
         match l, m with [], [] => true | x :: l', y :: m' => expr_eqb x y && go l' m' | _, _ => false end) l m
  | EStatic c f l, EStatic d g m => N.eqb c d && N.eqb f g &&
      (fix go (l m : list expr) {struct l} : bool :=
         match l, m with [], [] => true | x :: l', y :: m' => expr_eqb x y && go l' m' | _, _ => false end) l m
  | _, _ => false
  end.

Fixpoint stmt_eqb (a b : stmt) {struct a} : bool :=
  match a, b with
  | SPass, SPass => true
  | SAssign x e, SAssign y f => N.eqb x y && expr_eqb e f
  | SWrite t p f e, SWrite u q g h => Bool.eqb t u && expr_eqb p q && N.eqb f g && expr_eqb e h
  | SAug t p f o e, SAug u q g o' h => Bool.eqb t u && expr_eqb p q && N.eqb f g && binop_eqb o o' && expr_eqb e h
  | SExpr e, SExpr f => expr_eqb e f
  | SPrint e, SPrint f => expr_eqb e f
  | SReturn e, SReturn f => expr_eqb e f
  | SIf c a1 a2, SIf d b1 b2 => expr_eqb c d &&
      (fix go (l m : list stmt) {struct l} : bool :=
         match l, m with [], [] => true | x :: l', y :: m' => stmt_eqb x y && go l' m' | _, _ => false end) a1 b1 &&
      (fix go (l m : list stmt) {struct l} : bool :=
         match l, m with [], [] => true | x :: l', y :: m' => stmt_eqb x y && go l' m' | _, _ => false end) a2 b2
  | SWhile c a1, SWhile d b1 => expr_eqb c d &&
      (fix go (l m : list stmt) {struct l} : bool :=
         match l, m with [], [] => true | x :: l', y :: m' => stmt_eqb x y && go l' m' | _, _ => false end) a1 b1
  | _, _ => false
  end.

Definition body_eqb (a b : body) : bool :=
  match a, b with
  | BCode l, BCode m => list_eqb stmt_eqb l m
  | BForward c, BForward d => N.eqb c d
  | _, _ => false
  end.

Definition mdef_eqb (a b : mdef) : bool :=
  N.eqb (m_name a) (m_name b) && Bool.eqb (m_static a) (m_static b)
  && list_eqb N.eqb (m_params a) (m_params b) && body_eqb (m_body a) (m_body b).

Definition cdef_eqb (a b : cdef) : bool :=
  N.eqb (c_name a) (c_name b)
  && match c_base a, c_base b with Some x, Some y => N.eqb x y | None, None => true | _, _ => false end
  && list_eqb mdef_eqb (c_methods a) (c_methods b).

Definition prog_eqb (a b : prog) : bool :=
  list_eqb cdef_eqb (p_classes a) (p_classes b) && list_eqb mdef_eqb (p_funcs a) (p_funcs b)
  && list_eqb stmt_eqb (p_main a) (p_main b).

Definition value_eqb (a b : value) : bool :=
  match a, b with
  | VInt x, VInt y => Z.eqb x y
  | VBool x, VBool y => Bool.eqb x y
  | VNone, VNone => true
  | VRef x, VRef y => Nat.eqb x y
  | _, _ => false
  end.

(* --- cases ------------------------------------------------------------------------------------------ *)
Record case := {
  c_cfg : cfg;
  c_prog : prog;
  c_rope : option prog;                (* rope's result parsed back (None: refused / not in the fragment) *)
  c_out : option (list value);         (* what CPython printed for the original project (None: non-zero exit) *)
  c_refused : option bool;             (* EncapsulateField: did rope refuse because of the accessor names *)
  c_after : option (list value);       (* only for cases whose execution oracle failed with exit status 0: what CPython
                                          printed for the refactored project (is the failure the one the model predicts?) *)
  c_fuel : nat
}.

Definition chk_of (k : cfg) : heap -> value -> bool :=
  if k_enc k then is_instance (k_cls k) else (fun _ _ => true).

Definition out_eqb (a b : option (list value)) : bool :=
  match a, b with
  | Some x, Some y => list_eqb value_eqb x y
  | None, None => true
  | _, _ => false
  end.

(* inside the domain of both directions (C17_encapsulate / C17_factory and their _reverse) *)
Definition in_domain (c : case) : bool := side (c_cfg c) (c_prog c) && unused_prog (c_cfg c) (c_prog c).

(* bit 32: the model's run of the refactored program differs from what CPython printed for it (used to decide
   whether an observed behaviour change is exactly the one the model predicts for a known finding);
   bit 16: rope's refusal of the accessor names differs from [enc_refuses];
   bit 1: rope's result differs from the model's; bit 2: the model's run of the original program differs from
   CPython's output; bit 4: inside the theorem's domain, yet the model's run of the refactored program
   differs (cannot happen while the theorem is in force; sanity channel) *)
Definition run_case (c : case) : N :=
  let k := c_cfg c in
  let P := c_prog c in
  let P' := tP k P in
  let b1 := match c_rope c with Some R => negb (prog_eqb (erase_p P') R) | None => false end in
  let r0 := output_of (run (chk_of k) P (c_fuel c) [] ([], [])) in
  let b2 := match c_out c with Some _ => negb (out_eqb r0 (c_out c)) | None => false end in
  let b4 := in_domain c && match r0 with
                           | Some _ => negb (out_eqb (output_of (run (chk_of k) P' (3 * c_fuel c + 6) [] ([], []))) r0)
                           | None => false
                           end in
  let b16 := match c_refused c with Some b => negb (Bool.eqb b (enc_refuses k P)) | None => false end in
  let b32 := match c_after c with
             | Some _ => negb (out_eqb (output_of (run (chk_of k) P' (3 * c_fuel c + 6) [] ([], []))) (c_after c))
             | None => false
             end in
  ((if b1 then 1 else 0) + (if b2 then 2 else 0) + (if b4 then 4 else 0) + (if b16 then 16 else 0)
   + (if b32 then 32 else 0))%N.

Fixpoint mismatches_from (i : N) (cs : list case) : list (N * N) :=
  match cs with
  | [] => []
  | c :: r =>
      let code := run_case c in
      if N.eqb code 0 then mismatches_from (N.succ i) r else (i, code) :: mismatches_from (N.succ i) r
  end.
Definition mismatches (cs : list case) : list (N * N) := mismatches_from 0 cs.

Definition count_domain (cs : list case) : N := N.of_nat (length (filter in_domain cs)).

(* --- text-level cases (Splice.v) --------------------------------------------------------------------- *)
From RopeVerif.C17 Require Import Splice.

Record scase := {
  s_src : text;
  s_get : text;
  s_set : text;
  s_skip : N * N;
  s_occs : list (N * N * N * bool * N * bool);  (* start, end, primary start, tuple, statement end, value is a primary *)
  s_expect : option (option text);             (* None: nothing to compare; Some None: module not changed;
                                                  Some (Some t): rope's new text (accessor block removed) *)
  s_holding : bool;                            (* holding module: "unchanged" shows up as t = source *)
  s_refused : bool                             (* rope refused and this module holds the tuple assignment *)
}.

Definition mk_occ (x : N * N * N * bool * N * bool) : occ :=
  let '(a, b, c, d, e, f) := x in
  {| o_start := N.to_nat a; o_end := N.to_nat b; o_prim := N.to_nat c; o_tuple := d; o_line_end := N.to_nat e;
     o_rhs_primary := f |}.

Definition splice_of (c : scase) : outcome :=
  changed_module (s_src c) (s_get c) (s_set c) (N.to_nat (fst (s_skip c))) (N.to_nat (snd (s_skip c)))
                 (map mk_occ (s_occs c)).

(* 0 agree; 1 text differs; 2 refusal expected but the model does not refuse (or conversely) *)
Definition run_scase (c : scase) : N :=
  let out := splice_of c in
  if s_refused c then (match out with Refused => 0 | _ => 2 end)%N
  else
    match s_expect c with
    | None => 0%N
    | Some None => (match out with Unchanged => 0 | Refused => 2 | _ => 1 end)%N
    | Some (Some t) =>
        (match out with
         | Changed t' => if Splice.text_eqb t t' then 0 else 1
         | Unchanged => if s_holding c && Splice.text_eqb t (s_src c) then 0 else 1
         | Refused => 2
         | Crash => 1
         end)%N
    end.

Fixpoint smismatches_from (i : N) (cs : list scase) : list (N * N) :=
  match cs with
  | [] => []
  | c :: r =>
      let code := run_scase c in
      if N.eqb code 0 then smismatches_from (N.succ i) r else (i, code) :: smismatches_from (N.succ i) r
  end.
Definition smismatches (cs : list scase) : list (N * N) := smismatches_from 0 cs.

(* --- LocalToField / MethodObject cases (Local.v) ------------------------------------------------------ *)
From RopeVerif.C17 Require Import Local.

Record ocase := {
  oc_kind : N;                         (* 0 LocalToField, 1 MethodObject *)
  oc_prog : prog;
  oc_unit : unit_id;
  oc_var : N;                          (* LocalToField: the variable *)
  oc_names : mo_names;
  oc_rope : option prog;               (* rope's result parsed back (None: refused / crashed) *)
  oc_refused : bool;                   (* rope raised RefactoringError *)
  oc_out : option (list value);        (* what CPython printed for the original project *)
  oc_after : option (list value)       (* LocalToField, only when the execution oracle failed with exit status 0: what
                                          CPython printed for the refactored project *)
}.

Definition any_chk : heap -> value -> bool := fun _ _ => true.

(* bit 1: rope's result differs from the model's; bit 2: rope's refusal differs from the model's (LocalToField);
   bit 8 (LocalToField): the Obj run of the model's result differs from what CPython printed for the refactored
   project (is an observed behaviour change exactly the one the model predicts?);
   bit 4 (MethodObject): the Obj run of the model's result differs from what CPython printed for the original *)
Definition run_ocase (c : ocase) : N :=
  let P := oc_prog c in
  if N.eqb (oc_kind c) 0 then
    let refuses := l2f_refuses P (oc_unit c) (oc_var c) in
    let b2 := negb (Bool.eqb refuses (oc_refused c)) in
    let b1 := match oc_rope c, oc_unit c with
              | Some R, UMethod cl m => negb (prog_eqb (erase_p (local_to_field cl m (oc_var c) P)) R)
              | Some _, _ => true
              | None, _ => false
              end in
    let b8 := match oc_after c, oc_unit c with
              | Some _, UMethod cl m =>
                  negb (out_eqb (output_of (run any_chk (local_to_field cl m (oc_var c) P) 200 [] ([], []))) (oc_after c))
              | _, _ => false
              end in
    ((if b1 then 1 else 0) + (if b2 then 2 else 0) + (if b8 then 8 else 0))%N
  else
    match method_object (oc_names c) (oc_unit c) P with
    | None => (match oc_rope c with Some _ => 1 | None => 0 end)%N
    | Some P' =>
        let b1 := match oc_rope c with Some R => negb (prog_eqb (erase_p P') R) | None => false end in
        let b4 := match oc_out c with
                  | Some _ => negb (out_eqb (output_of (run any_chk P' 200 [] ([], []))) (oc_out c))
                  | None => false
                  end in
        ((if b1 then 1 else 0) + (if b4 then 4 else 0))%N
    end.

Fixpoint omismatches_from (i : N) (cs : list ocase) : list (N * N) :=
  match cs with
  | [] => []
  | c :: r =>
      let code := run_ocase c in
      if N.eqb code 0 then omismatches_from (N.succ i) r else (i, code) :: omismatches_from (N.succ i) r
  end.
Definition omismatches (cs : list ocase) : list (N * N) := omismatches_from 0 cs.
