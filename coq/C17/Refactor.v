(* C17 — EncapsulateField and IntroduceFactory as functions on Obj programs, following
   rope/refactor/encapsulate_field.py (_FindChangesForModule.get_changed_module) and
   rope/refactor/introduce_factory.py (_change_module / _get_factory_method).  Definitions only.

   EncapsulateField, per occurrence of the field that the finder reports (tag = true) and that does not lie
   in the body of the defining method ([on] = false there: `skip_start <= start < skip_end`):
     read               e.f            ->  e'.getter()
     write `=`          p.f = e        ->  p'.setter(e')
     augmented write    p.f op= e      ->  p'.setter(<source text of p>.getter() op <text of e'>)
   where x' is x with the occurrences inside it rewritten.  Two quirks of the code are kept:
   * the second copy of the primary in the augmented rule is the ORIGINAL source text
     (`self.source[occurrence.get_primary_range()[0]:start]`), so occurrences inside it are not rewritten
     and the primary is evaluated twice;
   * before fix f343c81 the right-hand side of an augmented write was pasted behind `getter() op ` without
     parentheses, so the text was re-parsed by Python's precedence rules: [graft] (k_augparen = false); the
     current code parenthesises every right-hand side that is not a primary (k_augparen = true: [paste] is
     plain EBin).
   The accessors `def getter(self): return self.f` / `def setter(self, value): self.f = value` are appended
   to the class (sourceutils.add_methods).

   IntroduceFactory: every call C(args) becomes C.name(args) (static factory) or name(args) (global
   factory); the factory's body is `return C( *args, **kwds)` ([BForward]). *)
From Coq Require Import List NArith ZArith Bool.
From RopeVerif.C17 Require Import Obj.
Import ListNotations.

Definition prec (op : binop) : nat :=
  match op with Lt | Eq => 1 | Add | Sub => 2 | Mul | FloorDiv | Mod => 3 end.

(* Python's parse of the text  "<g> op <e>"  when e's text is pasted without parentheses: operators of e
   along its left spine that bind no tighter than op (all binary operators here are left-associative)
   capture g. [EParen] stops the descent. *)
Fixpoint graft (op : binop) (g : expr) (e : expr) : expr :=
  match e with
  | EBin op2 a b => if Nat.leb (prec op2) (prec op) then EBin op2 (graft op g a) b else EBin op g e
  | _ => EBin op g e
  end.

Definition no_capture (op : binop) (e : expr) : bool :=
  match e with EBin op2 _ _ => negb (Nat.leb (prec op2) (prec op)) | _ => true end.

Record cfg := {
  k_enc : bool;          (* EncapsulateField enabled *)
  k_cls : N;             (* class owning the field *)
  k_fld : N;
  k_get : N;
  k_set : N;
  k_skip : N;            (* the method whose body defines the field (its body is left untouched) *)
  k_augparen : bool;     (* true = the code parenthesises a non-primary right-hand side of an augmented write (the
                            code since fix f343c81; this is what the harness compares with); false = the text is
                            pasted as it is (the code before the fix, kept as documentation: [graft],
                            C17_aug_precedence_refuted) *)
  k_self : N;            (* interned "self" and "value" *)
  k_value : N;
  k_fac : bool;          (* IntroduceFactory enabled *)
  k_fglobal : bool;      (* global_factory=True *)
  k_fcls : N;
  k_fname : N
}.

Section T.
  Variable k : cfg.

  Definition hit (on tag : bool) (f : N) : bool := k_enc k && on && tag && N.eqb f (k_fld k).
  Definition hitc (c : N) : bool := k_fac k && N.eqb c (k_fcls k).

  Fixpoint tE (on : bool) (e : expr) : expr :=
    match e with
    | EInt _ | ENone | EVar _ => e
    | EParen a => EParen (tE on a)
    | EAttr tag a f => if hit on tag f then EMeth (tE on a) (k_get k) [] else EAttr tag (tE on a) f
    | EBin op a b => EBin op (tE on a) (tE on b)
    | ECall f args => ECall f (map (tE on) args)
    | EMeth a m args => EMeth (tE on a) m (map (tE on) args)
    | ENew c args =>
        if hitc c
        then (if k_fglobal k then ECall (k_fname k) (map (tE on) args) else EStatic c (k_fname k) (map (tE on) args))
        else ENew c (map (tE on) args)
    | EStatic c m args => EStatic c m (map (tE on) args)
    end.

  Definition paste (op : binop) (g e : expr) : expr :=
    if k_augparen k then EBin op g e else graft op g e.

  Fixpoint tS (on : bool) (c : stmt) : stmt :=
    match c with
    | SPass => SPass
    | SAssign x e => SAssign x (tE on e)
    | SWrite tag p f e =>
        if hit on tag f then SExpr (EMeth (tE on p) (k_set k) [tE on e])
        else SWrite tag (tE on p) f (tE on e)
    | SAug tag p f op e =>
        if hit on tag f
        then SExpr (EMeth (tE on p) (k_set k) [paste op (EMeth p (k_get k) []) (tE on e)])
        else SAug tag (tE on p) f op (tE on e)
    | SExpr e => SExpr (tE on e)
    | SPrint e => SPrint (tE on e)
    | SReturn e => SReturn (tE on e)
    | SIf c a b => SIf (tE on c) (map (tS on) a) (map (tS on) b)
    | SWhile c b => SWhile (tE on c) (map (tS on) b)
    end.

  Definition getter_def : mdef :=
    {| m_name := k_get k; m_static := false; m_params := [k_self k];
       m_body := BCode [SReturn (EAttr false (EVar (k_self k)) (k_fld k))] |}.
  Definition setter_def : mdef :=
    {| m_name := k_set k; m_static := false; m_params := [k_self k; k_value k];
       m_body := BCode [SWrite false (EVar (k_self k)) (k_fld k) (EVar (k_value k))] |}.
  Definition factory_def (static : bool) : mdef :=
    {| m_name := k_fname k; m_static := static; m_params := []; m_body := BForward (k_fcls k) |}.

  Definition tBody (on : bool) (b : body) : body :=
    match b with BCode l => BCode (map (tS on) l) | BForward c => BForward c end.
  Definition tM (on : bool) (d : mdef) : mdef :=
    {| m_name := m_name d; m_static := m_static d; m_params := m_params d; m_body := tBody on (m_body d) |}.

  Definition is_skip (c : N) (d : mdef) : bool := k_enc k && N.eqb c (k_cls k) && N.eqb (m_name d) (k_skip k).

  Definition new_methods (c : N) : list mdef :=
    (if k_enc k && N.eqb c (k_cls k) then [getter_def; setter_def] else [])
    ++ (if k_fac k && negb (k_fglobal k) && N.eqb c (k_fcls k) then [factory_def true] else []).

  Definition tC (cd : cdef) : cdef :=
    {| c_name := c_name cd; c_base := c_base cd;
       c_methods := map (fun d => tM (negb (is_skip (c_name cd) d)) d) (c_methods cd) ++ new_methods (c_name cd) |}.

  Definition tP (P : prog) : prog :=
    {| p_classes := map tC (p_classes P);
       p_funcs := map (tM true) (p_funcs P) ++ (if k_fac k && k_fglobal k then [factory_def false] else []);
       p_main := map (tS true) (p_main P) |}.

  (* --- side conditions (boolean) --------------------------------------------------------------- *)
  (* rewritten plain writes: the setter call evaluates the primary BEFORE the value (the assignment
     evaluated it after), so either the primary is a local variable or both are effect-free;
     rewritten augmented writes: the primary is evaluated twice, so it must be effect-free, and the
     right-hand side must not be captured by the pasted operator. *)
  Fixpoint ok_s (on : bool) (c : stmt) : bool :=
    match c with
    | SWrite tag p f e => negb (hit on tag f) || is_var p || (pure p && pure e)
    | SAug tag p f op e => negb (hit on tag f) || (pure p && (k_augparen k || no_capture op e))
    | SIf _ a b => forallb (ok_s on) a && forallb (ok_s on) b
    | SWhile _ b => forallb (ok_s on) b
    | _ => true
    end.

  Definition ok_body (on : bool) (b : body) : bool :=
    match b with BCode l => forallb (ok_s on) l | BForward _ => true end.

  Definition ok_c (cd : cdef) : bool :=
    forallb (fun d => ok_body (negb (is_skip (c_name cd) d)) (m_body d)) (c_methods cd).

  Definition absent (l : list mdef) (m : N) : bool := match find_m l m with None => true | Some _ => false end.

  (* not defined in the class nor in its base class *)
  Definition absentm (cs : list cdef) (cd : cdef) (m : N) : bool :=
    match find_meth cs cd m with None => true | Some _ => false end.

  Definition fresh_ok (P : prog) : bool :=
    negb (k_enc k && k_fac k)
    && (negb (k_enc k) ||
        match find_c (p_classes P) (k_cls k) with
        | Some cd => absentm (p_classes P) cd (k_get k) && absentm (p_classes P) cd (k_set k)
                     && negb (N.eqb (k_get k) (k_set k)) && negb (N.eqb (k_self k) (k_value k))
                     && negb (N.eqb (k_get k) init_name) && negb (N.eqb (k_set k) init_name)
        | None => false
        end)
    && (negb (k_fac k) ||
        (if k_fglobal k then absent (p_funcs P) (k_fname k)
         else match find_c (p_classes P) (k_fcls k) with
              | Some cd => absentm (p_classes P) cd (k_fname k) && negb (N.eqb (k_fname k) init_name)
              | None => false
              end)).

  Definition no_base (cd : cdef) : bool := match c_base cd with None => true | Some _ => false end.

  (* [ok_c] and: a base class exists and has no base class itself (the semantics looks one level up) *)
  Definition ok_cb (cs : list cdef) (cd : cdef) : bool :=
    ok_c cd && match c_base cd with
               | None => true
               | Some b => match find_c cs b with Some bd => no_base bd | None => false end
               end.

  Definition side (P : prog) : bool :=
    fresh_ok P
    && forallb (ok_cb (p_classes P)) (p_classes P)
    && forallb (fun d => ok_body true (m_body d)) (p_funcs P)
    && forallb (ok_s true) (p_main P).
End T.

(* EncapsulateField.get_changes refuses when the getter or setter name is already an attribute of the class, own or
   INHERITED (fix 72d97d7: `accessor in defining_class`; one level of inheritance, which is the whole chain for the
   programs [side] admits; in Obj the class attributes considered are the methods) *)
Definition enc_refuses (k : cfg) (P : prog) : bool :=
  k_enc k &&
  match find_c (p_classes P) (k_cls k) with
  | Some cd => negb (absentm (p_classes P) cd (k_get k)) || negb (absentm (p_classes P) cd (k_set k))
  | None => false
  end.

Definition enc_cfg (augparen : bool) (cls fld get set skip self value : N) : cfg :=
  {| k_enc := true; k_cls := cls; k_fld := fld; k_get := get; k_set := set; k_skip := skip;
     k_augparen := augparen; k_self := self; k_value := value; k_fac := false; k_fglobal := false; k_fcls := 0%N; k_fname := 0%N |}.

Definition fac_cfg (glob : bool) (cls name : N) : cfg :=
  {| k_enc := false; k_cls := 0%N; k_fld := 0%N; k_get := 0%N; k_set := 0%N; k_skip := 0%N;
     k_augparen := false; k_self := 0%N; k_value := 0%N; k_fac := true; k_fglobal := glob; k_fcls := cls; k_fname := name |}.

Definition encapsulate (augparen : bool) (cls fld get set skip self value : N) (P : prog) : prog :=
  tP (enc_cfg augparen cls fld get set skip self value) P.
Definition introduce_factory (glob : bool) (cls name : N) (P : prog) : prog := tP (fac_cfg glob cls name) P.
