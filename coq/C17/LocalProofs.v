(* C17 — facts about the LocalToField / MethodObject models (Local.v): characterisation of the refusal, computed
   witnesses.  (Semantic preservation theorems for these two refactorings are NOT proved: they need a simulation
   up to extra attributes / extra objects in the heap; the models are tied to rope by the correspondence run and
   every MethodObject result is run in Obj and compared with CPython's output.) *)
From Coq Require Import List NArith ZArith Bool.
From RopeVerif.C17 Require Import Obj Refactor Witness Local.
Import ListNotations.

(* LocalToField is accepted exactly for an assigned, non-parameter local of a method that has a first parameter *)
Lemma l2f_accepts_iff P u v :
  l2f_refuses P u v = false <->
  exists c m cd d, u = UMethod c m /\ find_c (p_classes P) c = Some cd /\ find_m (c_methods cd) m = Some d /\
    existsb (N.eqb v) (m_params d) = false /\
    (exists l, m_body d = BCode l /\ existsb (assigns v) l = true) /\ m_params d <> [].
Proof.
  split.
  - destruct u as [c m| |]; cbn; try discriminate.
    destruct (find_c (p_classes P) c) as [cd|] eqn:Ec; [|discriminate].
    destruct (find_m (c_methods cd) m) as [d|] eqn:Em; [|discriminate].
    intros H. apply orb_false_iff in H. destruct H as [H H3]. apply orb_false_iff in H. destruct H as [H1 H2].
    apply negb_false_iff in H2.
    exists c, m, cd, d. repeat split; auto.
    + destruct (m_body d) as [l|]; [exists l; auto | discriminate].
    + destruct (m_params d); [discriminate | discriminate].
  - intros [c [m [cd [d [-> [Ec [Em [Hp [[l [Hb Ha]] Hn]]]]]]]]]. cbn. rewrite Ec, Em, Hp, Hb, Ha. cbn.
    destruct (m_params d); [congruence | reflexivity].
Qed.

(* the body of a method is rewritten only where the variable occurs *)
Lemma rnE_other v self x : N.eqb x v = false -> rnE v self (EVar x) = EVar x.
Proof. intros H. cbn. rewrite H. reflexivity. Qed.

(* --- witnesses: C with __init__ and  inc(self, n): <loc> = n * 2; return self.x + <loc> ------------------ *)
Definition w_incl (loc : N) : mdef :=
  {| m_name := 13; m_static := false; m_params := [5%N; 12%N];
     m_body := BCode [SAssign loc (EBin Mul (EVar 12) (EInt 2));
                      SReturn (EBin Add (EAttr false (EVar 5) 2) (EVar loc))] |}.
Definition w_l2f (loc : N) : prog :=
  {| p_classes := [w_classC [w_incl loc]]; p_funcs := [];
     p_main := [SAssign 8 (ENew 1 [EInt 1]); SPrint (EMeth (EVar 8) 13 [EInt 3]); SPrint (EAttr false (EVar 8) 2)] |}.
Definition w_names : mo_names := {| mo_cls := 22; mo_self := 5; mo_host := 23; mo_call := 24 |}.

Definition tt_chk : heap -> value -> bool := fun _ _ => true.

(* a local named t (21): same output; the object keeps an extra attribute afterwards *)
Lemma l2f_example :
  l2f_refuses (w_l2f 21) (UMethod 1 13) 21 = false /\
  l2f_refuses (w_l2f 21) (UMethod 1 13) 12 = true /\ l2f_refuses (w_l2f 21) UMain 8 = true /\
  output_of (run tt_chk (w_l2f 21) 30 [] ([], [])) = Some [VInt 7; VInt 1] /\
  output_of (run tt_chk (local_to_field 1 13 21 (w_l2f 21)) 30 [] ([], [])) = Some [VInt 7; VInt 1].
Proof. repeat split; vm_compute; reflexivity. Qed.

(* a local named like the field x (2): the model, like rope, is not refused and the field is overwritten
   (finding C17-l2f-clash; rope deliberately does not check: "Not checking redefinition") *)
Lemma l2f_clash_refuted :
  l2f_refuses (w_l2f 2) (UMethod 1 13) 2 = false /\
  output_of (run tt_chk (w_l2f 2) 30 [] ([], [])) = Some [VInt 7; VInt 1] /\
  output_of (run tt_chk (local_to_field 1 13 2 (w_l2f 2)) 30 [] ([], [])) = Some [VInt 12; VInt 6].
Proof. repeat split; vm_compute; reflexivity. Qed.

(* MethodObject on the method inc and on a function: the result is run in Obj *)
Definition w_mo_fun : prog :=
  {| p_classes := [w_classC []];
     p_funcs := [ {| m_name := 9; m_static := false; m_params := [12%N; 10%N];
                     m_body := BCode [SAssign 12 (EBin Add (EVar 12) (EInt 1));
                                      SWrite false (EVar 10) 2 (EBin Mul (EAttr false (EVar 10) 2) (EVar 12));
                                      SReturn (EVar 12)] |} ];
     p_main := [SAssign 8 (ENew 1 [EInt 3]); SPrint (ECall 9 [EInt 4; EVar 8]); SPrint (EAttr false (EVar 8) 2)] |}.

Lemma method_object_example :
  (exists P', method_object w_names (UMethod 1 13) (w_l2f 21) = Some P' /\
              output_of (run tt_chk P' 40 [] ([], [])) = output_of (run tt_chk (w_l2f 21) 30 [] ([], []))) /\
  (exists P', method_object w_names (UFunc 9) w_mo_fun = Some P' /\
              output_of (run tt_chk P' 40 [] ([], [])) = Some [VInt 5; VInt 15] /\
              output_of (run tt_chk w_mo_fun 30 [] ([], [])) = Some [VInt 5; VInt 15]).
Proof.
  split; eexists; (split; [vm_compute; reflexivity|]); [vm_compute; reflexivity|].
  split; vm_compute; reflexivity.
Qed.
