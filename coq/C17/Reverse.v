(* C17 — extra boolean side conditions used by the reverse direction (refactored run terminates => original run
   terminates with the same result, or leaves the finder's domain).  Definitions only. *)
From Coq Require Import List NArith ZArith Bool.
From RopeVerif.C17 Require Import Obj Refactor.
Import ListNotations.

Section U.
  Variable k : cfg.

  (* a name the refactoring introduces *)
  Definition new_meth (m : N) : bool :=
    (k_enc k && (N.eqb m (k_get k) || N.eqb m (k_set k))) || (k_fac k && negb (k_fglobal k) && N.eqb m (k_fname k)).
  Definition new_func (f : N) : bool := k_fac k && k_fglobal k && N.eqb f (k_fname k).

  (* the program does not already call something by one of the new names *)
  Fixpoint unused_e (e : expr) : bool :=
    match e with
    | EInt _ | ENone | EVar _ => true
    | EParen a => unused_e a
    | EAttr _ a _ => unused_e a
    | EBin _ a b => unused_e a && unused_e b
    | ECall f args => negb (new_func f) && forallb unused_e args
    | EMeth a m args => negb (new_meth m) && unused_e a && forallb unused_e args
    | ENew _ args => forallb unused_e args
    | EStatic _ m args => negb (new_meth m) && forallb unused_e args
    end.

  Fixpoint no_tags (e : expr) : bool :=
    match e with
    | EInt _ | ENone | EVar _ => true
    | EParen a => no_tags a
    | EAttr tag a _ => negb tag && no_tags a
    | EBin _ a b => no_tags a && no_tags b
    | _ => false
    end.

  (* [on]: a rewritten plain write whose primary is not a variable has a primary without finder tags *)
  Fixpoint unused_s (on : bool) (c : stmt) : bool :=
    match c with
    | SPass => true
    | SAssign _ e | SExpr e | SPrint e | SReturn e => unused_e e
    | SWrite tag p f e => unused_e p && unused_e e && (negb (hit k on tag f) || is_var p || no_tags p)
    | SAug _ p _ _ e => unused_e p && unused_e e
    | SIf c a b => unused_e c && forallb (unused_s on) a && forallb (unused_s on) b
    | SWhile c b => unused_e c && forallb (unused_s on) b
    end.

  Definition unused_body (on : bool) (b : body) : bool :=
    match b with BCode l => forallb (unused_s on) l | BForward _ => true end.

  Definition unused_prog (P : prog) : bool :=
    forallb (fun cd => forallb (fun d => unused_body (negb (is_skip k (c_name cd) d)) (m_body d)) (c_methods cd))
            (p_classes P)
    && forallb (fun d => unused_body true (m_body d)) (p_funcs P)
    && forallb (unused_s true) (p_main P).
End U.
