(* C17 — Obj: a small object language (statements over local variables and attribute access paths, a heap
   of objects with attribute maps, functions, classes with methods, static methods) with a fuel-indexed
   big-step semantics that produces output.  Definitions only; proofs live in ObjProofs.v.

   Conventions
   * identifiers (variables, fields, methods, functions, classes) are N (interned spellings);
   * values are ints, bools, None and references into the heap (a list of objects; an object is its class
     name and an association list of attributes);
   * fuel bounds the DEPTH of the evaluation (every node consumes one unit and passes the rest to all of
     its children); running out of fuel is the distinct result [OOF];
   * an uncaught Python exception is the result [Fail] (no payload: the theorems speak about runs that
     terminate without an uncaught exception);
   * every attribute access carries a boolean tag: "the occurrence finder resolved this occurrence to the
     field being refactored".  The semantics takes a predicate [chk heap value] ("the value is an instance of
     the class that owns the field") and a tagged access whose receiver does not satisfy it is the distinct
     result [Stuck]: the run is outside of what the finder's classification describes (C02's business).
   * Python evaluates the right-hand side of [p.f = e] before [p]; of [p.f op= e] first [p], then the old
     value, then [e]; of [r.m(args)] first [r], then the arguments.  The method is looked up on the class of
     the receiver after the arguments were evaluated (for runs without exception this is the same as
     Python's earlier lookup: the class of an object never changes). *)
From Coq Require Import List NArith ZArith Bool.
Import ListNotations.

Inductive binop := Add | Sub | Mul | FloorDiv | Mod | Lt | Eq.

Inductive value := VInt (z : Z) | VBool (b : bool) | VNone | VRef (l : nat).

Inductive expr :=
| EInt (z : Z)
| ENone
| EVar (x : N)
| EParen (e : expr)                               (* explicit parentheses in the source *)
| EAttr (tag : bool) (e : expr) (f : N)           (* e.f  (read) *)
| EBin (op : binop) (a b : expr)
| ECall (f : N) (args : list expr)                (* module-level function *)
| EMeth (e : expr) (m : N) (args : list expr)     (* e.m(args) *)
| ENew (c : N) (args : list expr)                 (* C(args) *)
| EStatic (c : N) (m : N) (args : list expr).     (* C.m(args), m a static method *)

Inductive stmt :=
| SPass
| SAssign (x : N) (e : expr)
| SWrite (tag : bool) (p : expr) (f : N) (e : expr)               (* p.f = e *)
| SAug (tag : bool) (p : expr) (f : N) (op : binop) (e : expr)    (* p.f op= e *)
| SExpr (e : expr)
| SPrint (e : expr)
| SReturn (e : expr)
| SIf (c : expr) (a b : list stmt)
| SWhile (c : expr) (b : list stmt).

(* A method / function body: code, or "return C( *args, **kwds)" (the body rope gives to a factory). *)
Inductive body := BCode (b : list stmt) | BForward (c : N).

Record mdef := { m_name : N; m_static : bool; m_params : list N; m_body : body }.
(* [c_base]: the class named in the class statement's base list (None: object).  Methods are looked up in the class
   and then in its base class ([find_meth], ONE level: [Refactor.side] asks that a base class has no base itself). *)
Record cdef := { c_name : N; c_base : option N; c_methods : list mdef }.
Record prog := { p_classes : list cdef; p_funcs : list mdef; p_main : list stmt }.

Definition init_name : N := 0%N.     (* the interned spelling of "__init__" is always 0 *)

(* ------------------------------------------------------------------------------------------------ *)
Inductive res (A : Type) := Done (a : A) | Fail | Stuck | OOF.
Arguments Done {A} a.
Arguments Fail {A}.
Arguments Stuck {A}.
Arguments OOF {A}.

Definition bind {A B} (m : res A) (k : A -> res B) : res B :=
  match m with Done a => k a | Fail => Fail | Stuck => Stuck | OOF => OOF end.

Definition of_opt {A} (o : option A) : res A := match o with Some a => Done a | None => Fail end.

Definition obj := (N * list (N * value))%type.
Definition heap := list obj.
Definition env := list (N * value).
Definition st := (heap * list value)%type.           (* heap, output so far *)

Inductive ctl := CNormal | CReturn (v : value).

Fixpoint lookup {A} (l : list (N * A)) (x : N) : option A :=
  match l with
  | [] => None
  | (y, v) :: r => if N.eqb x y then Some v else lookup r x
  end.

Fixpoint update_attr (l : list (N * value)) (f : N) (v : value) : list (N * value) :=
  match l with
  | [] => [(f, v)]
  | (g, w) :: r => if N.eqb f g then (g, v) :: r else (g, w) :: update_attr r f v
  end.

Fixpoint set_nth {A} (l : list A) (i : nat) (a : A) : list A :=
  match l, i with
  | [], _ => []
  | _ :: r, O => a :: r
  | x :: r, S j => x :: set_nth r j a
  end.

Definition class_of (h : heap) (v : value) : option N :=
  match v with
  | VRef l => match nth_error h l with Some (c, _) => Some c | None => None end
  | _ => None
  end.

Definition read_attr (h : heap) (v : value) (f : N) : option value :=
  match v with
  | VRef l => match nth_error h l with Some (_, attrs) => lookup attrs f | None => None end
  | _ => None
  end.

Definition write_attr (h : heap) (v : value) (f : N) (w : value) : option heap :=
  match v with
  | VRef l => match nth_error h l with
              | Some (c, attrs) => Some (set_nth h l (c, update_attr attrs f w))
              | None => None
              end
  | _ => None
  end.

Definition binop_eval (op : binop) (a b : value) : option value :=
  match a, b with
  | VInt x, VInt y =>
      match op with
      | Add => Some (VInt (x + y))
      | Sub => Some (VInt (x - y))
      | Mul => Some (VInt (x * y))
      | FloorDiv => if Z.eqb y 0 then None else Some (VInt (x / y))
      | Mod => if Z.eqb y 0 then None else Some (VInt (x mod y))
      | Lt => Some (VBool (Z.ltb x y))
      | Eq => Some (VBool (Z.eqb x y))
      end
  | _, _ => None
  end.

Definition truthy (v : value) : bool :=
  match v with VInt z => negb (Z.eqb z 0) | VBool b => b | VNone => false | VRef _ => true end.

Fixpoint find_m (l : list mdef) (m : N) : option mdef :=
  match l with
  | [] => None
  | d :: r => if N.eqb m (m_name d) then Some d else find_m r m
  end.

Fixpoint find_c (l : list cdef) (c : N) : option cdef :=
  match l with
  | [] => None
  | d :: r => if N.eqb c (c_name d) then Some d else find_c r c
  end.

(* method lookup: the class itself, then its base class *)
Definition find_meth (cs : list cdef) (cd : cdef) (m : N) : option mdef :=
  match find_m (c_methods cd) m with
  | Some d => Some d
  | None =>
      match c_base cd with
      | Some b => match find_c cs b with Some bd => find_m (c_methods bd) m | None => None end
      | None => None
      end
  end.

Fixpoint bind_params (ps : list N) (vs : list value) : option env :=
  match ps, vs with
  | [], [] => Some []
  | p :: ps', v :: vs' => match bind_params ps' vs' with Some e => Some ((p, v) :: e) | None => None end
  | _, _ => None
  end.

Definition ret_val (c : ctl) : value := match c with CReturn v => v | CNormal => VNone end.

(* The list helpers take the evaluator of one element as an argument (so that the semantics recurses on
   the fuel only). *)
Fixpoint eval_list (ev : st -> expr -> res (value * st)) (s : st) (l : list expr) : res (list value * st) :=
  match l with
  | [] => Done ([], s)
  | e :: r =>
      bind (ev s e) (fun x => let '(v, s1) := x in
      bind (eval_list ev s1 r) (fun y => let '(vs, s2) := y in Done (v :: vs, s2)))
  end.

Definition xres := res (ctl * env * st).

Fixpoint exec_list (ex : env -> st -> stmt -> xres) (en : env) (s : st) (l : list stmt) : xres :=
  match l with
  | [] => Done (CNormal, en, s)
  | c :: r =>
      bind (ex en s c) (fun x => let '(k, en1, s1) := x in
      match k with
      | CNormal => exec_list ex en1 s1 r
      | CReturn _ => Done (k, en1, s1)
      end)
  end.

Definition run_code (ex : env -> st -> stmt -> xres) (ps : list N) (b : list stmt) (vs : list value) (s : st)
  : res (value * st) :=
  match bind_params ps vs with
  | None => Fail
  | Some en => bind (exec_list ex en s b) (fun x => let '(k, _, s1) := x in Done (ret_val k, s1))
  end.

Section Sem.
  Variable chk : heap -> value -> bool.
  Variable P : prog.

  (* C(vs): allocate, run __init__ (if the class has one; it must be ordinary code) *)
  Definition construct (ex : env -> st -> stmt -> xres) (c : N) (vs : list value) (s : st) : res (value * st) :=
    match find_c (p_classes P) c with
    | None => Fail
    | Some cd =>
        let l := length (fst s) in
        let s0 := (fst s ++ [(c, [])], snd s) in
        match find_meth (p_classes P) cd init_name with
        | None => match vs with [] => Done (VRef l, s0) | _ => Fail end
        | Some d =>
            match m_body d with
            | BCode b => if m_static d then Fail else
                bind (run_code ex (m_params d) b (VRef l :: vs) s0) (fun x => Done (VRef l, snd x))
            | BForward _ => Fail
            end
        end
    end.

  Definition run_body (ex : env -> st -> stmt -> xres) (d : mdef) (vs : list value) (s : st) : res (value * st) :=
    match m_body d with
    | BCode b => run_code ex (m_params d) b vs s
    | BForward c => construct ex c vs s
    end.

  Definition call_method (ex : env -> st -> stmt -> xres) (o : value) (m : N) (vs : list value) (s : st)
    : res (value * st) :=
    match class_of (fst s) o with
    | None => Fail
    | Some c =>
        match find_c (p_classes P) c with
        | None => Fail
        | Some cd =>
            match find_meth (p_classes P) cd m with
            | None => Fail
            | Some d => if m_static d then Fail else run_body ex d (o :: vs) s
            end
        end
    end.

  Definition call_static (ex : env -> st -> stmt -> xres) (c m : N) (vs : list value) (s : st) : res (value * st) :=
    match find_c (p_classes P) c with
    | None => Fail
    | Some cd =>
        match find_m (c_methods cd) m with
        | None => Fail
        | Some d => if m_static d then run_body ex d vs s else Fail
        end
    end.

  Definition call_func (ex : env -> st -> stmt -> xres) (f : N) (vs : list value) (s : st) : res (value * st) :=
    match find_m (p_funcs P) f with
    | None => Fail
    | Some d => run_body ex d vs s
    end.

  Definition tagged_ok (tag : bool) (h : heap) (o : value) : bool := negb tag || chk h o.

  Fixpoint eval (n : nat) (en : env) (s : st) (e : expr) {struct n} : res (value * st) :=
    match n with
    | O => OOF
    | S n =>
        match e with
        | EInt z => Done (VInt z, s)
        | ENone => Done (VNone, s)
        | EVar x => match lookup en x with Some v => Done (v, s) | None => Fail end
        | EParen a => eval n en s a
        | EAttr tag a f =>
            bind (eval n en s a) (fun x => let '(o, s1) := x in
            if tagged_ok tag (fst s1) o
            then match read_attr (fst s1) o f with Some w => Done (w, s1) | None => Fail end
            else Stuck)
        | EBin op a b =>
            bind (eval n en s a) (fun x => let '(va, s1) := x in
            bind (eval n en s1 b) (fun y => let '(vb, s2) := y in
            match binop_eval op va vb with Some v => Done (v, s2) | None => Fail end))
        | ECall f args =>
            bind (eval_list (eval n en) s args) (fun x => let '(vs, s1) := x in
            call_func (exec n) f vs s1)
        | EMeth a m args =>
            bind (eval n en s a) (fun x => let '(o, s1) := x in
            bind (eval_list (eval n en) s1 args) (fun y => let '(vs, s2) := y in
            call_method (exec n) o m vs s2))
        | ENew c args =>
            bind (eval_list (eval n en) s args) (fun x => let '(vs, s1) := x in
            construct (exec n) c vs s1)
        | EStatic c m args =>
            bind (eval_list (eval n en) s args) (fun x => let '(vs, s1) := x in
            call_static (exec n) c m vs s1)
        end
    end
  with exec (n : nat) (en : env) (s : st) (c : stmt) {struct n} : xres :=
    match n with
    | O => OOF
    | S n =>
        match c with
        | SPass => Done (CNormal, en, s)
        | SAssign x e =>
            bind (eval n en s e) (fun r => let '(v, s1) := r in Done (CNormal, (x, v) :: en, s1))
        | SWrite tag p f e =>
            bind (eval n en s e) (fun r => let '(v, s1) := r in
            bind (eval n en s1 p) (fun q => let '(o, s2) := q in
            if tagged_ok tag (fst s2) o
            then match write_attr (fst s2) o f v with
                 | Some h => Done (CNormal, en, (h, snd s2))
                 | None => Fail
                 end
            else Stuck))
        | SAug tag p f op e =>
            bind (eval n en s p) (fun q => let '(o, s1) := q in
            if tagged_ok tag (fst s1) o
            then match read_attr (fst s1) o f with
                 | None => Fail
                 | Some old =>
                     bind (eval n en s1 e) (fun r => let '(v, s2) := r in
                     match binop_eval op old v with
                     | None => Fail
                     | Some w =>
                         if tagged_ok tag (fst s2) o
                         then match write_attr (fst s2) o f w with
                              | Some h => Done (CNormal, en, (h, snd s2))
                              | None => Fail
                              end
                         else Stuck
                     end)
                 end
            else Stuck)
        | SExpr e => bind (eval n en s e) (fun r => Done (CNormal, en, snd r))
        | SPrint e => bind (eval n en s e) (fun r => let '(v, s1) := r in Done (CNormal, en, (fst s1, snd s1 ++ [v])))
        | SReturn e => bind (eval n en s e) (fun r => let '(v, s1) := r in Done (CReturn v, en, s1))
        | SIf c a b =>
            bind (eval n en s c) (fun r => let '(v, s1) := r in
            exec_list (exec n) en s1 (if truthy v then a else b))
        | SWhile c b =>
            bind (eval n en s c) (fun r => let '(v, s1) := r in
            if truthy v
            then bind (exec_list (exec n) en s1 b) (fun x => let '(k, en2, s2) := x in
                 match k with
                 | CNormal => exec n en2 s2 (SWhile c b)
                 | CReturn _ => Done (k, en2, s2)
                 end)
            else Done (CNormal, en, s1))
        end
    end.

  Definition run (n : nat) (en : env) (s : st) : xres := exec_list (exec n) en s (p_main P).
End Sem.

Definition output_of (r : xres) : option (list value) :=
  match r with Done (_, _, (_, o)) => Some o | _ => None end.

(* "o is an instance of class c" *)
Definition is_instance (c : N) (h : heap) (o : value) : bool :=
  match class_of h o with Some c' => N.eqb c' c | None => false end.

(* expressions whose evaluation has no effect and does not depend on the program: no calls *)
Fixpoint pure (e : expr) : bool :=
  match e with
  | EInt _ | ENone | EVar _ => true
  | EParen a => pure a
  | EAttr _ a _ => pure a
  | EBin _ a b => pure a && pure b
  | _ => false
  end.

Definition is_var (e : expr) : bool := match e with EVar _ => true | _ => false end.
