(* C17 — EncapsulateField / IntroduceFactory preserve every run that terminates without an uncaught
   exception (forward simulation on the fuel-indexed semantics). *)
From Coq Require Import List NArith ZArith Bool Lia.
From RopeVerif.C17 Require Import Obj ObjProofs Refactor Witness.
Import ListNotations.

Lemma find_m_map_app (g : mdef -> mdef) l extra m :
  (forall d, m_name (g d) = m_name d) ->
  find_m (map g l ++ extra) m = match find_m l m with Some d => Some (g d) | None => find_m extra m end.
Proof.
  intros Hg. induction l as [|d l IH]; cbn; [reflexivity|].
  rewrite Hg. destruct (N.eqb m (m_name d)); [reflexivity|exact IH].
Qed.

Lemma find_m_In l m d : find_m l m = Some d -> In d l.
Proof.
  induction l as [|x l IH]; cbn; [discriminate|].
  destruct (N.eqb m (m_name x)); intros H; [inversion H; auto | auto].
Qed.

Lemma find_c_In l c d : find_c l c = Some d -> In d l /\ c_name d = c.
Proof.
  induction l as [|x l IH]; cbn; [discriminate|].
  destruct (N.eqb_spec c (c_name x)); intros H; [inversion H; subst; auto | apply IH in H; tauto].
Qed.

Lemma exec_SExpr chk P q en s e :
  exec chk P (S q) en s (SExpr e) = bind (eval chk P q en s e) (fun r => Done (CNormal, en, snd r)).
Proof. reflexivity. Qed.
Lemma eval_EBin chk P q en s op a b :
  eval chk P (S q) en s (EBin op a b) =
  bind (eval chk P q en s a) (fun x => let '(va, s1) := x in
  bind (eval chk P q en s1 b) (fun y => let '(vb, s2) := y in
  match binop_eval op va vb with Some v => Done (v, s2) | None => Fail end)).
Proof. reflexivity. Qed.

Lemma find_meth_own_None cs cd m : find_meth cs cd m = None -> find_m (c_methods cd) m = None.
Proof. unfold find_meth. destruct (find_m (c_methods cd) m); [discriminate|reflexivity]. Qed.

Definition F (n : nat) : nat := 3 * n + 6.
Lemma F_S n : F (S n) = S (S (S (F n))).
Proof. unfold F; lia. Qed.
Lemma F_ge n : 6 <= F n.
Proof. unfold F; lia. Qed.
Lemma F_eq n : F n = 3 * n + 6.
Proof. reflexivity. Qed.
Lemma F_n n : n + 6 <= F n.
Proof. unfold F; lia. Qed.
Global Opaque F.

Section Sim.
  Variable k : cfg.
  Variable chk : heap -> value -> bool.
  Variable P : prog.
  Hypothesis Hside : side k P = true.
  Hypothesis Hchk : k_enc k = true -> forall h o, chk h o = true -> class_of h o = Some (k_cls k).

  Let P' := tP k P.

  Definition sim_ev (on : bool) (ev ev' : st -> expr -> res (value * st)) : Prop :=
    forall s e r, ev s e = Done r -> ev' s (tE k on e) = Done r.
  Definition sim_ex (ex ex' : env -> st -> stmt -> xres) : Prop :=
    forall on en s c r, ok_s k on c = true -> ex en s c = Done r -> ex' en s (tS k on c) = Done r.

  Lemma eval_list_sim on ev ev' : sim_ev on ev ev' ->
    forall l s r, eval_list ev s l = Done r -> eval_list ev' s (map (tE k on) l) = Done r.
  Proof.
    intros L l. induction l as [|e l IH]; intros s r H; cbn in *; [exact H|].
    apply bind_Done in H. destruct H as [[v s1] [H1 H2]]. rewrite (L _ _ _ H1). cbn.
    apply bind_Done in H2. destruct H2 as [[vs s2] [H2 H3]]. rewrite (IH _ _ H2). cbn. exact H3.
  Qed.

  Lemma exec_list_sim on ex ex' : sim_ex ex ex' ->
    forall l en s r, forallb (ok_s k on) l = true ->
      exec_list ex en s l = Done r -> exec_list ex' en s (map (tS k on) l) = Done r.
  Proof.
    intros L l. induction l as [|c l IH]; intros en s r Hok H; cbn in *; [exact H|].
    apply andb_true_iff in Hok. destruct Hok as [Hc Hl].
    apply bind_Done in H. destruct H as [[[kk en1] s1] [H1 H2]]. rewrite (L _ _ _ _ _ Hc H1). cbn.
    destruct kk; [apply IH; assumption | exact H2].
  Qed.

  Lemma run_code_sim on ex ex' : sim_ex ex ex' ->
    forall ps b vs s r, forallb (ok_s k on) b = true ->
      run_code ex ps b vs s = Done r -> run_code ex' ps (map (tS k on) b) vs s = Done r.
  Proof.
    intros L ps b vs s r Hok H. unfold run_code in *. destruct (bind_params ps vs); [|discriminate].
    apply bind_Done in H. destruct H as [[[kk en1] s1] [H1 H2]].
    rewrite (exec_list_sim on ex ex' L _ _ _ _ Hok H1). cbn. exact H2.
  Qed.

  (* --- what the side condition gives ------------------------------------------------------------ *)
  Lemma side_parts : fresh_ok k P = true /\ forallb (ok_cb k (p_classes P)) (p_classes P) = true /\
    forallb (fun d => ok_body k true (m_body d)) (p_funcs P) = true /\ forallb (ok_s k true) (p_main P) = true.
  Proof.
    pose proof Hside as H. unfold side in H.
    apply andb_true_iff in H. destruct H as [H H4].
    apply andb_true_iff in H. destruct H as [H H3].
    apply andb_true_iff in H. destruct H as [H1 H2]. auto.
  Qed.
  Lemma side_fresh : fresh_ok k P = true.
  Proof. apply side_parts. Qed.
  Lemma side_classes_b : forallb (ok_cb k (p_classes P)) (p_classes P) = true.
  Proof. apply side_parts. Qed.
  Lemma side_classes : forallb (ok_c k) (p_classes P) = true.
  Proof.
    pose proof side_classes_b as H. rewrite forallb_forall in *. intros x Hx. specialize (H x Hx).
    unfold ok_cb in H. apply andb_true_iff in H. tauto.
  Qed.
  Lemma side_funcs : forallb (fun d => ok_body k true (m_body d)) (p_funcs P) = true.
  Proof. apply side_parts. Qed.
  Lemma side_main : forallb (ok_s k true) (p_main P) = true.
  Proof. apply side_parts. Qed.

  Lemma not_both : k_enc k && k_fac k = false.
  Proof.
    pose proof side_fresh as H. unfold fresh_ok in H.
    apply andb_true_iff in H. destruct H as [H _]. apply andb_true_iff in H. destruct H as [H _].
    apply negb_true_iff in H. exact H.
  Qed.

  Lemma enc_facts : k_enc k = true ->
    exists cd, find_c (p_classes P) (k_cls k) = Some cd /\
      find_m (c_methods cd) (k_get k) = None /\ find_m (c_methods cd) (k_set k) = None /\
      N.eqb (k_get k) (k_set k) = false /\ N.eqb (k_self k) (k_value k) = false /\
      N.eqb (k_get k) init_name = false /\ N.eqb (k_set k) init_name = false /\ k_fac k = false /\
      find_meth (p_classes P) cd (k_get k) = None /\ find_meth (p_classes P) cd (k_set k) = None.
  Proof.
    intros He. pose proof side_fresh as H. pose proof not_both as NB. rewrite He in NB. cbn in NB.
    unfold fresh_ok in H. rewrite He in H. cbn in H.
    apply andb_true_iff in H. destruct H as [H _]. apply andb_true_iff in H. destruct H as [_ H].
    destruct (find_c (p_classes P) (k_cls k)) as [cd|]; [|discriminate]. exists cd.
    repeat (apply andb_true_iff in H; destruct H as [H ?]).
    unfold absentm in *.
    destruct (find_meth (p_classes P) cd (k_get k)) eqn:MG; [discriminate|].
    destruct (find_meth (p_classes P) cd (k_set k)) eqn:MS; [discriminate|].
    repeat match goal with X : negb _ = true |- _ => apply negb_true_iff in X end.
    pose proof (find_meth_own_None _ _ _ MG). pose proof (find_meth_own_None _ _ _ MS).
    repeat split; auto.
  Qed.

  Lemma find_c_tP c : find_c (p_classes P') c = option_map (tC k) (find_c (p_classes P) c).
  Proof.
    unfold P', tP. cbn. induction (p_classes P) as [|d l IH]; cbn; [reflexivity|].
    destruct (N.eqb c (c_name d)); [reflexivity | exact IH].
  Qed.

  Lemma find_m_tC cd m :
    find_m (c_methods (tC k cd)) m =
    match find_m (c_methods cd) m with
    | Some d => Some (tM k (negb (is_skip k (c_name cd) d)) d)
    | None => find_m (new_methods k (c_name cd)) m
    end.
  Proof. unfold tC. cbn. apply find_m_map_app. reflexivity. Qed.

  Lemma class_ok cd c : find_c (p_classes P) c = Some cd -> ok_c k cd = true.
  Proof.
    intros H. apply find_c_In in H. destruct H as [H _].
    pose proof side_classes as Hc. rewrite forallb_forall in Hc. auto.
  Qed.

  Lemma method_ok cd c m d : find_c (p_classes P) c = Some cd -> find_m (c_methods cd) m = Some d ->
    ok_body k (negb (is_skip k (c_name cd) d)) (m_body d) = true.
  Proof.
    intros Hc Hm. apply class_ok in Hc. unfold ok_c in Hc. rewrite forallb_forall in Hc.
    apply Hc. eapply find_m_In; eassumption.
  Qed.

  Lemma func_ok f d : find_m (p_funcs P) f = Some d -> ok_body k true (m_body d) = true.
  Proof.
    intros H. pose proof side_funcs as Hf. rewrite forallb_forall in Hf. apply Hf. eapply find_m_In; eassumption.
  Qed.

  Lemma new_methods_init c : find_m (new_methods k c) init_name = None.
  Proof.
    unfold new_methods.
    destruct (k_enc k && N.eqb c (k_cls k)) eqn:E1; destruct (k_fac k && negb (k_fglobal k) && N.eqb c (k_fcls k)) eqn:E2; cbn.
    - exfalso. apply andb_true_iff in E1. destruct E1 as [E1 _].
      apply andb_true_iff in E2. destruct E2 as [E2 _]. apply andb_true_iff in E2. destruct E2 as [E2 _].
      pose proof not_both as NB. rewrite E1, E2 in NB. discriminate.
    - apply andb_true_iff in E1. destruct E1 as [E1 _]. destruct (enc_facts E1) as [cd [_ [_ [_ [_ [_ [G [S0 _]]]]]]]].
      unfold init_name in G, S0. destruct (k_get k); [cbn in G; discriminate|]. destruct (k_set k); [cbn in S0; discriminate|]. reflexivity.
    - apply andb_true_iff in E2. destruct E2 as [E2 E3]. apply andb_true_iff in E2. destruct E2 as [E2 E4].
      apply N.eqb_eq in E3. subst c. apply negb_true_iff in E4.
      pose proof side_fresh as H. unfold fresh_ok in H. rewrite E2, E4 in H.
      apply andb_true_iff in H. destruct H as [_ H]. cbn in H.
      destruct (find_c (p_classes P) (k_fcls k)); [|discriminate].
      apply andb_true_iff in H. destruct H as [_ H]. apply negb_true_iff in H.
      unfold init_name in H. destruct (k_fname k); [cbn in H; discriminate|]. reflexivity.
    - reflexivity.
  Qed.

  (* a name found through the base class is none of the new methods of the class *)
  Lemma new_methods_not_inherited cd c m d : find_c (p_classes P) c = Some cd ->
    find_meth (p_classes P) cd m = Some d -> find_m (c_methods cd) m = None ->
    find_m (new_methods k (c_name cd)) m = None.
  Proof.
    intros Hc Hm Ho. pose proof (find_c_In _ _ _ Hc) as [_ Hn]. unfold new_methods.
    destruct (k_enc k && N.eqb (c_name cd) (k_cls k)) eqn:E1;
      destruct (k_fac k && negb (k_fglobal k) && N.eqb (c_name cd) (k_fcls k)) eqn:E2.
    - exfalso. apply andb_true_iff in E1. destruct E1 as [E1 _].
      apply andb_true_iff in E2. destruct E2 as [E2 _]. apply andb_true_iff in E2. destruct E2 as [E2 _].
      pose proof not_both as NB. rewrite E1, E2 in NB. discriminate.
    - apply andb_true_iff in E1. destruct E1 as [E1 E1']. apply N.eqb_eq in E1'.
      destruct (enc_facts E1) as [cd' [Hc' [_ [_ [_ [_ [_ [_ [_ [MG MS]]]]]]]]]].
      assert (cd' = cd) by (rewrite <- E1', Hn in Hc'; congruence). subst cd'.
      cbn. destruct (N.eqb_spec m (k_get k)); [subst; congruence|].
      destruct (N.eqb_spec m (k_set k)); [subst; congruence|]. reflexivity.
    - apply andb_true_iff in E2. destruct E2 as [E2 E3]. apply andb_true_iff in E2. destruct E2 as [E2 E4].
      apply N.eqb_eq in E3. apply negb_true_iff in E4.
      pose proof side_fresh as H. unfold fresh_ok in H. rewrite E2, E4 in H.
      apply andb_true_iff in H. destruct H as [_ H]. cbn in H.
      destruct (find_c (p_classes P) (k_fcls k)) as [cd'|] eqn:Hc'; [|discriminate].
      assert (cd' = cd) by (rewrite <- E3, Hn in Hc'; congruence). subst cd'.
      apply andb_true_iff in H. destruct H as [H _]. unfold absentm in H.
      cbn. destruct (N.eqb_spec m (k_fname k)); [subst; rewrite Hm in H; discriminate|]. reflexivity.
    - reflexivity.
  Qed.

  Lemma find_meth_init_None cd c : find_c (p_classes P) c = Some cd ->
    find_meth (p_classes P) cd init_name = None -> find_meth (p_classes P') (tC k cd) init_name = None.
  Proof.
    intros Hc Hm. unfold find_meth in *. rewrite find_m_tC.
    destruct (find_m (c_methods cd) init_name); [discriminate|]. rewrite new_methods_init.
    change (c_base (tC k cd)) with (c_base cd). destruct (c_base cd) as [b|]; [|reflexivity].
    rewrite find_c_tP. destruct (find_c (p_classes P) b) as [bd|]; [|reflexivity]. cbn [option_map].
    rewrite find_m_tC. destruct (find_m (c_methods bd) init_name); [discriminate|]. apply new_methods_init.
  Qed.

  Lemma find_meth_fwd cd c m d : find_c (p_classes P) c = Some cd -> find_meth (p_classes P) cd m = Some d ->
    exists on, find_meth (p_classes P') (tC k cd) m = Some (tM k on d) /\ ok_body k on (m_body d) = true.
  Proof.
    intros Hc Hm. pose proof Hm as Hm0. unfold find_meth in Hm |- *. rewrite find_m_tC.
    destruct (find_m (c_methods cd) m) as [d0|] eqn:Eo.
    - inversion Hm; subst d0. eexists. split; [reflexivity|]. eapply method_ok; eauto.
    - rewrite (new_methods_not_inherited cd c m d Hc Hm0 Eo).
      change (c_base (tC k cd)) with (c_base cd).
      destruct (c_base cd) as [b|]; [|discriminate]. rewrite find_c_tP.
      destruct (find_c (p_classes P) b) as [bd|] eqn:Eb; [|discriminate]. cbn [option_map].
      rewrite find_m_tC, Hm. eexists. split; [reflexivity|]. eapply method_ok; eauto.
  Qed.

  (* --- calls ------------------------------------------------------------------------------------ *)
  Lemma construct_sim ex ex' : sim_ex ex ex' ->
    forall c vs s r, construct P ex c vs s = Done r -> construct P' ex' c vs s = Done r.
  Proof.
    intros L c vs s r H. unfold construct in *. rewrite find_c_tP.
    destruct (find_c (p_classes P) c) as [cd|] eqn:Ec; [|discriminate]. cbn [option_map].
    destruct (find_meth (p_classes P) cd init_name) as [d|] eqn:Em.
    - destruct (find_meth_fwd _ _ _ _ Ec Em) as [on [E' Hok]]. rewrite E'.
      cbn. destruct (m_body d) as [b|]; [|discriminate]. cbn.
      destruct (m_static d); [discriminate|].
      apply bind_Done in H. destruct H as [[v s1] [H1 H2]].
      cbn in Hok. rewrite (run_code_sim _ ex ex' L _ _ _ _ _ Hok H1). cbn. exact H2.
    - rewrite (find_meth_init_None _ _ Ec Em). exact H.
  Qed.

  Lemma run_body_sim ex ex' : sim_ex ex ex' ->
    forall on d vs s r, ok_body k on (m_body d) = true ->
      run_body P ex d vs s = Done r -> run_body P' ex' (tM k on d) vs s = Done r.
  Proof.
    intros L on d vs s r Hok H. unfold run_body in *. cbn. destruct (m_body d); cbn.
    - apply run_code_sim with (ex := ex); assumption.
    - apply construct_sim with (ex := ex); assumption.
  Qed.

  Lemma call_method_sim ex ex' : sim_ex ex ex' ->
    forall o m vs s r, call_method P ex o m vs s = Done r -> call_method P' ex' o m vs s = Done r.
  Proof.
    intros L o m vs s r H. unfold call_method in *.
    destruct (class_of (fst s) o) as [c|]; [|discriminate]. rewrite find_c_tP.
    destruct (find_c (p_classes P) c) as [cd|] eqn:Ec; [|discriminate]. cbn [option_map].
    destruct (find_meth (p_classes P) cd m) as [d|] eqn:Em; [|discriminate].
    destruct (find_meth_fwd _ _ _ _ Ec Em) as [on [E' Hok]]. rewrite E'.
    cbn. destruct (m_static d); [discriminate|].
    eapply run_body_sim; eauto.
  Qed.

  Lemma call_static_sim ex ex' : sim_ex ex ex' ->
    forall c m vs s r, call_static P ex c m vs s = Done r -> call_static P' ex' c m vs s = Done r.
  Proof.
    intros L c m vs s r H. unfold call_static in *. rewrite find_c_tP.
    destruct (find_c (p_classes P) c) as [cd|] eqn:Ec; [|discriminate]. cbn [option_map].
    rewrite find_m_tC. destruct (find_m (c_methods cd) m) as [d|] eqn:Em; [|discriminate].
    cbn. destruct (m_static d); [|discriminate].
    eapply run_body_sim; eauto. eapply method_ok; eauto.
  Qed.

  Lemma call_func_sim ex ex' : sim_ex ex ex' ->
    forall f vs s r, call_func P ex f vs s = Done r -> call_func P' ex' f vs s = Done r.
  Proof.
    intros L f vs s r H. unfold call_func in *. unfold P', tP. cbn.
    rewrite find_m_map_app by reflexivity.
    destruct (find_m (p_funcs P) f) as [d|] eqn:Ef; [|discriminate].
    eapply run_body_sim; eauto. eapply func_ok; eauto.
  Qed.

  (* --- the accessors ---------------------------------------------------------------------------- *)
  Lemma getter_run q o s1 w : 3 <= q -> read_attr (fst s1) o (k_fld k) = Some w ->
    run_code (exec chk P' q) [k_self k] [SReturn (EAttr false (EVar (k_self k)) (k_fld k))] [o] s1 = Done (w, s1).
  Proof.
    intros Hq R. destruct q as [|[|[|q]]]; try lia.
    unfold run_code. cbn. rewrite N.eqb_refl. cbn. rewrite R. reflexivity.
  Qed.

  Lemma setter_run q o v s1 h : 2 <= q -> N.eqb (k_self k) (k_value k) = false ->
    write_attr (fst s1) o (k_fld k) v = Some h ->
    run_code (exec chk P' q) [k_self k; k_value k]
      [SWrite false (EVar (k_self k)) (k_fld k) (EVar (k_value k))] [o; v] s1 = Done (VNone, (h, snd s1)).
  Proof.
    intros Hq Hsv W. destruct q as [|[|q]]; try lia.
    unfold run_code. cbn. rewrite N.eqb_refl. rewrite N.eqb_sym, Hsv. rewrite N.eqb_refl. cbn.
    rewrite W. reflexivity.
  Qed.

  Lemma find_getter cd : k_enc k = true -> find_c (p_classes P) (k_cls k) = Some cd ->
    find_m (c_methods (tC k cd)) (k_get k) = Some (getter_def k) /\
    find_m (c_methods (tC k cd)) (k_set k) = Some (setter_def k).
  Proof.
    intros He Hc. destruct (enc_facts He) as [cd' [Hc' [G [S0 [GS _]]]]].
    rewrite Hc in Hc'. inversion Hc'; subst cd'. clear Hc'.
    rewrite !find_m_tC, G, S0. apply find_c_In in Hc. destruct Hc as [_ Hn].
    unfold new_methods. rewrite He, Hn, N.eqb_refl. cbn. rewrite N.eqb_refl.
    rewrite N.eqb_sym, GS, N.eqb_refl. auto.
  Qed.

  Lemma find_getter_meth cd : k_enc k = true -> find_c (p_classes P) (k_cls k) = Some cd ->
    find_meth (p_classes P') (tC k cd) (k_get k) = Some (getter_def k) /\
    find_meth (p_classes P') (tC k cd) (k_set k) = Some (setter_def k).
  Proof.
    intros He Hc. destruct (find_getter cd He Hc) as [G S0]. unfold find_meth. rewrite G, S0. auto.
  Qed.

  Lemma getter_call q en s a o s1 w : 3 <= q -> k_enc k = true ->
    eval chk P' q en s a = Done (o, s1) -> chk (fst s1) o = true ->
    read_attr (fst s1) o (k_fld k) = Some w ->
    eval chk P' (S q) en s (EMeth a (k_get k) []) = Done (w, s1).
  Proof.
    intros Hq He Ha Hc R. cbn [eval]. rewrite Ha. cbn.
    unfold call_method. rewrite (Hchk He _ _ Hc). rewrite find_c_tP.
    destruct (enc_facts He) as [cd [Hcd _]]. rewrite Hcd. cbn [option_map].
    destruct (find_getter_meth cd He Hcd) as [G _]. rewrite G. cbn.
    unfold run_body. cbn. apply getter_run; assumption.
  Qed.

  Lemma setter_call q en s a o s1 e v s2 h : 2 <= q -> k_enc k = true ->
    eval chk P' q en s a = Done (o, s1) -> eval chk P' q en s1 e = Done (v, s2) ->
    chk (fst s2) o = true -> write_attr (fst s2) o (k_fld k) v = Some h ->
    eval chk P' (S q) en s (EMeth a (k_set k) [e]) = Done (VNone, (h, snd s2)).
  Proof.
    intros Hq He Ha Hv Hc W. cbn [eval]. rewrite Ha. cbn. rewrite Hv. cbn.
    unfold call_method. rewrite (Hchk He _ _ Hc). rewrite find_c_tP.
    destruct (enc_facts He) as [cd [Hcd [_ [_ [_ [SV _]]]]]]. rewrite Hcd. cbn [option_map].
    destruct (find_getter_meth cd He Hcd) as [_ S0]. rewrite S0. cbn.
    unfold run_body. cbn. apply setter_run; assumption.
  Qed.

  (* --- the simulation --------------------------------------------------------------------------- *)
  Lemma no_capture_graft op g e : no_capture op e = true -> graft op g e = EBin op g e.
  Proof.
    destruct e; cbn; try reflexivity. destruct (Nat.leb (prec op0) (prec op)); cbn; [discriminate|reflexivity].
  Qed.

  Lemma paste_ok op g e : k_augparen k || no_capture op e = true -> paste k op g e = EBin op g e.
  Proof.
    unfold paste. destruct (k_augparen k); [reflexivity|]. cbn. apply no_capture_graft.
  Qed.

  Lemma no_capture_tE on op e : no_capture op (tE k on e) = no_capture op e.
  Proof.
    destruct e; cbn; try reflexivity.
    - destruct (hit k on tag f); reflexivity.
    - destruct (hitc k c); [destruct (k_fglobal k)|]; reflexivity.
  Qed.

  Lemma hit_true on tag f : hit k on tag f = true -> k_enc k = true /\ on = true /\ tag = true /\ f = k_fld k.
  Proof.
    unfold hit. intros H. apply andb_true_iff in H. destruct H as [H H4].
    apply andb_true_iff in H. destruct H as [H H3]. apply andb_true_iff in H. destruct H as [H1 H2].
    apply N.eqb_eq in H4. auto.
  Qed.

  Lemma fac_static_facts : k_fac k = true -> k_fglobal k = false ->
    exists cd, find_c (p_classes P) (k_fcls k) = Some cd /\
               find_m (c_methods (tC k cd)) (k_fname k) = Some (factory_def k true).
  Proof.
    intros Hf Hg. pose proof side_fresh as H. pose proof not_both as NB. rewrite Hf in NB.
    rewrite andb_true_r in NB. unfold fresh_ok in H. rewrite Hf, Hg in H.
    apply andb_true_iff in H. destruct H as [_ H]. cbn in H.
    destruct (find_c (p_classes P) (k_fcls k)) as [cd|] eqn:Ec; [|discriminate]. exists cd. split; [reflexivity|].
    apply andb_true_iff in H. destruct H as [H _]. unfold absentm in H.
    destruct (find_meth (p_classes P) cd (k_fname k)) eqn:MF; [discriminate|]. apply find_meth_own_None in MF.
    rewrite find_m_tC. rewrite MF.
    apply find_c_In in Ec. destruct Ec as [_ Ec]. unfold new_methods. rewrite NB, Hf, Hg, Ec, N.eqb_refl. cbn.
    rewrite N.eqb_refl. reflexivity.
  Qed.

  Lemma fac_global_facts : k_fac k = true -> k_fglobal k = true ->
    find_m (p_funcs P') (k_fname k) = Some (factory_def k false).
  Proof.
    intros Hf Hg. pose proof side_fresh as H. unfold fresh_ok in H. rewrite Hf, Hg in H.
    apply andb_true_iff in H. destruct H as [_ H]. cbn in H. unfold absent in H.
    unfold P', tP. cbn [p_funcs]. rewrite find_m_map_app by reflexivity.
    destruct (find_m (p_funcs P) (k_fname k)); [discriminate|]. rewrite Hf, Hg. cbn. rewrite N.eqb_refl. reflexivity.
  Qed.

  Lemma fwd : forall n,
    (forall q, F n <= q -> forall on en s e r,
        eval chk P n en s e = Done r -> eval chk P' q en s (tE k on e) = Done r) /\
    (forall q, F n <= q -> forall on en s c r, ok_s k on c = true ->
        exec chk P n en s c = Done r -> exec chk P' q en s (tS k on c) = Done r).
  Proof.
    induction n as [|n [Hev Hex]]; [split; intros; discriminate|].
    assert (Lev : forall q, F n <= q -> forall on en, sim_ev on (eval chk P n en) (eval chk P' q en)).
    { intros q Hq on en s e r H. apply Hev; assumption. }
    assert (Lex : forall q, F n <= q -> sim_ex (exec chk P n) (exec chk P' q)).
    { intros q Hq on en s c r Hok H. apply Hex; assumption. }
    pose proof (F_ge n) as HF. pose proof (F_n n) as HFn.
    split.
    - intros q Hq on en s e r H. rewrite F_S in Hq. destruct q as [|q1]; [lia|].
      assert (Hq1 : F n <= q1) by lia.
      destruct e; cbn [tE].
      + exact H.
      + exact H.
      + exact H.
      + cbn [eval] in *. apply Hev; assumption.
      + cbn [eval] in H. apply bind_Done in H. destruct H as [[o s1] [H1 H2]]. cbn in H2.
        destruct (hit k on tag f) eqn:Hh.
        * apply hit_true in Hh. destruct Hh as [He [-> [-> ->]]].
          unfold tagged_ok in H2. cbn in H2. destruct (chk (fst s1) o) eqn:C; [|discriminate].
          destruct (read_attr (fst s1) o (k_fld k)) as [w|] eqn:R; [|discriminate]. inversion H2; subst.
          apply getter_call with (o := o); try assumption; [lia|]. apply Hev; assumption.
        * cbn [eval]. rewrite (Hev q1 Hq1 _ _ _ _ _ H1). cbn. exact H2.
      + cbn [eval] in *. apply bind_Done in H. destruct H as [[va s1] [H1 H2]]. cbn in H2.
        apply bind_Done in H2. destruct H2 as [[vb s2] [H2 H3]].
        rewrite (Hev q1 Hq1 _ _ _ _ _ H1). cbn. rewrite (Hev q1 Hq1 _ _ _ _ _ H2). cbn. exact H3.
      + cbn [eval] in *. apply bind_Done in H. destruct H as [[vs s1] [H1 H2]]. cbn in H2.
        rewrite (eval_list_sim on _ _ (Lev q1 Hq1 on en) _ _ _ H1). cbn.
        apply call_func_sim with (ex := exec chk P n); [apply Lex; assumption | exact H2].
      + cbn [eval] in *. apply bind_Done in H. destruct H as [[o s1] [H1 H2]]. cbn in H2.
        apply bind_Done in H2. destruct H2 as [[vs s2] [H2 H3]]. cbn in H3.
        rewrite (Hev q1 Hq1 _ _ _ _ _ H1). cbn.
        rewrite (eval_list_sim on _ _ (Lev q1 Hq1 on en) _ _ _ H2). cbn.
        apply call_method_sim with (ex := exec chk P n); [apply Lex; assumption | exact H3].
      + cbn [eval] in H. apply bind_Done in H. destruct H as [[vs s1] [H1 H2]]. cbn in H2.
        pose proof (eval_list_sim on _ _ (Lev q1 Hq1 on en) _ _ _ H1) as H1'.
        pose proof (construct_sim _ _ (Lex q1 Hq1) _ _ _ _ H2) as H2'.
        destruct (hitc k c) eqn:Hc.
        * unfold hitc in Hc. apply andb_true_iff in Hc. destruct Hc as [Hf Hc]. apply N.eqb_eq in Hc. subst c.
          destruct (k_fglobal k) eqn:Hg.
          -- cbn [eval]. rewrite H1'. cbn. unfold call_func. rewrite (fac_global_facts Hf Hg).
             unfold run_body. cbn. exact H2'.
          -- cbn [eval]. rewrite H1'. cbn. unfold call_static. rewrite find_c_tP.
             destruct (fac_static_facts Hf Hg) as [cd [Ec Em]]. rewrite Ec. cbn [option_map]. rewrite Em. cbn.
             unfold run_body. cbn. exact H2'.
        * cbn [eval]. rewrite H1'. cbn. exact H2'.
      + cbn [eval] in *. apply bind_Done in H. destruct H as [[vs s1] [H1 H2]]. cbn in H2.
        rewrite (eval_list_sim on _ _ (Lev q1 Hq1 on en) _ _ _ H1). cbn.
        apply call_static_sim with (ex := exec chk P n); [apply Lex; assumption | exact H2].
    - intros q Hq on en s c r Hok H. rewrite F_S in Hq. destruct q as [|q1]; [lia|].
      assert (Hq1 : F n <= q1) by lia.
      destruct c; cbn [tS].
      + exact H.
      + cbn [exec] in *. apply bind_Done in H. destruct H as [[v s1] [H1 H2]].
        rewrite (Hev q1 Hq1 _ _ _ _ _ H1). cbn. exact H2.
      + (* SWrite *)
        cbn [exec] in H. apply bind_Done in H. destruct H as [[v s1] [H1 H2]]. cbn in H2.
        apply bind_Done in H2. destruct H2 as [[o s2] [H2 H3]]. cbn in H3.
        destruct (hit k on tag f) eqn:Hh.
        * cbn [ok_s] in Hok. rewrite Hh in Hok. cbn in Hok.
          apply hit_true in Hh. destruct Hh as [He [-> [-> ->]]].
          unfold tagged_ok in H3. cbn in H3. destruct (chk (fst s2) o) eqn:C; [|discriminate].
          destruct (write_attr (fst s2) o (k_fld k) v) as [h|] eqn:W; [|discriminate]. inversion H3; subst. clear H3.
          destruct q1 as [|q2]; [lia|]. assert (Hq2 : F n <= q2) by lia.
          rewrite exec_SExpr.
          assert (E : eval chk P' (S q2) en s (EMeth (tE k true p) (k_set k) [tE k true e]) = Done (VNone, (h, snd s2))).
          { destruct (is_var p) eqn:Hv.
            - destruct p; try discriminate. destruct n as [|n']; [discriminate|]. cbn [eval] in H2.
              destruct (lookup en x) as [ox|] eqn:Lk; [|discriminate]. inversion H2; subst. clear H2.
              apply setter_call with (o := o) (s1 := s) (v := v); try assumption; [lia| |].
              + destruct q2; [lia|]. cbn [tE eval]. rewrite Lk. reflexivity.
              + apply Hev; assumption.
            - cbn in Hok. apply andb_true_iff in Hok. destruct Hok as [Pp Pe].
              destruct (pure_eval _ _ _ _ _ _ _ _ Pe H1) as [-> _].
              destruct (pure_eval _ _ _ _ _ _ _ _ Pp H2) as [-> _].
              apply setter_call with (o := o) (s1 := s) (v := v); try assumption; [lia| |]; apply Hev; assumption. }
          rewrite E. reflexivity.
        * cbn [exec]. rewrite (Hev q1 Hq1 _ _ _ _ _ H1). cbn. rewrite (Hev q1 Hq1 _ _ _ _ _ H2). cbn. exact H3.
      + (* SAug *)
        cbn [exec] in H. apply bind_Done in H. destruct H as [[o s1] [H1 H2]]. cbn in H2.
        destruct (tagged_ok chk tag (fst s1) o) eqn:C1; [|discriminate].
        destruct (read_attr (fst s1) o f) as [old|] eqn:R; [|discriminate].
        apply bind_Done in H2. destruct H2 as [[v s2] [H2 H3]]. cbn in H3.
        destruct (binop_eval op old v) as [w|] eqn:B; [|discriminate].
        destruct (tagged_ok chk tag (fst s2) o) eqn:C2; [|discriminate].
        destruct (write_attr (fst s2) o f w) as [h|] eqn:W; [|discriminate]. inversion H3; subst. clear H3.
        destruct (hit k on tag f) eqn:Hh.
        * cbn [ok_s] in Hok. rewrite Hh in Hok. cbn in Hok.
          apply andb_true_iff in Hok. destruct Hok as [Pp Nc].
          apply hit_true in Hh. destruct Hh as [He [-> [-> ->]]].
          unfold tagged_ok in C1, C2. cbn in C1, C2.
          destruct (pure_eval _ _ _ _ _ _ _ _ Pp H1) as [-> Hp2].
          rewrite paste_ok by (rewrite no_capture_tE; exact Nc).
          destruct q1 as [|q2]; [lia|]. destruct q2 as [|q3]; [lia|]. destruct q3 as [|q4]; [lia|].
          rewrite exec_SExpr.
          assert (E : eval chk P' (S (S (S q4))) en s
                        (EMeth (tE k true p) (k_set k) [EBin op (EMeth p (k_get k) []) (tE k true e)])
                      = Done (VNone, (h, snd s2))).
          { apply setter_call with (o := o) (s1 := s) (v := w); try assumption; [lia| |].
            - apply Hev; [lia | assumption].
            - rewrite eval_EBin.
              rewrite (getter_call q4 en s p o s old) ; try assumption; [|lia|].
              + cbn [bind]. rewrite (Hev (S q4)) with (r := (v, s2)); [|lia|assumption]. cbn [bind]. rewrite B. reflexivity.
              + apply eval_mono_Done with (n := n); [lia|]. apply Hp2. }
          rewrite E. reflexivity.
        * cbn [exec]. rewrite (Hev q1 Hq1 _ _ _ _ _ H1). cbn. rewrite C1, R.
          rewrite (Hev q1 Hq1 _ _ _ _ _ H2). cbn. rewrite B, C2, W. reflexivity.
      + cbn [exec] in *. apply bind_Done in H. destruct H as [[v s1] [H1 H2]].
        rewrite (Hev q1 Hq1 _ _ _ _ _ H1). cbn. exact H2.
      + cbn [exec] in *. apply bind_Done in H. destruct H as [[v s1] [H1 H2]].
        rewrite (Hev q1 Hq1 _ _ _ _ _ H1). cbn. exact H2.
      + cbn [exec] in *. apply bind_Done in H. destruct H as [[v s1] [H1 H2]].
        rewrite (Hev q1 Hq1 _ _ _ _ _ H1). cbn. exact H2.
      + cbn [exec] in *. apply bind_Done in H. destruct H as [[v s1] [H1 H2]]. cbn in H2.
        rewrite (Hev q1 Hq1 _ _ _ _ _ H1). cbn.
        cbn [ok_s] in Hok. apply andb_true_iff in Hok. destruct Hok as [Ha Hb].
        destruct (truthy v); apply exec_list_sim with (ex := exec chk P n); auto.
      + cbn [exec] in *. apply bind_Done in H. destruct H as [[v s1] [H1 H2]]. cbn in H2.
        rewrite (Hev q1 Hq1 _ _ _ _ _ H1). cbn.
        destruct (truthy v); [|exact H2].
        apply bind_Done in H2. destruct H2 as [[[kk en2] s2] [H2 H3]]. cbn in H3.
        cbn [ok_s] in Hok.
        rewrite (exec_list_sim on _ _ (Lex q1 Hq1) _ _ _ _ Hok H2). cbn.
        destruct kk; [|exact H3].
        apply (Hex q1 Hq1 on en2 s2 (SWhile c b) r); [exact Hok | exact H3].
  Qed.

  Theorem forward_run n en s r :
    run chk P n en s = Done r -> run chk P' (F n) en s = Done r.
  Proof.
    unfold run. intros H. unfold P' at 2. cbn [p_main tP].
    apply exec_list_sim with (ex := exec chk P n); [| apply side_main | exact H].
    intros on en0 s0 c r0 Hok H0. apply (proj2 (fwd n) (F n) (le_n _)); assumption.
  Qed.
End Sim.

(* --- closed statements ----------------------------------------------------------------------------- *)
Lemma is_instance_class c h o : is_instance c h o = true -> class_of h o = Some c.
Proof.
  unfold is_instance. destruct (class_of h o) as [c'|]; [|discriminate].
  intros H. apply N.eqb_eq in H. congruence.
Qed.

Theorem encapsulate_forward augparen cls fld get set skip self value P :
  side (enc_cfg augparen cls fld get set skip self value) P = true ->
  forall n en s r,
    run (is_instance cls) P n en s = Done r ->
    run (is_instance cls) (encapsulate augparen cls fld get set skip self value P) (3 * n + 6) en s = Done r.
Proof.
  intros Hs n en s r H. rewrite <- F_eq. unfold encapsulate.
  apply forward_run; [exact Hs | | exact H].
  intros _ h o. apply is_instance_class.
Qed.

Theorem factory_forward glob cls name chk P :
  side (fac_cfg glob cls name) P = true ->
  forall n en s r,
    run chk P n en s = Done r ->
    run chk (introduce_factory glob cls name P) (3 * n + 6) en s = Done r.
Proof.
  intros Hs n en s r H. rewrite <- F_eq. unfold introduce_factory.
  apply forward_run; [exact Hs | | exact H]. cbn. discriminate.
Qed.

(* the freshness part of [side] is exactly "EncapsulateField does not refuse the accessor names" *)
Lemma side_not_refused k P : side k P = true -> enc_refuses k P = false.
Proof.
  intros H. unfold enc_refuses. destruct (k_enc k) eqn:He; [|reflexivity]. cbn [andb].
  destruct (enc_facts k P H He) as [cd [Hc [_ [_ [_ [_ [_ [_ [_ [MG MS]]]]]]]]]]. rewrite Hc.
  unfold absentm. rewrite MG, MS. reflexivity.
Qed.

(* an accessor defined only in a base class makes EncapsulateField refuse *)
Lemma inherited_refused : enc_refuses w_cfg w_inherit = true /\ side w_cfg w_inherit = false.
Proof. split; vm_compute; reflexivity. Qed.

(* a method inherited from the base class is found by the model's lookup; such programs are inside the domain *)
Lemma inherit_example :
  side w_cfg_paren w_inherit_ok = true /\
  output_of (run (is_instance 1) w_inherit_ok 30 [] ([], [])) = Some [VInt 10; VInt 8; VInt 25] /\
  output_of (run (is_instance 1) (tP w_cfg_paren w_inherit_ok) 96 [] ([], [])) = Some [VInt 10; VInt 8; VInt 25].
Proof. repeat split; vm_compute; reflexivity. Qed.

(* with the parenthesising code an augmented write needs no precedence condition *)
Lemma ok_s_aug_paren k on tag p f op e :
  k_augparen k = true -> ok_s k on (SAug tag p f op e) = negb (hit k on tag f) || pure p.
Proof. intros H. cbn. rewrite H. cbn. rewrite andb_true_r. reflexivity. Qed.

(* every rewritten node has exactly one of the three shapes (read / write / augmented write), an
   occurrence that is not reported by the finder, belongs to another field or lies in the defining method
   keeps its shape *)
Lemma classification_expr k on tag a f :
  tE k on (EAttr tag a f) =
  if k_enc k && on && tag && N.eqb f (k_fld k) then EMeth (tE k on a) (k_get k) [] else EAttr tag (tE k on a) f.
Proof. reflexivity. Qed.

Lemma classification_write k on tag p f e :
  tS k on (SWrite tag p f e) =
  if k_enc k && on && tag && N.eqb f (k_fld k) then SExpr (EMeth (tE k on p) (k_set k) [tE k on e])
  else SWrite tag (tE k on p) f (tE k on e).
Proof. reflexivity. Qed.

Lemma classification_aug k on tag p f op e :
  tS k on (SAug tag p f op e) =
  if k_enc k && on && tag && N.eqb f (k_fld k)
  then SExpr (EMeth (tE k on p) (k_set k) [paste k op (EMeth p (k_get k) []) (tE k on e)])
  else SAug tag (tE k on p) f op (tE k on e).
Proof. reflexivity. Qed.

(* the defining method's body is left untouched by EncapsulateField (no factory rewriting involved) *)
Lemma tE_off_id k : k_fac k = false -> forall e, tE k false e = e.
Proof.
  intros Hf. fix IH 1. intros e.
  assert (L : forall l, map (tE k false) l = l).
  { induction l as [|x l IHl]; cbn; [reflexivity|]. rewrite IH, IHl. reflexivity. }
  destruct e; cbn; try reflexivity.
  - rewrite IH. reflexivity.
  - unfold hit. rewrite andb_false_r. cbn. rewrite IH. reflexivity.
  - rewrite !IH. reflexivity.
  - rewrite L. reflexivity.
  - rewrite IH, L. reflexivity.
  - unfold hitc. rewrite Hf. cbn. rewrite L. reflexivity.
  - rewrite L. reflexivity.
Qed.

Lemma tS_off_id k : k_fac k = false -> forall c, tS k false c = c.
Proof.
  intros Hf. pose proof (tE_off_id k Hf) as HE. fix IH 1. intros c.
  assert (L : forall l, map (tS k false) l = l).
  { induction l as [|x l IHl]; cbn; [reflexivity|]. rewrite IH, IHl. reflexivity. }
  destruct c; cbn; try reflexivity; unfold hit; rewrite ?andb_false_r; cbn; rewrite ?HE, ?L; reflexivity.
Qed.

Definition outputs_differ (a b : option (list value)) : Prop :=
  exists x y, a = Some x /\ b = Some y /\ x <> y.

Lemma aug_primary_effect_refuted :
  outputs_differ (output_of (run (is_instance 1) w_aug_effect 30 [] ([], [])))
                 (output_of (run (is_instance 1) (tP w_cfg w_aug_effect) 96 [] ([], []))).
Proof. eexists; eexists. split; [vm_compute; reflexivity|]. split; [vm_compute; reflexivity|]. discriminate. Qed.

Lemma aug_precedence_refuted :
  outputs_differ (output_of (run (is_instance 1) w_aug_prec 30 [] ([], [])))
                 (output_of (run (is_instance 1) (tP w_cfg w_aug_prec) 96 [] ([], []))).
Proof. eexists; eexists. split; [vm_compute; reflexivity|]. split; [vm_compute; reflexivity|]. discriminate. Qed.

Lemma write_order_refuted :
  outputs_differ (output_of (run (is_instance 1) w_write_order 30 [] ([], [])))
                 (output_of (run (is_instance 1) (tP w_cfg w_write_order) 96 [] ([], []))).
Proof. eexists; eexists. split; [vm_compute; reflexivity|]. split; [vm_compute; reflexivity|]. discriminate. Qed.

(* with the parenthesising code (fix f343c81) the precedence witness is inside the theorem's domain *)
Lemma aug_precedence_fixed_example :
  side w_cfg_paren w_aug_prec = true /\
  output_of (run (is_instance 1) (tP w_cfg_paren w_aug_prec) 96 [] ([], []))
    = output_of (run (is_instance 1) w_aug_prec 30 [] ([], [])).
Proof. split; vm_compute; reflexivity. Qed.

Lemma good_example :
  side w_cfg w_good = true /\
  tP w_cfg w_good <> w_good /\
  output_of (run (is_instance 1) w_good 30 [] ([], []))
    = Some [VInt 14; VInt 162; VInt 77; VInt 14; VInt 9; VInt 40] /\
  output_of (run (is_instance 1) (tP w_cfg w_good) 96 [] ([], []))
    = Some [VInt 14; VInt 162; VInt 77; VInt 14; VInt 9; VInt 40].
Proof. split; [vm_compute; reflexivity|]. split; [vm_compute; discriminate|]. split; vm_compute; reflexivity. Qed.

Lemma good_factory_example :
  side (fac_cfg false 1 15) w_good = true /\ side (fac_cfg true 1 15) w_good = true /\
  output_of (run (fun _ _ => true) (introduce_factory false 1 15 w_good) 96 [] ([], []))
    = output_of (run (fun _ _ => true) w_good 30 [] ([], [])) /\
  output_of (run (fun _ _ => true) (introduce_factory true 1 15 w_good) 96 [] ([], []))
    = Some [VInt 14; VInt 162; VInt 77; VInt 14; VInt 9; VInt 40].
Proof. repeat split; vm_compute; reflexivity. Qed.
