(* C17 — reverse direction: if the refactored program's run ends without an uncaught exception, the original
   program's run (same fuel) ends with the same result, or is [Stuck] (a finder-tagged access whose receiver is
   not an instance of the class: outside the finder's domain). *)
From Coq Require Import List NArith ZArith Bool Arith Lia Wf_nat.
From RopeVerif.C17 Require Import Obj ObjProofs Refactor RefactorProofs Reverse Witness.
Import ListNotations.

Definition okr {A} (r : A) (orig : res A) : Prop := orig = Done r \/ orig = Stuck.

Lemma bind_okr {A B} (m' m : res A) (k' k : A -> res B) r :
  bind m' k' = Done r ->
  (forall a, m' = Done a -> okr a m) ->
  (forall a, m' = Done a -> k' a = Done r -> okr r (k a)) ->
  okr r (bind m k).
Proof.
  intros H Hm Hk. apply bind_Done in H. destruct H as [a [H1 H2]].
  destruct (Hm a H1) as [E|E]; rewrite E; cbn; [apply Hk; assumption | right; reflexivity].
Qed.

Lemma okr_eval_mono chk P n m en s e r :
  n <= m -> okr r (eval chk P n en s e) -> okr r (eval chk P m en s e).
Proof.
  intros H [E|E]; [left|right]; rewrite (eval_mono chk P n m) by (auto; rewrite E; discriminate); exact E.
Qed.

Lemma okr_exec_mono chk P n m en s c r :
  n <= m -> okr r (exec chk P n en s c) -> okr r (exec chk P m en s c).
Proof.
  intros H [E|E]; [left|right]; rewrite (exec_mono chk P n m) by (auto; rewrite E; discriminate); exact E.
Qed.

(* an expression without calls and without finder tags never gets stuck *)
Lemma no_tags_not_stuck chk P : forall n en s e,
  no_tags e = true -> eval chk P n en s e <> Stuck.
Proof.
  induction n as [|n IH]; intros en s e Hn; [cbn; discriminate|].
  destruct e; cbn in Hn; try discriminate; cbn [eval].
  - destruct (lookup en x); discriminate.
  - apply IH; assumption.
  - apply andb_true_iff in Hn. destruct Hn as [Ht Hn]. apply negb_true_iff in Ht. subst tag.
    pose proof (IH en s e Hn) as H1. destruct (eval chk P n en s e) as [[o s1]| | |]; cbn; try discriminate; [|congruence].
    unfold tagged_ok. cbn. destruct (read_attr (fst s1) o f); discriminate.
  - apply andb_true_iff in Hn. destruct Hn as [Ha Hb].
    pose proof (IH en s e1 Ha) as H1. destruct (eval chk P n en s e1) as [[va s1]| | |]; cbn; try discriminate; [|congruence].
    pose proof (IH en s1 e2 Hb) as H2. destruct (eval chk P n en s1 e2) as [[vb s2]| | |]; cbn; try discriminate; [|congruence].
    destruct (binop_eval op va vb); discriminate.
Qed.

(* one-step unfoldings (so that a constructor-headed fuel is not unfolded further) *)
Lemma eval_EVar chk P q en s x :
  eval chk P (S q) en s (EVar x) = match lookup en x with Some v => Done (v, s) | None => Fail end.
Proof. reflexivity. Qed.
Lemma eval_EAttr chk P q en s tag a f :
  eval chk P (S q) en s (EAttr tag a f) =
  bind (eval chk P q en s a) (fun x => let '(o, s1) := x in
    if tagged_ok chk tag (fst s1) o
    then match read_attr (fst s1) o f with Some w => Done (w, s1) | None => Fail end
    else Stuck).
Proof. reflexivity. Qed.
Lemma eval_EMeth chk P q en s a m args :
  eval chk P (S q) en s (EMeth a m args) =
  bind (eval chk P q en s a) (fun x => let '(o, s1) := x in
  bind (eval_list (eval chk P q en) s1 args) (fun y => let '(vs, s2) := y in
  call_method P (exec chk P q) o m vs s2)).
Proof. reflexivity. Qed.
Lemma exec_SWrite chk P q en s tag p f e :
  exec chk P (S q) en s (SWrite tag p f e) =
  bind (eval chk P q en s e) (fun r => let '(v, s1) := r in
  bind (eval chk P q en s1 p) (fun q0 => let '(o, s2) := q0 in
  if tagged_ok chk tag (fst s2) o
  then match write_attr (fst s2) o f v with
       | Some h => Done (CNormal, en, (h, snd s2))
       | None => Fail
       end
  else Stuck)).
Proof. reflexivity. Qed.
Lemma exec_SAug chk P q en s tag p f op e :
  exec chk P (S q) en s (SAug tag p f op e) =
  bind (eval chk P q en s p) (fun q0 => let '(o, s1) := q0 in
  if tagged_ok chk tag (fst s1) o
  then match read_attr (fst s1) o f with
       | None => Fail
       | Some old =>
           bind (eval chk P q en s1 e) (fun r => let '(v, s2) := r in
           match binop_eval op old v with
           | None => Fail
           | Some w =>
               if tagged_ok chk tag (fst s2) o
               then match write_attr (fst s2) o f w with
                    | Some h => Done (CNormal, en, (h, snd s2))
                    | None => Fail
                    end
               else Stuck
           end)
       end
  else Stuck).
Proof. reflexivity. Qed.

Section Rev.
  Variable k : cfg.
  Variable chk : heap -> value -> bool.
  Variable P : prog.
  Hypothesis Hside : side k P = true.
  Hypothesis Hchk : k_enc k = true -> forall h o, chk h o = true -> class_of h o = Some (k_cls k).
  Hypothesis Hun : unused_prog k P = true.

  Let P' := tP k P.

  Definition bsim_ev (on : bool) (ev' ev : st -> expr -> res (value * st)) : Prop :=
    forall s e r, unused_e k e = true -> ev' s (tE k on e) = Done r -> okr r (ev s e).
  Definition bsim_ex (ex' ex : env -> st -> stmt -> xres) : Prop :=
    forall on en s c r, ok_s k on c = true -> unused_s k on c = true ->
      ex' en s (tS k on c) = Done r -> okr r (ex en s c).

  Lemma eval_list_bsim on ev' ev : bsim_ev on ev' ev ->
    forall l s r, forallb (unused_e k) l = true ->
      eval_list ev' s (map (tE k on) l) = Done r -> okr r (eval_list ev s l).
  Proof.
    intros L l. induction l as [|e l IH]; intros s r Hu H; cbn in *.
    - left. exact H.
    - apply andb_true_iff in Hu. destruct Hu as [Hu1 Hu2].
      eapply bind_okr; [exact H | intros [v s1] E; apply L; assumption |].
      intros [v s1] E H2. cbn in H2 |- *.
      eapply bind_okr; [exact H2 | intros [vs s2] E2; apply IH; assumption |].
      intros [vs s2] E2 H3. left. exact H3.
  Qed.

  Lemma exec_list_bsim on ex' ex : bsim_ex ex' ex ->
    forall l en s r, forallb (ok_s k on) l = true -> forallb (unused_s k on) l = true ->
      exec_list ex' en s (map (tS k on) l) = Done r -> okr r (exec_list ex en s l).
  Proof.
    intros L l. induction l as [|c l IH]; intros en s r Hok Hu H; cbn in *.
    - left. exact H.
    - apply andb_true_iff in Hok. destruct Hok as [Hc Hl].
      apply andb_true_iff in Hu. destruct Hu as [Hu1 Hu2].
      eapply bind_okr; [exact H | intros [[kk en1] s1] E; apply (L on); assumption |].
      intros [[kk en1] s1] E H2. cbn in H2 |- *.
      destruct kk; [apply IH; assumption | left; exact H2].
  Qed.

  Lemma run_code_bsim on ex' ex : bsim_ex ex' ex ->
    forall ps b vs s r, forallb (ok_s k on) b = true -> forallb (unused_s k on) b = true ->
      run_code ex' ps (map (tS k on) b) vs s = Done r -> okr r (run_code ex ps b vs s).
  Proof.
    intros L ps b vs s r Hok Hu H. unfold run_code in *. destruct (bind_params ps vs); [|discriminate].
    eapply bind_okr; [exact H | intros [[kk en1] s1] E; eapply exec_list_bsim; eauto |].
    intros [[kk en1] s1] E H2. left. exact H2.
  Qed.

  (* --- unused-ness of looked-up bodies ---------------------------------------------------------- *)
  Lemma unused_parts :
    forallb (fun cd => forallb (fun d => unused_body k (negb (is_skip k (c_name cd) d)) (m_body d)) (c_methods cd))
            (p_classes P) = true /\
    forallb (fun d => unused_body k true (m_body d)) (p_funcs P) = true /\
    forallb (unused_s k true) (p_main P) = true.
  Proof.
    pose proof Hun as H. unfold unused_prog in H.
    apply andb_true_iff in H. destruct H as [H H3]. apply andb_true_iff in H. destruct H as [H1 H2]. auto.
  Qed.

  Lemma method_unused cd c m d : find_c (p_classes P) c = Some cd -> find_m (c_methods cd) m = Some d ->
    unused_body k (negb (is_skip k (c_name cd) d)) (m_body d) = true.
  Proof.
    intros Hc Hm. destruct unused_parts as [H _]. rewrite forallb_forall in H.
    apply find_c_In in Hc. destruct Hc as [Hc _]. specialize (H cd Hc). rewrite forallb_forall in H.
    apply H. eapply find_m_In; eassumption.
  Qed.

  Lemma func_unused f d : find_m (p_funcs P) f = Some d -> unused_body k true (m_body d) = true.
  Proof.
    intros H. destruct unused_parts as [_ [Hf _]]. rewrite forallb_forall in Hf. apply Hf. eapply find_m_In; eassumption.
  Qed.

  Lemma new_methods_unused c m : new_meth k m = false -> find_m (new_methods k c) m = None.
  Proof.
    unfold new_meth, new_methods. intros H. apply orb_false_iff in H. destruct H as [H1 H2].
    destruct (k_enc k); cbn in *.
    - apply orb_false_iff in H1. destruct H1 as [G S0].
      destruct (N.eqb c (k_cls k)); cbn; rewrite ?G, ?S0;
        (destruct (k_fac k && negb (k_fglobal k)) eqn:E; cbn in *;
         [destruct (N.eqb c (k_fcls k)); cbn; rewrite ?H2; reflexivity | reflexivity]).
    - destruct (k_fac k && negb (k_fglobal k)) eqn:E; cbn in *;
        [destruct (N.eqb c (k_fcls k)); cbn; rewrite ?H2; reflexivity | reflexivity].
  Qed.

  (* a method the refactored program finds under a name that is not new is the image of the method the original
     program finds *)
  Lemma find_meth_bwd cd c m d' : find_c (p_classes P) c = Some cd ->
    find_m (new_methods k (c_name cd)) m = None ->
    (forall b, find_m (new_methods k b) m = None) ->
    find_meth (p_classes P') (tC k cd) m = Some d' ->
    exists d on, find_meth (p_classes P) cd m = Some d /\ d' = tM k on d /\
                 ok_body k on (m_body d) = true /\ unused_body k on (m_body d) = true.
  Proof.
    intros Hc Hn Hnb H. unfold find_meth in H |- *. rewrite find_m_tC in H.
    destruct (find_m (c_methods cd) m) as [d|] eqn:Eo.
    - inversion H; subst d'. do 2 eexists. split; [reflexivity|]. split; [reflexivity|].
      split; [eapply method_ok; eauto | eapply method_unused; eauto].
    - rewrite Hn in H. change (c_base (tC k cd)) with (c_base cd) in H.
      destruct (c_base cd) as [b|]; [|discriminate]. unfold P' in H. rewrite find_c_tP in H.
      destruct (find_c (p_classes P) b) as [bd|] eqn:Eb; [|discriminate]. cbn [option_map] in H.
      rewrite find_m_tC in H. destruct (find_m (c_methods bd) m) as [d|] eqn:Em.
      + inversion H; subst d'. do 2 eexists. split; [reflexivity|]. split; [reflexivity|].
        split; [eapply method_ok; eauto | eapply method_unused; eauto].
      + rewrite Hnb in H. discriminate.
  Qed.

  (* --- calls ------------------------------------------------------------------------------------ *)
  Lemma construct_bsim ex' ex : bsim_ex ex' ex ->
    forall c vs s r, construct P' ex' c vs s = Done r -> okr r (construct P ex c vs s).
  Proof.
    intros L c vs s r H. unfold construct in *. unfold P' in H. rewrite find_c_tP in H.
    destruct (find_c (p_classes P) c) as [cd|] eqn:Ec; [|discriminate]. cbn [option_map] in H.
    destruct (find_meth (p_classes (tP k P)) (tC k cd) init_name) as [d'|] eqn:Em'.
    - destruct (find_meth_bwd cd c init_name d' Ec (new_methods_init k P Hside _)
                  (new_methods_init k P Hside) Em') as [d [on [Em [-> [Hok Hu]]]]].
      rewrite Em. cbn in H.
      destruct (m_body d) as [b|]; [|discriminate]. cbn in H.
      destruct (m_static d); [discriminate|].
      eapply bind_okr; [exact H | intros [v s1] E; eapply run_code_bsim; eauto |].
      intros [v s1] E H2. left. exact H2.
    - destruct (find_meth (p_classes P) cd init_name) as [d|] eqn:Em; [|left; exact H].
      destruct (find_meth_fwd k P Hside _ _ _ _ Ec Em) as [on [E' _]]. unfold P' in Em'. congruence.
  Qed.

  Lemma run_body_bsim ex' ex : bsim_ex ex' ex ->
    forall on d vs s r, ok_body k on (m_body d) = true -> unused_body k on (m_body d) = true ->
      run_body P' ex' (tM k on d) vs s = Done r -> okr r (run_body P ex d vs s).
  Proof.
    intros L on d vs s r Hok Hu H. unfold run_body in *. cbn in H. destruct (m_body d); cbn in *.
    - eapply run_code_bsim; eauto.
    - eapply construct_bsim; eauto.
  Qed.

  Lemma call_method_bsim ex' ex : bsim_ex ex' ex ->
    forall o m vs s r, new_meth k m = false ->
      call_method P' ex' o m vs s = Done r -> okr r (call_method P ex o m vs s).
  Proof.
    intros L o m vs s r Hn H. unfold call_method in *.
    destruct (class_of (fst s) o) as [c|]; [|discriminate]. unfold P' in H. rewrite find_c_tP in H.
    destruct (find_c (p_classes P) c) as [cd|] eqn:Ec; [|discriminate]. cbn [option_map] in H.
    destruct (find_meth (p_classes (tP k P)) (tC k cd) m) as [d'|] eqn:Em'; [|discriminate].
    destruct (find_meth_bwd cd c m d' Ec (new_methods_unused _ _ Hn) (fun b => new_methods_unused b _ Hn) Em')
      as [d [on [Em [-> [Hok Hu]]]]].
    rewrite Em. cbn in H. destruct (m_static d); [discriminate|].
    eapply run_body_bsim; eauto.
  Qed.

  Lemma call_static_bsim ex' ex : bsim_ex ex' ex ->
    forall c m vs s r, new_meth k m = false ->
      call_static P' ex' c m vs s = Done r -> okr r (call_static P ex c m vs s).
  Proof.
    intros L c m vs s r Hn H. unfold call_static in *. unfold P' in H. rewrite find_c_tP in H.
    destruct (find_c (p_classes P) c) as [cd|] eqn:Ec; [|discriminate]. cbn [option_map] in H.
    rewrite find_m_tC in H. destruct (find_m (c_methods cd) m) as [d|] eqn:Em.
    - cbn in H. destruct (m_static d); [|discriminate].
      eapply run_body_bsim; eauto; [eapply method_ok; eauto | eapply method_unused; eauto].
    - rewrite new_methods_unused in H by assumption. discriminate.
  Qed.

  Lemma call_func_bsim ex' ex : bsim_ex ex' ex ->
    forall f vs s r, new_func k f = false ->
      call_func P' ex' f vs s = Done r -> okr r (call_func P ex f vs s).
  Proof.
    intros L f vs s r Hn H. unfold call_func in *. unfold P', tP in H. cbn [p_funcs] in H.
    rewrite find_m_map_app in H by reflexivity.
    destruct (find_m (p_funcs P) f) as [d|] eqn:Ef.
    - eapply run_body_bsim; eauto; [eapply func_ok; eauto | eapply func_unused; eauto].
    - unfold new_func in Hn. destruct (k_fac k && k_fglobal k); cbn in *; [|discriminate].
      rewrite Hn in H. discriminate.
  Qed.

  (* --- inversion of the accessor bodies ---------------------------------------------------------- *)
  Lemma getter_run_inv q o s1 r :
    run_code (exec chk P' q) [k_self k] [SReturn (EAttr false (EVar (k_self k)) (k_fld k))] [o] s1 = Done r ->
    exists w, read_attr (fst s1) o (k_fld k) = Some w /\ r = (w, s1).
  Proof.
    destruct q as [|[|[|q]]]; unfold run_code; cbn; try discriminate.
    rewrite N.eqb_refl. cbn. destruct (read_attr (fst s1) o (k_fld k)) as [w|]; cbn; [|discriminate].
    intros H. inversion H. eauto.
  Qed.

  Lemma setter_run_inv q o v s1 r : N.eqb (k_self k) (k_value k) = false ->
    run_code (exec chk P' q) [k_self k; k_value k]
      [SWrite false (EVar (k_self k)) (k_fld k) (EVar (k_value k))] [o; v] s1 = Done r ->
    exists h, write_attr (fst s1) o (k_fld k) v = Some h /\ r = (VNone, (h, snd s1)).
  Proof.
    intros Hsv. destruct q as [|[|q]]; unfold run_code; cbn; try discriminate.
    rewrite N.eqb_refl. rewrite N.eqb_sym, Hsv. rewrite N.eqb_refl. cbn.
    destruct (write_attr (fst s1) o (k_fld k) v) as [h|]; cbn; [|discriminate].
    intros H. inversion H. eauto.
  Qed.

  (* a call of the getter on [o] in the refactored program, seen from the original program *)
  Lemma getter_call_inv q o s1 r : k_enc k = true -> chk (fst s1) o = true ->
    call_method P' (exec chk P' q) o (k_get k) [] s1 = Done r ->
    exists w, read_attr (fst s1) o (k_fld k) = Some w /\ r = (w, s1).
  Proof.
    intros He Hc H. unfold call_method in H. rewrite (Hchk He _ _ Hc) in H. unfold P' in H at 1.
    rewrite find_c_tP in H. destruct (enc_facts k P Hside He) as [cd [Hcd _]]. rewrite Hcd in H. cbn [option_map] in H.
    destruct (find_getter_meth k P Hside cd He Hcd) as [G _]. fold P' in G. rewrite G in H.
    change (run_code (exec chk P' q) [k_self k] [SReturn (EAttr false (EVar (k_self k)) (k_fld k))] [o] s1 = Done r) in H.
    eapply getter_run_inv; eassumption.
  Qed.

  Lemma setter_call_inv q o v s1 r : k_enc k = true -> chk (fst s1) o = true ->
    call_method P' (exec chk P' q) o (k_set k) [v] s1 = Done r ->
    exists h, write_attr (fst s1) o (k_fld k) v = Some h /\ r = (VNone, (h, snd s1)).
  Proof.
    intros He Hc H. unfold call_method in H. rewrite (Hchk He _ _ Hc) in H. unfold P' in H at 1.
    rewrite find_c_tP in H. destruct (enc_facts k P Hside He) as [cd [Hcd [_ [_ [_ [SV _]]]]]].
    rewrite Hcd in H. cbn [option_map] in H.
    destruct (find_getter_meth k P Hside cd He Hcd) as [_ S0]. fold P' in S0. rewrite S0 in H.
    change (run_code (exec chk P' q) [k_self k; k_value k]
              [SWrite false (EVar (k_self k)) (k_fld k) (EVar (k_value k))] [o; v] s1 = Done r) in H.
    eapply setter_run_inv; eassumption.
  Qed.

  (* --- the simulation --------------------------------------------------------------------------- *)
  Lemma bwd : forall q,
    (forall on en s e r, unused_e k e = true ->
        eval chk P' q en s (tE k on e) = Done r -> okr r (eval chk P q en s e)) /\
    (forall on en s c r, ok_s k on c = true -> unused_s k on c = true ->
        exec chk P' q en s (tS k on c) = Done r -> okr r (exec chk P q en s c)).
  Proof.
    induction q as [q IH] using lt_wf_ind.
    destruct q as [|q]; [split; intros; discriminate|].
    assert (Hev : forall q', q' <= q -> forall on en s e r, unused_e k e = true ->
              eval chk P' q' en s (tE k on e) = Done r -> okr r (eval chk P q en s e)).
    { intros q' Hq' on en s e r Hu H. apply okr_eval_mono with (n := q'); [lia|].
      apply (proj1 (IH q' ltac:(lia))) with (on := on); assumption. }
    assert (Hex : forall q', q' <= q -> forall on en s c r, ok_s k on c = true -> unused_s k on c = true ->
              exec chk P' q' en s (tS k on c) = Done r -> okr r (exec chk P q en s c)).
    { intros q' Hq' on en s c r Hok Hu H. apply okr_exec_mono with (n := q'); [lia|].
      apply (proj2 (IH q' ltac:(lia))) with (on := on); assumption. }
    assert (Lev : forall on en, bsim_ev on (eval chk P' q en) (eval chk P q en)).
    { intros on en s e r Hu H. apply (Hev q (le_n _) on); assumption. }
    assert (Lex : bsim_ex (exec chk P' q) (exec chk P q)).
    { intros on en s c r Hok Hu H. apply (Hex q (le_n _) on); assumption. }
    clear IH.
    split.
    - intros on en s e r Hu H. destruct e; cbn [tE] in H; cbn [unused_e] in Hu.
      + left. exact H.
      + left. exact H.
      + left. exact H.
      + cbn [eval] in *. eapply (Hev q (le_n _)); eauto.
      + destruct (hit k on tag f) eqn:Hh.
        * apply hit_true in Hh. destruct Hh as [He [-> [-> ->]]].
          rewrite eval_EMeth in H. apply bind_Done in H. destruct H as [[o s1] [H1 H2]].
          cbn [eval_list bind] in H2.
          rewrite eval_EAttr.
          destruct (Hev q (le_n _) _ _ _ _ _ Hu H1) as [E|E]; rewrite E; cbn [bind]; [|right; reflexivity].
          unfold tagged_ok. cbn [negb orb]. destruct (chk (fst s1) o) eqn:C; [|right; reflexivity].
          destruct (getter_call_inv q o s1 r He C H2) as [w [R ->]]. rewrite R. left. reflexivity.
        * rewrite eval_EAttr in H |- *.
          eapply bind_okr; [exact H | intros [o s1] E; eapply (Hev q (le_n _)); eauto |].
          intros [o s1] E H2. left. exact H2.
      + apply andb_true_iff in Hu. destruct Hu as [Hu1 Hu2]. rewrite eval_EBin in H |- *.
        eapply bind_okr; [exact H | intros [va s1] E; eapply (Hev q (le_n _)); eauto |].
        intros [va s1] E H2. cbn in H2 |- *.
        eapply bind_okr; [exact H2 | intros [vb s2] E2; eapply (Hev q (le_n _)); eauto |].
        intros [vb s2] E2 H3. left. exact H3.
      + apply andb_true_iff in Hu. destruct Hu as [Hu1 Hu2]. apply negb_true_iff in Hu1.
        cbn [eval] in H |- *.
        eapply bind_okr; [exact H | intros [vs s1] E; eapply eval_list_bsim; eauto |].
        intros [vs s1] E H2. cbn in H2 |- *. eapply call_func_bsim; eauto.
      + apply andb_true_iff in Hu. destruct Hu as [Hu Hu3]. apply andb_true_iff in Hu. destruct Hu as [Hu1 Hu2].
        apply negb_true_iff in Hu1. rewrite eval_EMeth in H |- *.
        eapply bind_okr; [exact H | intros [o s1] E; eapply (Hev q (le_n _)); eauto |].
        intros [o s1] E H2. cbn in H2 |- *.
        eapply bind_okr; [exact H2 | intros [vs s2] E2; eapply eval_list_bsim; eauto |].
        intros [vs s2] E2 H3. cbn in H3 |- *. eapply call_method_bsim; eauto.
      + destruct (hitc k c) eqn:Hc.
        * unfold hitc in Hc. apply andb_true_iff in Hc. destruct Hc as [Hf Hc]. apply N.eqb_eq in Hc. subst c.
          destruct (k_fglobal k) eqn:Hg.
          -- cbn [eval] in H |- *.
             eapply bind_okr; [exact H | intros [vs s1] E; eapply eval_list_bsim; eauto |].
             intros [vs s1] E H2. cbn in H2 |- *.
             unfold call_func in H2. unfold P' in H2 at 1. rewrite (fac_global_facts k P Hside Hf Hg) in H2.
             unfold run_body in H2. cbn in H2. eapply construct_bsim; eauto.
          -- cbn [eval] in H |- *.
             eapply bind_okr; [exact H | intros [vs s1] E; eapply eval_list_bsim; eauto |].
             intros [vs s1] E H2. cbn in H2 |- *.
             unfold call_static in H2. unfold P' in H2 at 1. rewrite find_c_tP in H2.
             destruct (fac_static_facts k P Hside Hf Hg) as [cd [Ec Em]]. rewrite Ec in H2. cbn [option_map] in H2.
             rewrite Em in H2. cbn in H2. unfold run_body in H2. cbn in H2. eapply construct_bsim; eauto.
        * cbn [eval] in H |- *.
          eapply bind_okr; [exact H | intros [vs s1] E; eapply eval_list_bsim; eauto |].
          intros [vs s1] E H2. cbn in H2 |- *. eapply construct_bsim; eauto.
      + apply andb_true_iff in Hu. destruct Hu as [Hu1 Hu2]. apply negb_true_iff in Hu1.
        cbn [eval] in H |- *.
        eapply bind_okr; [exact H | intros [vs s1] E; eapply eval_list_bsim; eauto |].
        intros [vs s1] E H2. cbn in H2 |- *. eapply call_static_bsim; eauto.
    - intros on en s c r Hok Hu H. destruct c; cbn [tS] in H; cbn [unused_s] in Hu.
      + left. exact H.
      + cbn [exec] in H |- *.
        eapply bind_okr; [exact H | intros [v s1] E; eapply (Hev q (le_n _)); eauto |].
        intros [v s1] E H2. left. exact H2.
      + (* SWrite *)
        apply andb_true_iff in Hu. destruct Hu as [Hu Hu3]. apply andb_true_iff in Hu. destruct Hu as [Hu1 Hu2].
        destruct (hit k on tag f) eqn:Hh.
        * cbn [ok_s] in Hok. rewrite Hh in Hok. cbn in Hu3, Hok.
          apply hit_true in Hh. destruct Hh as [He [-> [-> ->]]].
          rewrite exec_SExpr in H. apply bind_Done in H. destruct H as [[v0 s'] [H1 H2]].
          cbn in H2. inversion H2; subst r. clear H2.
          destruct q as [|q1]; [discriminate H1|].
          rewrite eval_EMeth in H1. apply bind_Done in H1. destruct H1 as [[o s1] [Ha H1]].
          cbn [eval_list] in H1. apply bind_Done in H1. destruct H1 as [[vs s2] [Hb Hc]].
          apply bind_Done in Hb. destruct Hb as [[v s2'] [Hb Hb2]]. cbn in Hb2. inversion Hb2; subst vs s2'. clear Hb2.
          cbn in Hc.
          rewrite exec_SWrite.
          destruct (is_var p) eqn:Hv.
          -- destruct p; try discriminate. cbn [tE] in Ha.
             destruct q1 as [|q2]; [discriminate Ha|]. rewrite eval_EVar in Ha.
             destruct (lookup en x) as [ox|] eqn:Lk; [|discriminate]. inversion Ha; subst ox s1. clear Ha.
             destruct (Hev (S q2) ltac:(lia) _ _ _ _ _ Hu2 Hb) as [E|E]; rewrite E; cbn [bind]; [|right; reflexivity].
             rewrite eval_EVar, Lk. cbn [bind].
             unfold tagged_ok. cbn [negb orb]. destruct (chk (fst s2) o) eqn:C; [|right; reflexivity].
             destruct (setter_call_inv (S q2) o v s2 _ He C Hc) as [h [W Er]]. inversion Er; subst. rewrite W.
             left. reflexivity.
          -- cbn in Hu3, Hok. apply andb_true_iff in Hok. destruct Hok as [Pp Pe].
             destruct (Hev q1 ltac:(lia) _ _ _ _ _ Hu1 Ha) as [Ea|Ea];
               [| exfalso; eapply no_tags_not_stuck; [exact Hu3 | exact Ea]].
             destruct (pure_eval _ _ _ _ _ _ _ _ Pp Ea) as [-> _].
             destruct (Hev q1 ltac:(lia) _ _ _ _ _ Hu2 Hb) as [Eb|Eb]; rewrite Eb; cbn [bind]; [|right; reflexivity].
             destruct (pure_eval _ _ _ _ _ _ _ _ Pe Eb) as [-> _].
             rewrite Ea. cbn [bind].
             unfold tagged_ok. cbn [negb orb]. destruct (chk (fst s) o) eqn:C; [|right; reflexivity].
             destruct (setter_call_inv q1 o v s _ He C Hc) as [h [W Er]]. inversion Er; subst. rewrite W.
             left. reflexivity.
        * rewrite exec_SWrite in H |- *.
          eapply bind_okr; [exact H | intros [v s1] E; eapply (Hev q (le_n _)); eauto |].
          intros [v s1] E H2. cbn in H2 |- *.
          eapply bind_okr; [exact H2 | intros [o s2] E2; eapply (Hev q (le_n _)); eauto |].
          intros [o s2] E2 H3. left. exact H3.
      + (* SAug *)
        apply andb_true_iff in Hu. destruct Hu as [Hu1 Hu2].
        destruct (hit k on tag f) eqn:Hh.
        * cbn [ok_s] in Hok. rewrite Hh in Hok. cbn in Hok.
          apply andb_true_iff in Hok. destruct Hok as [Pp Nc].
          apply hit_true in Hh. destruct Hh as [He [-> [-> ->]]].
          rewrite paste_ok in H by (rewrite no_capture_tE; exact Nc).
          rewrite exec_SExpr in H. apply bind_Done in H. destruct H as [[v0 s'] [H1 H2]].
          cbn in H2. inversion H2; subst r. clear H2.
          destruct q as [|q1]; [discriminate H1|].
          rewrite eval_EMeth in H1. apply bind_Done in H1. destruct H1 as [[o s1] [Ha H1]].
          cbn [eval_list] in H1. apply bind_Done in H1. destruct H1 as [[vs s2] [Hb Hc]].
          apply bind_Done in Hb. destruct Hb as [[w s2'] [Hb Hb2]]. cbn in Hb2. inversion Hb2; subst vs s2'. clear Hb2.
          cbn in Hc.
          destruct q1 as [|q2]; [discriminate Hb|].
          rewrite eval_EBin in Hb. apply bind_Done in Hb. destruct Hb as [[old s1a] [Hg Hb]].
          cbn in Hb. apply bind_Done in Hb. destruct Hb as [[v s2''] [Hv Hb]]. cbn in Hb.
          destruct (binop_eval op old v) as [w'|] eqn:B; [|discriminate]. inversion Hb; subst w' s2''. clear Hb.
          destruct q2 as [|q3]; [discriminate Hg|].
          rewrite eval_EMeth in Hg. apply bind_Done in Hg. destruct Hg as [[o2 s1b] [Hp Hg]].
          cbn [eval_list bind] in Hg.
          rewrite exec_SAug.
          destruct (Hev (S (S q3)) ltac:(lia) _ _ _ _ _ Hu1 Ha) as [Ea|Ea]; rewrite Ea; cbn [bind]; [|right; reflexivity].
          destruct (pure_eval _ _ _ _ _ _ _ _ Pp Ea) as [-> Hp2].
          assert (Eo : (o2, s1b) = (o, s)).
          { pose proof (eval_mono_Done chk P' q3 (S (S (S q3))) en s p _ ltac:(lia) Hp) as X.
            unfold P' in X. rewrite (Hp2 (tP k P)) in X. inversion X. reflexivity. }
          inversion Eo; subst o2 s1b. clear Eo.
          unfold tagged_ok. cbn [negb orb]. destruct (chk (fst s) o) eqn:C1; [|right; reflexivity].
          destruct (getter_call_inv q3 o s _ He C1 Hg) as [old' [R Er]]. inversion Er; subst old' s1a. clear Er.
          rewrite R.
          destruct (Hev (S q3) ltac:(lia) _ _ _ _ _ Hu2 Hv) as [Ee|Ee]; rewrite Ee; cbn [bind]; [|right; reflexivity].
          rewrite B. destruct (chk (fst s2) o) eqn:C2; [|right; reflexivity].
          destruct (setter_call_inv (S (S q3)) o w s2 _ He C2 Hc) as [h [W Er]]. inversion Er; subst. rewrite W.
          left. reflexivity.
        * rewrite exec_SAug in H |- *.
          eapply bind_okr; [exact H | intros [o s1] E; eapply (Hev q (le_n _)); eauto |].
          intros [o s1] E H2. cbn in H2 |- *.
          destruct (tagged_ok chk tag (fst s1) o); [|discriminate].
          destruct (read_attr (fst s1) o f) as [old|]; [|discriminate].
          eapply bind_okr; [exact H2 | intros [v s2] E2; eapply (Hev q (le_n _)); eauto |].
          intros [v s2] E2 H3. left. exact H3.
      + cbn [exec] in H |- *.
        eapply bind_okr; [exact H | intros [v s1] E; eapply (Hev q (le_n _)); eauto |].
        intros [v s1] E H2. left. exact H2.
      + cbn [exec] in H |- *.
        eapply bind_okr; [exact H | intros [v s1] E; eapply (Hev q (le_n _)); eauto |].
        intros [v s1] E H2. left. exact H2.
      + cbn [exec] in H |- *.
        eapply bind_okr; [exact H | intros [v s1] E; eapply (Hev q (le_n _)); eauto |].
        intros [v s1] E H2. left. exact H2.
      + apply andb_true_iff in Hu. destruct Hu as [Hu Hu3]. apply andb_true_iff in Hu. destruct Hu as [Hu1 Hu2].
        cbn [ok_s] in Hok. apply andb_true_iff in Hok. destruct Hok as [Ha Hb].
        cbn [exec] in H |- *.
        eapply bind_okr; [exact H | intros [v s1] E; eapply (Hev q (le_n _)); eauto |].
        intros [v s1] E H2. cbn in H2 |- *.
        destruct (truthy v); eapply exec_list_bsim; eauto.
      + apply andb_true_iff in Hu. destruct Hu as [Hu1 Hu2].
        cbn [ok_s] in Hok.
        cbn [exec] in H |- *.
        eapply bind_okr; [exact H | intros [v s1] E; eapply (Hev q (le_n _)); eauto |].
        intros [v s1] E H2. cbn in H2 |- *.
        destruct (truthy v); [|left; exact H2].
        eapply bind_okr; [exact H2 | intros [[kk en2] s2] E2; eapply exec_list_bsim; eauto |].
        intros [[kk en2] s2] E2 H3. cbn in H3 |- *.
        destruct kk; [|left; exact H3].
        apply (Hex q (le_n _) on); [exact Hok | cbn [unused_s]; rewrite Hu1, Hu2; reflexivity | exact H3].
  Qed.

  Theorem reverse_run n en s r :
    run chk P' n en s = Done r -> okr r (run chk P n en s).
  Proof.
    unfold run. intros H. unfold P' in H at 2. cbn [p_main tP] in H.
    eapply exec_list_bsim with (ex' := exec chk P' n); [| apply (side_main k P Hside) | apply unused_parts | exact H].
    intros on en0 s0 c r0 Hok Hu H0. apply (proj2 (bwd n)) with (on := on); assumption.
  Qed.
End Rev.

(* --- closed statements ----------------------------------------------------------------------------- *)
Theorem encapsulate_reverse augparen cls fld get set skip self value P :
  side (enc_cfg augparen cls fld get set skip self value) P = true ->
  unused_prog (enc_cfg augparen cls fld get set skip self value) P = true ->
  forall n en s r,
    run (is_instance cls) (encapsulate augparen cls fld get set skip self value P) n en s = Done r ->
    run (is_instance cls) P n en s = Done r \/ run (is_instance cls) P n en s = Stuck.
Proof.
  intros Hs Hu n en s r H. unfold encapsulate in H.
  apply (reverse_run _ _ _ Hs) in H; [exact H | | exact Hu].
  intros _ h o. apply is_instance_class.
Qed.

Theorem factory_reverse glob cls name chk P :
  side (fac_cfg glob cls name) P = true ->
  unused_prog (fac_cfg glob cls name) P = true ->
  forall n en s r,
    run chk (introduce_factory glob cls name P) n en s = Done r ->
    run chk P n en s = Done r \/ run chk P n en s = Stuck.
Proof.
  intros Hs Hu n en s r H. unfold introduce_factory in H.
  apply (reverse_run _ _ _ Hs) in H; [exact H | | exact Hu]. cbn. discriminate.
Qed.

(* Termination is preserved in both directions: if no fuel makes the original run stuck, the original run
   terminates normally with r iff the refactored run does. *)
Corollary encapsulate_equiv augparen cls fld get set skip self value P :
  side (enc_cfg augparen cls fld get set skip self value) P = true ->
  unused_prog (enc_cfg augparen cls fld get set skip self value) P = true ->
  forall en s r,
    (forall n, run (is_instance cls) P n en s <> Stuck) ->
    ((exists n, run (is_instance cls) P n en s = Done r) <->
     (exists n, run (is_instance cls) (encapsulate augparen cls fld get set skip self value P) n en s = Done r)).
Proof.
  intros Hs Hu en s r Hns. split; intros [n H].
  - exists (3 * n + 6). apply encapsulate_forward; assumption.
  - exists n. destruct (encapsulate_reverse _ _ _ _ _ _ _ _ _ Hs Hu n en s r H) as [E|E]; [exact E|].
    exfalso. exact (Hns n E).
Qed.

Lemma reverse_example :
  unused_prog w_cfg w_good = true /\ unused_prog (fac_cfg false 1 15) w_good = true.
Proof. split; vm_compute; reflexivity. Qed.
