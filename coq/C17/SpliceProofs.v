(* C17 — the text-level state machine closes every setter call exactly once, unless a second write starts
   while one is pending (chained assignment); computed witnesses of the text-level defects. *)
From Coq Require Import List NArith Bool Arith PeanoNat Lia.
From RopeVerif.C17 Require Import Splice.
Import ListNotations.

Section Closed.
  Variable src getter setter : text.
  Variable skip_start skip_end : nat.

  Notation step := (step src getter setter skip_start skip_end).
  Notation loop := (loop src getter setter skip_start skip_end).
  Notation manage_writes := (manage_writes src).
  Notation no_overlap := (no_overlap src skip_start skip_end).

  Definition pend (p : option nat) : nat := match p with Some _ => 1 | None => 0 end.

  Definition inv (p : option nat) (st : state) : Prop :=
    ls st = p /\ n_open st = n_close st + pend p /\ (forall l, p = Some l -> l <= length src).

  Lemma manage_inv p st off :
    inv p st ->
    inv (match p with Some l => if Nat.leb l off then None else Some l | None => None end) (manage_writes off st).
  Proof.
    intros [H1 [H2 H3]]. unfold manage_writes. rewrite H1. destruct p as [l|].
    - destruct (Nat.leb l off) eqn:E.
      + split; [reflexivity|]. split; [cbn in *; lia | intros; discriminate].
      + split; [assumption|]. split; assumption.
    - split; [assumption|]. split; assumption.
  Qed.

  Lemma loop_inv : forall os p st st',
    inv p st -> no_overlap p os = true -> loop st os = inl st' -> exists p', inv p' st'.
  Proof.
    induction os as [|o os IH]; intros p st st' Hi Hn Hl; cbn in *.
    - inversion Hl; subst. eauto.
    - unfold Splice.step in Hl. unfold skipped in Hn.
      destruct (Nat.leb skip_start (o_start o) && Nat.ltb (o_start o) skip_end) eqn:Sk.
      + eapply IH; eauto.
      + pose proof (manage_inv p st (o_start o) Hi) as Hm.
        set (p1 := match p with Some l => if Nat.leb l (o_start o) then None else Some l | None => None end) in *.
        set (st1 := manage_writes (o_start o) st) in *.
        destruct (o_tuple o); [discriminate|].
        unfold is_written in Hn.
        destruct (assignment_type (skipn (o_end o) src)) as [at_|] eqn:A.
        * destruct p1 as [l|] eqn:P1; [discriminate|].
          apply andb_true_iff in Hn. destruct Hn as [Hle Hn]. apply Nat.leb_le in Hle.
          destruct (index_eq (skipn (o_end o) src) (o_end o)) as [e|]; [|discriminate].
          eapply IH; [| exact Hn | exact Hl].
          destruct Hm as [M1 [M2 M3]]. repeat split; cbn.
          -- cbn in M2. lia.
          -- intros l Hl'. inversion Hl'; subst. exact Hle.
        * eapply IH; [| exact Hn | exact Hl].
          destruct Hm as [M1 [M2 M3]]. repeat split; cbn; auto.
  Qed.

  Theorem setter_calls_closed os st :
    no_overlap None os = true ->
    loop (init_state) os = inl st ->
    let st1 := manage_writes (length src) st in
    n_close st1 = n_open st1 /\ ls st1 = None.
  Proof.
    intros Hn Hl.
    assert (Hi : inv None init_state) by (repeat split; cbn; auto; discriminate).
    destruct (loop_inv os None init_state st Hi Hn Hl) as [p Hp].
    pose proof (manage_inv p st (length src) Hp) as Hm.
    destruct Hp as [_ [_ P3]].
    destruct p as [l|].
    - assert (E : Nat.leb l (length src) = true) by (apply Nat.leb_le; apply P3; reflexivity).
      rewrite E in Hm. destruct Hm as [M1 [M2 _]]. cbn in M2. split; [lia | exact M1].
    - destruct Hm as [M1 [M2 _]]. cbn in M2. split; [lia | exact M1].
  Qed.
End Closed.

(* --- computed witnesses (the texts of findings/C17-{chained,comment,misread-write}.json, main module) ---- *)
Definition T (l : list nat) : text := map N.of_nat l.

(* "a.x = c.x = 1\n" *)
Definition w_chained_src : text := T [97; 46; 120; 32; 61; 32; 99; 46; 120; 32; 61; 32; 49; 10].
Definition w_chained_occs : list occ :=
  [ {| o_start := 2; o_end := 3; o_prim := 0; o_tuple := false; o_line_end := 13; o_rhs_primary := true |};
    {| o_start := 8; o_end := 9; o_prim := 6; o_tuple := false; o_line_end := 13; o_rhs_primary := true |} ].
Definition w_get : text := T [103; 101; 116; 95; 120].      (* get_x *)
Definition w_set : text := T [115; 101; 116; 95; 120].      (* set_x *)

(* the model's output is "a.set_x( c.set_x(1)\n": two calls opened, one closed *)
Lemma chained_refuted :
  no_overlap w_chained_src 0 0 None w_chained_occs = false /\
  changed_module w_chained_src w_get w_set 0 0 w_chained_occs
    = Changed (T [97; 46; 115; 101; 116; 95; 120; 40; 32; 99; 46; 115; 101; 116; 95; 120; 40; 49; 41; 10]) /\
  (exists st, loop w_chained_src w_get w_set 0 0 init_state w_chained_occs = inl st /\
              n_open (manage_writes w_chained_src (length w_chained_src) st) = 2 /\
              n_close (manage_writes w_chained_src (length w_chained_src) st) = 1).
Proof.
  split; [vm_compute; reflexivity|]. split; [vm_compute; reflexivity|].
  eexists. split; [vm_compute; reflexivity|]. split; vm_compute; reflexivity.
Qed.

(* FIXED by 807a6f1 (kept as documentation): before the fix the end offset handed to the state machine was the
   end of the physical line (15 here); then "a.x = 5  # five\n" becomes "a.set_x(5  # five)\n": the closing
   parenthesis is behind the '#'.  With the statement end (7) the result is "a.set_x(5)  # five\n"
   ([comment_fixed]). *)
Definition w_comment_src : text := T [97; 46; 120; 32; 61; 32; 53; 32; 32; 35; 32; 102; 105; 118; 101; 10].
Definition w_comment_occs : list occ :=
  [ {| o_start := 2; o_end := 3; o_prim := 0; o_tuple := false; o_line_end := 15; o_rhs_primary := true |} ].
Lemma comment_refuted :
  changed_module w_comment_src w_get w_set 0 0 w_comment_occs
    = Changed (T [97; 46; 115; 101; 116; 95; 120; 40; 53; 32; 32; 35; 32; 102; 105; 118; 101; 41; 10]).
Proof. vm_compute. reflexivity. Qed.

Lemma comment_fixed :
  changed_module w_comment_src w_get w_set 0 0
    [ {| o_start := 2; o_end := 3; o_prim := 0; o_tuple := false; o_line_end := 7; o_rhs_primary := true |} ]
    = Changed (T [97; 46; 115; 101; 116; 95; 120; 40; 53; 41; 32; 32; 35; 32; 102; 105; 118; 101; 10]).
Proof. vm_compute. reflexivity. Qed.

(* FIXED by aad0d13 (kept as documentation): "(1 + a.x) == 2\n": the old get_assignment_type took the three
   characters ") =" for an assignment operator; the current one does not *)
Definition w_misread_src : text := T [40; 49; 32; 43; 32; 97; 46; 120; 41; 32; 61; 61; 32; 50; 10].
Lemma misread_refuted :
  assignment_type_old (skipn 8 w_misread_src) = Some (T [41; 32; 61]) /\
  assignment_type (skipn 8 w_misread_src) = None /\
  is_written w_misread_src {| o_start := 7; o_end := 8; o_prim := 5; o_tuple := false; o_line_end := 14; o_rhs_primary := true |} = false.
Proof. repeat split; vm_compute; reflexivity. Qed.

(* fix f343c81 at the text level: "a.x *= 1 + 2\n" becomes "a.set_x(a.get_x() * (1 + 2))\n" *)
Lemma aug_paren_example :
  changed_module (T [97; 46; 120; 32; 42; 61; 32; 49; 32; 43; 32; 50; 10]) w_get w_set 0 0
    [ {| o_start := 2; o_end := 3; o_prim := 0; o_tuple := false; o_line_end := 12; o_rhs_primary := false |} ]
    = Changed (T [97; 46; 115; 101; 116; 95; 120; 40; 97; 46; 103; 101; 116; 95; 120; 40; 41; 32; 42; 32;
                  40; 49; 32; 43; 32; 50; 41; 41; 10]).
Proof. vm_compute. reflexivity. Qed.

(* non-vacuity of [setter_calls_closed]: "a.x = a.x + 1\nb.x += 2\n" (a write whose value reads the field, then an
   augmented write) *)
Definition w_ok_src : text :=
  T [97; 46; 120; 32; 61; 32; 97; 46; 120; 32; 43; 32; 49; 10; 98; 46; 120; 32; 43; 61; 32; 50; 10].
Definition w_ok_occs : list occ :=
  [ {| o_start := 2; o_end := 3; o_prim := 0; o_tuple := false; o_line_end := 13; o_rhs_primary := true |};
    {| o_start := 8; o_end := 9; o_prim := 6; o_tuple := false; o_line_end := 13; o_rhs_primary := true |};
    {| o_start := 16; o_end := 17; o_prim := 14; o_tuple := false; o_line_end := 22; o_rhs_primary := true |} ].
Lemma closed_example :
  no_overlap w_ok_src 0 0 None w_ok_occs = true /\
  changed_module w_ok_src w_get w_set 0 0 w_ok_occs
    = Changed (T [97; 46; 115; 101; 116; 95; 120; 40; 97; 46; 103; 101; 116; 95; 120; 40; 41; 32; 43; 32; 49; 41; 10;
                  98; 46; 115; 101; 116; 95; 120; 40; 98; 46; 103; 101; 116; 95; 120; 40; 41; 32; 43; 32; 50; 41; 10]).
Proof. split; vm_compute; reflexivity. Qed.

(* a module whose text ends with a write of the field and has no final newline: the pending setter call ends exactly
   at len(source) and is closed by the final flush (`last_set <= offset`, not `<`): "a.x = 5" -> "a.set_x(5)",
   "a.x *= 3" -> "a.set_x(a.get_x() * 3)" *)
Lemma eof_write_example :
  changed_module (T [97; 46; 120; 32; 61; 32; 53]) w_get w_set 0 0
    [ {| o_start := 2; o_end := 3; o_prim := 0; o_tuple := false; o_line_end := 7; o_rhs_primary := true |} ]
    = Changed (T [97; 46; 115; 101; 116; 95; 120; 40; 53; 41]) /\
  no_overlap (T [97; 46; 120; 32; 61; 32; 53]) 0 0 None
    [ {| o_start := 2; o_end := 3; o_prim := 0; o_tuple := false; o_line_end := 7; o_rhs_primary := true |} ] = true /\
  changed_module (T [97; 46; 120; 32; 42; 61; 32; 51]) w_get w_set 0 0
    [ {| o_start := 2; o_end := 3; o_prim := 0; o_tuple := false; o_line_end := 8; o_rhs_primary := true |} ]
    = Changed (T [97; 46; 115; 101; 116; 95; 120; 40; 97; 46; 103; 101; 116; 95; 120; 40; 41; 32; 42; 32; 51; 41]).
Proof. repeat split; vm_compute; reflexivity. Qed.
