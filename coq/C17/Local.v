(* C17 — LocalToField and MethodObject as functions on Obj programs (definitions only).

   LocalToField (rope/refactor/localtofield.py): refused unless the name is an assigned local of a METHOD
   (_is_a_method_local: AssignedName of a function scope whose parent scope is a class; a parameter is not an
   AssignedName); otherwise Rename(local -> "<first parameter>.<local>") inside that method.

   MethodObject (rope/refactor/method_object.py): the function's body becomes `return K(params)()`; the new class K
   has `__init__(self, params)` storing every parameter (`self` is received as `host`; no __init__ when there is no
   parameter) and `__call__(self)` = the old body with every parameter p renamed to self.p (one Rename per
   parameter, in order).  The class is appended at module level ([p_classes] order: at the end). *)
From Coq Require Import List NArith ZArith Bool.
From RopeVerif.C17 Require Import Obj.
Import ListNotations.

Inductive unit_id := UMethod (c m : N) | UFunc (f : N) | UMain.

(* Rename of the variable v to the attribute path self.v *)
Fixpoint rnE (v self : N) (e : expr) : expr :=
  match e with
  | EInt _ | ENone => e
  | EVar x => if N.eqb x v then EAttr false (EVar self) v else e
  | EParen a => EParen (rnE v self a)
  | EAttr t a f => EAttr t (rnE v self a) f
  | EBin op a b => EBin op (rnE v self a) (rnE v self b)
  | ECall f args => ECall f (map (rnE v self) args)
  | EMeth a m args => EMeth (rnE v self a) m (map (rnE v self) args)
  | ENew c args => ENew c (map (rnE v self) args)
  | EStatic c m args => EStatic c m (map (rnE v self) args)
  end.

Fixpoint rnS (v self : N) (c : stmt) : stmt :=
  match c with
  | SPass => SPass
  | SAssign x e => if N.eqb x v then SWrite false (EVar self) v (rnE v self e) else SAssign x (rnE v self e)
  | SWrite t p f e => SWrite t (rnE v self p) f (rnE v self e)
  | SAug t p f op e => SAug t (rnE v self p) f op (rnE v self e)
  | SExpr e => SExpr (rnE v self e)
  | SPrint e => SPrint (rnE v self e)
  | SReturn e => SReturn (rnE v self e)
  | SIf c a b => SIf (rnE v self c) (map (rnS v self) a) (map (rnS v self) b)
  | SWhile c b => SWhile (rnE v self c) (map (rnS v self) b)
  end.

Definition rn_body (v self : N) (b : body) : body :=
  match b with BCode l => BCode (map (rnS v self) l) | BForward c => BForward c end.

(* --- LocalToField ---------------------------------------------------------------------------------- *)
Fixpoint assigns (v : N) (c : stmt) : bool :=
  match c with
  | SAssign x _ => N.eqb x v
  | SIf _ a b => existsb (assigns v) a || existsb (assigns v) b
  | SWhile _ b => existsb (assigns v) b
  | _ => false
  end.

Definition l2f_refuses (P : prog) (u : unit_id) (v : N) : bool :=
  match u with
  | UMethod c m =>
      match find_c (p_classes P) c with
      | Some cd =>
          match find_m (c_methods cd) m with
          | Some d => existsb (N.eqb v) (m_params d)
                      || negb (match m_body d with BCode l => existsb (assigns v) l | BForward _ => false end)
                      || match m_params d with [] => true | _ => false end
          | None => true
          end
      | None => true
      end
  | _ => true
  end.

Definition l2f_method (v : N) (d : mdef) : mdef :=
  match m_params d with
  | self :: _ => {| m_name := m_name d; m_static := m_static d; m_params := m_params d;
                    m_body := rn_body v self (m_body d) |}
  | [] => d
  end.

Definition local_to_field (c m v : N) (P : prog) : prog :=
  {| p_classes := map (fun cd => if N.eqb (c_name cd) c
                                 then {| c_name := c_name cd; c_base := c_base cd;
                                         c_methods := map (fun d => if N.eqb (m_name d) m then l2f_method v d else d)
                                                          (c_methods cd) |}
                                 else cd) (p_classes P);
     p_funcs := p_funcs P; p_main := p_main P |}.

(* --- MethodObject ------------------------------------------------------------------------------------ *)
Record mo_names := { mo_cls : N; mo_self : N; mo_host : N; mo_call : N }.   (* K, "self", "host", "__call__" *)

Definition mo_init (nm : mo_names) (ps : list N) : list mdef :=
  match ps with
  | [] => []
  | _ => [ {| m_name := init_name; m_static := false;
              m_params := mo_self nm :: map (fun p => if N.eqb p (mo_self nm) then mo_host nm else p) ps;
              m_body := BCode (map (fun p => SWrite false (EVar (mo_self nm)) p
                                               (EVar (if N.eqb p (mo_self nm) then mo_host nm else p))) ps) |} ]
  end.

Definition mo_rename_all (nm : mo_names) (ps : list N) (b : list stmt) : list stmt :=
  fold_left (fun acc p => map (rnS p (mo_self nm)) acc) ps b.

Definition mo_class (nm : mo_names) (d : mdef) : cdef :=
  {| c_name := mo_cls nm; c_base := None;
     c_methods := mo_init nm (m_params d)
                  ++ [ {| m_name := mo_call nm; m_static := false; m_params := [mo_self nm];
                          m_body := match m_body d with
                                    | BCode b => BCode (mo_rename_all nm (m_params d) b)
                                    | BForward c => BForward c
                                    end |} ] |}.

Definition mo_stub (nm : mo_names) (d : mdef) : mdef :=
  {| m_name := m_name d; m_static := m_static d; m_params := m_params d;
     m_body := BCode [SReturn (EMeth (ENew (mo_cls nm) (map EVar (m_params d))) (mo_call nm) [])] |}.

Definition method_object (nm : mo_names) (u : unit_id) (P : prog) : option prog :=
  match u with
  | UFunc f =>
      match find_m (p_funcs P) f with
      | Some d => Some {| p_classes := p_classes P ++ [mo_class nm d];
                          p_funcs := map (fun x => if N.eqb (m_name x) f then mo_stub nm x else x) (p_funcs P);
                          p_main := p_main P |}
      | None => None
      end
  | UMethod c m =>
      match find_c (p_classes P) c with
      | Some cd =>
          match find_m (c_methods cd) m with
          | Some d => Some {| p_classes := map (fun x => if N.eqb (c_name x) c
                                                         then {| c_name := c_name x; c_base := c_base x;
                                                                 c_methods := map (fun y => if N.eqb (m_name y) m then mo_stub nm y else y)
                                                                                  (c_methods x) |}
                                                         else x) (p_classes P) ++ [mo_class nm d];
                              p_funcs := p_funcs P; p_main := p_main P |}
          | None => None
          end
      | None => None
      end
  | UMain => None
  end.
