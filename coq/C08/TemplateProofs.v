(* C08 — proofs about the model of Template.v. *)
From Coq Require Import List NArith Bool Lia Arith.
From RopeVerif.Lib Require Import Text.
From RopeVerif.C08 Require Import Template.
Import ListNotations.
Local Open Scope N_scope.

(* ------------------------------------------------------------------ lists *)
Lemma firstn_add {A} (n m : nat) (l : list A) :
  firstn (n + m) l = firstn n l ++ firstn m (skipn n l).
Proof.
  revert l; induction n as [|n IH]; intros l; cbn [Nat.add firstn skipn app]; [reflexivity|].
  destruct l as [|x l]; cbn [firstn skipn app].
  - destruct m; reflexivity.
  - rewrite IH. reflexivity.
Qed.

Lemma skipn_add {A} (n m : nat) (l : list A) : skipn (n + m) l = skipn m (skipn n l).
Proof.
  revert l; induction n as [|n IH]; intros l; cbn [Nat.add skipn]; [reflexivity|].
  destruct l as [|x l]; cbn [skipn]; [destruct m; reflexivity|]. apply IH.
Qed.

Lemma skipn_length_le {A} (n : nat) (l : list A) : (length (skipn n l) <= length l)%nat.
Proof. rewrite skipn_length. lia. Qed.

(* ------------------------------------------------------------------ slices *)
Definition len (src : text) : N := N.of_nat (length src).

Lemma slice_nil src a : slice src a a = [].
Proof. unfold slice. rewrite N.sub_diag. reflexivity. Qed.

Lemma slice_empty src a b : b <= a -> slice src a b = [].
Proof. intros H. unfold slice. replace (b - a) with 0 by lia. reflexivity. Qed.

Lemma slice_app src a b c :
  a <= b -> b <= c -> slice src a b ++ slice src b c = slice src a c.
Proof.
  intros H1 H2. unfold slice.
  replace (N.to_nat (c - a)) with (N.to_nat (b - a) + N.to_nat (c - b))%nat by lia.
  rewrite firstn_add. f_equal. f_equal.
  replace (N.to_nat b) with (N.to_nat a + N.to_nat (b - a))%nat by lia.
  apply skipn_add.
Qed.

Lemma slice_full src : slice src 0 (len src) = src.
Proof.
  unfold slice, len. cbn [N.to_nat skipn]. rewrite N.sub_0_r, Nat2N.id. apply firstn_all.
Qed.

Lemma slice_to_end src a : slice src a (len src) = skipn (N.to_nat a) src.
Proof.
  unfold slice, len. apply firstn_all2. rewrite skipn_length. lia.
Qed.

(* ------------------------------------------------------------------ cursors *)
Definition wf_cur (src : text) (c : cursor) : Prop :=
  c_rest c = skipn (N.to_nat (c_off c)) src /\ c_off c <= len src.

Lemma wf_cur_init src : wf_cur src {| c_off := 0; c_rest := src |}.
Proof. split; cbn; [reflexivity|lia]. Qed.

Lemma wf_rest_length src c : wf_cur src c -> length (c_rest c) = N.to_nat (len src - c_off c).
Proof. intros [H1 H2]. rewrite H1, skipn_length. unfold len in *. lia. Qed.

Lemma advance_wf src c k :
  wf_cur src c -> (k <= length (c_rest c))%nat -> wf_cur src (advance c k).
Proof.
  intros Hw Hk. pose proof (wf_rest_length _ _ Hw) as HL. destruct Hw as [H1 H2].
  unfold advance, wf_cur; cbn [c_off c_rest]. split.
  - rewrite H1. rewrite <- skipn_add. f_equal. lia.
  - lia.
Qed.

Lemma advance_off c k : c_off (advance c k) = c_off c + N.of_nat k.
Proof. reflexivity. Qed.

(* text taken from the remaining suffix is a slice of the source *)
Lemma rest_slice src c a b :
  wf_cur src c -> c_off c <= a ->
  firstn (N.to_nat (b - a)) (skipn (N.to_nat (a - c_off c)) (c_rest c)) = slice src a b.
Proof.
  intros [H1 _] Ha. unfold slice. rewrite H1, <- skipn_add. do 2 f_equal. lia.
Qed.

Lemma rest_slice0 src c b :
  wf_cur src c -> firstn (N.to_nat (b - c_off c)) (c_rest c) = slice src (c_off c) b.
Proof.
  intros Hw. rewrite <- (rest_slice src c (c_off c) b Hw) by lia.
  rewrite N.sub_diag. reflexivity.
Qed.

Lemma rest_is_slice src c : wf_cur src c -> c_rest c = slice src (c_off c) (len src).
Proof. intros [H1 _]. rewrite slice_to_end. exact H1. Qed.

(* ------------------------------------------------------------------ searching *)
Lemma starts_with_firstn tok s :
  starts_with tok s = true -> firstn (length tok) s = tok /\ (length tok <= length s)%nat.
Proof.
  revert s; induction tok as [|c tok IH]; intros s H; cbn in *.
  - split; [reflexivity|lia].
  - destruct s as [|d s]; [discriminate|].
    apply andb_true_iff in H. destruct H as [H1 H2]. apply N.eqb_eq in H1. subst d.
    destruct (IH _ H2) as [E L]. cbn. rewrite E. split; [reflexivity|lia].
Qed.

Lemma find_from_spec tok s k r :
  find_from tok s k = Some r ->
  exists j, r = (k + j)%nat /\ (j <= length s)%nat /\ starts_with tok (skipn j s) = true.
Proof.
  revert k; induction s as [|d s IH]; intros k H; cbn [find_from] in H.
  - destruct (starts_with tok []) eqn:E; [|discriminate].
    injection H as <-. exists 0%nat. cbn [skipn length]. split; [lia|split; [lia|exact E]].
  - destruct (starts_with tok (d :: s)) eqn:E.
    + injection H as <-. exists 0%nat. cbn [skipn]. split; [lia|split; [cbn [length]; lia|exact E]].
    + destruct (IH _ H) as (j & -> & Hj & Hs). exists (S j). cbn [skipn length].
      split; [lia|split; [lia|exact Hs]].
Qed.

Lemma find_rel_spec tok s r :
  find_rel tok s = Some r ->
  (r + length tok <= length s)%nat /\ firstn (length tok) (skipn r s) = tok.
Proof.
  intros H. destruct (find_from_spec _ _ _ _ H) as (j & -> & Hj & Hs). cbn [Nat.add].
  destruct (starts_with_firstn _ _ Hs) as [E L]. rewrite skipn_length in L. split; [lia|exact E].
Qed.

(* ------------------------------------------------------------------ consumers *)
(* what every consumer guarantees: the token lies at or after the cursor, the new cursor is its end *)
Definition step_ok (src : text) (c : cursor) (s e : N) (c' : cursor) : Prop :=
  wf_cur src c' /\ c_off c <= s /\ s <= e /\ e = c_off c'.

Lemma step_ok_weaken src c c1 s e c' :
  step_ok src c1 s e c' -> c_off c <= c_off c1 -> step_ok src c s e c'.
Proof. intros (A & B & C & D) H. unfold step_ok. split; [exact A|]. split; [lia|]. split; [lia|exact D]. Qed.

Lemma skip_comment_wf src c c1 :
  wf_cur src c -> skip_comment c = Some c1 -> wf_cur src c1 /\ c_off c <= c_off c1.
Proof.
  intros Hw H. unfold skip_comment in H.
  destruct (c_rest c) as [|x r1] eqn:Er; [discriminate|].
  destruct (find_rel [10] r1) as [j|] eqn:Ef; [|discriminate]. injection H as <-.
  destruct (find_rel_spec _ _ _ Ef) as [Hl _]. cbn [length] in Hl.
  split; [|rewrite advance_off; lia].
  apply advance_wf; [exact Hw|]. rewrite Er. cbn [length]. lia.
Qed.

Lemma advance_tok src c k n :
  wf_cur src c -> (k + n <= length (c_rest c))%nat ->
  step_ok src c (c_off c + N.of_nat k) (c_off (advance c (k + n))) (advance c (k + n)).
Proof.
  intros Hw Hk. unfold step_ok. split; [apply advance_wf; assumption|].
  rewrite advance_off. lia.
Qed.

Lemma consume_loop_ok src fuel tok c s e c' :
  wf_cur src c -> consume_loop fuel tok c = Ok (s, e, c') ->
  step_ok src c s e c' /\ slice src s e = tok.
Proof.
  revert c; induction fuel as [|x fuel IH]; intros c Hw H; cbn [consume_loop] in H; [discriminate|].
  destruct (find_rel tok (c_rest c)) as [k|] eqn:Ef; [|discriminate].
  destruct (negb (in_comment k (c_rest c) false)).
  - injection H as <- <- <-. destruct (find_rel_spec _ _ _ Ef) as [Hl Et].
    split; [apply advance_tok; assumption|].
    rewrite <- (rest_slice src c) by (try assumption; lia).
    replace (c_off c + N.of_nat (k + length tok) - (c_off c + N.of_nat k)) with (N.of_nat (length tok)) by lia.
    replace (c_off c + N.of_nat k - c_off c) with (N.of_nat k) by lia.
    rewrite !Nat2N.id. exact Et.
  - destruct (skip_comment c) as [c1|] eqn:Es; [|discriminate].
    destruct (skip_comment_wf _ _ _ Hw Es) as [Hw1 Hle].
    destruct (IH _ Hw1 H) as [S1 Et]. split; [|exact Et].
    eapply step_ok_weaken; eassumption.
Qed.

Lemma consume_ok src tok c s e c' :
  wf_cur src c -> consume tok c = Ok (s, e, c') -> step_ok src c s e c' /\ slice src s e = tok.
Proof. intros Hw H. eapply consume_loop_ok; eassumption. Qed.

Lemma consume_joined_ok src tok c s e c' :
  wf_cur src c -> consume_joined tok c = Ok (s, e, c') -> step_ok src c s e c'.
Proof.
  intros Hw H. unfold consume_joined in H.
  destruct (find_rel tok (c_rest c)) as [k|] eqn:Ef; [|discriminate].
  injection H as <- <- <-. destruct (find_rel_spec _ _ _ Ef) as [Hl _].
  apply advance_tok; assumption.
Qed.

Lemma regex_loop_ok src calls c s e c' :
  wf_cur src c -> regex_loop (len src) calls c = Ok (s, e, c') -> step_ok src c s e c'.
Proof.
  revert c; induction calls as [|[pos r] calls IH]; intros c Hw H; cbn [regex_loop] in H; [discriminate|].
  destruct (negb (pos =? c_off c)); [discriminate|].
  destruct r as [[s0 e0]|]; [|discriminate].
  destruct ((c_off c <=? s0) && (s0 <=? e0) && (e0 <=? len src)) eqn:Eb; [|discriminate].
  apply andb_true_iff in Eb. destruct Eb as [Eb E3]. apply andb_true_iff in Eb. destruct Eb as [E1 E2].
  apply N.leb_le in E1, E2, E3.
  destruct (negb (in_comment (N.to_nat (s0 - c_off c)) (c_rest c) false)).
  - injection H as <- <- <-. unfold step_ok. split.
    + apply advance_wf; [exact Hw|]. rewrite (wf_rest_length _ _ Hw). lia.
    + rewrite advance_off. lia.
  - destruct (skip_comment c) as [c1|] eqn:Es; [|discriminate].
    destruct (skip_comment_wf _ _ _ Hw Es) as [Hw1 Hle].
    eapply step_ok_weaken; [apply IH; eassumption|exact Hle].
Qed.

Lemma spaces_close_le s k n : spaces_close s k = Some n -> (n <= k + length s)%nat.
Proof.
  revert k; induction s as [|c s IH]; intros k H; cbn [spaces_close] in H; [discriminate|].
  destruct (c =? 41).
  - injection H as <-. cbn [length]. lia.
  - destruct (is_space c); [|discriminate]. apply IH in H. cbn [length]. lia.
Qed.

Lemma find_empty_tuple_le s k0 k n :
  find_empty_tuple s k0 = Some (k, n) -> (k0 <= k /\ k - k0 + n <= length s)%nat.
Proof.
  revert k0; induction s as [|c s IH]; intros k0 H; cbn [find_empty_tuple] in H; [discriminate|].
  destruct (if c =? 40 then spaces_close s 1 else None) as [m|] eqn:E.
  - injection H as <- <-. destruct (c =? 40); [|discriminate]. apply spaces_close_le in E. cbn [length]. lia.
  - apply IH in H. cbn [length]. lia.
Qed.

Lemma spaces_comments_close_le s cm k n : spaces_comments_close s cm k = Some n -> (n <= k + length s)%nat.
Proof.
  remember (length s) as m eqn:Em. revert s cm k Em.
  induction m as [m IH] using lt_wf_ind. intros s cm k Em H. subst m.
  destruct s as [|c s]; cbn [spaces_comments_close] in H; [discriminate|].
  destruct cm.
  - apply (IH (length s)) in H; cbn [length]; [lia|lia|reflexivity].
  - destruct (c =? 41); [injection H as <-; cbn [length]; lia|].
    destruct (is_space c).
    + apply (IH (length s)) in H; cbn [length]; [lia|lia|reflexivity].
    + destruct (c =? 35).
      * apply (IH (length s)) in H; cbn [length]; [lia|lia|reflexivity].
      * destruct (c =? 92); [|discriminate]. destruct s as [|d s]; [discriminate|].
        destruct (d =? 10); [|discriminate].
        apply (IH (length s)) in H; cbn [length]; [lia|lia|reflexivity].
Qed.

Lemma find_empty_tuple_c_le s k0 k n :
  find_empty_tuple_c s k0 = Some (k, n) -> (k0 <= k /\ k - k0 + n <= length s)%nat.
Proof.
  revert k0; induction s as [|c s IH]; intros k0 H; cbn [find_empty_tuple_c] in H; [discriminate|].
  destruct (if c =? 40 then spaces_comments_close s false 1 else None) as [m|] eqn:E.
  - injection H as <- <-. destruct (c =? 40); [|discriminate]. apply spaces_comments_close_le in E. cbn [length]. lia.
  - apply IH in H. cbn [length]. lia.
Qed.

Lemma find_with_or_comma_le s k0 k n :
  find_with_or_comma s k0 = Some (k, n) -> (k0 <= k /\ k - k0 + n <= length s)%nat.
Proof.
  revert k0; induction s as [|c s IH]; intros k0 H.
  - cbn in H. discriminate.
  - cbn [find_with_or_comma] in H.
    destruct (starts_with tok_with (c :: s)) eqn:E.
    + injection H as <- <-. apply starts_with_firstn in E. destruct E as [_ L]. cbn [length tok_with] in *. lia.
    + destruct (c =? 44).
      * injection H as <- <-. cbn [length]. lia.
      * apply IH in H. cbn [length]. lia.
Qed.

Definition finder_ok (find : text -> nat -> option (nat * nat)) : Prop :=
  forall s k n, find s 0%nat = Some (k, n) -> (k + n <= length s)%nat.

Lemma pattern_loop_ok src find fuel c s e c' :
  finder_ok find -> wf_cur src c -> pattern_loop fuel find c = Ok (s, e, c') -> step_ok src c s e c'.
Proof.
  intros Hf. revert c; induction fuel as [|x fuel IH]; intros c Hw H; cbn [pattern_loop] in H; [discriminate|].
  destruct (find (c_rest c) 0%nat) as [[k n]|] eqn:Ef; [|discriminate].
  destruct (negb (in_comment k (c_rest c) false)).
  - injection H as <- <- <-. apply advance_tok; [assumption|]. apply Hf in Ef. exact Ef.
  - destruct (skip_comment c) as [c1|] eqn:Es; [|discriminate].
    destruct (skip_comment_wf _ _ _ Hw Es) as [Hw1 Hle].
    eapply step_ok_weaken; [apply IH; eassumption|exact Hle].
Qed.

Lemma finder_ok_empty_tuple : finder_ok find_empty_tuple.
Proof. intros s k n H. apply find_empty_tuple_le in H. lia. Qed.

Lemma finder_ok_empty_tuple_c : finder_ok find_empty_tuple_c.
Proof. intros s k n H. apply find_empty_tuple_c_le in H. lia. Qed.

Lemma finder_ok_with_or_comma : finder_ok find_with_or_comma.
Proof. intros s k n H. apply find_with_or_comma_le in H. lia. Qed.

(* rfind_open returns an index inside the segment that holds a '(' *)
Lemma rfind_open_spec n s k flag best r :
  rfind_open n s k flag best = Some r ->
  (best = Some r) \/ (exists j, r = (k + j)%nat /\ (j < n)%nat /\ nth_error s j = Some 40).
Proof.
  revert s k flag best; induction n as [|n IH]; intros s k flag best H; cbn [rfind_open] in H.
  - left. exact H.
  - destruct s as [|c s]; [left; exact H|].
    apply IH in H. destruct H as [H|(j & -> & Hj & Hn)].
    + destruct ((c =? 40) && negb flag) eqn:E.
      * injection H as <-. right. exists 0%nat. apply andb_true_iff in E. destruct E as [E _].
        apply N.eqb_eq in E. subst c. repeat split; try lia.
      * left. exact H.
    + right. exists (S j). repeat split; try lia. exact Hn.
Qed.

Lemma rfind_open_some n s r :
  rfind_open n s 0 false None = Some r -> (r < n)%nat /\ nth_error s r = Some 40.
Proof.
  intros H. apply rfind_open_spec in H. destruct H as [H|(j & -> & Hj & Hn)]; [discriminate|].
  cbn [Nat.add]. split; assumption.
Qed.

Lemma nth_error_slice1 (src : text) (i : nat) c :
  nth_error src i = Some c -> slice src (N.of_nat i) (N.of_nat i + 1) = [c].
Proof.
  intros H. unfold slice. replace (N.of_nat i + 1 - N.of_nat i) with 1 by lia.
  rewrite Nat2N.id. cbn [N.to_nat Pos.to_nat Pos.iter_op Nat.add].
  revert src H; induction i as [|i IH]; intros src H; destruct src as [|d src]; cbn in H; try discriminate.
  - injection H as ->. reflexivity.
  - cbn [skipn]. apply IH. exact H.
Qed.

Lemma nth_error_skipn {A} (l : list A) (a i : nat) : nth_error (skipn a l) i = nth_error l (a + i).
Proof.
  revert l; induction a as [|a IH]; intros l; cbn [skipn Nat.add]; [reflexivity|].
  destruct l as [|x l]; [destruct i; reflexivity|]. cbn [nth_error]. apply IH.
Qed.

(* ------------------------------------------------------------------ annotated trees *)
Fixpoint write_ch (l : list pchild) : text :=
  match l with
  | [] => []
  | PT t :: r => t ++ write_ch r
  | PN q :: r => write q ++ write_ch r
  end.

Lemma write_unfold c e s r ch : write (PNode c e s r ch) = write_ch ch.
Proof.
  cbn [write]. induction ch as [|[t|q] ch IH]; cbn [write_ch]; [reflexivity| |]; rewrite <- IH; reflexivity.
Qed.

Lemma write_ch_app a b : write_ch (a ++ b) = write_ch a ++ write_ch b.
Proof.
  induction a as [|[t|q] a IH]; cbn [app write_ch]; [reflexivity| |]; rewrite IH, app_assoc; reflexivity.
Qed.

Lemma child_nodes_app a b : child_nodes (a ++ b) = child_nodes a ++ child_nodes b.
Proof.
  induction a as [|[t|q] a IH]; cbn [app child_nodes]; [reflexivity|exact IH|rewrite IH; reflexivity].
Qed.

Lemma no_escape_unfold c e s r ch :
  no_escape (PNode c e s r ch) = (e <=? s) && forallb no_escape (child_nodes ch).
Proof.
  cbn [no_escape]. f_equal.
  induction ch as [|[t|q] ch IH]; cbn [child_nodes forallb]; [reflexivity|exact IH|rewrite <- IH; reflexivity].
Qed.

Lemma subnodes_unfold c e s r ch :
  subnodes (PNode c e s r ch) = PNode c e s r ch :: flat_map subnodes (child_nodes ch).
Proof.
  cbn [subnodes]. f_equal.
  induction ch as [|[t|q] ch IH]; cbn [child_nodes flat_map]; [reflexivity|exact IH|rewrite <- IH; reflexivity].
Qed.

Lemma subnodes_head p : exists l, subnodes p = p :: l.
Proof. destruct p. rewrite subnodes_unfold. eexists; reflexivity. Qed.

(* children regions inside [lo, hi], increasing and disjoint *)
Fixpoint ordered_in (lo hi : N) (l : list pnode) : Prop :=
  match l with
  | [] => lo <= hi
  | q :: r => lo <= p_rs q /\ p_rs q <= p_re q /\ ordered_in (p_re q) hi r
  end.

(* the cursor only moves forward: every child is entered where its predecessor was left, or later *)
Fixpoint entries_in (lo hi : N) (l : list pnode) : Prop :=
  match l with
  | [] => lo <= hi
  | q :: r => lo <= p_entry q /\ p_entry q <= p_re q /\ entries_in (p_re q) hi r
  end.

Definition node_ok (src : text) (n : pnode) : Prop :=
  write n = slice src (p_rs n) (p_re n) /\ p_re n <= len src /\
  ordered_in (p_rs n) (p_re n) (child_nodes (p_ch n)).

Definition cursor_ok (n : pnode) : Prop :=
  entries_in (p_entry n) (p_re n) (child_nodes (p_ch n)).

Lemma ordered_in_weaken lo lo' hi hi' l :
  ordered_in lo hi l -> lo' <= lo -> hi <= hi' -> ordered_in lo' hi' l.
Proof.
  revert lo lo'; induction l as [|q l IH]; intros lo lo' H H1 H2; cbn [ordered_in] in *; [lia|].
  destruct H as (A & B & C). split; [lia|]. split; [exact B|]. eapply IH; [exact C|lia|exact H2].
Qed.

Lemma entries_in_weaken lo lo' hi hi' l :
  entries_in lo hi l -> lo' <= lo -> hi <= hi' -> entries_in lo' hi' l.
Proof.
  revert lo lo'; induction l as [|q l IH]; intros lo lo' H H1 H2; cbn [entries_in] in *; [lia|].
  destruct H as (A & B & C). split; [lia|]. split; [exact B|]. eapply IH; [exact C|lia|exact H2].
Qed.

Lemma ordered_in_le lo hi l : ordered_in lo hi l -> lo <= hi.
Proof.
  revert lo; induction l as [|q l IH]; intros lo H; cbn [ordered_in] in H; [exact H|].
  destruct H as (A & B & C). apply IH in C. lia.
Qed.

Lemma entries_in_le lo hi l : entries_in lo hi l -> lo <= hi.
Proof.
  revert lo; induction l as [|q l IH]; intros lo H; cbn [entries_in] in H; [exact H|].
  destruct H as (A & B & C). apply IH in C. lia.
Qed.

Lemma ordered_in_app lo mid hi a b :
  ordered_in lo mid a -> ordered_in mid hi b -> ordered_in lo hi (a ++ b).
Proof.
  revert lo; induction a as [|q a IH]; intros lo Ha Hb; cbn [app ordered_in] in *.
  - eapply ordered_in_weaken; [exact Hb|exact Ha|lia].
  - destruct Ha as (A & B & C). split; [exact A|]. split; [exact B|]. apply IH; assumption.
Qed.

Lemma entries_in_app lo mid hi a b :
  entries_in lo mid a -> entries_in mid hi b -> entries_in lo hi (a ++ b).
Proof.
  revert lo; induction a as [|q a IH]; intros lo Ha Hb; cbn [app entries_in] in *.
  - eapply entries_in_weaken; [exact Hb|exact Ha|lia].
  - destruct Ha as (A & B & C). split; [exact A|]. split; [exact B|]. apply IH; assumption.
Qed.

(* ------------------------------------------------------------------ what one patched node guarantees *)
Definition node_post (src : text) (c : cursor) (p : pnode) (c' : cursor) : Prop :=
  wf_cur src c' /\ p_entry p = c_off c /\ p_re p = c_off c' /\ c_off c <= c_off c' /\
  p_rs p <= p_re p /\ Forall cursor_ok (subnodes p) /\
  (no_escape p = true -> Forall (node_ok src) (subnodes p)).

(* ------------------------------------------------------------------ the item loop *)
Fixpoint pieces_ok (src : text) (lo : N) (ps : list piece) (hi : N) : Prop :=
  match ps with
  | [] => lo = hi
  | (fmt, ts, pc) :: r =>
      exists mid,
        fmt = slice src lo ts /\ lo <= mid /\ ts <= mid /\
        match pc with
        | PT t => lo <= ts /\ t = slice src ts mid
        | PN p =>
            p_rs p = ts /\ p_re p = mid /\ p_entry p = lo /\ Forall cursor_ok (subnodes p) /\
            (no_escape p = true -> Forall (node_ok src) (subnodes p))
        end /\
        pieces_ok src mid r hi
  end.

Section ItemsProofs.
  Variable src : text.
  Variable ev : env.
  Hypothesis Hev : e_len ev = len src.
  Variable rec : tnode -> cursor -> result (pnode * cursor).
  Variable joined : bool.

  Definition rec_ok (n : tnode) : Prop :=
    forall c p c', wf_cur src c -> rec n c = Ok (p, c') -> node_post src c p c'.

  Lemma patch_item_ok it c ts pc c1 :
    (forall n, it = ISub n -> rec_ok n) ->
    wf_cur src c ->
    patch_item ev rec joined it c = Ok (ts, pc, c1) ->
    wf_cur src c1 /\ c_off c <= c_off c1 /\ ts <= c_off c1 /\
    match pc with
    | PT t => c_off c <= ts /\ t = slice src ts (c_off c1)
    | PN p =>
        p_rs p = ts /\ p_re p = c_off c1 /\ p_entry p = c_off c /\ Forall cursor_ok (subnodes p) /\
        (no_escape p = true -> Forall (node_ok src) (subnodes p))
    end.
  Proof.
    intros Hrec Hw H.
    assert (Htok : forall s e c1',
               step_ok src c s e c1' ->
               wf_cur src c1' /\ c_off c <= c_off c1' /\ s <= c_off c1' /\
               (c_off c <= s /\
                firstn (N.to_nat (e - s)) (skipn (N.to_nat (s - c_off c)) (c_rest c)) = slice src s (c_off c1'))).
    { intros s e c1' (A & B & C & D). subst e. split; [exact A|]. split; [lia|]. split; [lia|].
      split; [exact B|]. apply rest_slice; assumption. }
    destruct it as [t|n|calls| | | |]; cbn [patch_item] in H.
    - destruct (if joined then consume_joined t c else consume t c) as [[[s e] c1']|] eqn:E; [|discriminate].
      injection H as <- <- <-. apply Htok.
      destruct joined; [eapply consume_joined_ok; eassumption|eapply consume_ok; eassumption].
    - destruct (rec n c) as [[p c1']|] eqn:E; [|discriminate]. injection H as <- <- <-.
      destruct (Hrec n eq_refl c p c1' Hw E) as (A & B & C & D & F & G & I).
      split; [exact A|]. split; [exact D|]. split; [lia|].
      split; [reflexivity|]. split; [exact C|]. split; [exact B|]. split; [exact G|exact I].
    - destruct (regex_loop (e_len ev) calls c) as [[[s e] c1']|] eqn:E; [|discriminate].
      injection H as <- <- <-. apply Htok. rewrite Hev in E. eapply regex_loop_ok; eassumption.
    - destruct (consume_pattern _ c) as [[[s e] c1']|] eqn:E; [|discriminate].
      injection H as <- <- <-. apply Htok. eapply pattern_loop_ok; [|eassumption|exact E].
      destruct (o_tuple_comments (e_opt ev)); [apply finder_ok_empty_tuple_c|apply finder_ok_empty_tuple].
    - destruct (consume_pattern find_with_or_comma c) as [[[s e] c1']|] eqn:E; [|discriminate].
      injection H as <- <- <-. apply Htok. eapply pattern_loop_ok; [apply finder_ok_with_or_comma|eassumption|exact E].
    - discriminate.
    - discriminate.
  Qed.

  Lemma patch_items_ok items c ps c2 :
    (forall n, In (ISub n) items -> rec_ok n) ->
    wf_cur src c ->
    patch_items ev rec joined items c = Ok (ps, c2) ->
    wf_cur src c2 /\ c_off c <= c_off c2 /\ pieces_ok src (c_off c) ps (c_off c2).
  Proof.
    revert c ps c2; induction items as [|it items IH]; intros c ps c2 Hrec Hw H; cbn [patch_items] in H.
    - injection H as <- <-. split; [exact Hw|]. split; [lia|]. reflexivity.
    - destruct (patch_item ev rec joined it c) as [[[ts pc] c1]|] eqn:E1; [|discriminate].
      destruct (patch_items ev rec joined items c1) as [[ps' c2']|] eqn:E2; [|discriminate].
      injection H as <- <-.
      destruct (patch_item_ok it c ts pc c1) as (A & B & C & D); [|exact Hw|exact E1|].
      { intros n ->. apply Hrec. left. reflexivity. }
      destruct (IH c1 ps' c2') as (A' & B' & C'); [|exact A|exact E2|].
      { intros n Hn. apply Hrec. right. exact Hn. }
      split; [exact A'|]. split; [lia|].
      cbn [pieces_ok]. exists (c_off c1).
      split; [apply rest_slice0; exact Hw|]. split; [exact B|]. split; [exact C|]. split; [exact D|exact C'].
  Qed.
End ItemsProofs.

(* ------------------------------------------------------------------ from pieces to sorted_children *)
Definition tailch (ps : list piece) : list pchild :=
  flat_map (fun p : piece => [PT (fst (fst p)); snd p]) ps.

Definition all_cursor_ok (l : list pnode) : Prop := Forall (fun q => Forall cursor_ok (subnodes q)) l.
Definition all_node_ok (src : text) (l : list pnode) : Prop := Forall (fun q => Forall (node_ok src) (subnodes q)) l.

Lemma node_ok_self src p : Forall (node_ok src) (subnodes p) -> node_ok src p.
Proof. destruct (subnodes_head p) as [l E]. rewrite E. intros H. inversion H; assumption. Qed.

Lemma pieces_tail src lo ps hi :
  pieces_ok src lo ps hi ->
  lo <= hi /\ entries_in lo hi (child_nodes (tailch ps)) /\ all_cursor_ok (child_nodes (tailch ps)) /\
  (forallb no_escape (child_nodes (tailch ps)) = true ->
   write_ch (tailch ps) = slice src lo hi /\ ordered_in lo hi (child_nodes (tailch ps)) /\
   all_node_ok src (child_nodes (tailch ps))).
Proof.
  revert lo; induction ps as [|[[fmt ts] pc] ps IH]; intros lo H; cbn [pieces_ok] in H.
  - subst hi. cbn [tailch flat_map child_nodes entries_in forallb write_ch ordered_in].
    split; [lia|]. split; [lia|]. split; [constructor|]. intros _.
    split; [symmetry; apply slice_nil|]. split; [lia|constructor].
  - destruct H as (mid & Hf & Hlm & Htm & Hpc & Hr).
    destruct (IH _ Hr) as (A & B & C & D). clear IH.
    unfold tailch in *. cbn [flat_map app fst snd].
    destruct pc as [t|p].
    + destruct Hpc as [Hlt ->]. cbn [child_nodes write_ch].
      split; [lia|]. split; [eapply entries_in_weaken; [exact B|lia|lia]|]. split; [exact C|].
      intros Hne. destruct (D Hne) as (D1 & D2 & D3).
      split; [|split; [eapply ordered_in_weaken; [exact D2|lia|lia]|exact D3]].
      rewrite D1, Hf. rewrite slice_app by lia. apply slice_app; lia.
    + destruct Hpc as (P1 & P2 & P3 & P4 & P5). cbn [child_nodes write_ch entries_in forallb ordered_in].
      split; [lia|]. split; [rewrite P2, P3; split; [lia|split; [lia|exact B]]|].
      split; [constructor; [exact P4|exact C]|].
      intros Hne. apply andb_true_iff in Hne. destruct Hne as [Hn1 Hn2].
      destruct (D Hn2) as (D1 & D2 & D3). pose proof (P5 Hn1) as Hok.
      pose proof (node_ok_self _ _ Hok) as (W & _ & _).
      assert (Hesc : lo <= ts).
      { destruct p as [c0 e0 s0 r0 ch0]. rewrite no_escape_unfold in Hn1. apply andb_true_iff in Hn1.
        destruct Hn1 as [Hn1 _]. apply N.leb_le in Hn1. cbn [p_rs p_entry] in *. lia. }
      split; [|split; [rewrite P1, P2; split; [exact Hesc|split; [lia|exact D2]]|constructor; [exact Hok|exact D3]]].
      rewrite W, P1, P2, D1, Hf. rewrite slice_app by lia. apply slice_app; lia.
Qed.

Lemma pieces_children src lo ps hi :
  pieces_ok src lo ps hi ->
  let ch := children_of_pieces ps in
  let st := start_of_pieces lo ps in
  lo <= hi /\ st <= hi /\ entries_in lo hi (child_nodes ch) /\ all_cursor_ok (child_nodes ch) /\
  (forallb no_escape (child_nodes ch) = true ->
   write_ch ch = slice src st hi /\ ordered_in st hi (child_nodes ch) /\ all_node_ok src (child_nodes ch)).
Proof.
  intros H. destruct ps as [|[[fmt ts] pc] ps]; cbn [children_of_pieces start_of_pieces pieces_ok] in *.
  - subst hi. cbn [child_nodes entries_in forallb write_ch ordered_in].
    split; [lia|]. split; [lia|]. split; [lia|]. split; [constructor|]. intros _.
    split; [symmetry; apply slice_nil|]. split; [lia|constructor].
  - destruct H as (mid & Hf & Hlm & Htm & Hpc & Hr).
    destruct (pieces_tail _ _ _ _ Hr) as (A & B & C & D). fold (tailch ps).
    destruct pc as [t|p].
    + destruct Hpc as [Hlt ->]. cbn [child_nodes write_ch].
      split; [lia|]. split; [lia|]. split; [eapply entries_in_weaken; [exact B|lia|lia]|]. split; [exact C|].
      intros Hne. destruct (D Hne) as (D1 & D2 & D3).
      split; [|split; [eapply ordered_in_weaken; [exact D2|lia|lia]|exact D3]].
      rewrite D1. apply slice_app; lia.
    + destruct Hpc as (P1 & P2 & P3 & P4 & P5). cbn [child_nodes write_ch entries_in forallb ordered_in].
      split; [lia|]. split; [lia|]. split; [rewrite P2, P3; split; [lia|split; [lia|exact B]]|].
      split; [constructor; [exact P4|exact C]|].
      intros Hne. apply andb_true_iff in Hne. destruct Hne as [Hn1 Hn2].
      destruct (D Hn2) as (D1 & D2 & D3). pose proof (P5 Hn1) as Hok.
      pose proof (node_ok_self _ _ Hok) as (W & _ & _).
      split; [|split; [rewrite P1, P2; split; [lia|split; [lia|exact D2]]|constructor; [exact Hok|exact D3]]].
      rewrite W, P1, P2, D1. apply slice_app; lia.
Qed.

(* ------------------------------------------------------------------ after the loop *)
Definition cov (src : text) (start : N) (ch : list pchild) (hi : N) : Prop :=
  write_ch ch = slice src start hi /\ ordered_in start hi (child_nodes ch).

Lemma cov_append src st ch hi hi' :
  cov src st ch hi -> hi <= hi' -> cov src st (ch ++ [PT (slice src hi hi')]) hi'.
Proof.
  intros [W O] H. pose proof (ordered_in_le _ _ _ O) as Hle. split.
  - rewrite write_ch_app, W. cbn [write_ch]. rewrite app_nil_r. apply slice_app; lia.
  - rewrite child_nodes_app. cbn [child_nodes]. rewrite app_nil_r.
    eapply ordered_in_weaken; [exact O|lia|exact H].
Qed.

Lemma cov_prepend src st st' ch hi :
  cov src st ch hi -> st' <= st -> cov src st' (PT (slice src st' st) :: ch) hi.
Proof.
  intros [W O] H. pose proof (ordered_in_le _ _ _ O) as Hle. split.
  - cbn [write_ch]. rewrite W. apply slice_app; lia.
  - cbn [child_nodes]. eapply ordered_in_weaken; [exact O|exact H|lia].
Qed.

Lemma slice_length src a b : a <= b -> b <= len src -> length (slice src a b) = N.to_nat (b - a).
Proof.
  intros H1 H2. unfold slice. rewrite firstn_length, skipn_length. unfold len in H2. lia.
Qed.

Lemma consume_closes_ok src n c c2 :
  wf_cur src c -> consume_closes n c = Ok c2 -> wf_cur src c2 /\ c_off c <= c_off c2.
Proof.
  revert c; induction n as [|n IH]; intros c Hw H; cbn [consume_closes] in H.
  - injection H as <-. split; [exact Hw|lia].
  - destruct (consume [41] c) as [[[s e] c1]|] eqn:E; [|discriminate].
    destruct (consume_ok _ _ _ _ _ _ Hw E) as [(A & B & C & D) _].
    destruct (IH _ A H) as [A' B']. split; [exact A'|lia].
Qed.

Lemma find_opens_le src n st st1 : find_opens src n st = Ok st1 -> st1 <= st.
Proof.
  revert st; induction n as [|n IH]; intros st H; cbn [find_opens] in H.
  - injection H as <-. lia.
  - destruct (rfind_open (N.to_nat st) src 0 false None) as [k|] eqn:E; [|discriminate].
    apply rfind_open_some in E. destruct E as [E _]. apply IH in H. lia.
Qed.

(* a stage keeps the child nodes, may move the start left and the cursor right, and keeps the cover *)
Definition stage_ok (src : text) (st st' : hstate) : Prop :=
  let '(s0, ch0, c0) := st in
  let '(s1, ch1, c1) := st' in
  wf_cur src c1 /\ c_off c0 <= c_off c1 /\ s1 <= s0 /\ child_nodes ch1 = child_nodes ch0 /\
  (cov src s0 ch0 (c_off c0) -> cov src s1 ch1 (c_off c1)).

Lemma find_opens_entry_le c0 n st : find_opens_entry c0 n st <= st.
Proof.
  revert st; induction n as [|n IH]; intros st; cbn [find_opens_entry]; [lia|].
  destruct (rfind_open (N.to_nat (st - c_off c0)) (c_rest c0) 0 false None) as [k|] eqn:E; [|lia].
  apply rfind_open_some in E. destruct E as [E _]. pose proof (IH (c_off c0 + N.of_nat k)). lia.
Qed.

Lemma find_opens_entry_ge c0 n st : c_off c0 <= st -> c_off c0 <= find_opens_entry c0 n st.
Proof.
  revert st; induction n as [|n IH]; intros st H; cbn [find_opens_entry]; [exact H|].
  destruct (rfind_open (N.to_nat (st - c_off c0)) (c_rest c0) 0 false None) as [k|]; [|exact H].
  apply IH. lia.
Qed.

Lemma handle_parens_ok src ev c0 formats st st' :
  e_src ev = src -> wf_cur src (snd st) ->
  handle_parens ev c0 formats st = Ok st' -> stage_ok src st st'.
Proof.
  intros Hev Hw H. destruct st as [[s0 ch0] c1]. cbn [snd] in Hw. unfold handle_parens in H.
  destruct (count_needed_parens formats) as [opens closes].
  destruct (consume_closes closes c1) as [c2|] eqn:E1; [|discriminate].
  destruct (if o_opens_from_entry (e_opt ev) then Ok (find_opens_entry c0 opens s0)
            else find_opens (e_src ev) opens s0) as [s1|] eqn:E2; [|discriminate].
  injection H as <-. rewrite Hev in *.
  destruct (consume_closes_ok _ _ _ _ Hw E1) as [Hw2 Hle].
  assert (E2' : s1 <= s0).
  { destruct (o_opens_from_entry (e_opt ev)).
    - injection E2 as <-. apply find_opens_entry_le.
    - eapply find_opens_le; exact E2. }
  clear E2. rename E2' into E2.
  unfold stage_ok. split; [exact Hw2|]. split; [exact Hle|]. split; [exact E2|].
  assert (Hch1 : forall ch1,
             ch1 = match closes with O => ch0 | S _ => ch0 ++ [PT (firstn (N.to_nat (c_off c2 - c_off c1)) (c_rest c1))] end ->
             child_nodes ch1 = child_nodes ch0 /\ (cov src s0 ch0 (c_off c1) -> cov src s0 ch1 (c_off c2))).
  { intros ch1 ->. destruct closes as [|n].
    - cbn [consume_closes] in E1. injection E1 as <-. split; [reflexivity|]. intros X; exact X.
    - split.
      + rewrite child_nodes_app. cbn [child_nodes]. apply app_nil_r.
      + intros X. rewrite (rest_slice0 src c1 _ Hw). apply cov_append; assumption. }
  destruct (Hch1 _ eq_refl) as [K1 K2].
  destruct (s1 =? s0) eqn:Es.
  - apply N.eqb_eq in Es. subst s1. split; [exact K1|exact K2].
  - split; [cbn [child_nodes]; exact K1|]. intros X. apply cov_prepend; [apply K2; exact X|exact E2].
Qed.

Lemma eat_surrounding_parens_ok src c0 st st' :
  wf_cur src c0 -> wf_cur src (snd st) ->
  eat_surrounding_parens c0 st = Ok st' -> stage_ok src st st'.
Proof.
  intros Hw0 Hw H. destruct st as [[s1 ch2] c2]. cbn [snd] in Hw. unfold eat_surrounding_parens in H.
  destruct (rfind_open (N.to_nat (s1 - c_off c0)) (c_rest c0) 0 false None) as [k|] eqn:E1.
  2:{ injection H as <-. unfold stage_ok. split; [exact Hw|]. split; [lia|]. split; [lia|].
      split; [reflexivity|]. intros X; exact X. }
  destruct (consume [41] c2) as [[[ts te] c3]|] eqn:E2; [|discriminate].
  injection H as <-.
  destruct (consume_ok _ _ _ _ _ _ Hw E2) as [(A & B & C & D) Et]. subst te.
  apply rfind_open_some in E1. destruct E1 as [Hk Hn].
  set (idx := c_off c0 + N.of_nat k) in *.
  assert (Hidx : idx + 1 <= s1) by (unfold idx; lia).
  assert (Hopen : slice src idx (idx + 1) = [40]).
  { destruct Hw0 as [Hr _]. rewrite Hr, nth_error_skipn in Hn.
    replace idx with (N.of_nat (N.to_nat (c_off c0) + k)) by (unfold idx; lia).
    apply nth_error_slice1. exact Hn. }
  assert (Hmid : firstn (N.to_nat (s1 - (idx + 1))) (skipn (k + 1)%nat (c_rest c0)) = slice src (idx + 1) s1).
  { rewrite <- (rest_slice src c0 (idx + 1) s1 Hw0) by (unfold idx; lia).
    do 2 f_equal. unfold idx. lia. }
  unfold stage_ok. split; [exact A|]. split; [lia|]. split; [lia|]. split.
  - cbn [child_nodes]. rewrite child_nodes_app. cbn [child_nodes]. apply app_nil_r.
  - intros X. rewrite Hmid, (rest_slice0 src c2 _ Hw), <- Hopen, <- Et.
    change [PT (slice src (c_off c2) ts); PT (slice src ts (c_off c3))]
      with ([PT (slice src (c_off c2) ts)] ++ [PT (slice src ts (c_off c3))]).
    rewrite app_assoc.
    apply cov_prepend; [|lia]. apply cov_prepend; [|exact Hidx].
    apply cov_append; [|exact C]. apply cov_append; [exact X|exact B].
Qed.

Lemma eat_spaces_ok src ev st st' :
  e_src ev = src -> wf_cur src (snd st) ->
  eat_spaces ev st = Ok st' ->
  stage_ok src st st' /\ fst (fst st') = 0 /\ c_off (snd st') = len src.
Proof.
  intros Hev Hw H. destruct st as [[s2 ch3] c3]. cbn [snd] in Hw. unfold eat_spaces in H.
  destruct (consume (c_rest c3) c3) as [[[ts te] c4]|] eqn:E; [|discriminate].
  injection H as <-. rewrite Hev.
  destruct (consume_ok _ _ _ _ _ _ Hw E) as [(A & B & C & D) Et]. subst te.
  assert (Hend : c_off c4 = len src /\ ts = c_off c3).
  { pose proof (f_equal (@length N) Et) as HL. destruct A as [_ A2].
    rewrite slice_length in HL by lia. rewrite (wf_rest_length _ _ Hw) in HL. lia. }
  destruct Hend as [Hend1 Hend2].
  cbn [fst snd]. split; [|split; [reflexivity|exact Hend1]].
  unfold stage_ok. split; [exact A|]. split; [lia|]. split; [lia|]. split.
  - cbn [child_nodes]. rewrite child_nodes_app. cbn [child_nodes]. apply app_nil_r.
  - intros X. rewrite (rest_is_slice src c3 Hw), <- Hend1.
    apply cov_prepend; [|lia]. apply cov_append; [exact X|lia].
Qed.

Lemma stage_ok_trans src a b c : stage_ok src a b -> stage_ok src b c -> stage_ok src a c.
Proof.
  destruct a as [[s0 ch0] c0], b as [[s1 ch1] c1], c as [[s2 ch2] c2]. unfold stage_ok.
  intros (A1 & A2 & A3 & A4 & A5) (B1 & B2 & B3 & B4 & B5).
  split; [exact B1|]. split; [lia|]. split; [lia|]. split; [congruence|]. intros X. apply B5, A5, X.
Qed.

Lemma stage_ok_refl src st : wf_cur src (snd st) -> stage_ok src st st.
Proof.
  destruct st as [[s0 ch0] c0]. cbn [snd]. intros Hw. unfold stage_ok.
  split; [exact Hw|]. split; [lia|]. split; [lia|]. split; [reflexivity|]. intros X; exact X.
Qed.

Lemma stage_ok_wf src st st' : stage_ok src st st' -> wf_cur src (snd st').
Proof. destruct st as [[s0 ch0] c0], st' as [[s1 ch1] c1]. intros (A & _). exact A. Qed.

Lemma finish_node_ok src ev cls fl c0 ps c1 p c' :
  e_src ev = src -> wf_cur src c0 -> wf_cur src c1 ->
  finish_node ev cls fl c0 ps c1 = Ok (p, c') ->
  exists st ch,
    p = PNode cls (c_off c0) st (c_off c') ch /\
    stage_ok src (start_of_pieces (c_off c0) ps, children_of_pieces ps, c1) (st, ch, c') /\
    (f_eat_spaces fl = true -> st = 0 /\ c_off c' = len src).
Proof.
  intros Hev Hw0 Hw1 H. unfold finish_node in H.
  destruct (handle_parens ev _ _) as [st1|] eqn:E1; [|discriminate].
  pose proof (handle_parens_ok src ev c0 _ (start_of_pieces (c_off c0) ps, children_of_pieces ps, c1) _ Hev Hw1 E1) as S1.
  pose proof (stage_ok_wf _ _ _ S1) as W1.
  destruct (if f_eat_parens fl then eat_surrounding_parens c0 st1 else Ok st1) as [st2|] eqn:E2; [|discriminate].
  assert (S2 : stage_ok src st1 st2).
  { destruct (f_eat_parens fl).
    - exact (eat_surrounding_parens_ok src c0 st1 st2 Hw0 W1 E2).
    - injection E2 as <-. apply stage_ok_refl. exact W1. }
  pose proof (stage_ok_wf _ _ _ S2) as W2.
  destruct (if f_eat_spaces fl then eat_spaces ev st2 else Ok st2) as [[[st ch] c]|] eqn:E3; [|discriminate].
  injection H as <- <-.
  exists st, ch. split; [reflexivity|].
  destruct (f_eat_spaces fl).
  - destruct (eat_spaces_ok src ev _ _ Hev W2 E3) as (S3 & Z1 & Z2). cbn [fst snd] in Z1, Z2.
    split; [|intros _; split; assumption].
    eapply stage_ok_trans; [exact S1|]. eapply stage_ok_trans; [exact S2|exact S3].
  - injection E3 as <-. split; [|discriminate].
    eapply stage_ok_trans; [exact S1|exact S2].
Qed.

(* ------------------------------------------------------------------ the whole walk *)
Section tnode_induction.
  Variable P : tnode -> Prop.
  Hypothesis H : forall cls fl items, (forall n, In (ISub n) items -> P n) -> P (TNode cls fl items).
  Lemma tnode_ind' : forall t, P t.
  Proof.
    fix IH 1. intros [cls fl items]. apply H.
    induction items as [|it items IHl]; intros n Hin; [destruct Hin|].
    destruct Hin as [E|Hin]; [|exact (IHl n Hin)].
    destruct it as [t|m|calls| | | |]; try discriminate E. injection E as <-. apply IH.
  Qed.
End tnode_induction.

Lemma Forall_flat_map {A B} (P : B -> Prop) (f : A -> list B) (l : list A) :
  Forall (fun a => Forall P (f a)) l -> Forall P (flat_map f l).
Proof.
  induction 1 as [|a l Ha Hl IH]; cbn [flat_map]; [constructor|]. apply Forall_app. split; assumption.
Qed.

Lemma patch_node_ok o src t :
  forall c p c', wf_cur src c -> patch_node (mk_env o src) t c = Ok (p, c') -> node_post src c p c'.
Proof.
  induction t as [cls fl items IH] using tnode_ind'. intros c p c' Hw H. cbn [patch_node] in H.
  destruct (patch_items (mk_env o src) (patch_node (mk_env o src)) (f_joined fl) items c) as [[ps c1]|] eqn:E1;
    [|discriminate].
  destruct (patch_items_ok src (mk_env o src) eq_refl (patch_node (mk_env o src)) (f_joined fl) items c ps c1)
    as (Hw1 & Hle1 & Hps); [|exact Hw|exact E1|].
  { intros n Hn. unfold rec_ok. apply IH. exact Hn. }
  destruct (finish_node_ok src (mk_env o src) cls fl c ps c1 p c' eq_refl Hw Hw1 H) as (st & ch & -> & S & _).
  destruct S as (Hw' & Hle2 & Hst & Hcn & Hcov).
  destruct (pieces_children _ _ _ _ Hps) as (P1 & P2 & P3 & P4 & P5).
  unfold node_post. cbn [p_entry p_re p_rs].
  split; [exact Hw'|]. split; [reflexivity|]. split; [reflexivity|]. split; [lia|]. split; [lia|].
  rewrite subnodes_unfold, Hcn. split.
  - constructor.
    + unfold cursor_ok. cbn [p_entry p_re p_ch]. rewrite Hcn.
      eapply entries_in_weaken; [exact P3|lia|exact Hle2].
    + apply Forall_flat_map. exact P4.
  - intros Hne. rewrite no_escape_unfold, Hcn in Hne. apply andb_true_iff in Hne. destruct Hne as [Hn1 Hn2].
    destruct (P5 Hn2) as (Q1 & Q2 & Q3). destruct (Hcov (conj Q1 Q2)) as [R1 R2].
    constructor.
    + unfold node_ok. cbn [p_rs p_re p_ch]. rewrite write_unfold.
      split; [exact R1|]. split; [destruct Hw' as [_ X]; exact X|exact R2].
    + apply Forall_flat_map. exact Q3.
Qed.

(* root-level facts *)
Lemma patch_ok o src t p :
  patch_opt o src t = Ok p ->
  p_entry p = 0 /\ Forall cursor_ok (subnodes p) /\
  (no_escape p = true -> Forall (node_ok src) (subnodes p)).
Proof.
  unfold patch_opt. intros H.
  destruct (patch_node (mk_env o src) t {| c_off := 0; c_rest := src |}) as [[q c']|] eqn:E; [|discriminate].
  injection H as <-.
  destruct (patch_node_ok o src t _ _ _ (wf_cur_init src) E) as (A & B & C & D & F & G & I).
  split; [exact B|]. split; [exact G|exact I].
Qed.

Lemma patch_root_region o src t p :
  patch_opt o src t = Ok p -> root_eats_spaces t = true -> p_rs p = 0 /\ p_re p = len src.
Proof.
  unfold patch_opt. intros H Hr.
  destruct (patch_node (mk_env o src) t {| c_off := 0; c_rest := src |}) as [[q c']|] eqn:E; [|discriminate].
  injection H as <-. destruct t as [cls fl items]. cbn [root_eats_spaces] in Hr. cbn [patch_node] in E.
  destruct (patch_items _ _ _ items _) as [[ps c1]|] eqn:E1; [|discriminate].
  destruct (patch_items_ok src (mk_env o src) eq_refl (patch_node (mk_env o src)) (f_joined fl) items
              {| c_off := 0; c_rest := src |} ps c1)
    as (Hw1 & _ & _); [|exact (wf_cur_init src)|exact E1|].
  { intros n _ c0 p0 c0' Hw Hp. eapply patch_node_ok; eassumption. }
  destruct (finish_node_ok src (mk_env o src) cls fl {| c_off := 0; c_rest := src |} ps c1 q c' eq_refl
              (wf_cur_init src) Hw1 E)
    as (st & ch & -> & _ & Z). destruct (Z Hr) as [-> Z2]. cbn [p_rs p_re]. split; [reflexivity|exact Z2].
Qed.

(* ------------------------------------------------------------------ statements used by Props/C08.v *)
Lemma children_cover o src t p :
  patch_opt o src t = Ok p -> no_escape p = true ->
  forall n, In n (subnodes p) -> write n = slice src (p_rs n) (p_re n).
Proof.
  intros H Hne n Hin. destruct (patch_ok _ _ _ _ H) as (_ & _ & G).
  pose proof (proj1 (Forall_forall _ _) (G Hne) n Hin) as (W & _). exact W.
Qed.

Lemma lossless o src t p :
  patch_opt o src t = Ok p -> no_escape p = true -> root_eats_spaces t = true -> write p = src.
Proof.
  intros H Hne Hr. destruct (patch_root_region _ _ _ _ H Hr) as [R1 R2].
  destruct (subnodes_head p) as [l El].
  rewrite (children_cover _ _ _ _ H Hne p) by (rewrite El; left; reflexivity).
  rewrite R1, R2. apply slice_full.
Qed.

Lemma ordered_in_nested lo hi l q : ordered_in lo hi l -> In q l -> lo <= p_rs q /\ p_re q <= hi.
Proof.
  revert lo; induction l as [|x l IH]; intros lo H Hin; [destruct Hin|].
  cbn [ordered_in] in H. destruct H as (A & B & C). destruct Hin as [->|Hin].
  - split; [exact A|]. apply ordered_in_le in C. exact C.
  - destruct (IH _ C Hin) as [X Y]. split; [lia|exact Y].
Qed.

Lemma ordered_in_from lo hi l : ordered_in lo hi l -> ordered_from lo l.
Proof.
  revert lo; induction l as [|x l IH]; intros lo H; cbn [ordered_in ordered_from] in *; [exact I|].
  destruct H as (A & B & C). split; [exact A|]. split; [exact B|]. apply IH. exact C.
Qed.

Lemma nested o src t p :
  patch_opt o src t = Ok p -> no_escape p = true ->
  forall n q, In n (subnodes p) -> In q (child_nodes (p_ch n)) ->
              p_rs n <= p_rs q /\ p_re q <= p_re n /\ p_re n <= len src.
Proof.
  intros H Hne n q Hin Hq. destruct (patch_ok _ _ _ _ H) as (_ & _ & G).
  pose proof (proj1 (Forall_forall _ _) (G Hne) n Hin) as (_ & L & O).
  destruct (ordered_in_nested _ _ _ _ O Hq) as [X Y]. split; [exact X|]. split; [exact Y|exact L].
Qed.

Lemma ordered o src t p :
  patch_opt o src t = Ok p -> no_escape p = true ->
  forall n, In n (subnodes p) -> ordered_from (p_rs n) (child_nodes (p_ch n)).
Proof.
  intros H Hne n Hin. destruct (patch_ok _ _ _ _ H) as (_ & _ & G).
  pose proof (proj1 (Forall_forall _ _) (G Hne) n Hin) as (_ & _ & O).
  eapply ordered_in_from; exact O.
Qed.

(* the cursor never moves backwards: holds for every successful run, escape or not *)
Lemma cursor_monotone o src t p :
  patch_opt o src t = Ok p ->
  forall n, In n (subnodes p) -> entries_in (p_entry n) (p_re n) (child_nodes (p_ch n)).
Proof.
  intros H n Hin. destruct (patch_ok _ _ _ _ H) as (_ & G & _).
  exact (proj1 (Forall_forall _ _) G n Hin).
Qed.

(* ------------------------------------------------------------------ the repaired _handle_parens never escapes *)
Lemma child_nodes_tailch_forall (P : pnode -> Prop) (ps : list piece) :
  Forall (fun pc : piece => match snd pc with PN p => P p | PT _ => True end) ps ->
  Forall P (child_nodes (tailch ps)).
Proof.
  induction 1 as [|[[fmt ts] pc] ps Hp Hps IH]; cbn [tailch flat_map app fst snd child_nodes]; [constructor|].
  fold (tailch ps). destruct pc as [t|p]; cbn [child_nodes]; [exact IH|constructor; assumption].
Qed.

Lemma child_nodes_pieces_forall (P : pnode -> Prop) (ps : list piece) :
  Forall (fun pc : piece => match snd pc with PN p => P p | PT _ => True end) ps ->
  Forall P (child_nodes (children_of_pieces ps)).
Proof.
  intros H. destruct ps as [|[[fmt ts] pc] ps]; cbn [children_of_pieces child_nodes]; [constructor|].
  inversion H as [|x l Hp Hps]; subst. fold (tailch ps). cbn [snd] in Hp.
  pose proof (child_nodes_tailch_forall P ps Hps) as Ht.
  destruct pc as [t|p]; cbn [child_nodes]; [exact Ht|constructor; assumption].
Qed.

Section Fixed.
  Variable src : text.
  Variable o : options.
  Hypothesis Hfix : o_opens_from_entry o = true.

  Definition esc_ok (n : tnode) : Prop :=
    forall c p c', wf_cur src c -> patch_node (mk_env o src) n c = Ok (p, c') ->
                   no_spaces n = true -> c_off c <= p_rs p /\ no_escape p = true.

  Lemma patch_items_esc joined items c ps c2 :
    (forall n, In (ISub n) items -> esc_ok n /\ no_spaces n = true) ->
    wf_cur src c ->
    patch_items (mk_env o src) (patch_node (mk_env o src)) joined items c = Ok (ps, c2) ->
    c_off c <= start_of_pieces (c_off c) ps /\
    Forall (fun pc : piece => match snd pc with PN p => no_escape p = true | PT _ => True end) ps.
  Proof.
    revert c ps c2; induction items as [|it items IH]; intros c ps c2 Hrec Hw H; cbn [patch_items] in H.
    - injection H as <- <-. cbn [start_of_pieces]. split; [lia|constructor].
    - destruct (patch_item (mk_env o src) (patch_node (mk_env o src)) joined it c) as [[[ts pc] c1]|] eqn:E1;
        [|discriminate].
      destruct (patch_items (mk_env o src) (patch_node (mk_env o src)) joined items c1) as [[ps' c2']|] eqn:E2;
        [|discriminate].
      injection H as <- <-.
      destruct (patch_item_ok src (mk_env o src) eq_refl (patch_node (mk_env o src)) joined it c ts pc c1)
        as (A & B & C & D); [|exact Hw|exact E1|].
      { intros n _ c0 p0 c0' Hw0 Hp0. eapply patch_node_ok; eassumption. }
      destruct (IH c1 ps' c2') as (_ & F); [|exact A|exact E2|].
      { intros n Hn. apply Hrec. right. exact Hn. }
      cbn [start_of_pieces].
      destruct it as [t|n|calls| | | |]; cbn [patch_item] in E1;
        try (destruct pc as [t'|p']; [destruct D as [D1 _]; split; [exact D1|constructor; [exact I|exact F]]|
             (* a token item never yields a node *)
             repeat match type of E1 with
                    | match ?x with _ => _ end = _ => destruct x as [[[? ?] ?]|]; try discriminate
                    end; discriminate]).
      + destruct (patch_node (mk_env o src) n c) as [[p c1']|] eqn:E; [|discriminate]. injection E1 as <- <- <-.
        destruct (Hrec n (or_introl eq_refl)) as [He Hn]. destruct (He c p c1' Hw E Hn) as [X Y].
        split; [exact X|constructor; [exact Y|exact F]].
  Qed.

  Lemma finish_node_start_ge cls fl c0 ps c1 p c' :
    f_eat_spaces fl = false ->
    finish_node (mk_env o src) cls fl c0 ps c1 = Ok (p, c') ->
    c_off c0 <= start_of_pieces (c_off c0) ps -> c_off c0 <= p_rs p.
  Proof.
    intros Hsp H Hge. unfold finish_node in H. rewrite Hsp in H.
    destruct (handle_parens _ _ _ _) as [[[s1 ch1] c2]|] eqn:E1; [|discriminate].
    assert (G1 : c_off c0 <= s1).
    { unfold handle_parens in E1. destruct (count_needed_parens _) as [opens closes].
      destruct (consume_closes closes c1) as [c2'|]; [|discriminate].
      cbn [e_opt mk_env] in E1. rewrite Hfix in E1. injection E1 as <- _ _.
      apply find_opens_entry_ge. exact Hge. }
    destruct (f_eat_parens fl).
    - destruct (eat_surrounding_parens c0 (s1, ch1, c2)) as [[[s2 ch2] c3]|] eqn:E2; [|discriminate].
      injection H as <- <-. cbn [p_rs]. unfold eat_surrounding_parens in E2.
      destruct (rfind_open _ _ _ _ _) as [k|]; [|injection E2 as <- _ _; exact G1].
      destruct (consume [41] c2) as [[[ts te] c4]|]; [|discriminate]. injection E2 as <- _ _. lia.
    - injection H as <- <-. exact G1.
  Qed.

  Lemma patch_node_esc t : esc_ok t.
  Proof.
    induction t as [cls fl items IH] using tnode_ind'. intros c p c' Hw H Hns.
    cbn [no_spaces] in Hns. apply andb_true_iff in Hns. destruct Hns as [Hsp Hsub].
    apply negb_true_iff in Hsp.
    assert (Hitems : forall n, In (ISub n) items -> esc_ok n /\ no_spaces n = true).
    { intros n Hn. split; [apply IH; exact Hn|].
      clear - Hsub Hn. induction items as [|it items IHl]; [destruct Hn|].
      destruct it as [t|m|calls| | | |]; cbn in Hsub; destruct Hn as [E|Hn]; try discriminate E;
        try (apply IHl; assumption).
      - injection E as ->. apply andb_true_iff in Hsub. apply Hsub.
      - apply andb_true_iff in Hsub. apply IHl; [apply Hsub|exact Hn]. }
    cbn [patch_node] in H.
    destruct (patch_items (mk_env o src) (patch_node (mk_env o src)) (f_joined fl) items c) as [[ps c1]|] eqn:E1;
      [|discriminate].
    destruct (patch_items_esc _ _ _ _ _ Hitems Hw E1) as [G1 G2].
    destruct (patch_items_ok src (mk_env o src) eq_refl (patch_node (mk_env o src)) (f_joined fl) items c ps c1)
      as (Hw1 & _ & _); [|exact Hw|exact E1|].
    { intros n _ c0 p0 c0' Hw0 Hp0. eapply patch_node_ok; eassumption. }
    pose proof (finish_node_start_ge _ _ _ _ _ _ _ Hsp H G1) as G3.
    destruct (finish_node_ok src (mk_env o src) cls fl c ps c1 p c' eq_refl Hw Hw1 H) as (st & ch & -> & S & _).
    destruct S as (_ & _ & _ & Hcn & _). cbn [p_rs] in *.
    split; [exact G3|]. rewrite no_escape_unfold, Hcn. apply andb_true_iff. split; [apply N.leb_le; exact G3|].
    apply forallb_forall. intros q Hq.
    exact (proj1 (Forall_forall _ _) (child_nodes_pieces_forall _ _ G2) q Hq).
  Qed.

  (* at the root the cursor is 0, so a Module that pads to the whole text does not escape either *)
  Lemma patch_opt_no_escape t p :
    patch_opt o src t = Ok p -> spaces_only_at_root t = true -> no_escape p = true.
  Proof.
    unfold patch_opt. intros H Hr.
    destruct (patch_node (mk_env o src) t {| c_off := 0; c_rest := src |}) as [[q c']|] eqn:E; [|discriminate].
    injection H as <-. destruct t as [cls fl items]. cbn [spaces_only_at_root] in Hr. cbn [patch_node] in E.
    assert (Hitems : forall n, In (ISub n) items -> esc_ok n /\ no_spaces n = true).
    { intros n Hn. split; [apply patch_node_esc|].
      clear - Hr Hn. induction items as [|it items IHl]; [destruct Hn|].
      destruct it as [t|m|calls| | | |]; cbn in Hr; destruct Hn as [E|Hn]; try discriminate E;
        try (apply IHl; assumption).
      - injection E as ->. apply andb_true_iff in Hr. apply Hr.
      - apply andb_true_iff in Hr. apply IHl; [apply Hr|exact Hn]. }
    destruct (patch_items _ _ _ items _) as [[ps c1]|] eqn:E1; [|discriminate].
    destruct (patch_items_esc _ _ _ _ _ Hitems (wf_cur_init src) E1) as [_ G2].
    destruct (patch_items_ok src (mk_env o src) eq_refl (patch_node (mk_env o src)) (f_joined fl) items
                {| c_off := 0; c_rest := src |} ps c1) as (Hw1 & _ & _); [|exact (wf_cur_init src)|exact E1|].
    { intros n _ c0 p0 c0' Hw0 Hp0. eapply patch_node_ok; eassumption. }
    destruct (finish_node_ok src (mk_env o src) cls fl {| c_off := 0; c_rest := src |} ps c1 q c' eq_refl
                (wf_cur_init src) Hw1 E) as (st & ch & -> & S & _).
    destruct S as (_ & _ & _ & Hcn & _). cbn [c_off].
    rewrite no_escape_unfold, Hcn. apply andb_true_iff. split; [apply N.leb_le; lia|].
    apply forallb_forall. intros q Hq.
    exact (proj1 (Forall_forall _ _) (child_nodes_pieces_forall _ _ G2) q Hq).
  Qed.
End Fixed.

Lemma lossless_repaired o src t p :
  o_opens_from_entry o = true ->
  patch_opt o src t = Ok p -> spaces_only_at_root t = true -> root_eats_spaces t = true -> write p = src.
Proof.
  intros Hfix H Hr He. eapply lossless; [exact H| |exact He].
  eapply patch_opt_no_escape; eassumption.
Qed.

(* ------------------------------------------------------------------ the code as it is now ([patch]) *)
Lemma cur_no_escape src t p : patch src t = Ok p -> spaces_only_at_root t = true -> no_escape p = true.
Proof. exact (patch_opt_no_escape src options_current eq_refl t p). Qed.

Lemma cur_children_cover src t p :
  patch src t = Ok p -> spaces_only_at_root t = true ->
  forall n, In n (subnodes p) -> write n = slice src (p_rs n) (p_re n).
Proof. intros H Hr. exact (children_cover _ _ _ _ H (cur_no_escape _ _ _ H Hr)). Qed.

Lemma cur_lossless src t p :
  patch src t = Ok p -> spaces_only_at_root t = true -> root_eats_spaces t = true -> write p = src.
Proof. intros H Hr. exact (lossless _ _ _ _ H (cur_no_escape _ _ _ H Hr)). Qed.

Lemma cur_nested src t p :
  patch src t = Ok p -> spaces_only_at_root t = true ->
  forall n q, In n (subnodes p) -> In q (child_nodes (p_ch n)) ->
              p_rs n <= p_rs q /\ p_re q <= p_re n /\ p_re n <= len src.
Proof. intros H Hr. exact (nested _ _ _ _ H (cur_no_escape _ _ _ H Hr)). Qed.

Lemma cur_ordered src t p :
  patch src t = Ok p -> spaces_only_at_root t = true ->
  forall n, In n (subnodes p) -> ordered_from (p_rs n) (child_nodes (p_ch n)).
Proof. intros H Hr. exact (ordered _ _ _ _ H (cur_no_escape _ _ _ H Hr)). Qed.

Lemma cur_cursor_monotone src t p :
  patch src t = Ok p ->
  forall n, In n (subnodes p) -> entries_in (p_entry n) (p_re n) (child_nodes (p_ch n)).
Proof. exact (cursor_monotone options_current src t p). Qed.
