(* C08 — correspondence runner.  A case holds the source text, the template tree captured from the running
   walker (with the recorded results of the string/number regular expressions) and what rope produced:
   the annotated tree (class, cursor at entry, region, sorted_children of every node) or the kind of
   exception.  The model is evaluated here by vm_compute and compared with rope's result. *)
From Coq Require Import List NArith Bool String Ascii.
From RopeVerif.Lib Require Import Text.
From RopeVerif.C08 Require Import Template Fragment.
Import ListNotations.
Local Open Scope N_scope.

(* case files write ASCII text as Coq string literals *)
Fixpoint T (s : string) : text :=
  match s with
  | EmptyString => []
  | String a r => N_of_ascii a :: T r
  end.

(* short forms used by the generated case files *)
Definition F (a b c d : bool) : flags :=
  {| f_eat_parens := a; f_eat_spaces := b; f_joined := c; f_nofmt := d |}.
Definition K (s : string) : item := ITok (T s).
Definition P (s : string) : pchild := PT (T s).

Fixpoint pnode_eqb (a b : pnode) {struct a} : bool :=
  match a, b with
  | PNode c1 e1 s1 r1 ch1, PNode c2 e2 s2 r2 ch2 =>
      N.eqb c1 c2 && N.eqb e1 e2 && N.eqb s1 s2 && N.eqb r1 r2 &&
      (fix go (l m : list pchild) {struct l} : bool :=
         match l, m with
         | [], [] => true
         | PT t :: l', PT u :: m' => text_eqb t u && go l' m'
         | PN p :: l', PN q :: m' => pnode_eqb p q && go l' m'
         | _, _ => false
         end) ch1 ch2
  end.

Record case := {
  k_opt : options;           (* version of the two repaired places the model is run with (options_current) *)
  k_src : text;
  k_tree : tnode;
  k_rope : result pnode;     (* rope: annotated tree, or Err code of the exception it raised *)
  k_ast : option ast         (* CPython's ast, when every node belongs to the transcribed template table *)
}.

(* boolean forms of the conclusions of the theorems, evaluated on every case whose hypotheses hold:
   while the theorems are in force they cannot fail (sanity channel, code 5) *)
Definition region_ok (src : text) (p : pnode) : bool :=
  N.leb (p_rs p) (p_re p) && N.leb (p_re p) (N.of_nat (List.length src))
  && text_eqb (write p) (slice src (p_rs p) (p_re p)).

Fixpoint nested_ok (p : pnode) : bool :=
  match p with
  | PNode _ _ rs re ch =>
      (fix go (lo : N) (l : list pchild) : bool :=
         match l with
         | [] => true
         | PT _ :: r => go lo r
         | PN q :: r => N.leb lo (p_rs q) && N.leb (p_re q) re && nested_ok q && go (p_re q) r
         end) rs ch
  end.

(* hypotheses of the headline theorems: the walk succeeds, only the root pads to the whole text, the root does *)
Definition in_domain (o : options) (src : text) (t : tnode) : bool :=
  match patch_opt o src t with
  | Ok p => o_opens_from_entry o && spaces_only_at_root t && root_eats_spaces t
  | Err _ => false
  end.

Definition theorems_ok (src : text) (p : pnode) : bool :=
  (if N.leb (N.of_nat (List.length src)) 3000 then forallb (region_ok src) (subnodes p) else true)
  && nested_ok p && text_eqb (write p) src.

(* the captured template tree is the transcribed table applied to CPython's ast *)
Definition template_ok (c : case) : bool :=
  match k_ast c with
  | None => true
  | Some a => tshape_eqb (template_of a) (k_tree c)
  end.

(* 7 the template tree the walker built differs from [template_of] of the ast (table core only) *)
(* 0 agree; 1 both succeed, trees differ; 2 model fails, rope succeeds; 3 model succeeds, rope raises;
   4 both fail with different kinds; 5 a proved conclusion is false on this case (cannot happen);
   6 the model stopped at E_rfind: rfind_token returned None inside _handle_parens and the code goes on with
     start = None, a continuation that is not modelled (the harness requires an oracle failure on such a case) *)
Definition run_case (c : case) : N :=
  if negb (template_ok c) then 7 else
  match patch_opt (k_opt c) (k_src c) (k_tree c), k_rope c with
  | Ok p, Ok q =>
      if negb (pnode_eqb p q) then 1
      else if in_domain (k_opt c) (k_src c) (k_tree c)
              && negb (no_escape p && theorems_ok (k_src c) p) then 5
      else if no_escape p && negb (theorems_ok (k_src c) p) then 5
      else 0
  | Err a, Ok _ => if N.eqb a E_rfind then 6 else 2
  | Ok _, Err _ => 3
  | Err a, Err b => if N.eqb a b || N.eqb a E_dispatch then 0 else if N.eqb a E_rfind then 6 else 4
  end.

Fixpoint mismatches_from (i : N) (cs : list case) : list (N * N) :=
  match cs with
  | [] => []
  | c :: r =>
      let code := run_case c in
      if N.eqb code 0 then mismatches_from (N.succ i) r else (i, code) :: mismatches_from (N.succ i) r
  end.
Definition mismatches (cs : list case) : list (N * N) := mismatches_from 0 cs.

(* how many cases lie in the domain of C08_children_cover / C08_lossless (patch succeeds, no escape) *)
Definition count_domain (cs : list case) : N :=
  N.of_nat (List.length (filter (fun c => in_domain (k_opt c) (k_src c) (k_tree c)) cs)).

(* for diagnosis: the model's result *)
Definition count_table (cs : list case) : N :=
  N.of_nat (List.length (filter (fun c => match k_ast c with Some _ => true | None => false end) cs)).

Definition model_of (c : case) : result pnode := patch_opt (k_opt c) (k_src c) (k_tree c).
Definition O0 : options := options_original.
Definition OC : options := options_current.
Definition OO (a b : bool) : options := {| o_opens_from_entry := a; o_tuple_comments := b |}.
