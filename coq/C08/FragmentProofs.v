(* C08 — proofs for Fragment.v: the comment-aware token search finds a token exactly where it is when only
   layout lies between the cursor and it (_good_token correctness), and the exact-region theorem for the
   expression core. *)
From Coq Require Import List NArith Bool Lia Arith.
From RopeVerif.Lib Require Import Text.
From RopeVerif.C08 Require Import Template TemplateProofs Fragment.
Import ListNotations.
Local Open Scope N_scope.

(* ------------------------------------------------------------------ the comment state *)
(* [st R k]: is position k of R inside a comment, scanning from the beginning of R (outside a comment)? *)
Definition st (R : text) (k : nat) : bool := in_comment k R false.

Definition step (c : N) (flag : bool) : bool :=
  if N.eqb c 10 then false else if N.eqb c 35 then true else flag.

Lemma in_comment_add a b s f :
  in_comment (a + b) s f = in_comment b (skipn a s) (in_comment a s f).
Proof.
  revert s f; induction a as [|a IH]; intros s f; cbn [Nat.add in_comment skipn]; [reflexivity|].
  destruct s as [|c s]; cbn [skipn].
  - destruct b; reflexivity.
  - apply IH.
Qed.

Lemma st_S R k c : nth_error R k = Some c -> st R (S k) = step c (st R k).
Proof.
  intros H. unfold st. replace (S k) with (k + 1)%nat by lia. rewrite in_comment_add.
  assert (E : exists r, skipn k R = c :: r).
  { revert R H; induction k as [|k IH]; intros R H; destruct R as [|d R]; cbn in H; try discriminate.
    - injection H as ->. eexists; reflexivity.
    - cbn [skipn]. apply IH. exact H. }
  destruct E as [r ->]. reflexivity.
Qed.

(* from a position whose state is "outside", or which holds a newline, a fresh scan agrees with the real state *)
Lemma resync R a k :
  (st R a = false \/ nth_error R a = Some 10) -> (0 < k)%nat ->
  in_comment k (skipn a R) false = st R (a + k).
Proof.
  intros [H|H] Hk; unfold st in *; rewrite in_comment_add.
  - rewrite H. reflexivity.
  - assert (E : exists r, skipn a R = 10 :: r).
    { revert R H; induction a as [|a IH]; intros R H; destruct R as [|d R]; cbn in H; try discriminate.
      - injection H as ->. eexists; reflexivity.
      - cbn [skipn]. apply IH. exact H. }
    destruct E as [r ->]. destruct k as [|k]; [lia|]. cbn [in_comment N.eqb Pos.eqb]. reflexivity.
Qed.

(* inside a comment, without a newline the state stays "inside" *)
Lemma no_newline_stays R k P :
  (k <= P)%nat -> (P <= length R)%nat -> st R k = true ->
  (forall i, (k <= i)%nat -> (i < P)%nat -> nth_error R i <> Some 10) -> st R P = true.
Proof.
  intros Hle HP Hk Hno. induction P as [|P IH]; [replace k with 0%nat in Hk by lia; exact Hk|].
  destruct (Nat.eq_dec k (S P)) as [->|Hne]; [exact Hk|].
  assert (HkP : (k <= P)%nat) by lia.
  destruct (nth_error R P) as [c|] eqn:E; [|apply nth_error_None in E; lia].
  rewrite (st_S _ _ _ E). rewrite IH; [|lia|lia|intros i H1 H2; apply Hno; lia].
  unfold step. destruct (c =? 10) eqn:E10; [apply N.eqb_eq in E10; subst c; exfalso; apply (Hno P); [lia|lia|exact E]|].
  destruct (c =? 35); reflexivity.
Qed.

(* ------------------------------------------------------------------ first occurrences *)
Lemma find_from_least tok s j k0 :
  starts_with tok (skipn j s) = true -> (j <= length s)%nat ->
  exists k, find_from tok s k0 = Some (k0 + k)%nat /\ (k <= j)%nat /\ starts_with tok (skipn k s) = true.
Proof.
  revert j k0; induction s as [|d s IH]; intros j k0 H Hj.
  - cbn [length] in Hj. replace j with 0%nat in H by lia. cbn [skipn] in H. cbn [find_from]. rewrite H.
    exists 0%nat. split; [f_equal; lia|]. split; [lia|exact H].
  - cbn [find_from]. destruct (starts_with tok (d :: s)) eqn:E.
    + exists 0%nat. split; [f_equal; lia|]. split; [lia|exact E].
    + destruct j as [|j]; [cbn [skipn] in H; congruence|]. cbn [skipn length] in H, Hj.
      destruct (IH j (S k0) H ltac:(lia)) as (k & A & B & C).
      exists (S k). split; [rewrite A; f_equal; lia|]. split; [lia|exact C].
Qed.

Lemma find_rel_least tok s j :
  starts_with tok (skipn j s) = true -> (j <= length s)%nat ->
  exists k, find_rel tok s = Some k /\ (k <= j)%nat /\ starts_with tok (skipn k s) = true.
Proof. intros H Hj. destruct (find_from_least tok s j 0 H Hj) as (k & A & B & C). exists k. auto. Qed.

Lemma find_rel_here tok s : starts_with tok s = true -> find_rel tok s = Some 0%nat.
Proof. intros H. unfold find_rel. destruct s; cbn [find_from]; rewrite H; reflexivity. Qed.

Lemma starts_with_hd t0 tok s : starts_with (t0 :: tok) s = true -> nth_error s 0 = Some t0.
Proof.
  destruct s as [|d s]; cbn; [discriminate|]. intros H. apply andb_true_iff in H. destruct H as [H _].
  apply N.eqb_eq in H. subst. reflexivity.
Qed.

Lemma starts_with_app tok X : starts_with tok (tok ++ X) = true.
Proof. induction tok as [|c tok IH]; cbn; [reflexivity|]. rewrite N.eqb_refl. exact IH. Qed.

Lemma starts_with_length tok s : starts_with tok s = true -> (length tok <= length s)%nat.
Proof. intros H. apply starts_with_firstn in H. apply H. Qed.

(* ------------------------------------------------------------------ the key lemma: _good_token is right *)
Definition mkcur (off : N) (rest : text) : cursor := {| c_off := off; c_rest := rest |}.

Lemma nth_error_skipn0 {A} (l : list A) i : nth_error l i = nth_error (skipn i l) 0.
Proof. rewrite nth_error_skipn. f_equal. lia. Qed.

Lemma advance_mkcur off r k : advance (mkcur off r) k = mkcur (off + N.of_nat k) (skipn k r).
Proof. reflexivity. Qed.

Lemma ok3 {A B C} (a a' : A) (b b' : B) (c c' : C) :
  a = a' -> b = b' -> c = c' -> @Ok (A * B * C) (a, b, c) = Ok (a', b', c').
Proof. intros -> -> ->. reflexivity. Qed.

Lemma mkcur_eq o o' r r' : o = o' -> r = r' -> mkcur o r = mkcur o' r'.
Proof. intros -> ->. reflexivity. Qed.

(* Let P be a position of R where tok occurs outside a comment, every earlier occurrence being inside a comment.
   Then consume, started anywhere at or before P at a point that is outside a comment or at a newline, returns P. *)
Lemma consume_loop_at R t0 tok' P off0 :
  let tok := t0 :: tok' in
  t0 <> 10 ->
  starts_with tok (skipn P R) = true -> (P <= length R)%nat -> st R P = false ->
  (forall k, (k < P)%nat -> starts_with tok (skipn k R) = true -> st R k = true) ->
  forall m fuel a,
    (P - a <= m)%nat -> (a <= P)%nat ->
    (st R a = false \/ nth_error R a = Some 10) ->
    (length fuel > length R - a)%nat ->
    consume_loop fuel tok (mkcur (off0 + N.of_nat a) (skipn a R))
    = Ok (off0 + N.of_nat P, off0 + N.of_nat P + N.of_nat (length tok),
          mkcur (off0 + N.of_nat P + N.of_nat (length tok)) (skipn (P + length tok) R)).
Proof.
  intros tok Ht0 Hocc HP HstP Hearlier.
  induction m as [|m IH]; intros fuel a Hm Ha Hinv Hfuel.
  - (* a = P *)
    assert (a = P) by lia. subst a.
    destruct fuel as [|x fuel]; [cbn [length] in Hfuel; lia|]. cbn [consume_loop mkcur c_rest c_off].
    rewrite (find_rel_here _ _ Hocc). cbn [in_comment negb]. rewrite advance_mkcur. cbn [c_off mkcur Nat.add].
    apply ok3; [lia|lia|]. apply mkcur_eq; [lia|]. rewrite <- skipn_add. reflexivity.
  - destruct fuel as [|x fuel]; [cbn [length] in Hfuel; lia|]. cbn [consume_loop mkcur c_rest c_off].
    assert (Hocc' : starts_with tok (skipn (P - a) (skipn a R)) = true).
    { rewrite <- skipn_add. replace (a + (P - a))%nat with P by lia. exact Hocc. }
    destruct (find_rel_least tok (skipn a R) (P - a) Hocc') as (k' & Ef & Hk' & Hs).
    { rewrite skipn_length. lia. }
    rewrite Ef. rewrite <- skipn_add in Hs.
    assert (Hflag : in_comment k' (skipn a R) false = st R (a + k')).
    { destruct k' as [|k'].
      - cbn [in_comment]. rewrite Nat.add_0_r. destruct Hinv as [H|H]; [symmetry; exact H|].
        rewrite Nat.add_0_r in Hs. pose proof (starts_with_hd _ _ _ Hs) as Hh.
        assert (nth_error (skipn a R) 0 = nth_error R a) by (rewrite nth_error_skipn; f_equal; lia).
        congruence.
      - apply resync; [exact Hinv|lia]. }
    rewrite Hflag.
    destruct (st R (a + k')) eqn:Est; cbn [negb].
    + (* the occurrence is inside a comment: skip to the next newline *)
      assert (Hlt : (a + k' < P)%nat).
      { destruct (Nat.eq_dec (a + k') P) as [E|E]; [rewrite E in Est; congruence|lia]. }
      assert (Hk0 : (0 < k')%nat).
      { destruct k'; [|lia]. rewrite Nat.add_0_r in Est.
        destruct Hinv as [H|H]; [congruence|].
        rewrite Nat.add_0_r in Hs. pose proof (starts_with_hd _ _ _ Hs) as Hh.
        assert (nth_error (skipn a R) 0 = nth_error R a) by (rewrite nth_error_skipn; f_equal; lia).
        congruence. }
      unfold skip_comment. cbn [mkcur c_rest].
      destruct (skipn a R) as [|y r1] eqn:Er.
      { exfalso. assert (length (skipn a R) = 0%nat) by (rewrite Er; reflexivity). rewrite skipn_length in H. lia. }
      assert (Er1 : r1 = skipn (S a) R).
      { replace (S a) with (a + 1)%nat by lia. rewrite skipn_add, Er. reflexivity. }
      destruct (find_rel [10] r1) as [j|] eqn:Ej.
      * (* the newline lies before P, otherwise P would be inside the comment *)
        destruct (find_rel_spec _ _ _ Ej) as [Hjl Hjt]. cbn [length] in Hjl, Hjt.
        assert (Hnl : nth_error R (S a + j) = Some 10).
        { rewrite Er1 in Hjt. rewrite <- skipn_add in Hjt.
          rewrite nth_error_skipn0.
          destruct (skipn (S a + j) R) as [|z zs]; cbn in Hjt; [discriminate|]. injection Hjt as ->. reflexivity. }
        assert (HjP : (S a + j < P)%nat).
        { destruct (le_lt_dec P (S a + j)) as [Hge|]; [|assumption]. exfalso.
          assert (st R P = true); [|congruence].
          apply (no_newline_stays R (a + k') P); [lia|exact HP|exact Est|].
          intros i Hi1 Hi2 Hi.
          (* a newline at i >= a+1 before the first one found: impossible *)
          assert (Hsw : starts_with [10] (skipn (i - S a) r1) = true).
          { rewrite Er1, <- skipn_add. replace (S a + (i - S a))%nat with i by lia.
            rewrite nth_error_skipn0 in Hi.
            destruct (skipn i R) as [|z zs]; cbn in Hi; [discriminate|]. injection Hi as ->. reflexivity. }
          destruct (find_rel_least [10] r1 (i - S a) Hsw) as (j' & Ej' & Hj' & _).
          { rewrite Er1, skipn_length. lia. }
          rewrite Ej in Ej'. injection Ej' as <-. lia. }
        unfold advance. cbn [c_off c_rest mkcur].
        replace (off0 + N.of_nat a + N.of_nat (S j)) with (off0 + N.of_nat (S a + j)) by lia.
        replace (skipn (S j) (y :: r1)) with (skipn (S a + j) R).
        2:{ cbn [skipn]. rewrite Er1, <- skipn_add. reflexivity. }
        apply IH; [lia|lia|right; exact Hnl|].
        cbn [length] in Hfuel. lia.
      * exfalso. assert (st R P = true); [|congruence].
        apply (no_newline_stays R (a + k') P); [lia|exact HP|exact Est|].
        intros i Hi1 Hi2 Hi.
        assert (Hsw : starts_with [10] (skipn (i - S a) r1) = true).
        { rewrite Er1, <- skipn_add. replace (S a + (i - S a))%nat with i by lia.
          rewrite nth_error_skipn0 in Hi.
          destruct (skipn i R) as [|z zs]; cbn in Hi; [discriminate|]. injection Hi as ->. reflexivity. }
        destruct (find_rel_least [10] r1 (i - S a) Hsw) as (j' & Ej' & _).
        { rewrite Er1, skipn_length. lia. }
        congruence.
    + (* outside a comment: it is the occurrence at P *)
      assert (a + k' = P)%nat.
      { destruct (Nat.eq_dec (a + k') P) as [E|E]; [exact E|]. exfalso.
        assert (st R (a + k') = true); [apply Hearlier; [lia|exact Hs]|congruence]. }
      rewrite advance_mkcur. cbn [c_off mkcur].
      apply ok3; [lia|lia|]. apply mkcur_eq; [lia|]. rewrite <- skipn_add. f_equal. lia.
Qed.

(* ------------------------------------------------------------------ layout *)
Lemma skipn_app_len {A} (a b : list A) : skipn (length a) (a ++ b) = b.
Proof. induction a; cbn; auto. Qed.

Lemma firstn_app_len {A} (a b : list A) : firstn (length a) (a ++ b) = a.
Proof. induction a; cbn; [reflexivity|f_equal; assumption]. Qed.

Lemma nth_error_app_lt {A} (a b : list A) k : (k < length a)%nat -> nth_error (a ++ b) k = nth_error a k.
Proof. intros H. apply nth_error_app1. exact H. Qed.

Lemma no_nl_forallb body c : forallb (fun c => negb (c =? 10)) body = true -> In c body -> c <> 10.
Proof.
  intros H Hin E. subst c. rewrite forallb_forall in H. specialize (H 10 Hin). cbn in H. discriminate.
Qed.

(* inside a comment body (no newline) the state stays "inside" *)
Lemma in_comment_body body Y k :
  forallb (fun c => negb (c =? 10)) body = true -> (k <= length body)%nat ->
  in_comment k (body ++ Y) true = true.
Proof.
  revert k; induction body as [|c body IH]; intros k H Hk.
  - cbn [length] in Hk. replace k with 0%nat by lia. reflexivity.
  - destruct k as [|k]; [reflexivity|]. cbn [app in_comment]. cbn [forallb] in H.
    apply andb_true_iff in H. destruct H as [H1 H2]. apply negb_true_iff in H1. rewrite H1.
    destruct (c =? 35); apply IH; try assumption; cbn [length] in Hk; lia.
Qed.

Lemma trivium_end t Y :
  trivium_ok t = true -> in_comment (length (render_trivium t)) (render_trivium t ++ Y) false = false.
Proof.
  destruct t as [c|body]; cbn [trivium_ok render_trivium]; intros H.
  - cbn [length app in_comment]. unfold is_blank in H.
    destruct (c =? 10); [reflexivity|]. destruct (c =? 35) eqn:E; [|reflexivity].
    apply N.eqb_eq in E. subst c. cbn in H. discriminate.
  - cbn [length app in_comment N.eqb Pos.eqb]. rewrite app_length. cbn [length].
    rewrite <- app_assoc. rewrite in_comment_add, skipn_app_len, in_comment_body; [|exact H|lia].
    reflexivity.
Qed.

Lemma trivium_inside t Y k ch :
  trivium_ok t = true -> (k < length (render_trivium t))%nat ->
  nth_error (render_trivium t ++ Y) k = Some ch -> visible ch = true ->
  in_comment k (render_trivium t ++ Y) false = true.
Proof.
  destruct t as [c|body]; cbn [trivium_ok render_trivium]; intros H Hk Hn Hv.
  - cbn [length] in Hk. replace k with 0%nat in * by lia. cbn in Hn. injection Hn as <-.
    unfold visible in Hv. rewrite H in Hv. discriminate.
  - destruct k as [|k].
    + cbn in Hn. injection Hn as <-. cbn in Hv. discriminate.
    + cbn [app in_comment N.eqb Pos.eqb]. cbn [length] in Hk. rewrite app_length in Hk. cbn [length] in Hk.
      rewrite <- app_assoc. cbn [app nth_error] in Hn. rewrite <- app_assoc in Hn.
      destruct (Nat.eq_dec k (length body)) as [->|Hne].
      * (* the final newline is not visible *)
        rewrite nth_error_skipn0, skipn_app_len in Hn. cbn in Hn. injection Hn as <-. cbn in Hv. discriminate.
      * apply in_comment_body; [exact H|lia].
Qed.

Lemma render_tr_end tr Y :
  trivia_ok tr = true -> in_comment (length (render_tr tr)) (render_tr tr ++ Y) false = false.
Proof.
  induction tr as [|t tr IH]; cbn [trivia_ok forallb render_tr]; intros H; [reflexivity|].
  apply andb_true_iff in H. destruct H as [H1 H2].
  rewrite app_length, <- app_assoc, in_comment_add, skipn_app_len, (trivium_end _ _ H1). apply IH. exact H2.
Qed.

Lemma render_tr_inside tr Y k ch :
  trivia_ok tr = true -> (k < length (render_tr tr))%nat ->
  nth_error (render_tr tr ++ Y) k = Some ch -> visible ch = true ->
  in_comment k (render_tr tr ++ Y) false = true.
Proof.
  revert k; induction tr as [|t tr IH]; cbn [trivia_ok forallb render_tr]; intros k H Hk Hn Hv;
    [cbn [length] in Hk; lia|].
  apply andb_true_iff in H. destruct H as [H1 H2]. rewrite <- app_assoc in *. rewrite app_length in Hk.
  destruct (lt_dec k (length (render_trivium t))) as [Hlt|Hge].
  - eapply trivium_inside; eassumption.
  - replace k with (length (render_trivium t) + (k - length (render_trivium t)))%nat in * by lia.
    rewrite in_comment_add, skipn_app_len, (trivium_end _ _ H1).
    rewrite nth_error_app2 in Hn by lia.
    replace (length (render_trivium t) + (k - length (render_trivium t)) - length (render_trivium t))%nat
      with (k - length (render_trivium t))%nat in Hn by lia.
    eapply IH; [exact H2|lia|exact Hn|exact Hv].
Qed.

(* _count_needed_parens sees no parenthesis in layout (those inside comments are skipped) *)
Lemma count_parens_body body Y st0 :
  forallb (fun c => negb (c =? 10)) body = true ->
  count_parens_str (body ++ 10 :: Y) true st0 = count_parens_str Y false st0.
Proof.
  induction body as [|c body IH]; cbn [forallb app count_parens_str]; intros H.
  - cbn. reflexivity.
  - apply andb_true_iff in H. destruct H as [H1 H2]. rewrite H1. apply IH. exact H2.
Qed.

Lemma count_parens_trivia tr Y st0 :
  trivia_ok tr = true -> count_parens_str (render_tr tr ++ Y) false st0 = count_parens_str Y false st0.
Proof.
  induction tr as [|t tr IH]; cbn [trivia_ok forallb render_tr]; intros H; [reflexivity|].
  apply andb_true_iff in H. destruct H as [H1 H2]. rewrite <- app_assoc.
  destruct t as [c|body]; cbn [render_trivium app count_parens_str trivium_ok] in *.
  - unfold is_blank in H1.
    assert (c =? 41 = false /\ c =? 40 = false /\ c =? 35 = false) as (E1 & E2 & E3).
    { repeat split; apply N.eqb_neq; intros ->; cbn in H1; discriminate. }
    rewrite E1, E2, E3. apply IH. exact H2.
  - cbn [N.eqb Pos.eqb]. rewrite <- app_assoc. cbn [app]. rewrite count_parens_body by exact H1. apply IH. exact H2.
Qed.

Lemma count_fmt_trivia tr st0 :
  trivia_ok tr = true -> count_parens_fmt st0 (render_tr tr) = st0.
Proof.
  intros H. unfold count_parens_fmt. destruct (render_tr tr) as [|c r] eqn:E; [reflexivity|].
  destruct ((c =? 39) || (c =? 34)); [reflexivity|].
  rewrite <- E. rewrite <- (app_nil_r (render_tr tr)). rewrite count_parens_trivia by exact H. reflexivity.
Qed.

Lemma count_needed_trivia (fs : list text) :
  Forall (fun f => exists tr, trivia_ok tr = true /\ f = render_tr tr) fs ->
  count_needed_parens fs = (0%nat, 0%nat).
Proof.
  intros H. unfold count_needed_parens. generalize (0%nat, 0%nat).
  induction H as [|f fs (tr & Hok & ->) _ IH]; intros s0; cbn [fold_left]; [reflexivity|].
  rewrite count_fmt_trivia by exact Hok. apply IH.
Qed.

(* ------------------------------------------------------------------ a token behind layout is found where it is *)
Lemma tok_ok_inv tok : tok_ok tok = true -> exists t0 tok', tok = t0 :: tok' /\ visible t0 = true /\ t0 <> 10.
Proof.
  destruct tok as [|t0 tok']; cbn; [discriminate|]. intros H. exists t0, tok'. split; [reflexivity|]. split; [exact H|].
  intros ->. cbn in H. discriminate.
Qed.

Lemma consume_trivia tr tok X off :
  trivia_ok tr = true -> tok_ok tok = true ->
  consume tok (mkcur off (render_tr tr ++ tok ++ X))
  = Ok (off + lenN (render_tr tr), off + lenN (render_tr tr) + lenN tok,
        mkcur (off + lenN (render_tr tr) + lenN tok) X).
Proof.
  intros Htr Htok. destruct (tok_ok_inv _ Htok) as (t0 & tok' & -> & Hv & Hne).
  set (R := render_tr tr ++ (t0 :: tok') ++ X). set (P := length (render_tr tr)).
  assert (Hskip : skipn P R = (t0 :: tok') ++ X) by (unfold R, P; apply skipn_app_len).
  pose proof (consume_loop_at R t0 tok' P off Hne) as H. cbv zeta in H.
  unfold consume. cbn [mkcur c_rest].
  specialize (H ltac:(rewrite Hskip; apply starts_with_app)).
  specialize (H ltac:(unfold R, P; rewrite app_length; lia)).
  specialize (H ltac:(unfold st, R, P; apply render_tr_end; exact Htr)).
  assert (Hearlier : forall k, (k < P)%nat -> starts_with (t0 :: tok') (skipn k R) = true -> st R k = true).
  { intros k Hk Hs. apply starts_with_hd in Hs. rewrite <- nth_error_skipn0 in Hs.
    unfold st, R. eapply render_tr_inside; [exact Htr|exact Hk|exact Hs|exact Hv]. }
  specialize (H Hearlier P (0 :: R) 0%nat ltac:(lia) ltac:(lia) (or_introl eq_refl)).
  specialize (H ltac:(cbn [length]; lia)).
  cbn [skipn N.of_nat] in H. rewrite N.add_0_r in H. fold R. rewrite H.
  unfold lenN. fold P. apply ok3; [reflexivity|reflexivity|]. apply mkcur_eq; [reflexivity|].
  rewrite skipn_add, Hskip. apply skipn_app_len.
Qed.

(* ------------------------------------------------------------------ evaluating _handle on layout-separated items *)
Lemma lenN_app a b : lenN (a ++ b) = lenN a + lenN b.
Proof. unfold lenN. rewrite app_length. lia. Qed.

Lemma to_nat_lenN_sub off t : N.to_nat (off + lenN t - off) = length t.
Proof. unfold lenN. lia. Qed.

Lemma p_rs_annot e s c : p_rs (annot e s c) = s.
Proof. destruct c; reflexivity. Qed.

Section Eval.
  Variable ev : env.
  Let rec := patch_node ev.

  Lemma items_tok tr tok X off r :
    trivia_ok tr = true -> tok_ok tok = true ->
    patch_items ev rec false (ITok tok :: r) (mkcur off (render_tr tr ++ tok ++ X))
    = match patch_items ev rec false r (mkcur (off + lenN (render_tr tr) + lenN tok) X) with
      | Err e => Err e
      | Ok (ps, c2) => Ok ((render_tr tr, off + lenN (render_tr tr), PT tok) :: ps, c2)
      end.
  Proof.
    intros Htr Htok. cbn [patch_items patch_item]. rewrite (consume_trivia _ _ _ _ Htr Htok).
    cbn [mkcur c_off c_rest].
    replace (off + lenN (render_tr tr) + lenN tok - (off + lenN (render_tr tr))) with (lenN tok) by lia.
    rewrite !to_nat_lenN_sub. replace (N.to_nat (lenN tok)) with (length tok) by (unfold lenN; lia).
    rewrite skipn_app_len, firstn_app_len, firstn_app_len. reflexivity.
  Qed.

  Lemma items_sub n R off r p c1 :
    rec n (mkcur off R) = Ok (p, c1) ->
    patch_items ev rec false (ISub n :: r) (mkcur off R)
    = match patch_items ev rec false r c1 with
      | Err e => Err e
      | Ok (ps, c2) => Ok ((firstn (N.to_nat (p_rs p - off)) R, p_rs p, PN p) :: ps, c2)
      end.
  Proof. intros H. cbn [patch_items patch_item]. rewrite H. reflexivity. Qed.

  Lemma finish_plain cls c0 ps c1 :
    count_needed_parens (formats_of_pieces ps) = (0%nat, 0%nat) ->
    finish_node ev cls F0 c0 ps c1
    = Ok (PNode cls (c_off c0) (start_of_pieces (c_off c0) ps) (c_off c1) (children_of_pieces ps), c1).
  Proof.
    intros H. unfold finish_node, handle_parens. cbn [F0 f_nofmt f_eat_parens f_eat_spaces]. rewrite H.
    cbn [consume_closes find_opens find_opens_entry].
    destruct (o_opens_from_entry (e_opt ev)); rewrite N.eqb_refl; reflexivity.
  Qed.

  Lemma finish_spaces cls c0 ps c1 :
    count_needed_parens (formats_of_pieces ps) = (0%nat, 0%nat) ->
    finish_node ev cls F_eat_spaces c0 ps c1
    = match consume (c_rest c1) c1 with
      | Err e => Err e
      | Ok (_, _, c4) =>
          Ok (PNode cls (c_off c0) 0 (c_off c4)
                (PT (slice (e_src ev) 0 (start_of_pieces (c_off c0) ps)) :: children_of_pieces ps ++ [PT (c_rest c1)]),
              c4)
      end.
  Proof.
    intros H. unfold finish_node, handle_parens. cbn [F_eat_spaces f_nofmt f_eat_parens f_eat_spaces]. rewrite H.
    cbn [consume_closes find_opens find_opens_entry].
    destruct (o_opens_from_entry (e_opt ev)); rewrite N.eqb_refl; unfold eat_spaces;
      destruct (consume (c_rest c1) c1) as [[[s e] c4]|]; reflexivity.
  Qed.
End Eval.

(* ------------------------------------------------------------------ the argument list of a call *)
Definition sub_of (c : cexpr) : item := ISub (template_of (erase c)).

Fixpoint items_more (m : cmore) : list item :=
  match m with
  | MNil => []
  | MCons _ _ a more => tk txt_comma :: sub_of a :: items_more more
  end.
Definition items_args (a : cargs) : list item :=
  match a with
  | ANil => []
  | AOne _ a more => sub_of a :: items_more more
  end.

Lemma join_more x (m : cmore) :
  join_items (tk txt_comma) (x :: map (fun y => ISub (template_of y)) (erase_more m)) = x :: items_more m.
Proof.
  revert x; induction m as [|tc ta a more IH]; intros x; cbn [erase_more map join_items items_more]; [reflexivity|].
  f_equal. f_equal. apply IH.
Qed.

Lemma join_args (a : cargs) :
  join_items (tk txt_comma) (map (fun y => ISub (template_of y)) (erase_args a)) = items_args a.
Proof. destruct a as [|ta a more]; cbn [erase_args map items_args]; [reflexivity|]. apply join_more. Qed.

Fixpoint pieces_more (p : N) (m : cmore) : list piece :=
  match m with
  | MNil => []
  | MCons tc ta a more =>
      let q := p + lenN (render_tr tc) + 1 in
      let s := q + lenN (render_tr ta) in
      (render_tr tc, p + lenN (render_tr tc), PT txt_comma)
      :: (render_tr ta, s, PN (annot q s a))
      :: pieces_more (s + lenN (rend a)) more
  end.
Definition pieces_args (p : N) (a : cargs) : list piece :=
  match a with
  | ANil => []
  | AOne ta a more =>
      let s := p + lenN (render_tr ta) in
      (render_tr ta, s, PN (annot p s a)) :: pieces_more (s + lenN (rend a)) more
  end.

Definition tailch' (ps : list piece) : list pchild := flat_map (fun p : piece => [PT (fst (fst p)); snd p]) ps.

Lemma tailch_more p m : tailch' (pieces_more p m) = annot_more p m.
Proof.
  revert p; induction m as [|tc ta a more IH]; intros p; cbn [pieces_more tailch' flat_map annot_more app fst snd];
    [reflexivity|].
  do 4 f_equal. apply IH.
Qed.

Lemma tailch_args p a : tailch' (pieces_args p a) = annot_args p a.
Proof.
  destruct a as [|ta a more]; cbn [pieces_args tailch' flat_map annot_args app fst snd]; [reflexivity|].
  do 2 f_equal. apply tailch_more.
Qed.

Definition is_trivia_text (f : text) : Prop := exists tr, trivia_ok tr = true /\ f = render_tr tr.

Lemma formats_more p m : cmore_ok m = true -> Forall is_trivia_text (map (fun q : piece => fst (fst q)) (pieces_more p m)).
Proof.
  revert p; induction m as [|tc ta a more IH]; intros p H; cbn [pieces_more map fst]; [constructor|].
  cbn [cmore_ok] in H. repeat (apply andb_true_iff in H; destruct H as [H ?]).
  constructor; [exists tc; auto|]. constructor; [exists ta; auto|]. apply IH. assumption.
Qed.

Lemma formats_args p a : cargs_ok a = true -> Forall is_trivia_text (map (fun q : piece => fst (fst q)) (pieces_args p a)).
Proof.
  destruct a as [|ta a more]; intros H; cbn [pieces_args map fst]; [constructor|].
  cbn [cargs_ok] in H. repeat (apply andb_true_iff in H; destruct H as [H ?]).
  constructor; [exists ta; auto|]. apply formats_more. assumption.
Qed.

(* ------------------------------------------------------------------ exact regions for the expression core *)
Scheme cexpr_ind' := Induction for cexpr Sort Prop
  with cargs_ind' := Induction for cargs Sort Prop
  with cmore_ind' := Induction for cmore Sort Prop.
Combined Scheme cexpr_mutind from cexpr_ind', cargs_ind', cmore_ind'.

Section Exact.
  Variable ev : env.
  Let rec := patch_node ev.

  Definition P_expr (c : cexpr) : Prop :=
    forall tr0 X off, trivia_ok tr0 = true -> cexpr_ok c = true ->
      patch_node ev (template_of (erase c)) (mkcur off (render_tr tr0 ++ rend c ++ X))
      = Ok (annot off (off + lenN (render_tr tr0)) c,
            mkcur (off + lenN (render_tr tr0) + lenN (rend c)) X).

  Definition P_more (m : cmore) : Prop :=
    forall X off tail, cmore_ok m = true ->
      patch_items ev rec false (items_more m ++ tail) (mkcur off (rend_more m ++ X))
      = match patch_items ev rec false tail (mkcur (off + lenN (rend_more m)) X) with
        | Err e => Err e
        | Ok (ps, c2) => Ok (pieces_more off m ++ ps, c2)
        end.

  Definition P_args (a : cargs) : Prop :=
    forall X off tail, cargs_ok a = true ->
      patch_items ev rec false (items_args a ++ tail) (mkcur off (rend_args a ++ X))
      = match patch_items ev rec false tail (mkcur (off + lenN (rend_args a)) X) with
        | Err e => Err e
        | Ok (ps, c2) => Ok (pieces_args off a ++ ps, c2)
        end.

  Lemma patch_items_nil c : patch_items ev rec false [] c = Ok ([], c).
  Proof. reflexivity. Qed.

  Lemma exact_all : (forall c, P_expr c) /\ (forall a, P_args a) /\ (forall m, P_more m).
  Proof.
    apply cexpr_mutind.
    - (* Name *)
      intros id tr0 X off Htr Hok. cbn [cexpr_ok] in Hok. cbn [erase template_of patch_node rend F0 f_joined].
      fold rec. rewrite (items_tok ev _ _ _ _ _ Htr Hok), patch_items_nil.
      rewrite finish_plain by reflexivity. cbn [start_of_pieces children_of_pieces flat_map mkcur c_off annot].
      reflexivity.
    - (* Attribute *)
      intros e IHe t1 t2 attr tr0 X off Htr Hok. cbn [cexpr_ok] in Hok.
      repeat (apply andb_true_iff in Hok; destruct Hok as [Hok ?]).
      cbn [erase template_of patch_node rend f_joined F0]. fold rec. rewrite <- !app_assoc.
      rewrite (items_sub ev _ _ _ _ _ _ (IHe tr0 _ off Htr Hok)).
      rewrite (items_tok ev t1 txt_dot) by (assumption || reflexivity).
      rewrite (items_tok ev t2 attr) by assumption. rewrite patch_items_nil.
      rewrite finish_plain.
      2:{ apply count_needed_trivia. cbn [formats_of_pieces map fst].
          constructor; [exists t1; auto|]. constructor; [exists t2; auto|constructor]. }
      cbn [start_of_pieces children_of_pieces flat_map app fst snd mkcur c_off annot rend].
      rewrite p_rs_annot. f_equal. f_equal; [|apply mkcur_eq; [|reflexivity]];
        [f_equal|]; rewrite ?lenN_app; unfold lenN, txt_dot; cbn [length]; lia.
    - (* Call *)
      intros f IHf t1 args IHa t2 tr0 X off Htr Hok. cbn [cexpr_ok] in Hok.
      repeat (apply andb_true_iff in Hok; destruct Hok as [Hok ?]).
      cbn [erase template_of patch_node rend f_joined F0]. fold rec. rewrite <- !app_assoc.
      rewrite join_args.
      rewrite (items_sub ev _ _ _ _ _ _ (IHf tr0 _ off Htr Hok)).
      rewrite (items_tok ev t1 txt_open) by (assumption || reflexivity).
      rewrite (IHa _ _ [tk txt_close]) by assumption.
      rewrite (items_tok ev t2 txt_close) by (assumption || reflexivity). rewrite patch_items_nil.
      rewrite finish_plain.
      2:{ apply count_needed_trivia. cbn [formats_of_pieces map fst]. constructor; [exists t1; auto|].
          rewrite map_app. apply Forall_app. split; [apply formats_args; assumption|].
          cbn [map fst]. constructor; [exists t2; auto|constructor]. }
      cbn [start_of_pieces children_of_pieces flat_map app fst snd mkcur c_off annot rend].
      rewrite p_rs_annot. fold (tailch' (pieces_args (off + lenN (render_tr tr0) + lenN (rend f) + lenN (render_tr t1) + lenN txt_open) args ++ [(render_tr t2, off + lenN (render_tr tr0) + lenN (rend f) + lenN (render_tr t1) + lenN txt_open + lenN (rend_args args) + lenN (render_tr t2), PT txt_close)])).
      unfold tailch'. rewrite flat_map_app. fold (tailch' (pieces_args (off + lenN (render_tr tr0) + lenN (rend f) + lenN (render_tr t1) + lenN txt_open) args)).
      rewrite tailch_args. cbn [flat_map app fst snd].
      f_equal. f_equal; [|apply mkcur_eq; [|reflexivity]]; [f_equal|];
        rewrite ?lenN_app; unfold lenN, txt_open, txt_close; cbn [length]; try lia.
    - (* BinOp *)
      intros l IHl t1 op t2 r IHr tr0 X off Htr Hok. cbn [cexpr_ok] in Hok.
      repeat (apply andb_true_iff in Hok; destruct Hok as [Hok ?]).
      cbn [erase template_of patch_node rend f_joined F0 map app]. fold rec. rewrite <- !app_assoc.
      rewrite (items_sub ev _ _ _ _ _ _ (IHl tr0 _ off Htr Hok)).
      rewrite (items_tok ev t1 op) by assumption.
      rewrite (items_sub ev _ _ _ _ _ _ (IHr t2 X _ ltac:(assumption) ltac:(assumption))).
      rewrite patch_items_nil.
      rewrite finish_plain.
      2:{ apply count_needed_trivia. cbn [formats_of_pieces map fst]. constructor; [exists t1; auto|].
          rewrite p_rs_annot, to_nat_lenN_sub, firstn_app_len. constructor; [exists t2; auto|constructor]. }
      cbn [start_of_pieces children_of_pieces flat_map app fst snd mkcur c_off annot rend].
      rewrite !p_rs_annot, to_nat_lenN_sub, firstn_app_len.
      f_equal. f_equal; [|apply mkcur_eq; [|reflexivity]]; [f_equal|]; rewrite ?lenN_app; lia.
    - (* no argument *)
      intros X off tail _. cbn [items_args rend_args app pieces_args lenN length N.of_nat]. rewrite N.add_0_r.
      destruct (patch_items ev rec false tail (mkcur off X)) as [[ps c2]|]; reflexivity.
    - (* first argument *)
      intros ta a IHa more IHm X off tail Hok. cbn [cargs_ok] in Hok.
      repeat (apply andb_true_iff in Hok; destruct Hok as [Hok ?]).
      cbn [items_args rend_args app pieces_args]. rewrite <- !app_assoc.
      rewrite (items_sub ev _ _ _ _ _ _ (IHa ta _ off Hok ltac:(assumption))).
      rewrite (IHm _ _ tail) by assumption.
      replace (off + lenN (render_tr ta ++ rend a ++ rend_more more))
        with (off + lenN (render_tr ta) + lenN (rend a) + lenN (rend_more more)) by (rewrite !lenN_app; lia).
      destruct (patch_items ev rec false tail _) as [[ps c2]|]; [|reflexivity].
      rewrite p_rs_annot, to_nat_lenN_sub, firstn_app_len. reflexivity.
    - (* no further argument *)
      intros X off tail _. cbn [items_more rend_more app pieces_more lenN length N.of_nat]. rewrite N.add_0_r.
      destruct (patch_items ev rec false tail (mkcur off X)) as [[ps c2]|]; reflexivity.
    - (* a further argument *)
      intros tc ta a IHa more IHm X off tail Hok. cbn [cmore_ok] in Hok.
      repeat (apply andb_true_iff in Hok; destruct Hok as [Hok ?]).
      cbn [items_more rend_more app pieces_more]. rewrite <- !app_assoc.
      rewrite (items_tok ev tc txt_comma) by (assumption || reflexivity).
      rewrite (items_sub ev _ _ _ _ _ _ (IHa ta _ _ ltac:(assumption) ltac:(assumption))).
      rewrite (IHm _ _ tail) by assumption.
      replace (off + lenN (render_tr tc ++ txt_comma ++ render_tr ta ++ rend a ++ rend_more more))
        with (off + lenN (render_tr tc) + lenN txt_comma + lenN (render_tr ta) + lenN (rend a) + lenN (rend_more more))
        by (rewrite !lenN_app; lia).
      destruct (patch_items ev rec false tail _) as [[ps c2]|]; [|reflexivity].
      rewrite p_rs_annot, to_nat_lenN_sub, firstn_app_len. reflexivity.
  Qed.
End Exact.

(* ------------------------------------------------------------------ a whole module: layout, expression, layout *)
Lemma starts_with_refl R : starts_with R R = true.
Proof. induction R as [|c R IH]; cbn; [reflexivity|]. rewrite N.eqb_refl. exact IH. Qed.

Lemma consume_self R off : consume R (mkcur off R) = Ok (off, off + lenN R, mkcur (off + lenN R) []).
Proof.
  unfold consume. cbn [mkcur c_rest consume_loop]. rewrite (find_rel_here _ _ (starts_with_refl R)).
  cbn [in_comment negb]. rewrite advance_mkcur. cbn [c_off mkcur Nat.add].
  apply ok3; [lia|reflexivity|]. apply mkcur_eq; [reflexivity|].
  rewrite <- (app_nil_r R) at 2. apply skipn_app_len.
Qed.

Theorem exact_module o t0 c t1 :
  trivia_ok t0 = true -> cexpr_ok c = true -> trivia_ok t1 = true ->
  patch_opt o (render_module t0 c t1) (template_of (ast_module c)) = Ok (annot_module t0 c t1).
Proof.
  intros H0 Hc H1. unfold patch_opt, ast_module, render_module.
  set (src := render_tr t0 ++ rend c ++ render_tr t1). set (ev := mk_env o src).
  cbn [template_of map patch_node F_eat_spaces f_joined].
  change {| c_off := 0; c_rest := src |} with (mkcur 0 src).
  (* the Expr statement *)
  assert (HE : patch_node ev (TNode cls_Expr F0 [ISub (template_of (erase c))]) (mkcur 0 src)
               = Ok (PNode cls_Expr 0 (lenN (render_tr t0)) (lenN (render_tr t0) + lenN (rend c))
                       [PN (annot 0 (lenN (render_tr t0)) c)],
                     mkcur (lenN (render_tr t0) + lenN (rend c)) (render_tr t1))).
  { cbn [patch_node F0 f_joined]. destruct (exact_all ev) as [HP _].
    pose proof (HP c t0 (render_tr t1) 0 H0 Hc) as HPc. rewrite !N.add_0_l in HPc.
    rewrite (items_sub ev _ _ _ _ _ _ HPc). cbn [patch_items].
    rewrite finish_plain by reflexivity.
    cbn [start_of_pieces children_of_pieces flat_map mkcur c_off]. rewrite p_rs_annot. reflexivity. }
  rewrite (items_sub ev _ _ _ _ _ _ HE). cbn [patch_items p_rs].
  rewrite finish_spaces by reflexivity. cbn [mkcur c_rest].
  change {| c_off := lenN (render_tr t0) + lenN (rend c); c_rest := render_tr t1 |}
    with (mkcur (lenN (render_tr t0) + lenN (rend c)) (render_tr t1)).
  rewrite consume_self. cbn [mkcur c_off e_src ev mk_env app start_of_pieces children_of_pieces flat_map].
  unfold annot_module, render_module. fold src.
  f_equal. f_equal; [unfold src; rewrite !lenN_app; lia|].
  f_equal. f_equal. unfold slice. rewrite N.sub_0_r. cbn [N.to_nat skipn]. unfold src, lenN.
  rewrite Nat2N.id. apply firstn_app_len.
Qed.

(* the region text of a node is exactly the text of the construct *)
Lemma write_annot_all :
  (forall c e s, write (annot e s c) = rend c) /\
  (forall a p, write_ch (annot_args p a) = rend_args a) /\
  (forall m p, write_ch (annot_more p m) = rend_more m).
Proof.
  apply cexpr_mutind.
  - intros id e s. cbn [annot]. rewrite write_unfold. cbn [write_ch]. apply app_nil_r.
  - intros c IH t1 t2 attr e s. cbn [annot]. rewrite write_unfold. cbn [write_ch rend]. rewrite IH, app_nil_r. reflexivity.
  - intros f IHf t1 args IHa t2 e s. cbn [annot]. rewrite write_unfold. cbn [write_ch rend].
    rewrite write_ch_app, IHf, IHa. cbn [write_ch]. rewrite app_nil_r. reflexivity.
  - intros l IHl t1 op t2 r IHr e s. cbn [annot]. rewrite write_unfold. cbn [write_ch rend].
    rewrite IHl, IHr, app_nil_r. reflexivity.
  - intros p. reflexivity.
  - intros ta a IHa more IHm p. cbn [annot_args write_ch rend_args]. rewrite IHa, IHm. reflexivity.
  - intros p. reflexivity.
  - intros tc ta a IHa more IHm p. cbn [annot_more write_ch rend_more]. rewrite IHa, IHm. reflexivity.
Qed.

Lemma annot_region c e s :
  p_rs (annot e s c) = s /\ p_re (annot e s c) = s + lenN (rend c) /\ write (annot e s c) = rend c.
Proof.
  split; [apply p_rs_annot|]. split; [destruct c; reflexivity|]. apply write_annot_all.
Qed.
