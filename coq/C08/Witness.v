(* C08 — witnesses captured from the running walker (harness/c08.py, function case_term): the template tree
   rope built for the source text, the regular-expression results, and rope's annotated tree.
   F0 / F / K / P / OC are the short forms defined in Runner.v.  Captured at /repo commit ed573d7 (after
   the repairs); the template tree of w_escape is the same before and after the repair. *)
From Coq Require Import List NArith Bool String.
Import ListNotations.
From RopeVerif.C08 Require Import Template Runner.
Local Open Scope N_scope.
Local Open Scope list_scope.

(* source: "# c (\nx = (a. b) + f(1, 'if #')  # )\nif x:  # else:\n    y = (1,\n         2)\n" *)
Definition w_good : case :=
 {| k_opt := OC; k_src := (T "# c (
x = (a. b) + f(1, 'if #')  # )
if x:  # else:
    y = (1,
         2)
");
   k_tree := (TNode 73 (F false true false false) [ISub (TNode 5 F0 [ISub (TNode 75 F0 [K "x"]); K "="; ISub (TNode 14 F0 [ISub (TNode 9 F0 [ISub (TNode 75 F0 [K "a"]); K "."; K "b"]); K "+"; ISub (TNode 20 F0 [ISub (TNode 75 F0 [K "f"]); K "("; ISub (TNode 23 F0 [IRegex [(21, Some (21, 22))]]); K ","; ISub (TNode 23 F0 [IRegex [(23, Some (24, 30))]]); K ")"])])]); ISub (TNode 44 F0 [K "if"; ISub (TNode 75 F0 [K "x"]); K ":"; ISub (TNode 5 F0 [ISub (TNode 75 F0 [K "y"]); K "="; ISub (TNode 99 (F true false false false) [ISub (TNode 23 F0 [IRegex [(59, Some (61, 62))]]); K ","; ISub (TNode 23 F0 [IRegex [(63, Some (73, 74))]])])])])]);
   k_rope := Ok (PNode 73 0 0 76 [P "# c (
"; PN (PNode 5 0 6 31 [PN (PNode 75 0 6 7 [P "x"]); P " "; P "="; P " "; PN (PNode 14 9 10 31 [P "("; PN (PNode 9 9 11 15 [PN (PNode 75 9 11 12 [P "a"]); PT []; P "."; P " "; P "b"]); P ") "; P "+"; P " "; PN (PNode 20 18 19 31 [PN (PNode 75 18 19 20 [P "f"]); PT []; P "("; PT []; PN (PNode 23 21 21 22 [P "1"]); PT []; P ","; P " "; PN (PNode 23 23 24 30 [P "'if #'"]); PT []; P ")"])])]); P "  # )
"; PN (PNode 44 31 37 75 [P "if"; P " "; PN (PNode 75 39 40 41 [P "x"]); PT []; P ":"; P "  # else:
    "; PN (PNode 5 42 56 75 [PN (PNode 75 42 56 57 [P "y"]); P " "; P "="; P " "; PN (PNode 99 59 60 75 [P "("; PT []; PN (PNode 23 59 61 62 [P "1"]); PT []; P ","; P "
         "; PN (PNode 23 63 73 74 [P "2"]); PT []; P ")"])])]); P "
"]) |}.

(* source: 'x = f("#", (a).b)\n' *)
Definition w_escape : case :=
 {| k_opt := OC; k_src := (T "x = f(""#"", (a).b)
");
   k_tree := (TNode 73 (F false true false false) [ISub (TNode 5 F0 [ISub (TNode 75 F0 [K "x"]); K "="; ISub (TNode 20 F0 [ISub (TNode 75 F0 [K "f"]); K "("; ISub (TNode 23 F0 [IRegex [(6, Some (6, 9))]]); K ","; ISub (TNode 9 F0 [ISub (TNode 75 F0 [K "a"]); K "."; K "b"]); K ")"])])]);
   k_rope := Ok (PNode 73 0 0 18 [PT []; PN (PNode 5 0 0 17 [PN (PNode 75 0 0 1 [P "x"]); P " "; P "="; P " "; PN (PNode 20 3 4 17 [PN (PNode 75 3 4 5 [P "f"]); PT []; P "("; PT []; PN (PNode 23 6 6 9 [P """#"""]); PT []; P ","; P " "; PN (PNode 9 10 11 16 [P "("; PN (PNode 75 10 12 13 [P "a"]); P ")"; P "."; PT []; P "b"]); PT []; P ")"])]); P "
"]) |}.
