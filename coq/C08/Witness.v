(* C08 — witnesses captured from the running walker (harness/c08.py, function case_term): the template tree
   rope built for the source text, the regular-expression results, rope's annotated tree, and CPython's ast
   when all its nodes belong to the transcribed table.  F0 / F / K / P / OC are short forms (Runner.v,
   Fragment.v).  Captured at /repo commit e95d065; the template tree of w_escape is the same before and
   after the repair ed573d7. *)
From Coq Require Import List NArith Bool String.
Import ListNotations.
From RopeVerif.C08 Require Import Template Fragment Runner.
Local Open Scope N_scope.
Local Open Scope list_scope.

(* source: "# c (\nx = (a. b) + f(1, 'if #')  # )\nif x:  # else:\n    y = (1,\n         2)\n" *)
Definition w_good : case :=
 {| k_opt := OC; k_src := (T "# c (
x = (a. b) + f(1, 'if #')  # )
if x:  # else:
    y = (1,
         2)
");
   k_tree := (TNode 1 (F false true false false) [ISub (TNode 14 F0 [ISub (TNode 3 F0 [K "x"]); K "="; ISub (TNode 6 F0 [ISub (TNode 4 F0 [ISub (TNode 3 F0 [K "a"]); K "."; K "b"]); K "+"; ISub (TNode 5 F0 [ISub (TNode 3 F0 [K "f"]); K "("; ISub (TNode 13 F0 [IRegex [(21, Some (21, 22))]]); K ","; ISub (TNode 13 F0 [IRegex [(23, Some (24, 30))]]); K ")"])])]); ISub (TNode 16 F0 [K "if"; ISub (TNode 3 F0 [K "x"]); K ":"; ISub (TNode 14 F0 [ISub (TNode 3 F0 [K "y"]); K "="; ISub (TNode 11 (F true false false false) [ISub (TNode 13 F0 [IRegex [(59, Some (61, 62))]]); K ","; ISub (TNode 13 F0 [IRegex [(63, Some (73, 74))]])])])])]);
   k_rope := Ok (PNode 1 0 0 76 [P "# c (
"; PN (PNode 14 0 6 31 [PN (PNode 3 0 6 7 [P "x"]); P " "; P "="; P " "; PN (PNode 6 9 10 31 [P "("; PN (PNode 4 9 11 15 [PN (PNode 3 9 11 12 [P "a"]); PT []; P "."; P " "; P "b"]); P ") "; P "+"; P " "; PN (PNode 5 18 19 31 [PN (PNode 3 18 19 20 [P "f"]); PT []; P "("; PT []; PN (PNode 13 21 21 22 [P "1"]); PT []; P ","; P " "; PN (PNode 13 23 24 30 [P "'if #'"]); PT []; P ")"])])]); P "  # )
"; PN (PNode 16 31 37 75 [P "if"; P " "; PN (PNode 3 39 40 41 [P "x"]); PT []; P ":"; P "  # else:
    "; PN (PNode 14 42 56 75 [PN (PNode 3 42 56 57 [P "y"]); P " "; P "="; P " "; PN (PNode 11 59 60 75 [P "("; PT []; PN (PNode 13 59 61 62 [P "1"]); PT []; P ","; P "
         "; PN (PNode 13 63 73 74 [P "2"]); PT []; P ")"])])]); P "
"]);
   k_ast := (Some (AModule [(AAssign [(AName (T "x"))] (ABin (AAttr (AName (T "a")) (T "b")) (op_tokens 3) (ACall (AName (T "f")) [AConstRegex; AConstRegex]))); (AIf false (AName (T "x")) [(AAssign [(AName (T "y"))] (ATuple [AConstRegex; AConstRegex]))] [] false)])) |}.

(* source: 'x = f("#", (a).b)\n' *)
Definition w_escape : case :=
 {| k_opt := OC; k_src := (T "x = f(""#"", (a).b)
");
   k_tree := (TNode 1 (F false true false false) [ISub (TNode 14 F0 [ISub (TNode 3 F0 [K "x"]); K "="; ISub (TNode 5 F0 [ISub (TNode 3 F0 [K "f"]); K "("; ISub (TNode 13 F0 [IRegex [(6, Some (6, 9))]]); K ","; ISub (TNode 4 F0 [ISub (TNode 3 F0 [K "a"]); K "."; K "b"]); K ")"])])]);
   k_rope := Ok (PNode 1 0 0 18 [PT []; PN (PNode 14 0 0 17 [PN (PNode 3 0 0 1 [P "x"]); P " "; P "="; P " "; PN (PNode 5 3 4 17 [PN (PNode 3 3 4 5 [P "f"]); PT []; P "("; PT []; PN (PNode 13 6 6 9 [P """#"""]); PT []; P ","; P " "; PN (PNode 4 10 11 16 [P "("; PN (PNode 3 10 12 13 [P "a"]); P ")"; P "."; PT []; P "b"]); PT []; P ")"])]); P "
"]);
   k_ast := (Some (AModule [(AAssign [(AName (T "x"))] (ACall (AName (T "f")) [AConstRegex; (AAttr (AName (T "a")) (T "b"))]))])) |}.

(* source: '# top (\nf ( a . b # c )\n  , x ) + y  # end\n' *)
Definition w_frag : case :=
 {| k_opt := OC; k_src := (T "# top (
f ( a . b # c )
  , x ) + y  # end
");
   k_tree := (TNode 1 (F false true false false) [ISub (TNode 2 F0 [ISub (TNode 6 F0 [ISub (TNode 5 F0 [ISub (TNode 3 F0 [K "f"]); K "("; ISub (TNode 4 F0 [ISub (TNode 3 F0 [K "a"]); K "."; K "b"]); K ","; ISub (TNode 3 F0 [K "x"]); K ")"]); K "+"; ISub (TNode 3 F0 [K "y"])])])]);
   k_rope := Ok (PNode 1 0 0 43 [P "# top (
"; PN (PNode 2 0 8 35 [PN (PNode 6 0 8 35 [PN (PNode 5 0 8 31 [PN (PNode 3 0 8 9 [P "f"]); P " "; P "("; P " "; PN (PNode 4 11 12 17 [PN (PNode 3 11 12 13 [P "a"]); P " "; P "."; P " "; P "b"]); P " # c )
  "; P ","; P " "; PN (PNode 3 27 28 29 [P "x"]); P " "; P ")"]); P " "; P "+"; P " "; PN (PNode 3 33 34 35 [P "y"])])]); P "  # end
"]);
   k_ast := (Some (AModule [(AExpr (ABin (ACall (AName (T "f")) [(AAttr (AName (T "a")) (T "b")); (AName (T "x"))]) (op_tokens 3) (AName (T "y"))))])) |}.
