(* C08 — executable model of rope/refactor/patchedast.py: _PatchingASTWalker._handle, _handle_parens,
   _count_needed_parens, _eat_surrounding_parens, _Source.consume / consume_joined_string /
   _consume_pattern / _good_token / _skip_comment / rfind_token, and write_ast.

   Text is [list N] (code points).  The walker has ONE forward cursor ([_Source.offset]); the model
   threads it as a pair (absolute offset, remaining suffix of the text) so that every forward search
   costs the distance it scans.  The per-node-type *templates* (the [base_children] lists built by the
   [_<NodeType>] methods) are input to the model: the harness captures them from the running code.
   The two regular-expression consumers whose pattern is Python's business (string literals, numbers)
   take their result from an oracle recorded per call: [(pos, span)] for every [pattern.search] made,
   in order; the model checks that the recorded [pos] is its own cursor and that the span lies at or
   after the cursor inside the text, and fails with a distinct code otherwise.  [consume_empty_tuple]
   and [consume_with_or_comma_context_manager] are modelled exactly.

   Definitions only; proofs are in TemplateProofs.v. *)
From Coq Require Import List NArith Bool.
From RopeVerif.Lib Require Import Text.
Import ListNotations.
Local Open Scope N_scope.

(* ------------------------------------------------------------------ results *)
Inductive result (A : Type) : Type :=
| Ok (a : A)
| Err (code : N).
Arguments Ok {A} a.
Arguments Err {A} code.

(* error codes (what the Python code does in that situation)
   1  MismatchedTokenError (token or the newline of _skip_comment not found inside [consume])
   2  AttributeError       (a regular expression did not match: [match.group()] on None)
   3  ValueError           (_skip_comment inside _consume_pattern finds no newline; consume_joined_string
                           does not find its token)
   4  the recorded oracle does not fit the model's run (wrong position, span outside the text, too few calls)
   5  fuel exhausted (cannot happen: fuel is the remaining text)
   6  rfind_token returned None inside _handle_parens (the code goes on with start = None)
   7  a child that the code never reached (capture of an aborted run)
   8  the code raised while building the template of this child (before _handle) *)
Definition E_token : N := 1.
Definition E_regex_none : N := 2.
Definition E_skip : N := 3.
Definition E_oracle : N := 4.
Definition E_fuel : N := 5.
Definition E_rfind : N := 6.
Definition E_pending : N := 7.
Definition E_dispatch : N := 8.

(* ------------------------------------------------------------------ templates and annotated trees *)
Record flags := { f_eat_parens : bool; f_eat_spaces : bool; f_joined : bool; f_nofmt : bool }.

Inductive item : Type :=
| ITok (t : text)                                   (* literal token, located by [consume] *)
| ISub (n : tnode)                                  (* child node, patched recursively *)
| IRegex (calls : list (N * option (N * N)))        (* String / Number: recorded pattern.search results *)
| IEmptyTuple                                       (* "\(\s*\)" *)
| IWithOrComma                                      (* "with|," *)
| IPending                                          (* child never dispatched (aborted run) *)
| IRaised                                           (* the _<NodeType> method of this child raised before
                                                       calling _handle (template-building code, not modelled) *)
with tnode : Type :=
| TNode (cls : N) (fl : flags) (items : list item).

Inductive pchild : Type :=
| PT (t : text)
| PN (p : pnode)
with pnode : Type :=
| PNode (cls : N) (entry rs re : N) (ch : list pchild).

Definition p_cls (p : pnode) := match p with PNode c _ _ _ _ => c end.
Definition p_entry (p : pnode) := match p with PNode _ e _ _ _ => e end.
Definition p_rs (p : pnode) := match p with PNode _ _ s _ _ => s end.
Definition p_re (p : pnode) := match p with PNode _ _ _ e _ => e end.
Definition p_ch (p : pnode) := match p with PNode _ _ _ _ c => c end.

(* write_ast *)
Fixpoint write (p : pnode) : text :=
  match p with
  | PNode _ _ _ _ ch =>
      (fix go (l : list pchild) : text :=
         match l with
         | [] => []
         | PT t :: r => t ++ go r
         | PN q :: r => write q ++ go r
         end) ch
  end.

(* ------------------------------------------------------------------ the cursor *)
Record cursor := { c_off : N; c_rest : text }.

Definition advance (c : cursor) (k : nat) : cursor :=
  {| c_off := c_off c + N.of_nat k; c_rest := skipn k (c_rest c) |}.

(* Two places of the modelled code were repaired while this check was built (findings C08-left-escape, commit
   ed573d7, and C08-empty-tuple-comment, commit aea6dd5).  The model keeps both versions so that the defect of the
   earlier one stays a theorem (C08_lossless_refuted_original):
   o_opens_from_entry  _handle_parens searches the opening parentheses from the cursor at the entry of _handle
                       (rfind_token("(", suspected_start, ...), stopping when none is found) instead of from 0
   o_tuple_comments    consume_empty_tuple also accepts comments and continuation lines between the parentheses
   [options_current] is the code as it is now; the harness always evaluates the model with it. *)
Record options := { o_opens_from_entry : bool; o_tuple_comments : bool }.
Definition options_original : options := {| o_opens_from_entry := false; o_tuple_comments := false |}.
Definition options_current : options := {| o_opens_from_entry := true; o_tuple_comments := true |}.

Record env := { e_src : text; e_len : N; e_opt : options }.

(* source[a:b] (empty when b <= a, as in Python) *)
Definition slice (src : text) (a b : N) : text :=
  firstn (N.to_nat (b - a)) (skipn (N.to_nat a) src).

(* ------------------------------------------------------------------ searching *)
Fixpoint starts_with (tok s : text) : bool :=
  match tok, s with
  | [], _ => true
  | c :: tok', d :: s' => N.eqb c d && starts_with tok' s'
  | _ :: _, [] => false
  end.

(* str.index(tok) on the suffix s, counted from k *)
Fixpoint find_from (tok s : text) (k : nat) : option nat :=
  if starts_with tok s then Some k
  else match s with
       | [] => None
       | _ :: s' => find_from tok s' (S k)
       end.
Definition find_rel (tok s : text) : option nat := find_from tok s 0%nat.

(* _good_token.  Python: last '#' in [start, offset) absent -> good; else last newline in the range absent ->
   bad; else good iff the '#' precedes the newline.  Equivalently: scanning the k characters between the
   cursor and the candidate, a '#' switches "in comment" on and a newline switches it off; the candidate is
   good iff the scan ends outside a comment. *)
Fixpoint in_comment (k : nat) (s : text) (flag : bool) : bool :=
  match k, s with
  | S k', c :: s' =>
      in_comment k' s' (if N.eqb c 10 then false else if N.eqb c 35 then true else flag)
  | _, _ => flag
  end.

(* _skip_comment: offset := source.index("\n", offset + 1) *)
Definition skip_comment (c : cursor) : option cursor :=
  match c_rest c with
  | [] => None
  | _ :: r1 =>
      match find_rel [10%N] r1 with
      | None => None
      | Some j => Some (advance c (S j))
      end
  end.

(* _Source.consume(token): returns (token_start, token_end, cursor') *)
Fixpoint consume_loop (fuel : text) (tok : text) (c : cursor) : result (N * N * cursor) :=
  match fuel with
  | [] => Err E_fuel
  | _ :: fuel' =>
      match find_rel tok (c_rest c) with
      | None => Err E_token
      | Some k =>
          if negb (in_comment k (c_rest c) false) then
            let c' := advance c (k + length tok)%nat in
            Ok (c_off c + N.of_nat k, c_off c', c')
          else
            match skip_comment c with
            | None => Err E_token
            | Some c1 => consume_loop fuel' tok c1
            end
      end
  end.
Definition consume (tok : text) (c : cursor) : result (N * N * cursor) :=
  consume_loop (0 :: c_rest c) tok c.

(* _Source.consume_joined_string(token): plain index, no comment test *)
Definition consume_joined (tok : text) (c : cursor) : result (N * N * cursor) :=
  match find_rel tok (c_rest c) with
  | None => Err E_skip           (* str.index raises ValueError, not caught here *)
  | Some k =>
      let c' := advance c (k + length tok)%nat in
      Ok (c_off c + N.of_nat k, c_off c', c')
  end.

(* _consume_pattern with the recorded results of pattern.search *)
Fixpoint regex_loop (slen : N) (calls : list (N * option (N * N))) (c : cursor) : result (N * N * cursor) :=
  match calls with
  | [] => Err E_oracle
  | (pos, r) :: calls' =>
      if negb (N.eqb pos (c_off c)) then Err E_oracle
      else match r with
           | None => Err E_regex_none
           | Some (s, e) =>
               if N.leb (c_off c) s && N.leb s e && N.leb e slen then
                 if negb (in_comment (N.to_nat (s - c_off c)) (c_rest c) false) then
                   Ok (s, e, advance c (N.to_nat (e - c_off c)))
                 else
                   match skip_comment c with
                   | None => Err E_skip
                   | Some c1 => regex_loop slen calls' c1
                   end
               else Err E_oracle
           end
  end.

(* re.compile(r"\(\s*\)").search: leftmost '(' followed by whitespace and ')'.
   \s on str: the ASCII whitespace and the Unicode White_Space characters Python's re knows. *)
Definition is_space (c : N) : bool :=
  (N.leb 9 c && N.leb c 13) || (N.leb 28 c && N.leb c 32) || N.eqb c 133 || N.eqb c 160
  || N.eqb c 5760 || (N.leb 8192 c && N.leb c 8202) || N.eqb c 8232 || N.eqb c 8233
  || N.eqb c 8239 || N.eqb c 8287 || N.eqb c 12288.

(* length of "\s*\)" at the head of s, if it matches *)
Fixpoint spaces_close (s : text) (k : nat) : option nat :=
  match s with
  | [] => None
  | c :: s' => if N.eqb c 41 then Some (S k) else if is_space c then spaces_close s' (S k) else None
  end.

(* the same for "(\s|\\\n|#[^\n]*\n)*\)"; [cm] = inside a comment.  The regular expression tries its alternatives
   in order: \s, then backslash-newline, then a comment up to the newline; they start with different characters *)
Fixpoint spaces_comments_close (s : text) (cm : bool) (k : nat) : option nat :=
  match s with
  | [] => None
  | c :: s' =>
      if cm then spaces_comments_close s' (negb (N.eqb c 10)) (S k)
      else if N.eqb c 41 then Some (S k)
      else if is_space c then spaces_comments_close s' false (S k)
      else if N.eqb c 35 then spaces_comments_close s' true (S k)
      else if N.eqb c 92 then
             match s' with
             | d :: s'' => if N.eqb d 10 then spaces_comments_close s'' false (S (S k)) else None
             | [] => None
             end
      else None
  end.

(* (relative start, length) of the leftmost match of \(\s*\) *)
Fixpoint find_empty_tuple (s : text) (k : nat) : option (nat * nat) :=
  match s with
  | [] => None
  | c :: s' =>
      match (if N.eqb c 40 then spaces_close s' 1%nat else None) with
      | Some n => Some (k, n)
      | None => find_empty_tuple s' (S k)
      end
  end.

Fixpoint find_empty_tuple_c (s : text) (k : nat) : option (nat * nat) :=
  match s with
  | [] => None
  | c :: s' =>
      match (if N.eqb c 40 then spaces_comments_close s' false 1%nat else None) with
      | Some n => Some (k, n)
      | None => find_empty_tuple_c s' (S k)
      end
  end.

Definition tok_with : text := [119; 105; 116; 104]%N.
(* leftmost match of "with|," *)
Fixpoint find_with_or_comma (s : text) (k : nat) : option (nat * nat) :=
  if starts_with tok_with s then Some (k, 4%nat)
  else match s with
       | [] => None
       | c :: s' => if N.eqb c 44 then Some (k, 1%nat) else find_with_or_comma s' (S k)
       end.

(* _consume_pattern for a pattern the model evaluates itself *)
Fixpoint pattern_loop (fuel : text) (find : text -> nat -> option (nat * nat)) (c : cursor)
  : result (N * N * cursor) :=
  match fuel with
  | [] => Err E_fuel
  | _ :: fuel' =>
      match find (c_rest c) 0%nat with
      | None => Err E_regex_none
      | Some (k, n) =>
          if negb (in_comment k (c_rest c) false) then
            let c' := advance c (k + n)%nat in
            Ok (c_off c + N.of_nat k, c_off c', c')
          else
            match skip_comment c with
            | None => Err E_skip
            | Some c1 => pattern_loop fuel' find c1
            end
      end
  end.
Definition consume_pattern (find : text -> nat -> option (nat * nat)) (c : cursor) :=
  pattern_loop (0 :: c_rest c) find c.

(* rfind_token("(", start, end) on the segment of n characters beginning at s: relative index of the last
   '(' that is not inside a comment counted from the beginning of the segment.  (The code takes the last
   '(' by rindex, tests it with _good_token(start=start) and retries further left: the result is the last
   good one; computed here in one left-to-right pass.) *)
Fixpoint rfind_open (n : nat) (s : text) (k : nat) (flag : bool) (best : option nat) : option nat :=
  match n, s with
  | S n', c :: s' =>
      rfind_open n' s' (S k)
        (if N.eqb c 10 then false else if N.eqb c 35 then true else flag)
        (if N.eqb c 40 && negb flag then Some k else best)
  | _, _ => best
  end.

(* ------------------------------------------------------------------ _count_needed_parens *)
(* state: (unmatched ')' so far, currently open '(') *)
Fixpoint count_parens_str (s : text) (incomment : bool) (st : nat * nat) : nat * nat :=
  match s with
  | [] => st
  | c :: s' =>
      if incomment then count_parens_str s' (negb (N.eqb c 10)) st
      else if N.eqb c 41 then
             count_parens_str s' false
               (match st with (a, S o) => (a, o) | (a, O) => (S a, O) end)
      else if N.eqb c 40 then count_parens_str s' false (fst st, S (snd st))
      else if N.eqb c 35 then count_parens_str s' true st
      else count_parens_str s' false st
  end.

Definition count_parens_fmt (st : nat * nat) (f : text) : nat * nat :=
  match f with
  | [] => st
  | c :: _ => if N.eqb c 39 || N.eqb c 34 then st else count_parens_str f false st
  end.

Definition count_needed_parens (formats : list text) : nat * nat :=
  fold_left count_parens_fmt formats (0%nat, 0%nat).

(* ------------------------------------------------------------------ _handle *)
(* one processed item: (format text before it, token_start, what goes into sorted_children) *)
Definition piece := (text * N * pchild)%type.

Definition children_of_pieces (ps : list piece) : list pchild :=
  match ps with
  | [] => []
  | (_, _, pc) :: r => pc :: flat_map (fun p : piece => [PT (fst (fst p)); snd p]) r
  end.

Definition formats_of_pieces (ps : list piece) : list text :=
  match ps with
  | [] => []
  | _ :: r => map (fun p : piece => fst (fst p)) r
  end.

Definition start_of_pieces (entry : N) (ps : list piece) : N :=
  match ps with
  | [] => entry
  | (_, ts, _) :: _ => ts
  end.

(* for i in range(closes): new_end = consume(")")[1] *)
Fixpoint consume_closes (n : nat) (c : cursor) : result cursor :=
  match n with
  | O => Ok c
  | S n' =>
      match consume [41%N] c with
      | Err e => Err e
      | Ok (_, _, c1) => consume_closes n' c1
      end
  end.

(* for i in range(opens): new_start = rfind_token("(", 0, new_start) *)
Fixpoint find_opens (src : text) (n : nat) (start : N) : result N :=
  match n with
  | O => Ok start
  | S n' =>
      match rfind_open (N.to_nat start) src 0%nat false None with
      | None => Err E_rfind
      | Some k => find_opens src n' (N.of_nat k)
      end
  end.

(* the repaired loop: index = rfind_token("(", suspected_start, new_start); if index is None: break *)
Fixpoint find_opens_entry (c0 : cursor) (n : nat) (start : N) : N :=
  match n with
  | O => start
  | S n' =>
      match rfind_open (N.to_nat (start - c_off c0)) (c_rest c0) 0%nat false None with
      | None => start
      | Some k => find_opens_entry c0 n' (c_off c0 + N.of_nat k)
      end
  end.

Section Items.
  Variable ev : env.
  Variable rec : tnode -> cursor -> result (pnode * cursor).
  Variable joined : bool.

  Definition patch_item (it : item) (c : cursor) : result (N * pchild * cursor) :=
    match it with
    | ISub n =>
        match rec n c with
        | Err e => Err e
        | Ok (p, c1) => Ok (p_rs p, PN p, c1)
        end
    | IPending => Err E_pending
    | IRaised => Err E_dispatch
    | _ =>
        match (match it with
               | ITok t => if joined then consume_joined t c else consume t c
               | IRegex calls => regex_loop (e_len ev) calls c
               | IEmptyTuple =>
                   consume_pattern (if o_tuple_comments (e_opt ev) then find_empty_tuple_c else find_empty_tuple) c
               | _ => consume_pattern find_with_or_comma c
               end) with
        | Err e => Err e
        | Ok (s, e, c1) =>
            Ok (s, PT (firstn (N.to_nat (e - s)) (skipn (N.to_nat (s - c_off c)) (c_rest c))), c1)
        end
    end.

  Fixpoint patch_items (items : list item) (c : cursor) : result (list piece * cursor) :=
    match items with
    | [] => Ok ([], c)
    | it :: r =>
        match patch_item it c with
        | Err e => Err e
        | Ok (ts, pc, c1) =>
            match patch_items r c1 with
            | Err e => Err e
            | Ok (ps, c2) =>
                Ok ((firstn (N.to_nat (ts - c_off c)) (c_rest c), ts, pc) :: ps, c2)
            end
        end
    end.
End Items.

(* the state _handle carries after its loop: (start, sorted_children so far, cursor) *)
Definition hstate := (N * list pchild * cursor)%type.

(* _handle_parens: [c1] is the cursor after the last item *)
Definition handle_parens (ev : env) (c0 : cursor) (formats : list text) (st : hstate) : result hstate :=
  let '(start0, ch0, c1) := st in
  let '(opens, closes) := count_needed_parens formats in
  match consume_closes closes c1 with
  | Err e => Err e
  | Ok c2 =>
      let ch1 := match closes with
                 | O => ch0
                 | S _ => ch0 ++ [PT (firstn (N.to_nat (c_off c2 - c_off c1)) (c_rest c1))]
                 end in
      match (if o_opens_from_entry (e_opt ev) then Ok (find_opens_entry c0 opens start0)
             else find_opens (e_src ev) opens start0) with
      | Err e => Err e
      | Ok start1 =>
          Ok (start1,
              if N.eqb start1 start0 then ch1 else PT (slice (e_src ev) start1 start0) :: ch1,
              c2)
      end
  end.

(* _eat_surrounding_parens: [c0] is the cursor at the entry of _handle (suspected_start) *)
Definition eat_surrounding_parens (c0 : cursor) (st : hstate) : result hstate :=
  let '(start1, ch2, c2) := st in
  let entry := c_off c0 in
  match rfind_open (N.to_nat (start1 - entry)) (c_rest c0) 0%nat false None with
  | None => Ok st
  | Some k =>
      let idx := entry + N.of_nat k in
      match consume [41%N] c2 with
      | Err e => Err e
      | Ok (ts, _, c3) =>
          Ok (idx,
              PT [40%N]
              :: PT (firstn (N.to_nat (start1 - (idx + 1))) (skipn (k + 1)%nat (c_rest c0)))
              :: ch2
              ++ [PT (firstn (N.to_nat (ts - c_off c2)) (c_rest c2)); PT [41%N]],
              c3)
      end
  end.

(* the eat_spaces branch of _handle (Module) *)
Definition eat_spaces (ev : env) (st : hstate) : result hstate :=
  let '(start2, ch3, c3) := st in
  match consume (c_rest c3) c3 with
  | Err e => Err e
  | Ok (_, _, c4) => Ok (0, PT (slice (e_src ev) 0 start2) :: ch3 ++ [PT (c_rest c3)], c4)
  end.

(* what _handle does after its loop *)
Definition finish_node (ev : env) (cls : N) (fl : flags) (c0 : cursor) (ps : list piece) (c1 : cursor)
  : result (pnode * cursor) :=
  let entry := c_off c0 in
  match handle_parens ev c0 (if f_nofmt fl then [] else formats_of_pieces ps)
          (start_of_pieces entry ps, children_of_pieces ps, c1) with
  | Err e => Err e
  | Ok st1 =>
      match (if f_eat_parens fl then eat_surrounding_parens c0 st1 else Ok st1) with
      | Err e => Err e
      | Ok st2 =>
          match (if f_eat_spaces fl then eat_spaces ev st2 else Ok st2) with
          | Err e => Err e
          | Ok (start, ch, c) => Ok (PNode cls entry start (c_off c) ch, c)
          end
      end
  end.

Fixpoint patch_node (ev : env) (t : tnode) (c : cursor) {struct t} : result (pnode * cursor) :=
  match t with
  | TNode cls fl items =>
      match patch_items ev (patch_node ev) (f_joined fl) items c with
      | Err e => Err e
      | Ok (ps, c1) => finish_node ev cls fl c ps c1
      end
  end.

Definition mk_env (o : options) (src : text) : env :=
  {| e_src := src; e_len := N.of_nat (length src); e_opt := o |}.

(* patch_ast(ast.parse(source), source, True) on the captured template tree *)
Definition patch_opt (o : options) (src : text) (t : tnode) : result pnode :=
  match patch_node (mk_env o src) t {| c_off := 0; c_rest := src |} with
  | Err e => Err e
  | Ok (p, _) => Ok p
  end.

(* the code as it is in the repository *)
Definition patch (src : text) (t : tnode) : result pnode := patch_opt options_current src t.
(* the code before commits ed573d7 / aea6dd5 *)
Definition patch_original (src : text) (t : tnode) : result pnode := patch_opt options_original src t.

(* eat_spaces (pad to the whole text) is used by the root only *)
Fixpoint no_spaces (t : tnode) : bool :=
  match t with
  | TNode _ fl items =>
      negb (f_eat_spaces fl) &&
      (fix go (l : list item) : bool :=
         match l with
         | [] => true
         | ISub n :: r => no_spaces n && go r
         | _ :: r => go r
         end) items
  end.
Definition root_eats_spaces (t : tnode) : bool :=
  match t with TNode _ fl _ => f_eat_spaces fl end.

Definition spaces_only_at_root (t : tnode) : bool :=
  match t with
  | TNode _ _ items =>
      (fix go (l : list item) : bool :=
         match l with
         | [] => true
         | ISub n :: r => no_spaces n && go r
         | _ :: r => go r
         end) items
  end.

(* ------------------------------------------------------------------ predicates used by the theorems *)
(* every node's region begins at or after the cursor the walker had when it entered the node
   (false exactly when _handle_parens' rfind_token, which searches from offset 0, went left of it) *)
Fixpoint no_escape (p : pnode) : bool :=
  match p with
  | PNode _ entry rs _ ch =>
      N.leb entry rs &&
      (fix go (l : list pchild) : bool :=
         match l with
         | [] => true
         | PT _ :: r => go r
         | PN q :: r => no_escape q && go r
         end) ch
  end.

(* all nodes of an annotated tree, root first *)
Fixpoint subnodes (p : pnode) : list pnode :=
  p :: match p with
       | PNode _ _ _ _ ch =>
           (fix go (l : list pchild) : list pnode :=
              match l with
              | [] => []
              | PT _ :: r => go r
              | PN q :: r => subnodes q ++ go r
              end) ch
       end.

Fixpoint child_nodes (l : list pchild) : list pnode :=
  match l with
  | [] => []
  | PT _ :: r => child_nodes r
  | PN q :: r => q :: child_nodes r
  end.

(* sibling regions increasing and disjoint *)
Fixpoint ordered_from (lo : N) (l : list pnode) : Prop :=
  match l with
  | [] => True
  | q :: r => (lo <= p_rs q)%N /\ (p_rs q <= p_re q)%N /\ ordered_from (p_re q) r
  end.
