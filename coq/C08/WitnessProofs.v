(* C08 — facts about the captured witnesses (computed). *)
From Coq Require Import List NArith Bool String.
Import ListNotations.
From RopeVerif.Lib Require Import Text.
From RopeVerif.C08 Require Import Template TemplateProofs Runner Witness.
Local Open Scope N_scope.

(* the model (run as the code is now) reproduces what rope computed on both witnesses *)
Lemma w_good_agrees : run_case w_good = 0.
Proof. vm_compute. reflexivity. Qed.
Lemma w_escape_agrees : run_case w_escape = 0.
Proof. vm_compute. reflexivity. Qed.

(* a non-trivial input inside the domain of the theorems: comments containing brackets and keywords, a
   string containing a keyword and '#', a parenthesised operand, a parenthesised tuple over two lines *)
Lemma good_in_domain :
  exists p, patch (k_src w_good) (k_tree w_good) = Ok p /\
            spaces_only_at_root (k_tree w_good) = true /\ root_eats_spaces (k_tree w_good) = true /\
            (List.length (subnodes p) >= 15)%nat.
Proof.
  destruct (patch (k_src w_good) (k_tree w_good)) as [p|e] eqn:E; [|vm_compute in E; discriminate].
  exists p. split; [reflexivity|].
  assert (Hp : Ok p = patch (k_src w_good) (k_tree w_good)) by (symmetry; exact E).
  vm_compute in Hp. injection Hp as ->. vm_compute. repeat split; repeat constructor.
Qed.

(* the walker as it was before commit ed573d7 ([patch_original]) is not lossless: on the template tree rope
   builds for   x = f("#", (a).b)   the walk succeeds, the root swallows the whole text, and the text written
   back differs from the source (so do the sibling order and the cover of the Call node) *)
Lemma escape_not_lossless_original :
  exists src t p, patch_original src t = Ok p /\ spaces_only_at_root t = true /\ root_eats_spaces t = true /\
                  write p <> src /\ no_escape p = false.
Proof.
  exists (k_src w_escape), (k_tree w_escape).
  destruct (patch_original (k_src w_escape) (k_tree w_escape)) as [p|e] eqn:E; [|vm_compute in E; discriminate].
  exists p. split; [reflexivity|].
  assert (Hp : Ok p = patch_original (k_src w_escape) (k_tree w_escape)) by (symmetry; exact E).
  vm_compute in Hp. injection Hp as ->. split; [reflexivity|]. split; [reflexivity|]. split; [|vm_compute; reflexivity].
  vm_compute. discriminate.
Qed.

(* the same text and template tree under the current code: no escape, written back exactly *)
Lemma escape_witness_current :
  exists p, patch (k_src w_escape) (k_tree w_escape) = Ok p /\
            spaces_only_at_root (k_tree w_escape) = true /\ root_eats_spaces (k_tree w_escape) = true /\
            no_escape p = true /\ write p = k_src w_escape.
Proof.
  destruct (patch (k_src w_escape) (k_tree w_escape)) as [p|e] eqn:E; [|vm_compute in E; discriminate].
  exists p. split; [reflexivity|].
  assert (Hp : Ok p = patch (k_src w_escape) (k_tree w_escape)) by (symmetry; exact E).
  vm_compute in Hp. injection Hp as ->. vm_compute. repeat split.
Qed.

(* ------------------------------------------------------------------ a witness for the exact-region theorem *)
From RopeVerif.C08 Require Import Fragment FragmentProofs.

Definition sp : trivium := TBlank 32.
Definition nl : trivium := TBlank 10.
(*   # top (
     f ( a . b # c )
       , x ) + y  # end          *)
Definition frag_t0 : trivia := [TComment (T " top (")].
Definition frag_c : cexpr :=
  CBin
    (CCall (CName (T "f")) [sp]
       (AOne [sp] (CAttr (CName (T "a")) [sp] [sp] (T "b"))
          (MCons [sp; TComment (T " c )"); sp; sp] [sp] (CName (T "x")) MNil))
       [sp])
    [sp] (T "+") [sp] (CName (T "y")).
Definition frag_t1 : trivia := [sp; sp; TComment (T " end")].

Lemma frag_is_ropes_run :
  trivia_ok frag_t0 = true /\ cexpr_ok frag_c = true /\ trivia_ok frag_t1 = true /\
  render_module frag_t0 frag_c frag_t1 = k_src w_frag /\
  k_ast w_frag = Some (ast_module frag_c) /\
  k_rope w_frag = Ok (annot_module frag_t0 frag_c frag_t1) /\
  run_case w_frag = 0.
Proof. vm_compute. repeat split. Qed.
