(* C08 — the template table of rope/refactor/patchedast.py transcribed for a core of the syntax
   ([template_of]: what the _<NodeType> methods pass to _handle), and a concrete-syntax printer with arbitrary
   layout ([render]) for the expression core on which C08_exact_fragment is proved.

   [template_of] is tied to the code on every run: for every case whose nodes all belong to the table, the harness
   translates CPython's ast into an [ast] term and Runner.v compares [template_of] of it with the template tree
   captured from the running walker (item by item; only the recorded results of the string/number regular
   expressions are ignored).

   Definitions only; proofs are in FragmentProofs.v. *)
From Coq Require Import List NArith Bool.
From RopeVerif.Lib Require Import Text.
From RopeVerif.C08 Require Import Template.
Import ListNotations.
Local Open Scope N_scope.

(* ------------------------------------------------------------------ class numbers (fixed in harness/c08.py) *)
Definition cls_Module : N := 1.
Definition cls_Expr : N := 2.
Definition cls_Name : N := 3.
Definition cls_Attribute : N := 4.
Definition cls_Call : N := 5.
Definition cls_BinOp : N := 6.
Definition cls_UnaryOp : N := 7.
Definition cls_BoolOp : N := 8.
Definition cls_Compare : N := 9.
Definition cls_Subscript : N := 10.
Definition cls_Tuple : N := 11.
Definition cls_List : N := 12.
Definition cls_Constant : N := 13.
Definition cls_Assign : N := 14.
Definition cls_Return : N := 15.
Definition cls_If : N := 16.
Definition cls_While : N := 17.
Definition cls_For : N := 18.
Definition cls_FunctionDef : N := 19.
Definition cls_arguments : N := 20.
Definition cls_arg : N := 21.
Definition cls_Import : N := 22.
Definition cls_alias : N := 23.
Definition cls_keyword : N := 24.
Definition cls_Starred : N := 25.
Definition cls_Pass : N := 26.

Definition F0 : flags := {| f_eat_parens := false; f_eat_spaces := false; f_joined := false; f_nofmt := false |}.
Definition F_eat_parens : flags := {| f_eat_parens := true; f_eat_spaces := false; f_joined := false; f_nofmt := false |}.
Definition F_eat_spaces : flags := {| f_eat_parens := false; f_eat_spaces := true; f_joined := false; f_nofmt := false |}.

(* ------------------------------------------------------------------ abstract syntax of the table core *)
Inductive ast : Type :=
| AName (id : text)
| AConstRegex                                   (* number / string / bytes literal: consumed by a regular expression *)
| AConstTok (t : text)                          (* True / False / None / ... : str(value) is the token *)
| AAttr (v : ast) (attr : text)
| ACall (f : ast) (args : list ast)             (* args + keywords merged in source order; AKeyword / AStarred inside *)
| AKeyword (name : option text) (v : ast)       (* name=value, or **value *)
| AStarred (v : ast)
| AUnary (ops : list text) (e : ast)
| ABin (l : ast) (ops : list text) (r : ast)
| ABool (op : text) (vs : list ast)
| ACompare (l : ast) (rest : list (list text * ast))
| ASubscript (v sl : ast)
| ATuple (es : list ast)
| AList (es : list ast)
| AAssign (targets : list ast) (v : ast)
| AExpr (v : ast)
| AReturn (v : option ast)
| APass
| AIf (is_elif : bool) (test : ast) (body orelse : list ast) (orelse_is_elif : bool)
| AWhile (test : ast) (body orelse : list ast)
| AFor (target iter : ast) (body orelse : list ast)
| AFunctionDef (name : text) (params : list (text * option ast)) (vararg kwarg : option text) (body : list ast)
| AImport (names : list (list text * option text))
| AModule (body : list ast).

Definition tk (t : text) : item := ITok t.
Definition txt_dot : text := [46].
Definition txt_comma : text := [44].
Definition txt_open : text := [40].
Definition txt_close : text := [41].
Definition txt_colon : text := [58].
Definition txt_eq : text := [61].
Definition txt_lbr : text := [91].
Definition txt_rbr : text := [93].
Definition txt_star : text := [42].
Definition txt_dstar : text := [42; 42].
Definition txt_if : text := [105; 102].
Definition txt_elif : text := [101; 108; 105; 102].
Definition txt_else : text := [101; 108; 115; 101].
Definition txt_while : text := [119; 104; 105; 108; 101].
Definition txt_for : text := [102; 111; 114].
Definition txt_in : text := [105; 110].
Definition txt_def : text := [100; 101; 102].
Definition txt_return : text := [114; 101; 116; 117; 114; 110].
Definition txt_pass : text := [112; 97; 115; 115].
Definition txt_import : text := [105; 109; 112; 111; 114; 116].
Definition txt_as : text := [97; 115].

(* _PatchingASTWalker._operators, keyed by the numbers harness/c08_ast.py gives to the operator classes:
   And 1 Or 2 Add 3 Sub 4 Mult 5 Div 6 Mod 7 Pow 8 MatMult 9 LShift 10 RShift 11 BitOr 12 BitAnd 13 BitXor 14
   FloorDiv 15 Invert 16 Not 17 UAdd 18 USub 19 Eq 20 NotEq 21 Lt 22 LtE 23 Gt 24 GtE 25 Is 26 IsNot 27 In 28 NotIn 29;
   "is not" / "not in" are split on the blank, as _get_op does *)
Definition op_tokens (k : N) : list text :=
  match k with
  | 1 => [[97; 110; 100]] | 2 => [[111; 114]]
  | 3 => [[43]] | 4 => [[45]] | 5 => [[42]] | 6 => [[47]] | 7 => [[37]] | 8 => [[42; 42]] | 9 => [[64]]
  | 10 => [[60; 60]] | 11 => [[62; 62]] | 12 => [[124]] | 13 => [[38]] | 14 => [[94]] | 15 => [[47; 47]]
  | 16 => [[126]] | 17 => [[110; 111; 116]] | 18 => [[43]] | 19 => [[45]]
  | 20 => [[61; 61]] | 21 => [[33; 61]] | 22 => [[60]] | 23 => [[60; 61]] | 24 => [[62]] | 25 => [[62; 61]]
  | 26 => [[105; 115]] | 27 => [[105; 115]; [110; 111; 116]] | 28 => [[105; 110]]
  | 29 => [[110; 111; 116]; [105; 110]]
  | _ => []
  end.
Definition op_token1 (k : N) : text := match op_tokens k with t :: _ => t | [] => [] end.

(* _join / _child_nodes *)
Fixpoint join_items (sep : item) (l : list item) : list item :=
  match l with
  | [] => []
  | [x] => [x]
  | x :: r => x :: sep :: join_items sep r
  end.

Definition else_items (orelse : list item) : list item :=
  match orelse with
  | [] => []
  | _ => tk txt_else :: tk txt_colon :: orelse
  end.

Fixpoint template_of (a : ast) : tnode :=
  let sub (x : ast) : item := ISub (template_of x) in
  match a with
  | AName id => TNode cls_Name F0 [tk id]
  | AConstRegex => TNode cls_Constant F0 [IRegex []]
  | AConstTok t => TNode cls_Constant F0 [tk t]
  | AAttr v attr => TNode cls_Attribute F0 [sub v; tk txt_dot; tk attr]
  | ACall f args =>
      TNode cls_Call F0 (sub f :: tk txt_open :: join_items (tk txt_comma) (map sub args) ++ [tk txt_close])
  | AKeyword None v => TNode cls_keyword F0 [sub v]
  | AKeyword (Some n) v => TNode cls_keyword F0 [tk n; tk txt_eq; sub v]
  | AStarred v => TNode cls_Starred F0 [sub v]
  | AUnary ops e => TNode cls_UnaryOp F0 (map tk ops ++ [sub e])
  | ABin l ops r => TNode cls_BinOp F0 (sub l :: map tk ops ++ [sub r])
  | ABool op vs => TNode cls_BoolOp F0 (join_items (tk op) (map sub vs))
  | ACompare l rest =>
      TNode cls_Compare F0 (sub l :: flat_map (fun p : list text * ast => map tk (fst p) ++ [sub (snd p)]) rest)
  | ASubscript v sl => TNode cls_Subscript F0 [sub v; tk txt_lbr; sub sl; tk txt_rbr]
  | ATuple [] => TNode cls_Tuple F0 [IEmptyTuple]
  | ATuple es => TNode cls_Tuple F_eat_parens (join_items (tk txt_comma) (map sub es))
  | AList es => TNode cls_List F0 (tk txt_lbr :: join_items (tk txt_comma) (map sub es) ++ [tk txt_rbr])
  | AAssign targets v => TNode cls_Assign F0 (join_items (tk txt_eq) (map sub targets) ++ [tk txt_eq; sub v])
  | AExpr v => TNode cls_Expr F0 [sub v]
  | AReturn None => TNode cls_Return F0 [tk txt_return]
  | AReturn (Some v) => TNode cls_Return F0 [tk txt_return; sub v]
  | APass => TNode cls_Pass F0 [tk txt_pass]
  | AIf is_elif test body orelse orelse_is_elif =>
      TNode cls_If F0
        (tk (if is_elif then txt_elif else txt_if) :: sub test :: tk txt_colon :: map sub body
         ++ (if orelse_is_elif then map sub orelse else else_items (map sub orelse)))
  | AWhile test body orelse =>
      TNode cls_While F0 (tk txt_while :: sub test :: tk txt_colon :: map sub body ++ else_items (map sub orelse))
  | AFor target iter body orelse =>
      TNode cls_For F0
        (tk txt_for :: sub target :: tk txt_in :: sub iter :: tk txt_colon :: map sub body
         ++ else_items (map sub orelse))
  | AFunctionDef name params vararg kwarg body =>
      let one (p : text * option ast) : list item :=
        ISub (TNode cls_arg F0 [tk (fst p)])
        :: match snd p with
           | None => []
           | Some d => [tk txt_eq; sub d]
           end in
      let fix params_items (first : bool) (l : list (text * option ast)) : list item :=
        match l with
        | [] => []
        | p :: r => (if first then [] else [tk txt_comma]) ++ one p ++ params_items false r
        end in
      let has_args := match params with [] => false | _ => true end in
      let va := match vararg with
                | None => []
                | Some n => (if has_args then [tk txt_comma] else []) ++ [tk txt_star; tk n]
                end in
      let kw := match kwarg with
                | None => []
                | Some n =>
                    (if has_args || match vararg with Some _ => true | None => false end then [tk txt_comma] else [])
                    ++ [tk txt_dstar; tk n]
                end in
      TNode cls_FunctionDef F0
        (tk txt_def :: tk name :: tk txt_open
         :: ISub (TNode cls_arguments F0 (params_items true params ++ va ++ kw))
         :: tk txt_close :: tk txt_colon :: map sub body)
  | AImport names =>
      TNode cls_Import F0
        (tk txt_import
         :: join_items (tk txt_comma)
              (map (fun n : list text * option text =>
                      ISub (TNode cls_alias F0
                              (map tk (fst n)
                               ++ match snd n with None => [] | Some a => [tk txt_as; tk a] end)))
                   names))
  | AModule body => TNode cls_Module F_eat_spaces (map sub body)
  end.

(* comparison of a transcribed template with a captured one: everything but the recorded regex results *)
Fixpoint tshape_eqb (a b : tnode) {struct a} : bool :=
  match a, b with
  | TNode c1 f1 i1, TNode c2 f2 i2 =>
      N.eqb c1 c2
      && Bool.eqb (f_eat_parens f1) (f_eat_parens f2) && Bool.eqb (f_eat_spaces f1) (f_eat_spaces f2)
      && Bool.eqb (f_joined f1) (f_joined f2) && Bool.eqb (f_nofmt f1) (f_nofmt f2)
      && (fix go (l m : list item) {struct l} : bool :=
            match l, m with
            | [], [] => true
            | ITok t :: l', ITok u :: m' => text_eqb t u && go l' m'
            | ISub x :: l', ISub y :: m' => tshape_eqb x y && go l' m'
            | IRegex _ :: l', IRegex _ :: m' => go l' m'
            | IEmptyTuple :: l', IEmptyTuple :: m' => go l' m'
            | IWithOrComma :: l', IWithOrComma :: m' => go l' m'
            | _, _ => false
            end) i1 i2
  end.

(* ------------------------------------------------------------------ layout *)
(* one piece of layout between two tokens: a blank character, or a comment with its newline *)
Inductive trivium : Type :=
| TBlank (c : N)
| TComment (body : text).
Definition trivia := list trivium.

Definition is_blank (c : N) : bool := N.eqb c 32 || N.eqb c 9 || N.eqb c 10.

Definition trivium_ok (t : trivium) : bool :=
  match t with
  | TBlank c => is_blank c
  | TComment body => forallb (fun c => negb (N.eqb c 10)) body      (* anything but a newline *)
  end.
Definition trivia_ok (tr : trivia) : bool := forallb trivium_ok tr.

Definition render_trivium (t : trivium) : text :=
  match t with
  | TBlank c => [c]
  | TComment body => 35 :: body ++ [10]
  end.
Fixpoint render_tr (tr : trivia) : text :=
  match tr with
  | [] => []
  | t :: r => render_trivium t ++ render_tr r
  end.

(* a token that cannot be confused with layout: it starts with a visible character other than '#' *)
Definition visible (c : N) : bool := negb (is_blank c) && negb (N.eqb c 35).
Definition tok_ok (t : text) : bool :=
  match t with
  | [] => false
  | c :: _ => visible c
  end.

(* ------------------------------------------------------------------ concrete syntax of the expression core *)
Inductive cexpr : Type :=
| CName (id : text)
| CAttr (e : cexpr) (t1 t2 : trivia) (attr : text)                 (* e t1 . t2 attr *)
| CCall (f : cexpr) (t1 : trivia) (args : cargs) (t2 : trivia)     (* f t1 ( args t2 ) *)
| CBin (l : cexpr) (t1 : trivia) (op : text) (t2 : trivia) (r : cexpr)   (* l t1 op t2 r *)
with cargs : Type :=
| ANil
| AOne (ta : trivia) (a : cexpr) (more : cmore)                    (* ta a more *)
with cmore : Type :=
| MNil
| MCons (tc ta : trivia) (a : cexpr) (more : cmore).               (* tc , ta a more *)

Fixpoint rend (c : cexpr) : text :=
  match c with
  | CName id => id
  | CAttr e t1 t2 attr => rend e ++ render_tr t1 ++ txt_dot ++ render_tr t2 ++ attr
  | CCall f t1 args t2 => rend f ++ render_tr t1 ++ txt_open ++ rend_args args ++ render_tr t2 ++ txt_close
  | CBin l t1 op t2 r => rend l ++ render_tr t1 ++ op ++ render_tr t2 ++ rend r
  end
with rend_args (a : cargs) : text :=
  match a with
  | ANil => []
  | AOne ta a more => render_tr ta ++ rend a ++ rend_more more
  end
with rend_more (m : cmore) : text :=
  match m with
  | MNil => []
  | MCons tc ta a more => render_tr tc ++ txt_comma ++ render_tr ta ++ rend a ++ rend_more more
  end.

(* well-formedness of the layout and of the tokens *)
Fixpoint cexpr_ok (c : cexpr) : bool :=
  match c with
  | CName id => tok_ok id
  | CAttr e t1 t2 attr => cexpr_ok e && trivia_ok t1 && trivia_ok t2 && tok_ok attr
  | CCall f t1 args t2 => cexpr_ok f && trivia_ok t1 && cargs_ok args && trivia_ok t2
  | CBin l t1 op t2 r => cexpr_ok l && trivia_ok t1 && tok_ok op && trivia_ok t2 && cexpr_ok r
  end
with cargs_ok (a : cargs) : bool :=
  match a with
  | ANil => true
  | AOne ta a more => trivia_ok ta && cexpr_ok a && cmore_ok more
  end
with cmore_ok (m : cmore) : bool :=
  match m with
  | MNil => true
  | MCons tc ta a more => trivia_ok tc && trivia_ok ta && cexpr_ok a && cmore_ok more
  end.

(* the abstract syntax CPython gives for it *)
Fixpoint erase (c : cexpr) : ast :=
  match c with
  | CName id => AName id
  | CAttr e _ _ attr => AAttr (erase e) attr
  | CCall f _ args _ => ACall (erase f) (erase_args args)
  | CBin l _ op _ r => ABin (erase l) [op] (erase r)
  end
with erase_args (a : cargs) : list ast :=
  match a with
  | ANil => []
  | AOne _ a more => erase a :: erase_more more
  end
with erase_more (m : cmore) : list ast :=
  match m with
  | MNil => []
  | MCons _ _ a more => erase a :: erase_more more
  end.

Definition lenN (t : text) : N := N.of_nat (length t).

(* the annotation the property asks for: every node's region is exactly the extent of its own text (no layout
   around it), its sorted_children are exactly its tokens, its children and the layout between them.
   [entry] = cursor at which the walker enters the node, [start] = offset of the node's first character *)
Fixpoint annot (entry start : N) (c : cexpr) : pnode :=
  match c with
  | CName id => PNode cls_Name entry start (start + lenN id) [PT id]
  | CAttr e t1 t2 attr =>
      PNode cls_Attribute entry start (start + lenN (rend c))
        [PN (annot entry start e); PT (render_tr t1); PT txt_dot; PT (render_tr t2); PT attr]
  | CCall f t1 args t2 =>
      let p := start + lenN (rend f) + lenN (render_tr t1) + 1 in     (* just after the '(' *)
      PNode cls_Call entry start (start + lenN (rend c))
        (PN (annot entry start f) :: PT (render_tr t1) :: PT txt_open
         :: annot_args p args ++ [PT (render_tr t2); PT txt_close])
  | CBin l t1 op t2 r =>
      let p := start + lenN (rend l) + lenN (render_tr t1) + lenN op in   (* just after the operator *)
      PNode cls_BinOp entry start (start + lenN (rend c))
        [PN (annot entry start l); PT (render_tr t1); PT op; PT (render_tr t2);
         PN (annot p (p + lenN (render_tr t2)) r)]
  end
with annot_args (p : N) (a : cargs) : list pchild :=
  match a with
  | ANil => []
  | AOne ta a more =>
      let s := p + lenN (render_tr ta) in
      PT (render_tr ta) :: PN (annot p s a) :: annot_more (s + lenN (rend a)) more
  end
with annot_more (p : N) (m : cmore) : list pchild :=
  match m with
  | MNil => []
  | MCons tc ta a more =>
      let q := p + lenN (render_tr tc) + 1 in                      (* just after the ',' *)
      let s := q + lenN (render_tr ta) in
      PT (render_tr tc) :: PT txt_comma :: PT (render_tr ta) :: PN (annot q s a)
      :: annot_more (s + lenN (rend a)) more
  end.

(* a module made of one expression statement: layout, the expression, layout *)
Definition render_module (t0 : trivia) (c : cexpr) (t1 : trivia) : text :=
  render_tr t0 ++ rend c ++ render_tr t1.
Definition ast_module (c : cexpr) : ast := AModule [AExpr (erase c)].
Definition annot_module (t0 : trivia) (c : cexpr) (t1 : trivia) : pnode :=
  let s := lenN (render_tr t0) in
  PNode cls_Module 0 0 (lenN (render_module t0 c t1))
    [PT (render_tr t0);
     PN (PNode cls_Expr 0 s (s + lenN (rend c)) [PN (annot 0 s c)]);
     PT (render_tr t1)].
