(* Correspondence runner for C18.  One [group] = one real save of a real project: the harness records
   the byte strings involved, what pickle.load did on every prefix (the table), the program-order trace
   of the save (opens / writes / closes as rope issued them), the final disk, and for every crash state it
   materialised what rope did when the project was reopened.  Everything is compared here, by
   vm_compute, against the model of Persist.v instantiated with the table instance of Table.v. *)
From Coq Require Import List NArith ZArith Bool Arith.
From RopeVerif.Lib Require Import Text.
From RopeVerif.C18 Require Import Persist Table.
Import ListNotations.

(* observed outcome of a load: the value loaded (index into the value table) or the exception class
   (0 EOFError, 1 pickle.UnpicklingError, 2 anything else) *)
Inductive obs := ObsLoaded (vid : N) | ObsRaised (cls : N).

Record cstate := {
  cs_wi : N;                               (* writes before this one are complete *)
  cs_stage : N;                            (* 0 before the opens of write wi; 1 pickle opened only; 2 both opened *)
  cs_np : N; cs_nj : N;                    (* stage 2: bytes of the pickle / side file on disk *)
  cs_disk : list (option (N * N));         (* the disk the harness materialised: per file (blob, length) *)
  cs_odb : obs; cs_hist : obs;             (* rope: MemoryDB._files after Project(...); project.history *)
  cs_names : obs;                          (* rope: AutoImport(project).names *)
  cs_full : bool                           (* also execute the step list (quadratic; sampled) *)
}.

Record rcase := { rc_disk : list (option (N * N)); rc_odb : obs; rc_hist : obs; rc_names : obs }.

Record group := {
  g_blobs : list bytes;
  g_vals : list pval;
  g_tbl : list (N * N * list N);           (* value index, blob index, EOFError prefix lengths *)
  g_d0 : list (option N);                  (* disk before the save: blob per file, order of all_files *)
  g_writes : list (dfile * N * N * N);     (* data file, value index, pickle blob, json blob *)
  g_trace : list tev;
  g_final : list (option N);               (* disk after the save as read back *)
  g_old : N * N * N;                       (* value indices rope loads from d0: objectdb, history, globalnames *)
  g_live : option (N * N);                 (* History at the save: hist_data of its untrimmed lists, max_undos *)
  g_states : list cstate;
  g_reads : list rcase
}.

Definition nthN {A} (l : list A) (i : N) (dflt : A) : A := nth (N.to_nat i) l dflt.
Definition blob (g : group) (i : N) : bytes := nthN (g_blobs g) i [].
Definition val (g : group) (i : N) : pval := nthN (g_vals g) i (PStr [0%N]).

Definition table (g : group) : list tentry :=
  map (fun e => match e with (v, b, eofs) => {| t_val := val g v; t_bytes := blob g b; t_eofs := eofs |} end) (g_tbl g).

Definition writes (g : group) : list write :=
  map (fun w => match w with (f, v, p, j) =>
                  {| w_file := f; w_val := val g v; w_pickle := blob g p; w_json := blob g j |} end) (g_writes g).

Definition file_index (x : file) : nat :=
  match x with
  | P Objectdb => 0 | J Objectdb => 1 | P History => 2 | J History => 3 | P Globalnames => 4 | J Globalnames => 5
  end.

Definition disk_of_blobs (g : group) (l : list (option N)) : disk :=
  fun x => match nth (file_index x) l None with Some i => Some (blob g i) | None => None end.
Definition disk_of_prefixes (g : group) (l : list (option (N * N))) : disk :=
  fun x => match nth (file_index x) l None with
           | Some (i, n) => Some (firstn (N.to_nat n) (blob g i))
           | None => None
           end.

Fixpoint bytes_eqb (a b : bytes) : bool :=
  match a, b with [], [] => true | x :: a', y :: b' => N.eqb x y && bytes_eqb a' b' | _, _ => false end.
Definition content_eqb (a b : option bytes) : bool :=
  match a, b with Some x, Some y => bytes_eqb x y | None, None => true | _, _ => false end.
Definition disk_eqb (d d' : disk) : bool := forallb (fun x => content_eqb (d x) (d' x)) all_files.

(* ---- the disk of a crash state, computed directly (C18_every_byte_prefix_is_a_crash_state) --------- *)
Definition complete_disk (ws : list write) (d0 : disk) : disk :=
  fold_left (fun d w => upd (upd d (P (w_file w)) (Some (w_pickle w))) (J (w_file w)) (Some (w_json w))) ws d0.

Definition dummy_write : write := {| w_file := History; w_val := PNone; w_pickle := []; w_json := [] |}.

Definition prefix_steps (w : write) (stage np nj : N) : list step :=
  if N.eqb stage 0 then []
  else if N.eqb stage 1 then [OpenTrunc (P (w_file w))]
  else [OpenTrunc (P (w_file w)); OpenTrunc (J (w_file w))]
         ++ map (Append (P (w_file w))) (firstn (N.to_nat np) (w_pickle w))
         ++ map (Append (J (w_file w))) (firstn (N.to_nat nj) (w_json w)).

Definition canon_disk (ws : list write) (d0 : disk) (wi stage np nj : N) : disk :=
  let base := complete_disk (firstn (N.to_nat wi) ws) d0 in
  let w := nth (N.to_nat wi) ws dummy_write in
  if N.eqb stage 0 then base
  else if N.eqb stage 1 then upd base (P (w_file w)) (Some [])
  else upd (upd base (P (w_file w)) (Some (firstn (N.to_nat np) (w_pickle w))))
           (J (w_file w)) (Some (firstn (N.to_nat nj) (w_json w))).

Definition stepped_disk (ws : list write) (d0 : disk) (wi stage np nj : N) : disk :=
  run (save_steps (firstn (N.to_nat wi) ws) ++ prefix_steps (nth (N.to_nat wi) ws dummy_write) stage np nj) d0.

(* ---- comparing outcomes --------------------------------------------------------------------------- *)
(* 0 EOFError, 1 UnpicklingError, 2 TypeError, 3 IndexError, 4 KeyError, 5 AttributeError (6: anything else) *)
Definition exn_code (e : exn) : N :=
  match e with
  | ExEOF => 0 | ExUnpickling => 1 | ExType => 2 | ExIndex => 3 | ExKey => 4 | ExAttribute => 5 | ExFuel => 99
  end.

Definition odb_agrees (g : group) (m : ores) (o : obs) : bool :=
  match m, o with
  | OOk v, ObsLoaded i => pval_eqb v (val g i)
  | ORaised e, ObsRaised c => N.eqb (exn_code e) c
  | _, _ => false
  end.
Definition hist_agrees (g : group) (m : hres) (o : obs) : bool :=
  match m, o with
  | HOk u r, ObsLoaded i => pval_eqb (hist_data u r) (val g i)
  | HRaised e, ObsRaised c => N.eqb (exn_code e) c
  | _, _ => false
  end.

Definition model_odb (g : group) (catches : exn -> bool) (d : disk) : ores :=
  load_files (read_data (tbl_unpickle (table g)) catches d Objectdb).
Definition model_hist (g : group) (catches : exn -> bool) (d : disk) : hres :=
  load_history (read_data (tbl_unpickle (table g)) catches d History).
Definition model_names (g : group) (catches : exn -> bool) (d : disk) : ores :=
  load_names (read_data (tbl_unpickle (table g)) catches d Globalnames).
Definition old_odb (g : group) : N := fst (fst (g_old g)).
Definition old_hist (g : group) : N := snd (fst (g_old g)).
Definition old_names (g : group) : N := snd (g_old g).

(* the conclusion of C18_objectdb_usable / C18_history_usable, evaluated on the repaired model *)
Definition written_vals (g : group) (f : dfile) : list pval :=
  map w_val (filter (fun w => dfile_eqb (w_file w) f) (writes g)).
Definition odb_in_spec (g : group) (m : ores) : bool :=
  match m with
  | OOk v => files_ok v
             && (pval_eqb v (val g (old_odb g)) || pval_eqb v (PDict [])
                 || existsb (pval_eqb v) (written_vals g Objectdb))
  | _ => false
  end.
Definition hist_in_spec (g : group) (m : hres) : bool :=
  match m with
  | HOk u r => let v := hist_data u r in
               pval_eqb v (val g (old_hist g)) || pval_eqb v (hist_data [] [])
               || existsb (pval_eqb v) (written_vals g History)
  | _ => false
  end.

Definition names_in_spec (g : group) (m : ores) : bool :=
  match m with
  | OOk v => names_ok v
             && (pval_eqb v (val g (old_names g)) || pval_eqb v (PDict [])
                 || existsb (pval_eqb v) (written_vals g Globalnames))
  | _ => false
  end.

Definition bit (b : bool) (n : N) : N := if b then n else 0%N.

(* 4 / 8 / 256: rope differs from the repaired model (object db / history / global names); 16 / 32 / 512: from
   the model of the reader as it stood before the fix; 64: the repaired model leaves the theorems' conclusion *)
Definition outcome_code (g : group) (d : disk) (o_odb o_hist o_names : obs) (in_crash : bool) : N :=
  let mo := model_odb g catches_repaired d in
  let mh := model_hist g catches_repaired d in
  let mn := model_names g catches_repaired d in
  (bit (negb (odb_agrees g mo o_odb)) 4
   + bit (negb (hist_agrees g mh o_hist)) 8
   + bit (negb (odb_agrees g mn o_names)) 256
   + bit (negb (odb_agrees g (model_odb g catches_current d) o_odb)) 16
   + bit (negb (hist_agrees g (model_hist g catches_current d) o_hist)) 32
   + bit (negb (odb_agrees g (model_names g catches_current d) o_names)) 512
   + bit (if in_crash then negb (odb_in_spec g mo && hist_in_spec g mh && names_in_spec g mn) else false) 64)%N.

(* 1: executing the step list gives another disk than the direct computation; 2: the harness
   materialised another disk than the model's crash state *)
Definition state_code (g : group) (s : cstate) : N :=
  let ws := writes g in
  let d0 := disk_of_blobs g (g_d0 g) in
  let d := canon_disk ws d0 (cs_wi s) (cs_stage s) (cs_np s) (cs_nj s) in
  ((* vm_compute is call-by-value: [if], not [&&], keeps the quadratic execution to the sampled states *)
   bit (if cs_full s then negb (disk_eqb (stepped_disk ws d0 (cs_wi s) (cs_stage s) (cs_np s) (cs_nj s)) d) else false) 1
   + bit (negb (disk_eqb d (disk_of_prefixes g (cs_disk s)))) 2
   + outcome_code g d (cs_odb s) (cs_hist s) (cs_names s) true)%N.

Definition read_code (g : group) (r : rcase) : N :=
  outcome_code g (disk_of_prefixes g (rc_disk r)) (rc_odb r) (rc_hist r) (rc_names r) false.

Fixpoint codes_from {A} (f : A -> N) (i : N) (l : list A) : list (N * N) :=
  match l with
  | [] => []
  | x :: r => let c := f x in
              if N.eqb c 0 then codes_from f (N.succ i) r else (i, c) :: codes_from f (N.succ i) r
  end.

(* ---- group-level checks --------------------------------------------------------------------------- *)
(* a history value written by History.write is hist_data of what DataToChange makes of it *)
Definition is_history_value (v : pval) : bool :=
  match load_history (Loaded v) with HOk u r => pval_eqb (hist_data u r) v | _ => false end.

Definition write_in_domain (w : write) : bool :=
  match w_file w with
  | History => is_history_value (w_val w)
  | Objectdb => files_ok (w_val w)
  | Globalnames => names_ok (w_val w)
  end.

(* History.write: what is written is history_write_val max_undos undo redo of the live lists *)
Definition history_write_ok (g : group) (ws : list write) : bool :=
  match g_live g with
  | None => true
  | Some (vi, m) =>
      match load_history (Loaded (val g vi)) with
      | HOk u r =>
          forallb (fun w => match w_file w with
                            | History => pval_eqb (history_write_val (N.to_nat m) u r) (w_val w)
                            | _ => true
                            end) ws
      | _ => false
      end
  end.

(* the shape of [close_writes]: MemoryDB.write (registered at construction) first, each data file once *)
Fixpoint no_dup_files (l : list dfile) : bool :=
  match l with [] => true | f :: r => negb (existsb (dfile_eqb f) r) && no_dup_files r end.
Definition is_close_writes (ws : list write) : bool :=
  no_dup_files (map w_file ws)
  && match ws with
     | [] => true
     | w :: r => dfile_eqb (w_file w) Objectdb || negb (existsb (fun w' => dfile_eqb (w_file w') Objectdb) r)
     end.

(* 256 the traced writer's direct meaning (exec_trace) is not the final disk;
   128 the history written is not history_write_val of the live lists (trimming);
   64 the writes are not in the hook order of Project.close;
   1 trace is not save_steps; 2 final disk is not run save_steps; 4 the table instance breaks the laws;
   8 a written value is outside the domain of the consumer theorems; 16 the old values rope loads differ
   from the model's; 32 a write's pickle is not in the table with its value *)
Definition group_code (g : group) : N :=
  let ws := writes g in
  let d0 := disk_of_blobs g (g_d0 g) in
  let tbl := table g in
  (bit (negb match trace_steps (g_trace g) with Some s => steps_eqb s (save_steps ws) | None => false end) 1
   + bit (negb (disk_eqb (run (save_steps ws) d0) (disk_of_blobs g (g_final g)))) 2
   + bit (negb (forallb (good_pickleb tbl) tbl)) 4
   + bit (negb (forallb write_in_domain ws)) 8
   + bit (negb (odb_agrees g (model_odb g catches_repaired d0) (ObsLoaded (old_odb g))
                && hist_agrees g (model_hist g catches_repaired d0) (ObsLoaded (old_hist g))
                && odb_agrees g (model_names g catches_repaired d0) (ObsLoaded (old_names g)))) 16
   + bit (negb (forallb (fun w => is_value_of (w_val w) (tbl_unpickle tbl (w_pickle w))) ws)) 32
   + bit (negb (is_close_writes ws)) 64
   + bit (negb (history_write_ok g ws)) 128
   + bit (negb (disk_eqb (exec_trace (g_trace g) d0) (disk_of_blobs g (g_final g)))) 256)%N.

Definition run_group (g : group) : N * list (N * N) * list (N * N) :=
  (group_code g, codes_from (state_code g) 0 (g_states g), codes_from (read_code g) 0 (g_reads g)).
