(* Concrete instances: the refutation witness for the reader as it stands in rope, and non-vacuity
   examples for the hypotheses of the C18 theorems.

   The save of an empty history: pickle.dumps([[], []], 2) = 80 02 5d 71 00 28 5d 71 01 5d 71 02 65 2e;
   pickle.load raises EOFError on the strict prefixes of length 2 3 5 6 7 9 10 12 13 and UnpicklingError
   on those of length 1 4 8 11 (CPython 3.12; the harness re-measures this on every run, and
   findings/C18-truncated-history.json replays this very state on rope). *)
From Coq Require Import List NArith ZArith Bool Arith Lia.
From RopeVerif.Lib Require Import Text.
From RopeVerif.C18 Require Import Persist Table PersistProofs.
Import ListNotations.

Definition wit_val : pval := hist_data [] [].
Definition wit_bytes : bytes := [128; 2; 93; 113; 0; 40; 93; 113; 1; 93; 113; 2; 101; 46]%N.
Definition wit_entry : tentry :=
  {| t_val := wit_val; t_bytes := wit_bytes; t_eofs := [2; 3; 5; 6; 7; 9; 10; 12; 13]%N |}.
Definition wit_tbl : list tentry := [wit_entry].
Definition wit_write : write :=
  {| w_file := History; w_val := wit_val; w_pickle := wit_bytes;
     w_json := [91; 91; 93; 44; 32; 91; 93; 93]%N |}.
Definition no_files : disk := fun _ => None.
(* both files opened (truncated), 4 bytes of the pickle on disk, nothing of the side file yet *)
Definition wit_disk : disk := run (save_steps [] ++ partial_write wit_write 4 0) no_files.

Lemma wit_good : Forall (good_write (tbl_unpickle wit_tbl)) [wit_write].
Proof.
  constructor; [|constructor]. unfold good_write.
  apply (good_pickleb_sound wit_tbl wit_entry). vm_compute. reflexivity.
Qed.

Lemma wit_crash : crash_state (save_steps [wit_write]) no_files wit_disk.
Proof. exact (every_prefix_is_crash_state [] wit_write [] 4 0 no_files). Qed.

Lemma truncated_pickle_refuted :
  exists (unpickle : bytes -> load) (ws : list write) (d0 d : disk),
    unpickle [] = Eof /\ Forall (good_write unpickle) ws
    /\ crash_state (save_steps ws) d0 d
    /\ read_data unpickle catches_current d0 History = Loaded PNone
    /\ read_data unpickle catches_current d History = Raised ExUnpickling
    /\ load_history (read_data unpickle catches_current d History) = HRaised ExUnpickling.
Proof.
  exists (tbl_unpickle wit_tbl), [wit_write], no_files, wit_disk.
  split; [reflexivity|]. split; [exact wit_good|]. split; [exact wit_crash|].
  split; [reflexivity|]. split; vm_compute; reflexivity.
Qed.

(* Non-vacuity: the hypotheses of the theorems are satisfied by this save (laws, crash state), and the
   repaired reader opens the half-written state as an empty history and the finished save as written. *)
Lemma hypotheses_satisfiable :
  exists (unpickle : bytes -> load) (ws : list write) (d0 d : disk),
    unpickle [] = Eof /\ repaired catches_repaired /\ Forall (good_write unpickle) ws
    /\ crash_state (save_steps ws) d0 d
    /\ d (P History) = Some [128; 2; 93; 113]%N
    /\ read_data unpickle catches_repaired d History = Loaded PNone
    /\ load_history (read_data unpickle catches_repaired (run (save_steps ws) d0) History) = HOk [] [].
Proof.
  exists (tbl_unpickle wit_tbl), [wit_write], no_files, wit_disk.
  split; [reflexivity|]. split; [split; reflexivity|]. split; [exact wit_good|].
  split; [exact wit_crash|]. split; [reflexivity|]. split; vm_compute; reflexivity.
Qed.

(* a history with content: one edit inside a change set, then written and loaded *)
Definition ex_change : chg :=
  CSet (PStr [101]%N) [CContents (PStr [109]%N) (PStr [120]%N) (PStr [])] (PFloat [49; 46; 53]%N).

Lemma history_roundtrip_example :
  load_history (Loaded (history_write_val 1 [CMove (PStr [97]%N) (PStr [98]%N) false; ex_change] [ex_change]))
  = HOk [ex_change] [ex_change].
Proof. reflexivity. Qed.

Definition ex_files : pval :=
  PDict [(PStr [109]%N, PDict [(PStr [102]%N, PObj s_ScopeInfo (PTuple [PDict []; PDict []]))])].

Lemma files_ok_example : files_ok ex_files = true /\ load_files (Loaded ex_files) = OOk ex_files.
Proof. split; reflexivity. Qed.

(* two sessions: the first save dies after 4 bytes of the history, the next one completes *)
Lemma sessions_example :
  evolves (tbl_unpickle wit_tbl) no_files (([] ++ [wit_write]) ++ [wit_write]) (run (save_steps [wit_write]) wit_disk)
  /\ read_data (tbl_unpickle wit_tbl) catches_repaired (run (save_steps [wit_write]) wit_disk) History = Loaded wit_val.
Proof.
  split; [|vm_compute; reflexivity].
  eapply ev_save; [eapply ev_save; [apply ev_refl; reflexivity|exact wit_good|exact wit_crash]|exact wit_good|].
  apply complete_is_crash_state.
Qed.

(* complete pickles of something else than a history (no crash produces them: C18_reader_total): the history
   consumer is not total on them, the dict consumers take anything *)
Lemma foreign_values_example :
  load_history (Loaded (PInt 5)) = HRaised ExType
  /\ load_history (Loaded (PDict [])) = HRaised ExKey
  /\ load_history (Loaded (PStr [])) = HRaised ExIndex
  /\ load_history (Loaded (PStr [97; 98]%N)) = HRaised ExAttribute
  /\ load_history (Loaded (PDict [(PInt 0, PList []); (PBool true, PTuple [])])) = HOk [] []
  /\ load_files (Loaded (PInt 5)) = OOk (PInt 5).
Proof. repeat split; reflexivity. Qed.

Definition ex_names : pval := PDict [(PStr [109]%N, PList [PStr [102]%N; PStr [120]%N])].
Lemma names_ok_example : names_ok ex_names = true /\ load_names (Loaded ex_names) = OOk ex_names.
Proof. split; reflexivity. Qed.

Lemma trace_example :
  trace_steps [TOpen (P History) true; TWrite (P History) [1; 2]%N; TClose (P History)]
  = Some [OpenTrunc (P History); Append (P History) 1%N; Append (P History) 2%N; Close (P History)].
Proof. reflexivity. Qed.
