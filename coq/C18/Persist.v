(* C18 — an interrupted save never leaves a project that cannot be opened.

   Model of rope/base/project.py (_DataFiles.write_data / read_data / write, Project.close),
   rope/base/history.py (History._load_history / write), rope/base/oi/memorydb.py
   (MemoryDB._load_files / write) and rope/base/change.py (ChangeToData / DataToChange).
   Definitions only; proofs are in PersistProofs.v.

   Disk: the files rope writes under .ropeproject at close ("objectdb", "history" and, when the pickle
   based contrib.autoimport is in use, "globalnames", each with its ".json" side file), each absent or
   holding a byte string.  A save is a list of steps in
   the order the code performs them; buffering delays appends, so the states a crash can leave are
   the disks after every prefix of every schedule that keeps each file's own steps in program order.
   Unpickling is a Section variable constrained only by the laws [good_pickle]/[unpickle [] = Eof],
   which the harness validates against the real pickle module on every case. *)
From Coq Require Import List NArith ZArith Bool Arith.
From RopeVerif.Lib Require Import Text.
Import ListNotations.

Notation bytes := (list N).

(* ------------------------------------------------------------------------------------------------ *)
(* Python values that are pickled into the data files                                                *)
Inductive pval :=
| PStr (s : text) | PInt (z : Z) | PBool (b : bool) | PNone
| PFloat (repr : text)                       (* a float, identified by its repr() *)
| PTuple (l : list pval) | PList (l : list pval) | PDict (kvs : list (pval * pval))
| PObj (cls : text) (state : pval).          (* instance of a class, e.g. memorydb.ScopeInfo *)

(* ------------------------------------------------------------------------------------------------ *)
(* Files and disk                                                                                    *)
Inductive dfile := History | Objectdb
                 | Globalnames.   (* rope.contrib.autoimport.pickle.AutoImport: the third user of _DataFiles *)
Inductive file := P (f : dfile)              (* the pickle: .ropeproject/<name> *)
                | J (f : dfile).             (* the side file: .ropeproject/<name>.json *)

Definition dfile_eqb (a b : dfile) : bool :=
  match a, b with History, History | Objectdb, Objectdb | Globalnames, Globalnames => true | _, _ => false end.
Definition file_eqb (a b : file) : bool :=
  match a, b with P f, P g | J f, J g => dfile_eqb f g | _, _ => false end.

Definition disk := file -> option bytes.     (* None: the file does not exist *)
Definition upd (d : disk) (x : file) (c : option bytes) : disk :=
  fun y => if file_eqb x y then c else d y.

Inductive step :=
| OpenTrunc (x : file)                       (* open(path, "wb") / open(path, "w"): create or truncate *)
| Append (x : file) (b : N)                  (* one byte reaches the file *)
| Close (x : file).

Definition step_file (s : step) : file :=
  match s with OpenTrunc x | Append x _ | Close x => x end.
Definition is_append (s : step) : bool := match s with Append _ _ => true | _ => false end.

(* effect of a step on the content of the file it addresses *)
Definition step_content (s : step) (c : option bytes) : option bytes :=
  match s with
  | OpenTrunc _ => Some []
  | Append _ b => match c with Some l => Some (l ++ [b]) | None => None end
                  (* an append to a file that was never opened cannot happen in a schedule *)
  | Close _ => c
  end.
Definition do_step (s : step) (d : disk) : disk := upd d (step_file s) (step_content s (d (step_file s))).
Fixpoint run (l : list step) (d : disk) : disk :=
  match l with [] => d | s :: r => run r (do_step s d) end.

(* ------------------------------------------------------------------------------------------------ *)
(* Writer: _DataFiles.write_data(name, data)
     with ExitStack() as cm:
         output_file  = cm.enter_context(open(path, "wb"))
         output_file2 = cm.enter_context(open(path + ".json", "w"))
         pickle.dump(data, output_file, 2)
         json.dump(data, output_file2, default=...)
   ExitStack closes in reverse order: the json file first, then the pickle.
   The pickle bytes are part of the write (pickling is not a function of the abstract value: memo
   opcodes depend on object identity); they are tied to the value by [good_pickle] below. *)
Record write := { w_file : dfile; w_val : pval; w_pickle : bytes; w_json : bytes }.

Definition write_steps (w : write) : list step :=
  let f := w_file w in
  [OpenTrunc (P f); OpenTrunc (J f)]
    ++ map (Append (P f)) (w_pickle w)
    ++ map (Append (J f)) (w_json w)
    ++ [Close (J f); Close (P f)].

(* _DataFiles.write(): the hooks in registration order, each performing one write_data *)
Definition save_steps (ws : list write) : list step := flat_map write_steps ws.

(* Project.close(): the hooks run in registration order. MemoryDB.write was registered when the project
   was constructed (PyCore is forced by Project._init_other_parts), History.write when project.history was
   first used, AutoImport._write when an AutoImport object was made; MemoryDB and History write only when
   their preference (save_objectdb / save_history) is on. [hooks]: what each registered hook writes. *)
Definition close_writes (odb : option write) (later_hooks : list (option write)) : list write :=
  match odb with Some w => [w] | None => [] end
  ++ flat_map (fun h => match h with Some w => [w] | None => [] end) later_hooks.

(* ------------------------------------------------------------------------------------------------ *)
(* Schedules and crash states                                                                        *)
Definition proj (x : file) (l : list step) : list step :=
  filter (fun s => file_eqb (step_file s) x) l.
Definition syscalls (l : list step) : list step := filter (fun s => negb (is_append s)) l.

(* [l] is a way the steps of program [prog] can reach the disk: every file sees its own steps in
   program order (a buffered byte is written late, but before the file's close and after the bytes
   buffered before it), and opens/closes happen in program order.  This contains every reordering
   that buffering allows (and reorderings it does not allow, e.g. a byte reaching the pickle before
   the side file is opened: the theorems hold for the larger set). *)
Definition schedule_of (prog l : list step) : Prop :=
  (forall x, proj x l = proj x prog) /\ syscalls l = syscalls prog.

(* What buffering does, exactly: a byte handed to a buffered file reaches the disk later than in program
   order - it is postponed past later steps on OTHER files, one at a time, never past a step on its own
   file (its close flushes it; later bytes of the same file queue behind it).  Every such reordering is
   a schedule (PersistProofs.delays_schedule), so the theorems cover all of them. *)
Inductive delays : list step -> list step -> Prop :=
| delays_refl l : delays l l
| delays_swap a x b s c l :
    file_eqb (step_file s) x = false ->
    delays (a ++ s :: Append x b :: c) l ->
    delays (a ++ Append x b :: s :: c) l.

Definition crash_state (prog : list step) (d0 d : disk) : Prop :=
  exists l k, schedule_of prog l /\ forall x, d x = run (firstn k l) d0 x.

(* exactly the states buffering can leave: prefixes of delayed orders of the program *)
Definition buffered_crash_state (prog : list step) (d0 d : disk) : Prop :=
  exists l k, delays prog l /\ forall x, d x = run (firstn k l) d0 x.

(* The abstract writer the tracer observes: per file, open (truncating or not), writes of byte chunks, close,
   in program order.  [trace_steps] is its translation into steps (None when an open does not truncate: such a
   writer is outside the model) and [exec_trace] its direct meaning on a disk where every write reaches the
   file at once (no buffering); PersistProofs.trace_simulation: the two agree. *)
Inductive tev := TOpen (x : file) (trunc : bool) | TWrite (x : file) (bs : bytes) | TClose (x : file).

Fixpoint trace_steps (t : list tev) : option (list step) :=
  match t with
  | [] => Some []
  | e :: r =>
      match trace_steps r with
      | None => None
      | Some s =>
          match e with
          | TOpen x true => Some (OpenTrunc x :: s)
          | TOpen x false => None
          | TWrite x bs => Some (map (Append x) bs ++ s)
          | TClose x => Some (Close x :: s)
          end
      end
  end.

Definition exec_tev (e : tev) (d : disk) : disk :=
  match e with
  | TOpen x true => upd d x (Some [])
  | TOpen x false => upd d x (Some (match d x with Some c => c | None => [] end))
  | TWrite x bs => match d x with Some c => upd d x (Some (c ++ bs)) | None => d end
  | TClose _ => d
  end.
Fixpoint exec_trace (t : list tev) (d : disk) : disk :=
  match t with [] => d | e :: r => exec_trace r (exec_tev e d) end.

(* boolean versions, evaluated by the runner *)
Definition step_eqb (a b : step) : bool :=
  match a, b with
  | OpenTrunc x, OpenTrunc y | Close x, Close y => file_eqb x y
  | Append x m, Append y n => file_eqb x y && N.eqb m n
  | _, _ => false
  end.
Fixpoint steps_eqb (a b : list step) : bool :=
  match a, b with
  | [], [] => true
  | x :: a', y :: b' => step_eqb x y && steps_eqb a' b'
  | _, _ => false
  end.
Definition all_files : list file :=
  [P Objectdb; J Objectdb; P History; J History; P Globalnames; J Globalnames].
Definition schedule_ofb (prog l : list step) : bool :=
  forallb (fun x => steps_eqb (proj x l) (proj x prog)) all_files
  && steps_eqb (syscalls l) (syscalls prog).

(* ------------------------------------------------------------------------------------------------ *)
(* Reader                                                                                            *)
Inductive load := Value (v : pval) (rest : bytes)   (* one object decoded, stream positioned at rest *)
                | Eof                               (* EOFError: stream ends at an opcode boundary *)
                | Corrupt.                          (* pickle.UnpicklingError *)

Inductive exn := ExEOF | ExUnpickling                       (* raised by pickle.load *)
               | ExType | ExIndex | ExKey | ExAttribute      (* raised by a consumer of the loaded value *)
               | ExFuel.                                     (* model artefact, excluded by the theorems *)
Definition exn_eqb (a b : exn) : bool :=
  match a, b with
  | ExEOF, ExEOF | ExUnpickling, ExUnpickling | ExType, ExType | ExIndex, ExIndex | ExKey, ExKey
  | ExAttribute, ExAttribute | ExFuel, ExFuel => true
  | _, _ => false
  end.

Inductive rd := Loaded (v : pval)            (* PNone is Python's None: "no data" *)
              | Raised (e : exn)
              | OutOfFuel.                   (* model artefact, excluded by the theorems *)

Inductive loaded := LEof (acc : list pval) | LCorrupt (acc : list pval) | LFuel.

(* the exception clauses of read_data as found in rope today, and after the proposed repair *)
Definition catches_current (e : exn) : bool := match e with ExEOF => true | _ => false end.
Definition catches_repaired (e : exn) : bool := match e with ExEOF | ExUnpickling => true | _ => false end.

Section Reader.
  Variable unpickle : bytes -> load.         (* pickle.load on a stream holding these bytes *)
  Variable catches : exn -> bool.            (* the exception clauses of read_data *)

  (* while True: result.append(pickle.load(input_file)) *)
  Fixpoint load_all (fuel : nat) (b : bytes) (acc : list pval) : loaded :=
    match fuel with
    | O => LFuel
    | S n =>
        match unpickle b with
        | Value v rest => load_all n rest (acc ++ [v])
        | Eof => LEof acc
        | Corrupt => LCorrupt acc
        end
    end.

  (* _DataFiles.read_data(name):
       if file.exists():
           result = []
           try:
               while True: result.append(pickle.load(input_file))
           except EOFError: pass
           [repair:  except pickle.UnpicklingError: return None]
           if len(result) == 1: return result[0]
           if len(result) > 1: return result
       (falls off the end: None) *)
  Definition read_data (d : disk) (f : dfile) : rd :=
    match d (P f) with
    | None => Loaded PNone
    | Some b =>
        match load_all (S (length b)) b [] with
        | LFuel => OutOfFuel
        | LEof acc =>
            if catches ExEOF then
              match acc with
              | [] => Loaded PNone
              | [v] => Loaded v
              | _ => Loaded (PList acc)
              end
            else Raised ExEOF
        | LCorrupt _ => if catches ExUnpickling then Loaded PNone else Raised ExUnpickling
        end
    end.
End Reader.

(* ------------------------------------------------------------------------------------------------ *)
(* History: ChangeToData / DataToChange, History.write / _load_history                               *)
Inductive chg :=
| CSet (desc : pval) (cs : list chg) (time : pval)
| CContents (path new_contents old_contents : pval)
| CMove (old_path new_path : pval) (is_folder : bool)   (* the makers keep only a File or a Folder resource *)
| CCreate (path : pval) (is_folder : bool)
| CRemove (path : pval) (is_folder : bool).

Definition s_ChangeSet : text := [67; 104; 97; 110; 103; 101; 83; 101; 116]%N.
Definition s_ChangeContents : text := [67; 104; 97; 110; 103; 101; 67; 111; 110; 116; 101; 110; 116; 115]%N.
Definition s_MoveResource : text := [77; 111; 118; 101; 82; 101; 115; 111; 117; 114; 99; 101]%N.
Definition s_CreateResource : text := [67; 114; 101; 97; 116; 101; 82; 101; 115; 111; 117; 114; 99; 101]%N.
Definition s_RemoveResource : text := [82; 101; 109; 111; 118; 101; 82; 101; 115; 111; 117; 114; 99; 101]%N.

(* ChangeToData.__call__: (type name, tuple of fields) *)
Fixpoint to_data (c : chg) : pval :=
  match c with
  | CSet d cs t => PTuple [PStr s_ChangeSet; PTuple [d; PList (map to_data cs); t]]
  | CContents p n o => PTuple [PStr s_ChangeContents; PTuple [p; n; o]]
  | CMove o n f => PTuple [PStr s_MoveResource; PTuple [o; n; PBool f]]
  | CCreate p f => PTuple [PStr s_CreateResource; PTuple [p; PBool f]]
  | CRemove p f => PTuple [PStr s_RemoveResource; PTuple [p; PBool f]]
  end.

(* Python operations on a loaded value, with the exception each raises ------------------------------- *)
Inductive outcome (A : Type) := Ok (a : A) | Err (e : exn).
Arguments Ok {A} a.
Arguments Err {A} e.
Definition bind {A B} (x : outcome A) (f : A -> outcome B) : outcome B :=
  match x with Ok a => f a | Err e => Err e end.

(* k == i for a dict key k and the int i (Python: True == 1, False == 0; float keys are not modelled) *)
Definition key_is_int (k : pval) (i : Z) : bool :=
  match k with
  | PInt z => Z.eqb z i
  | PBool b => Z.eqb (if b then 1 else 0) i
  | _ => false
  end.

(* v[i] for i = 0, 1 *)
Definition py_index (v : pval) (i : nat) : outcome pval :=
  match v with
  | PTuple l | PList l => match nth_error l i with Some x => Ok x | None => Err ExIndex end
  | PStr s => match nth_error s i with Some c => Ok (PStr [c]) | None => Err ExIndex end
  | PDict kvs => match find (fun kv => key_is_int (fst kv) (Z.of_nat i)) kvs with
                 | Some kv => Ok (snd kv)
                 | None => Err ExKey
                 end
  | _ => Err ExType                            (* 'int' / 'NoneType' / ScopeInfo object is not subscriptable *)
  end.

(* list(v): what `for x in v` and `f( *v)` go through *)
Definition py_iter (v : pval) : outcome (list pval) :=
  match v with
  | PTuple l | PList l => Ok l
  | PStr s => Ok (map (fun c => PStr [c]) s)
  | PDict kvs => Ok (map fst kvs)
  | _ => Err ExType
  end.

Fixpoint map_m {A B} (f : A -> outcome B) (l : list A) : outcome (list B) :=
  match l with
  | [] => Ok []
  | x :: r => bind (f x) (fun y => bind (map_m f r) (fun ys => Ok (y :: ys)))
  end.

(* DataToChange.__call__(data):
       method = getattr(self, "make" + data[0])
       return method(STAR data[1])
   makeChangeSet(description, changes, time=None) loops `for child in changes: self(child)`;
   makeMoveResource(old_path, new_path, is_folder=False); the other makers take exactly their fields.
   None of the makers inspects a field (Resource / Change constructors just store them).
   Recursion on the children goes through py_iter, hence the fuel (ExFuel is excluded in the theorems:
   S (pval_depth data) always suffices). *)
(* bool(v) *)
Definition truthy (v : pval) : bool :=
  match v with
  | PNone => false
  | PBool b => b
  | PInt z => negb (Z.eqb z 0)
  | PStr s => negb (match s with [] => true | _ => false end)
  | PFloat r => negb (text_eqb r [48; 46; 48]%N || text_eqb r [45; 48; 46; 48]%N)      (* "0.0", "-0.0" *)
  | PTuple l | PList l => negb (match l with [] => true | _ => false end)
  | PDict kvs => negb (match kvs with [] => true | _ => false end)
  | PObj _ _ => true
  end.

Inductive maker := MkSet | MkContents | MkMove | MkCreate | MkRemove.
Definition maker_of (name : text) : option maker :=
  if text_eqb name s_ChangeSet then Some MkSet
  else if text_eqb name s_ChangeContents then Some MkContents
  else if text_eqb name s_MoveResource then Some MkMove
  else if text_eqb name s_CreateResource then Some MkCreate
  else if text_eqb name s_RemoveResource then Some MkRemove
  else None.

Fixpoint to_change (fuel : nat) (data : pval) : outcome chg :=
  match fuel with
  | O => Err ExFuel
  | S n =>
      bind (py_index data 0) (fun name =>
      match name with
      | PStr nm =>                                         (* "make" + data[0]: TypeError unless a str *)
          match maker_of nm with
          | None => Err ExAttribute
          | Some mk =>
              bind (py_index data 1) (fun a =>
              bind (py_iter a) (fun args =>
              match mk, args with
              | MkSet, [d; cs] => bind (py_iter cs) (fun l => bind (map_m (to_change n) l) (fun l' => Ok (CSet d l' PNone)))
              | MkSet, [d; cs; t] => bind (py_iter cs) (fun l => bind (map_m (to_change n) l) (fun l' => Ok (CSet d l' t)))
              | MkContents, [p; nw; o] => Ok (CContents p nw o)
              | MkMove, [o; nw] => Ok (CMove o nw false)
              | MkMove, [o; nw; f] => Ok (CMove o nw (truthy f))       (* `if is_folder:` *)
              | MkCreate, [p; f] => Ok (CCreate p (truthy f))
              | MkRemove, [p; f] => Ok (CRemove p (truthy f))
              | _, _ => Err ExType                         (* wrong number of arguments *)
              end))
          end
      | _ => Err ExType
      end)
  end.

Fixpoint pval_depth (v : pval) : nat :=
  match v with
  | PTuple l | PList l => S (list_max (map pval_depth l))
  | PDict kvs => S (list_max (map (fun kv => Nat.max (pval_depth (fst kv)) (pval_depth (snd kv))) kvs))
  | PObj _ s => S (pval_depth s)
  | _ => 0
  end.

(* History.write(): _remove_extra_items() keeps the last max_undos entries of the undo list;
   data = [[to_data(c) for c in undo_list], [to_data(c) for c in redo_list]] *)
Definition trim (max_undos : nat) (undo : list chg) : list chg := skipn (length undo - max_undos) undo.
Definition hist_data (undo redo : list chg) : pval :=
  PList [PList (map to_data undo); PList (map to_data redo)].
Definition history_write_val (max_undos : nat) (undo redo : list chg) : pval :=
  hist_data (trim max_undos undo) redo.

Inductive hres := HOk (undo redo : list chg) | HRaised (e : exn).

(* History._load_history():
     result = read_data("history")
     if result is not None:
         for data in result[0]: undo_list.append(to_change(data))
         for data in result[1]: redo_list.append(to_change(data)) *)
Definition load_history (r : rd) : hres :=
  match r with
  | OutOfFuel => HRaised ExFuel
  | Raised e => HRaised e
  | Loaded PNone => HOk [] []
  | Loaded v =>
      let conv x := bind (py_iter x) (map_m (to_change (S (pval_depth v)))) in
      match bind (py_index v 0) conv with
      | Err e => HRaised e
      | Ok us =>
          match bind (py_index v 1) conv with
          | Err e => HRaised e
          | Ok rs => HOk us rs
          end
      end
  end.

(* ------------------------------------------------------------------------------------------------ *)
(* Object db: MemoryDB._load_files / write                                                           *)
Inductive ores := OOk (files : pval) | ORaised (e : exn).

(* self._files = {}; result = read_data("objectdb"); if result is not None: self._files = result *)
Definition load_files (r : rd) : ores :=
  match r with
  | OutOfFuel => ORaised ExFuel
  | Raised e => ORaised e
  | Loaded PNone => OOk (PDict [])
  | Loaded v => OOk v                          (* whatever was unpickled: nothing is checked *)
  end.

(* AutoImport.__init__: self.names = read_data("globalnames"); if self.names is None: self.names = {} *)
Definition load_names (r : rd) : ores := load_files r.

(* what the users of MemoryDB need of _files: {path: {scope key: ScopeInfo}} where ScopeInfo carries
   the two dicts call_info and per_name (FileInfo(self._files[path]).scopes[key].call_info ...) *)
Definition s_ScopeInfo : text := [83; 99; 111; 112; 101; 73; 110; 102; 111]%N.
Definition is_str (v : pval) : bool := match v with PStr _ => true | _ => false end.
Definition is_dict (v : pval) : bool := match v with PDict _ => true | _ => false end.
Definition scopeinfo_ok (v : pval) : bool :=
  match v with
  | PObj cls (PTuple [ci; pn]) => text_eqb cls s_ScopeInfo && is_dict ci && is_dict pn
  | _ => false
  end.
Definition fileinfo_ok (v : pval) : bool :=
  match v with PDict kvs => forallb (fun kv => is_str (fst kv) && scopeinfo_ok (snd kv)) kvs | _ => false end.
Definition files_ok (v : pval) : bool :=
  match v with PDict kvs => forallb (fun kv => is_str (fst kv) && fileinfo_ok (snd kv)) kvs | _ => false end.

(* what AutoImport needs of names: {module name: [global names]} *)
Definition names_ok (v : pval) : bool :=
  match v with
  | PDict kvs => forallb (fun kv => is_str (fst kv)
                                    && match snd kv with PList l => forallb is_str l | _ => false end) kvs
  | _ => false
  end.

(* ------------------------------------------------------------------------------------------------ *)
(* Laws relating pickle bytes to values (validated against the real pickle module by the harness)     *)
Definition strict_prefix (a b : bytes) : Prop := exists t, t <> [] /\ b = a ++ t.

Definition good_pickle (unpickle : bytes -> load) (v : pval) (b : bytes) : Prop :=
  unpickle b = Value v []
  /\ forall a, a <> [] -> strict_prefix a b -> unpickle a = Eof \/ unpickle a = Corrupt.

Definition good_write (unpickle : bytes -> load) (w : write) : Prop :=
  good_pickle unpickle (w_val w) (w_pickle w).

(* the values written to a data file by a save *)
Definition written (f : dfile) (ws : list write) (v : pval) : Prop :=
  exists w, In w ws /\ w_file w = f /\ w_val w = v.

(* Several sessions: each save starts from the disk the previous one (interrupted anywhere, or complete) left;
   between saves rope does not touch the data files. [evolves u d0 W d]: d is reachable from d0 through saves
   whose writes, concatenated, are W. *)
Inductive evolves (unpickle : bytes -> load) : disk -> list write -> disk -> Prop :=
| ev_refl d d' : (forall x, d' x = d x) -> evolves unpickle d [] d'
| ev_save d0 W d1 ws d2 :
    evolves unpickle d0 W d1 ->
    Forall (good_write unpickle) ws ->
    crash_state (save_steps ws) d1 d2 ->
    evolves unpickle d0 (W ++ ws) d2.
