(* C18 — an interrupted save never leaves a project that cannot be opened.

   Model of rope/base/project.py (_DataFiles.write_data / read_data / write, Project.close),
   rope/base/history.py (History._load_history / write), rope/base/oi/memorydb.py
   (MemoryDB._load_files / write) and rope/base/change.py (ChangeToData / DataToChange).
   Definitions only; proofs are in PersistProofs.v.

   Disk: the four files rope writes under .ropeproject at close ("history", "history.json",
   "objectdb", "objectdb.json"), each absent or holding a byte string.  A save is a list of steps in
   the order the code performs them; buffering delays appends, so the states a crash can leave are
   the disks after every prefix of every schedule that keeps each file's own steps in program order.
   Unpickling is a Section variable constrained only by the laws [good_pickle]/[unpickle [] = Eof],
   which the harness validates against the real pickle module on every case. *)
From Coq Require Import List NArith ZArith Bool Arith.
From RopeVerif.Lib Require Import Text.
Import ListNotations.

Notation bytes := (list N).

(* ------------------------------------------------------------------------------------------------ *)
(* Python values that are pickled into the data files                                                *)
Inductive pval :=
| PStr (s : text) | PInt (z : Z) | PBool (b : bool) | PNone
| PFloat (repr : text)                       (* a float, identified by its repr() *)
| PTuple (l : list pval) | PList (l : list pval) | PDict (kvs : list (pval * pval))
| PObj (cls : text) (state : pval).          (* instance of a class, e.g. memorydb.ScopeInfo *)

(* ------------------------------------------------------------------------------------------------ *)
(* Files and disk                                                                                    *)
Inductive dfile := History | Objectdb.
Inductive file := P (f : dfile)              (* the pickle: .ropeproject/<name> *)
                | J (f : dfile).             (* the side file: .ropeproject/<name>.json *)

Definition dfile_eqb (a b : dfile) : bool :=
  match a, b with History, History | Objectdb, Objectdb => true | _, _ => false end.
Definition file_eqb (a b : file) : bool :=
  match a, b with P f, P g | J f, J g => dfile_eqb f g | _, _ => false end.

Definition disk := file -> option bytes.     (* None: the file does not exist *)
Definition upd (d : disk) (x : file) (c : option bytes) : disk :=
  fun y => if file_eqb x y then c else d y.

Inductive step :=
| OpenTrunc (x : file)                       (* open(path, "wb") / open(path, "w"): create or truncate *)
| Append (x : file) (b : N)                  (* one byte reaches the file *)
| Close (x : file).

Definition step_file (s : step) : file :=
  match s with OpenTrunc x | Append x _ | Close x => x end.
Definition is_append (s : step) : bool := match s with Append _ _ => true | _ => false end.

(* effect of a step on the content of the file it addresses *)
Definition step_content (s : step) (c : option bytes) : option bytes :=
  match s with
  | OpenTrunc _ => Some []
  | Append _ b => match c with Some l => Some (l ++ [b]) | None => None end
                  (* an append to a file that was never opened cannot happen in a schedule *)
  | Close _ => c
  end.
Definition do_step (s : step) (d : disk) : disk := upd d (step_file s) (step_content s (d (step_file s))).
Fixpoint run (l : list step) (d : disk) : disk :=
  match l with [] => d | s :: r => run r (do_step s d) end.

(* ------------------------------------------------------------------------------------------------ *)
(* Writer: _DataFiles.write_data(name, data)
     with ExitStack() as cm:
         output_file  = cm.enter_context(open(path, "wb"))
         output_file2 = cm.enter_context(open(path + ".json", "w"))
         pickle.dump(data, output_file, 2)
         json.dump(data, output_file2, default=...)
   ExitStack closes in reverse order: the json file first, then the pickle.
   The pickle bytes are part of the write (pickling is not a function of the abstract value: memo
   opcodes depend on object identity); they are tied to the value by [good_pickle] below. *)
Record write := { w_file : dfile; w_val : pval; w_pickle : bytes; w_json : bytes }.

Definition write_steps (w : write) : list step :=
  let f := w_file w in
  [OpenTrunc (P f); OpenTrunc (J f)]
    ++ map (Append (P f)) (w_pickle w)
    ++ map (Append (J f)) (w_json w)
    ++ [Close (J f); Close (P f)].

(* _DataFiles.write(): the hooks in registration order, each performing one write_data *)
Definition save_steps (ws : list write) : list step := flat_map write_steps ws.

(* Project.close(): MemoryDB.write was registered when the project was constructed (PyCore is forced
   by Project._init_other_parts), History.write when project.history was first used; each hook writes
   only when its preference (save_objectdb / save_history) is on. *)
Definition close_writes (odb hist : option (pval * bytes * bytes)) : list write :=
  match odb with Some (v, p, j) => [ {| w_file := Objectdb; w_val := v; w_pickle := p; w_json := j |} ] | None => [] end
  ++ match hist with Some (v, p, j) => [ {| w_file := History; w_val := v; w_pickle := p; w_json := j |} ] | None => [] end.

(* ------------------------------------------------------------------------------------------------ *)
(* Schedules and crash states                                                                        *)
Definition proj (x : file) (l : list step) : list step :=
  filter (fun s => file_eqb (step_file s) x) l.
Definition syscalls (l : list step) : list step := filter (fun s => negb (is_append s)) l.

(* [l] is a way the steps of program [prog] can reach the disk: every file sees its own steps in
   program order (a buffered byte is written late, but before the file's close and after the bytes
   buffered before it), and opens/closes happen in program order.  This contains every reordering
   that buffering allows (and reorderings it does not allow, e.g. a byte reaching the pickle before
   the side file is opened: the theorems hold for the larger set). *)
Definition schedule_of (prog l : list step) : Prop :=
  (forall x, proj x l = proj x prog) /\ syscalls l = syscalls prog.

(* What buffering does, exactly: a byte handed to a buffered file reaches the disk later than in program
   order - it is postponed past later steps on OTHER files, one at a time, never past a step on its own
   file (its close flushes it; later bytes of the same file queue behind it).  Every such reordering is
   a schedule (PersistProofs.delays_schedule), so the theorems cover all of them. *)
Inductive delays : list step -> list step -> Prop :=
| delays_refl l : delays l l
| delays_swap a x b s c l :
    file_eqb (step_file s) x = false ->
    delays (a ++ s :: Append x b :: c) l ->
    delays (a ++ Append x b :: s :: c) l.

Definition crash_state (prog : list step) (d0 d : disk) : Prop :=
  exists l k, schedule_of prog l /\ forall x, d x = run (firstn k l) d0 x.

(* boolean versions, evaluated by the runner *)
Definition step_eqb (a b : step) : bool :=
  match a, b with
  | OpenTrunc x, OpenTrunc y | Close x, Close y => file_eqb x y
  | Append x m, Append y n => file_eqb x y && N.eqb m n
  | _, _ => false
  end.
Fixpoint steps_eqb (a b : list step) : bool :=
  match a, b with
  | [], [] => true
  | x :: a', y :: b' => step_eqb x y && steps_eqb a' b'
  | _, _ => false
  end.
Definition all_files : list file := [P Objectdb; J Objectdb; P History; J History].
Definition schedule_ofb (prog l : list step) : bool :=
  forallb (fun x => steps_eqb (proj x l) (proj x prog)) all_files
  && steps_eqb (syscalls l) (syscalls prog).

(* ------------------------------------------------------------------------------------------------ *)
(* Reader                                                                                            *)
Inductive load := Value (v : pval) (rest : bytes)   (* one object decoded, stream positioned at rest *)
                | Eof                               (* EOFError: stream ends at an opcode boundary *)
                | Corrupt.                          (* pickle.UnpicklingError *)

Inductive exn := ExEOF | ExUnpickling | ExConsumer.  (* ExConsumer: TypeError/IndexError/... raised by a consumer *)
Definition exn_eqb (a b : exn) : bool :=
  match a, b with ExEOF, ExEOF | ExUnpickling, ExUnpickling | ExConsumer, ExConsumer => true | _, _ => false end.

Inductive rd := Loaded (v : pval)            (* PNone is Python's None: "no data" *)
              | Raised (e : exn)
              | OutOfFuel.                   (* model artefact, excluded by the theorems *)

Inductive loaded := LEof (acc : list pval) | LCorrupt (acc : list pval) | LFuel.

(* the exception clauses of read_data as found in rope today, and after the proposed repair *)
Definition catches_current (e : exn) : bool := match e with ExEOF => true | _ => false end.
Definition catches_repaired (e : exn) : bool := match e with ExEOF | ExUnpickling => true | _ => false end.

Section Reader.
  Variable unpickle : bytes -> load.         (* pickle.load on a stream holding these bytes *)
  Variable catches : exn -> bool.            (* the exception clauses of read_data *)

  (* while True: result.append(pickle.load(input_file)) *)
  Fixpoint load_all (fuel : nat) (b : bytes) (acc : list pval) : loaded :=
    match fuel with
    | O => LFuel
    | S n =>
        match unpickle b with
        | Value v rest => load_all n rest (acc ++ [v])
        | Eof => LEof acc
        | Corrupt => LCorrupt acc
        end
    end.

  (* _DataFiles.read_data(name):
       if file.exists():
           result = []
           try:
               while True: result.append(pickle.load(input_file))
           except EOFError: pass
           [repair:  except pickle.UnpicklingError: return None]
           if len(result) == 1: return result[0]
           if len(result) > 1: return result
       (falls off the end: None) *)
  Definition read_data (d : disk) (f : dfile) : rd :=
    match d (P f) with
    | None => Loaded PNone
    | Some b =>
        match load_all (S (length b)) b [] with
        | LFuel => OutOfFuel
        | LEof acc =>
            if catches ExEOF then
              match acc with
              | [] => Loaded PNone
              | [v] => Loaded v
              | _ => Loaded (PList acc)
              end
            else Raised ExEOF
        | LCorrupt _ => if catches ExUnpickling then Loaded PNone else Raised ExUnpickling
        end
    end.
End Reader.

(* ------------------------------------------------------------------------------------------------ *)
(* History: ChangeToData / DataToChange, History.write / _load_history                               *)
Inductive chg :=
| CSet (desc : pval) (cs : list chg) (time : pval)
| CContents (path new_contents old_contents : pval)
| CMove (old_path new_path is_folder : pval)   (* is_folder: absent in files written before the field existed *)
| CCreate (path is_folder : pval)
| CRemove (path is_folder : pval).

Definition s_ChangeSet : text := [67; 104; 97; 110; 103; 101; 83; 101; 116]%N.
Definition s_ChangeContents : text := [67; 104; 97; 110; 103; 101; 67; 111; 110; 116; 101; 110; 116; 115]%N.
Definition s_MoveResource : text := [77; 111; 118; 101; 82; 101; 115; 111; 117; 114; 99; 101]%N.
Definition s_CreateResource : text := [67; 114; 101; 97; 116; 101; 82; 101; 115; 111; 117; 114; 99; 101]%N.
Definition s_RemoveResource : text := [82; 101; 109; 111; 118; 101; 82; 101; 115; 111; 117; 114; 99; 101]%N.

(* ChangeToData.__call__: (type name, tuple of fields) *)
Fixpoint to_data (c : chg) : pval :=
  match c with
  | CSet d cs t => PTuple [PStr s_ChangeSet; PTuple [d; PList (map to_data cs); t]]
  | CContents p n o => PTuple [PStr s_ChangeContents; PTuple [p; n; o]]
  | CMove o n f => PTuple [PStr s_MoveResource; PTuple [o; n; f]]
  | CCreate p f => PTuple [PStr s_CreateResource; PTuple [p; f]]
  | CRemove p f => PTuple [PStr s_RemoveResource; PTuple [p; f]]
  end.

(* DataToChange.__call__(data): getattr(self, "make" + data[0])(STAR data[1]); None = it raises.
   data and data[1] may be tuples or lists (both index / unpack alike); the children of a ChangeSet are
   iterated, so a tuple or a list.  Other sequence types (str, dict) are outside the model. *)
Fixpoint to_change (v : pval) : option chg :=
  let go := fix go (l : list pval) : option (list chg) :=
    match l with
    | [] => Some []
    | x :: r => match to_change x, go r with Some c, Some cs => Some (c :: cs) | _, _ => None end
    end in
  match v with
  | PTuple (PStr name :: args :: _) | PList (PStr name :: args :: _) =>
      match args with
      | PTuple a | PList a =>
          if text_eqb name s_ChangeSet then
            match a with
            | [d; PList cs] | [d; PTuple cs] => option_map (fun l => CSet d l PNone) (go cs)
            | [d; PList cs; t] | [d; PTuple cs; t] => option_map (fun l => CSet d l t) (go cs)
            | _ => None
            end
          else if text_eqb name s_ChangeContents then
            match a with [p; n; o] => Some (CContents p n o) | _ => None end
          else if text_eqb name s_MoveResource then
            match a with                      (* makeMoveResource(old_path, new_path, is_folder=False) *)
            | [o; n] => Some (CMove o n (PBool false))
            | [o; n; f] => Some (CMove o n f)
            | _ => None
            end
          else if text_eqb name s_CreateResource then
            match a with [p; f] => Some (CCreate p f) | _ => None end
          else if text_eqb name s_RemoveResource then
            match a with [p; f] => Some (CRemove p f) | _ => None end
          else None
      | _ => None
      end
  | _ => None
  end.

Fixpoint to_changes (l : list pval) : option (list chg) :=
  match l with
  | [] => Some []
  | x :: r => match to_change x, to_changes r with Some c, Some cs => Some (c :: cs) | _, _ => None end
  end.

(* History.write(): _remove_extra_items() keeps the last max_undos entries of the undo list;
   data = [[to_data(c) for c in undo_list], [to_data(c) for c in redo_list]] *)
Definition trim (max_undos : nat) (undo : list chg) : list chg := skipn (length undo - max_undos) undo.
Definition hist_data (undo redo : list chg) : pval :=
  PList [PList (map to_data undo); PList (map to_data redo)].
Definition history_write_val (max_undos : nat) (undo redo : list chg) : pval :=
  hist_data (trim max_undos undo) redo.

Inductive hres := HOk (undo redo : list chg) | HRaised (e : exn) | HFuel.

(* History._load_history():
     result = read_data("history")
     if result is not None:
         for data in result[0]: undo_list.append(to_change(data))
         for data in result[1]: redo_list.append(to_change(data)) *)
Definition seq_items (v : pval) : option (list pval) :=
  match v with PTuple l | PList l => Some l | _ => None end.
Definition load_history (r : rd) : hres :=
  match r with
  | OutOfFuel => HFuel
  | Raised e => HRaised e
  | Loaded PNone => HOk [] []
  | Loaded v =>
      match seq_items v with
      | Some (u :: r :: _) =>
          match seq_items u, seq_items r with
          | Some ul, Some rl =>
              match to_changes ul, to_changes rl with
              | Some us, Some rs => HOk us rs
              | _, _ => HRaised ExConsumer
              end
          | _, _ => HRaised ExConsumer
          end
      | _ => HRaised ExConsumer
      end
  end.

(* ------------------------------------------------------------------------------------------------ *)
(* Object db: MemoryDB._load_files / write                                                           *)
Inductive ores := OOk (files : pval) | ORaised (e : exn) | OFuel.

(* self._files = {}; result = read_data("objectdb"); if result is not None: self._files = result *)
Definition load_files (r : rd) : ores :=
  match r with
  | OutOfFuel => OFuel
  | Raised e => ORaised e
  | Loaded PNone => OOk (PDict [])
  | Loaded v => OOk v
  end.

(* what the users of MemoryDB need of _files: {path: {scope key: ScopeInfo}} where ScopeInfo carries
   the two dicts call_info and per_name (FileInfo(self._files[path]).scopes[key].call_info ...) *)
Definition s_ScopeInfo : text := [83; 99; 111; 112; 101; 73; 110; 102; 111]%N.
Definition is_str (v : pval) : bool := match v with PStr _ => true | _ => false end.
Definition is_dict (v : pval) : bool := match v with PDict _ => true | _ => false end.
Definition scopeinfo_ok (v : pval) : bool :=
  match v with
  | PObj cls (PTuple [ci; pn]) => text_eqb cls s_ScopeInfo && is_dict ci && is_dict pn
  | _ => false
  end.
Definition fileinfo_ok (v : pval) : bool :=
  match v with PDict kvs => forallb (fun kv => is_str (fst kv) && scopeinfo_ok (snd kv)) kvs | _ => false end.
Definition files_ok (v : pval) : bool :=
  match v with PDict kvs => forallb (fun kv => is_str (fst kv) && fileinfo_ok (snd kv)) kvs | _ => false end.

(* ------------------------------------------------------------------------------------------------ *)
(* Laws relating pickle bytes to values (validated against the real pickle module by the harness)     *)
Definition strict_prefix (a b : bytes) : Prop := exists t, t <> [] /\ b = a ++ t.

Definition good_pickle (unpickle : bytes -> load) (v : pval) (b : bytes) : Prop :=
  unpickle b = Value v []
  /\ forall a, a <> [] -> strict_prefix a b -> unpickle a = Eof \/ unpickle a = Corrupt.

Definition good_write (unpickle : bytes -> load) (w : write) : Prop :=
  good_pickle unpickle (w_val w) (w_pickle w).

(* the values written to a data file by a save *)
Definition written (f : dfile) (ws : list write) (v : pval) : Prop :=
  exists w, In w ws /\ w_file w = f /\ w_val w = v.
