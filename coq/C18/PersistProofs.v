(* Proofs about the persistence model of Persist.v. *)
From Coq Require Import List NArith ZArith Bool Arith Lia.
From RopeVerif.Lib Require Import Text.
From RopeVerif.C18 Require Import Persist Table.
Import ListNotations.

(* ------------------------------------------------------------------------------------------------ *)
(* files, disks                                                                                      *)
Lemma dfile_eqb_eq a b : dfile_eqb a b = true <-> a = b.
Proof. destruct a, b; cbn; split; congruence. Qed.

Lemma file_eqb_eq a b : file_eqb a b = true <-> a = b.
Proof.
  destruct a as [f|f], b as [g|g]; cbn; try (split; congruence);
    rewrite dfile_eqb_eq; split; congruence.
Qed.

Lemma file_eqb_refl a : file_eqb a a = true.
Proof. apply file_eqb_eq; reflexivity. Qed.

Lemma file_eqb_neq a b : file_eqb a b = false <-> a <> b.
Proof.
  split.
  - intros H E. apply file_eqb_eq in E. congruence.
  - intros H. destruct (file_eqb a b) eqn:E; [apply file_eqb_eq in E; contradiction|reflexivity].
Qed.

Lemma upd_same d x c : upd d x c x = c.
Proof. unfold upd. rewrite file_eqb_refl. reflexivity. Qed.

Lemma upd_other d x c y : file_eqb x y = false -> upd d x c y = d y.
Proof. unfold upd. intros ->. reflexivity. Qed.

(* ------------------------------------------------------------------------------------------------ *)
(* the content of one file depends only on the steps addressed to it                                 *)
Fixpoint run_file (l : list step) (c : option bytes) : option bytes :=
  match l with [] => c | s :: r => run_file r (step_content s c) end.

Lemma run_proj l : forall d x, run l d x = run_file (proj x l) (d x).
Proof.
  induction l as [|s l IH]; intros d x; [reflexivity|].
  cbn [run]. rewrite IH. unfold proj. cbn [filter]. fold (proj x l).
  destruct (file_eqb (step_file s) x) eqn:E.
  - apply file_eqb_eq in E. subst x. cbn [run_file]. unfold do_step. rewrite upd_same. reflexivity.
  - unfold do_step. rewrite upd_other by exact E. reflexivity.
Qed.

Lemma run_file_app l1 l2 c : run_file (l1 ++ l2) c = run_file l2 (run_file l1 c).
Proof. revert c; induction l1 as [|s l1 IH]; intros c; cbn; [reflexivity|apply IH]. Qed.

Lemma run_app l1 l2 d : run (l1 ++ l2) d = run l2 (run l1 d).
Proof. revert d; induction l1 as [|s l1 IH]; intros d; cbn; [reflexivity|apply IH]. Qed.

Lemma filter_firstn {A} (p : A -> bool) l : forall k, exists k', filter p (firstn k l) = firstn k' (filter p l).
Proof.
  induction l as [|a l IH]; intros k.
  - exists 0. destruct k; reflexivity.
  - destruct k as [|k]; [exists 0; reflexivity|].
    cbn [firstn filter]. destruct (IH k) as [k' Hk]. destruct (p a).
    + exists (S k'). cbn [firstn]. rewrite Hk. reflexivity.
    + exists k'. exact Hk.
Qed.

Lemma proj_app x l1 l2 : proj x (l1 ++ l2) = proj x l1 ++ proj x l2.
Proof. unfold proj. apply filter_app. Qed.

Lemma proj_appends_same x bs : proj x (map (Append x) bs) = map (Append x) bs.
Proof.
  unfold proj. induction bs as [|b bs IH]; cbn; [reflexivity|].
  rewrite file_eqb_refl. rewrite IH. reflexivity.
Qed.

Lemma proj_appends_other x y bs : file_eqb y x = false -> proj x (map (Append y) bs) = [].
Proof.
  intros E. unfold proj. induction bs as [|b bs IH]; cbn; [reflexivity|]. rewrite E. exact IH.
Qed.

(* the steps of a save addressed to the pickle of data file f *)
Definition pstream (f : dfile) (w : write) : list step :=
  if dfile_eqb (w_file w) f
  then OpenTrunc (P f) :: map (Append (P f)) (w_pickle w) ++ [Close (P f)]
  else [].

Lemma proj_cons x s l : proj x (s :: l) = if file_eqb (step_file s) x then s :: proj x l else proj x l.
Proof. reflexivity. Qed.

Lemma proj_P_write_steps f w : proj (P f) (write_steps w) = pstream f w.
Proof.
  unfold write_steps, pstream.
  change ([OpenTrunc (P (w_file w)); OpenTrunc (J (w_file w))] ++ ?r)
    with (OpenTrunc (P (w_file w)) :: OpenTrunc (J (w_file w)) :: r).
  rewrite !proj_cons. cbn [step_file file_eqb].
  rewrite !proj_app. rewrite (proj_appends_other (P f) (J (w_file w))) by reflexivity.
  rewrite !proj_cons. cbn [step_file file_eqb proj filter app].
  destruct (dfile_eqb (w_file w) f) eqn:E.
  - apply dfile_eqb_eq in E. rewrite E. rewrite proj_appends_same. reflexivity.
  - rewrite proj_appends_other by (cbn; exact E). reflexivity.
Qed.

Lemma proj_P_save_steps f ws : proj (P f) (save_steps ws) = flat_map (pstream f) ws.
Proof.
  unfold save_steps. induction ws as [|w ws IH]; [reflexivity|].
  cbn [flat_map]. rewrite proj_app, IH, proj_P_write_steps. reflexivity.
Qed.

Lemma run_file_appends x bs : forall c, run_file (map (Append x) bs) (Some c) = Some (c ++ bs).
Proof.
  induction bs as [|b bs IH]; intros c; cbn [map run_file step_content].
  - rewrite app_nil_r. reflexivity.
  - rewrite IH. rewrite <- app_assoc. reflexivity.
Qed.

(* after any prefix of the steps addressed to a pickle, the pickle is what it was before the save or
   a prefix of the bytes of one of the writes to it *)
Lemma stream_prefix f ws : forall k c,
  run_file (firstn k (flat_map (pstream f) ws)) c = c
  \/ exists w n, In w ws /\ w_file w = f
                 /\ run_file (firstn k (flat_map (pstream f) ws)) c = Some (firstn n (w_pickle w)).
Proof.
  induction ws as [|w ws IH]; intros k c.
  - left. destruct k; reflexivity.
  - cbn [flat_map]. unfold pstream at 1 3. destruct (dfile_eqb (w_file w) f) eqn:E.
    2:{ cbn [app]. destruct (IH k c) as [H|(w' & n & Hin & Hf & H)]; [left; exact H|].
        right. exists w', n. split; [right; exact Hin|]. split; [exact Hf|exact H]. }
    apply dfile_eqb_eq in E.
    destruct k as [|k]; [left; reflexivity|].
    cbn [app firstn run_file step_content].
    rewrite <- app_assoc. rewrite firstn_app. rewrite run_file_app.
    rewrite firstn_map. rewrite run_file_appends. cbn [app]. rewrite map_length.
    destruct (k - length (w_pickle w)) as [|m] eqn:Ek.
    + right. exists w, k. split; [left; reflexivity|]. split; [exact E|]. reflexivity.
    + cbn [app firstn run_file step_content].
      assert (Hall : firstn k (w_pickle w) = w_pickle w) by (apply firstn_all2; lia).
      rewrite Hall.
      destruct (IH m (Some (w_pickle w))) as [H|(w' & n & Hin & Hf & H)].
      * right. exists w, (length (w_pickle w)). split; [left; reflexivity|]. split; [exact E|].
        rewrite H. rewrite firstn_all. reflexivity.
      * right. exists w', n. split; [right; exact Hin|]. split; [exact Hf|exact H].
Qed.

Lemma crash_content prog d0 d x :
  crash_state prog d0 d -> exists k, d x = run_file (firstn k (proj x prog)) (d0 x).
Proof.
  intros (l & k & [Hproj _] & Hd).
  rewrite Hd, run_proj. unfold proj at 1.
  destruct (filter_firstn (fun s => file_eqb (step_file s) x) l k) as [k' Hk].
  rewrite Hk. fold (proj x l). rewrite Hproj. exists k'. reflexivity.
Qed.

(* ------------------------------------------------------------------------------------------------ *)
(* reader                                                                                            *)
Lemma read_data_ext unpickle catches d d' f :
  d (P f) = d' (P f) -> read_data unpickle catches d f = read_data unpickle catches d' f.
Proof. unfold read_data. intros ->. reflexivity. Qed.

Lemma strict_prefix_firstn (b : bytes) n : n < length b -> strict_prefix (firstn n b) b.
Proof.
  intros H. exists (skipn n b). split.
  - intro E. apply (f_equal (@length N)) in E. rewrite skipn_length in E. cbn in E. lia.
  - symmetry. apply firstn_skipn.
Qed.

Section ReaderFacts.
  Variable unpickle : bytes -> load.
  Variable catches : exn -> bool.
  Hypothesis H_empty : unpickle [] = Eof.

  Lemma good_pickle_nonempty v b : good_pickle unpickle v b -> b <> [].
  Proof. intros [Hv _] ->. rewrite H_empty in Hv. discriminate. Qed.

  (* a file holding exactly one complete pickle *)
  Lemma read_complete d f v b :
    catches ExEOF = true -> good_pickle unpickle v b -> d (P f) = Some b ->
    read_data unpickle catches d f = Loaded v.
  Proof.
    intros Hc Hg Hd. pose proof (good_pickle_nonempty _ _ Hg) as Hne. destruct Hg as [Hv _].
    unfold read_data. rewrite Hd. destruct b as [|x b]; [contradiction|].
    cbn [length load_all]. rewrite Hv. cbn [load_all app]. rewrite H_empty. rewrite Hc. reflexivity.
  Qed.

  (* a file holding the first n bytes of a pickle, read by a reader that survives both exceptions *)
  Lemma read_prefix d f v b n :
    catches ExEOF = true -> catches ExUnpickling = true ->
    good_pickle unpickle v b -> d (P f) = Some (firstn n b) ->
    read_data unpickle catches d f = Loaded v \/ read_data unpickle catches d f = Loaded PNone.
  Proof.
    intros Hc1 Hc2 Hg Hd.
    destruct (le_lt_dec (length b) n) as [Hn|Hn].
    - left. rewrite firstn_all2 in Hd by exact Hn. eapply read_complete; eauto.
    - right. unfold read_data. rewrite Hd.
      destruct (firstn n b) as [|x a] eqn:Ea.
      + cbn [length load_all]. rewrite H_empty, Hc1. reflexivity.
      + destruct Hg as [_ Hp].
        assert (Hs : unpickle (x :: a) = Eof \/ unpickle (x :: a) = Corrupt).
        { apply Hp; [discriminate|]. rewrite <- Ea. apply strict_prefix_firstn. exact Hn. }
        cbn [length load_all]. destruct Hs as [-> | ->].
        * rewrite Hc1. reflexivity.
        * rewrite Hc2. reflexivity.
  Qed.

  (* the same file under a reader that lets UnpicklingError escape (rope today): the only failure is
     UnpicklingError, and only when the stream ends inside an opcode *)
  Lemma read_prefix_current d f v b n :
    catches ExEOF = true -> catches ExUnpickling = false ->
    good_pickle unpickle v b -> d (P f) = Some (firstn n b) ->
    read_data unpickle catches d f = Loaded v \/ read_data unpickle catches d f = Loaded PNone
    \/ (read_data unpickle catches d f = Raised ExUnpickling
        /\ firstn n b <> [] /\ n < length b /\ unpickle (firstn n b) = Corrupt).
  Proof.
    intros Hc1 Hc2 Hg Hd.
    destruct (le_lt_dec (length b) n) as [Hn|Hn].
    - left. rewrite firstn_all2 in Hd by exact Hn. eapply read_complete; eauto.
    - right. unfold read_data. rewrite Hd.
      destruct (firstn n b) as [|x a] eqn:Ea.
      + left. cbn [length load_all]. rewrite H_empty, Hc1. reflexivity.
      + destruct Hg as [_ Hp].
        assert (Hs : unpickle (x :: a) = Eof \/ unpickle (x :: a) = Corrupt).
        { apply Hp; [discriminate|]. rewrite <- Ea. apply strict_prefix_firstn. exact Hn. }
        cbn [length load_all]. destruct Hs as [E | E]; rewrite E.
        * left. rewrite Hc1. reflexivity.
        * right. rewrite Hc2. repeat split; [discriminate|exact Hn].
  Qed.

  (* ---------------------------------------------------------------------------------------------- *)
  (* every crash state of a save *)
  Lemma crash_pickle_content ws d0 d f :
    crash_state (save_steps ws) d0 d ->
    d (P f) = d0 (P f)
    \/ exists w n, In w ws /\ w_file w = f /\ d (P f) = Some (firstn n (w_pickle w)).
  Proof.
    intros Hc. destruct (crash_content _ _ _ (P f) Hc) as [k Hk].
    rewrite proj_P_save_steps in Hk. rewrite Hk.
    destruct (stream_prefix f ws k (d0 (P f))) as [H|(w & n & Hin & Hf & H)].
    - left. exact H.
    - right. exists w, n. auto.
  Qed.

  Lemma reader_total ws d0 d f :
    catches ExEOF = true -> catches ExUnpickling = true ->
    Forall (good_write unpickle) ws ->
    crash_state (save_steps ws) d0 d ->
    read_data unpickle catches d f = read_data unpickle catches d0 f
    \/ read_data unpickle catches d f = Loaded PNone
    \/ exists v, written f ws v /\ read_data unpickle catches d f = Loaded v.
  Proof.
    intros Hc1 Hc2 Hg Hc.
    destruct (crash_pickle_content ws d0 d f Hc) as [H|(w & n & Hin & Hf & H)].
    - left. apply read_data_ext. exact H.
    - right. rewrite Forall_forall in Hg.
      destruct (read_prefix d f (w_val w) (w_pickle w) n Hc1 Hc2 (Hg w Hin) H) as [R|R].
      + right. exists (w_val w). split; [exists w; auto|exact R].
      + left. exact R.
  Qed.

  Lemma reader_current ws d0 d f :
    catches ExEOF = true -> catches ExUnpickling = false ->
    Forall (good_write unpickle) ws ->
    crash_state (save_steps ws) d0 d ->
    read_data unpickle catches d f = read_data unpickle catches d0 f
    \/ read_data unpickle catches d f = Loaded PNone
    \/ (exists v, written f ws v /\ read_data unpickle catches d f = Loaded v)
    \/ (read_data unpickle catches d f = Raised ExUnpickling
        /\ exists w b, In w ws /\ w_file w = f /\ d (P f) = Some b /\ b <> []
                       /\ strict_prefix b (w_pickle w) /\ unpickle b = Corrupt).
  Proof.
    intros Hc1 Hc2 Hg Hc.
    destruct (crash_pickle_content ws d0 d f Hc) as [H|(w & n & Hin & Hf & H)].
    - left. apply read_data_ext. exact H.
    - right. rewrite Forall_forall in Hg.
      destruct (read_prefix_current d f (w_val w) (w_pickle w) n Hc1 Hc2 (Hg w Hin) H)
        as [R|[R|(R & Hne & Hn & Hu)]].
      + right. left. exists (w_val w). split; [exists w; auto|exact R].
      + left. exact R.
      + right. right. split; [exact R|].
        exists w, (firstn n (w_pickle w)). repeat split; auto.
        apply strict_prefix_firstn. exact Hn.
  Qed.

  (* the complete save: every file written holds its last complete pickle *)
  Lemma run_file_pstream f w c :
    run_file (pstream f w) c = if dfile_eqb (w_file w) f then Some (w_pickle w) else c.
  Proof.
    unfold pstream. destruct (dfile_eqb (w_file w) f); [|reflexivity].
    cbn [run_file step_content]. rewrite run_file_app, run_file_appends. reflexivity.
  Qed.

  Lemma last_write_content f ws : forall c,
    run_file (flat_map (pstream f) ws) c = c /\ (forall w, In w ws -> w_file w <> f)
    \/ exists w, In w ws /\ w_file w = f /\ run_file (flat_map (pstream f) ws) c = Some (w_pickle w).
  Proof.
    induction ws as [|w ws IH]; intros c.
    - left. split; [reflexivity|intros w []].
    - cbn [flat_map]. rewrite run_file_app, run_file_pstream.
      destruct (dfile_eqb (w_file w) f) eqn:E.
      + apply dfile_eqb_eq in E.
        destruct (IH (Some (w_pickle w))) as [[H _]|(w' & Hin & Hf & H)].
        * right. exists w. split; [left; reflexivity|]. split; [exact E|exact H].
        * right. exists w'. split; [right; exact Hin|]. split; [exact Hf|exact H].
      + destruct (IH c) as [[H Hno]|(w' & Hin & Hf & H)].
        * left. split; [exact H|]. intros w' [<-|Hin]; [|apply Hno; exact Hin].
          intro Ef. apply dfile_eqb_eq in Ef. congruence.
        * right. exists w'. split; [right; exact Hin|]. split; [exact Hf|exact H].
  Qed.

  Lemma complete_save_loads_new ws d0 f :
    catches ExEOF = true ->
    Forall (good_write unpickle) ws ->
    (exists w, In w ws /\ w_file w = f) ->
    exists v, written f ws v /\ read_data unpickle catches (run (save_steps ws) d0) f = Loaded v.
  Proof.
    intros Hc1 Hg (w0 & Hin0 & Hf0).
    assert (Hd : run (save_steps ws) d0 (P f) = run_file (flat_map (pstream f) ws) (d0 (P f))).
    { rewrite run_proj, proj_P_save_steps. reflexivity. }
    destruct (last_write_content f ws (d0 (P f))) as [[_ Hno]|(w & Hin & Hf & H)].
    - exfalso. exact (Hno w0 Hin0 Hf0).
    - rewrite Forall_forall in Hg. exists (w_val w). split; [exists w; auto|].
      eapply read_complete; [exact Hc1|exact (Hg w Hin)|]. rewrite Hd. exact H.
  Qed.
End ReaderFacts.

(* ------------------------------------------------------------------------------------------------ *)
(* history consumer                                                                                  *)
Section chg_induction.
  Variable Q : chg -> Prop.
  Hypothesis HSet : forall d cs t, Forall Q cs -> Q (CSet d cs t).
  Hypothesis HContents : forall p n o, Q (CContents p n o).
  Hypothesis HMove : forall o n f, Q (CMove o n f).
  Hypothesis HCreate : forall p f, Q (CCreate p f).
  Hypothesis HRemove : forall p f, Q (CRemove p f).
  Fixpoint chg_ind' (c : chg) : Q c :=
    match c with
    | CSet d cs t =>
        HSet d cs t ((fix go (l : list chg) : Forall Q l :=
                        match l with [] => Forall_nil Q | x :: r => Forall_cons x (chg_ind' x) (go r) end) cs)
    | CContents p n o => HContents p n o
    | CMove o n f => HMove o n f
    | CCreate p f => HCreate p f
    | CRemove p f => HRemove p f
    end.
End chg_induction.

Fixpoint chg_depth (c : chg) : nat :=
  match c with CSet _ cs _ => S (list_max (map chg_depth cs)) | _ => 0 end.

Lemma list_max_in {A} (f : A -> nat) l x : In x l -> f x <= list_max (map f l).
Proof.
  intros H. assert (E : list_max (map f l) <= list_max (map f l)) by lia.
  apply list_max_le in E. rewrite Forall_forall in E. apply E. apply in_map. exact H.
Qed.

Lemma map_m_to_data n l :
  Forall (fun c => to_change n (to_data c) = Ok c) l -> map_m (to_change n) (map to_data l) = Ok l.
Proof.
  induction 1 as [|c l Hc _ IH]; [reflexivity|].
  cbn [map map_m]. rewrite Hc. cbn [bind]. rewrite IH. reflexivity.
Qed.

Lemma to_change_set n d cs t :
  to_change (S n) (PTuple [PStr s_ChangeSet; PTuple [d; PList cs; t]])
  = bind (map_m (to_change n) cs) (fun l' => Ok (CSet d l' t)).
Proof. reflexivity. Qed.

(* enough fuel: ChangeToData's output converts back to the change it came from *)
Lemma to_change_to_data c : forall n, chg_depth c <= n -> to_change (S n) (to_data c) = Ok c.
Proof.
  induction c using chg_ind'; intros k Hk; try reflexivity.
  cbn [chg_depth] in Hk. cbn [to_data]. rewrite to_change_set.
  rewrite map_m_to_data; [reflexivity|].
  destruct k as [|m]; [lia|].
  rewrite Forall_forall in *. intros c Hc. apply H; [exact Hc|].
  pose proof (list_max_in chg_depth cs c Hc). lia.
Qed.

Lemma to_data_depth c : chg_depth c + 2 <= pval_depth (to_data c) \/ chg_depth c = 0.
Proof.
  induction c using chg_ind'; try (right; reflexivity). left.
  cbn [to_data chg_depth pval_depth map list_max fold_right].
  rewrite map_map.
  assert (E : list_max (map chg_depth cs) <= list_max (map (fun x => pval_depth (to_data x)) cs)).
  { apply list_max_le. rewrite Forall_forall. intros k Hk. apply in_map_iff in Hk.
    destruct Hk as (c & <- & Hc). rewrite Forall_forall in H. specialize (H c Hc).
    pose proof (list_max_in (fun x => pval_depth (to_data x)) cs c Hc). cbn beta in H0. lia. }
  lia.
Qed.

Lemma to_data_depth_le c : chg_depth c <= pval_depth (to_data c).
Proof. destruct (to_data_depth c); lia. Qed.

Lemma map_m_hist n l :
  list_max (map (fun c => pval_depth (to_data c)) l) < n ->
  map_m (to_change n) (map to_data l) = Ok l.
Proof.
  intros H. apply map_m_to_data. rewrite Forall_forall. intros c Hc.
  destruct n as [|m]; [lia|]. apply to_change_to_data.
  pose proof (list_max_in (fun c => pval_depth (to_data c)) l c Hc). cbn beta in H0.
  pose proof (to_data_depth_le c). lia.
Qed.

Lemma load_history_hist_data undo redo : load_history (Loaded (hist_data undo redo)) = HOk undo redo.
Proof.
  unfold load_history, hist_data.
  set (v := PList [PList (map to_data undo); PList (map to_data redo)]).
  assert (Du : list_max (map (fun c => pval_depth (to_data c)) undo) < S (pval_depth v)).
  { unfold v. cbn [pval_depth map list_max fold_right]. rewrite !map_map. lia. }
  assert (Dr : list_max (map (fun c => pval_depth (to_data c)) redo) < S (pval_depth v)).
  { unfold v. cbn [pval_depth map list_max fold_right]. rewrite !map_map. lia. }
  remember (S (pval_depth v)) as n eqn:En. clear En. subst v. cbn [py_index nth_error bind py_iter].
  rewrite (map_m_hist _ _ Du), (map_m_hist _ _ Dr). reflexivity.
Qed.

(* ------------------------------------------------------------------------------------------------ *)
(* dict consumers: MemoryDB._load_files and AutoImport take whatever was unpickled                   *)
Lemma load_files_dict v : is_dict v = true -> load_files (Loaded v) = OOk v.
Proof. destruct v; cbn; try discriminate. reflexivity. Qed.

Lemma files_ok_dict v : files_ok v = true -> is_dict v = true.
Proof. destruct v; cbn; try discriminate. reflexivity. Qed.

Lemma names_ok_dict v : names_ok v = true -> is_dict v = true.
Proof. destruct v; cbn; try discriminate. reflexivity. Qed.

Lemma load_files_ok v : files_ok v = true -> load_files (Loaded v) = OOk v.
Proof. intros H. apply load_files_dict, files_ok_dict, H. Qed.

Lemma load_files_total r : (exists v, load_files r = OOk v) \/ (exists e, r = Raised e) \/ r = OutOfFuel.
Proof. destruct r as [v|e|]; [left|right; left; eauto|right; right; reflexivity]. destruct v; cbn; eauto. Qed.

(* ------------------------------------------------------------------------------------------------ *)
(* statements in the form used by Props/C18.v                                                        *)
Definition repaired (catches : exn -> bool) : Prop := catches ExEOF = true /\ catches ExUnpickling = true.

Lemma history_usable unpickle catches ws d0 d undo0 redo0 :
  unpickle [] = Eof -> repaired catches ->
  Forall (good_write unpickle) ws ->
  (forall w, In w ws -> w_file w = History ->
             exists m undo redo, w_val w = history_write_val m undo redo) ->
  load_history (read_data unpickle catches d0 History) = HOk undo0 redo0 ->
  crash_state (save_steps ws) d0 d ->
  let h := load_history (read_data unpickle catches d History) in
  h = HOk undo0 redo0 \/ h = HOk [] []
  \/ exists w m undo redo, In w ws /\ w_file w = History /\ w_val w = history_write_val m undo redo
                           /\ h = HOk (trim m undo) redo.
Proof.
  intros He [Hc1 Hc2] Hg Hw H0 Hc h. subst h.
  destruct (reader_total unpickle catches He ws d0 d History Hc1 Hc2 Hg Hc) as [R|[R|(v & (w & Hin & Hf & Hv) & R)]].
  - left. rewrite R. exact H0.
  - right. left. rewrite R. reflexivity.
  - right. right. destruct (Hw w Hin Hf) as (m & undo & redo & E).
    exists w, m, undo, redo. repeat split; auto.
    rewrite R, <- Hv, E. unfold history_write_val. apply load_history_hist_data.
Qed.

(* any data file whose consumer takes the loaded dict as it is (objectdb, globalnames) *)
Lemma dict_file_usable (shape : pval -> bool) unpickle catches ws d0 d f v0 :
  (forall v, shape v = true -> is_dict v = true) -> shape (PDict []) = true ->
  unpickle [] = Eof -> repaired catches ->
  Forall (good_write unpickle) ws ->
  (forall w, In w ws -> w_file w = f -> shape (w_val w) = true) ->
  load_files (read_data unpickle catches d0 f) = OOk v0 -> shape v0 = true ->
  crash_state (save_steps ws) d0 d ->
  exists v, load_files (read_data unpickle catches d f) = OOk v /\ shape v = true
            /\ (v = v0 \/ v = PDict [] \/ written f ws v).
Proof.
  intros Hd Hempty He [Hc1 Hc2] Hg Hw H0 Hok0 Hc.
  destruct (reader_total unpickle catches He ws d0 d f Hc1 Hc2 Hg Hc) as [R|[R|(v & (w & Hin & Hf & Hv) & R)]].
  - exists v0. rewrite R. auto.
  - exists (PDict []). rewrite R. cbn. auto.
  - exists v. rewrite R. assert (Hok : shape v = true) by (rewrite <- Hv; apply Hw; auto).
    rewrite load_files_dict by (apply Hd; exact Hok). repeat split; auto. right. right. exists w. auto.
Qed.

Lemma objectdb_usable unpickle catches ws d0 d v0 :
  unpickle [] = Eof -> repaired catches ->
  Forall (good_write unpickle) ws ->
  (forall w, In w ws -> w_file w = Objectdb -> files_ok (w_val w) = true) ->
  load_files (read_data unpickle catches d0 Objectdb) = OOk v0 -> files_ok v0 = true ->
  crash_state (save_steps ws) d0 d ->
  exists v, load_files (read_data unpickle catches d Objectdb) = OOk v /\ files_ok v = true
            /\ (v = v0 \/ v = PDict [] \/ written Objectdb ws v).
Proof. apply (dict_file_usable files_ok); [exact files_ok_dict|reflexivity]. Qed.

Lemma globalnames_usable unpickle catches ws d0 d v0 :
  unpickle [] = Eof -> repaired catches ->
  Forall (good_write unpickle) ws ->
  (forall w, In w ws -> w_file w = Globalnames -> names_ok (w_val w) = true) ->
  load_names (read_data unpickle catches d0 Globalnames) = OOk v0 -> names_ok v0 = true ->
  crash_state (save_steps ws) d0 d ->
  exists v, load_names (read_data unpickle catches d Globalnames) = OOk v /\ names_ok v = true
            /\ (v = v0 \/ v = PDict [] \/ written Globalnames ws v).
Proof. apply (dict_file_usable names_ok); [exact names_ok_dict|reflexivity]. Qed.

(* ------------------------------------------------------------------------------------------------ *)
(* the table instance satisfies the laws whenever the boolean check says so                          *)
Section pval_induction.
  Variable Q : pval -> Prop.
  Hypothesis HStr : forall s, Q (PStr s).
  Hypothesis HInt : forall z, Q (PInt z).
  Hypothesis HBool : forall b, Q (PBool b).
  Hypothesis HNone : Q PNone.
  Hypothesis HFloat : forall s, Q (PFloat s).
  Hypothesis HTuple : forall l, Forall Q l -> Q (PTuple l).
  Hypothesis HList : forall l, Forall Q l -> Q (PList l).
  Hypothesis HDict : forall kvs, Forall (fun kv => Q (fst kv) /\ Q (snd kv)) kvs -> Q (PDict kvs).
  Hypothesis HObj : forall c s, Q s -> Q (PObj c s).
  Fixpoint pval_ind' (v : pval) : Q v :=
    match v with
    | PStr s => HStr s | PInt z => HInt z | PBool b => HBool b | PNone => HNone | PFloat s => HFloat s
    | PTuple l => HTuple l ((fix go (l : list pval) : Forall Q l :=
                               match l with [] => Forall_nil Q | x :: r => Forall_cons x (pval_ind' x) (go r) end) l)
    | PList l => HList l ((fix go (l : list pval) : Forall Q l :=
                             match l with [] => Forall_nil Q | x :: r => Forall_cons x (pval_ind' x) (go r) end) l)
    | PDict kvs => HDict kvs ((fix go (l : list (pval * pval)) : Forall (fun kv => Q (fst kv) /\ Q (snd kv)) l :=
                                 match l with
                                 | [] => Forall_nil _
                                 | (k, x) :: r => Forall_cons (k, x) (conj (pval_ind' k) (pval_ind' x)) (go r)
                                 end) kvs)
    | PObj c s => HObj c s (pval_ind' s)
    end.
End pval_induction.

Lemma pval_eqb_eq a : forall b, pval_eqb a b = true -> a = b.
Proof.
  induction a using pval_ind'; intros [] E; cbn [pval_eqb] in E; try discriminate.
  - apply text_eqb_eq in E. congruence.
  - apply Z.eqb_eq in E. congruence.
  - apply Bool.eqb_prop in E. congruence.
  - reflexivity.
  - apply text_eqb_eq in E. congruence.
  - f_equal. revert l0 E. induction H as [|x l Hx _ IH]; intros [|y m] E; try discriminate; [reflexivity|].
    apply andb_true_iff in E. destruct E as [E1 E2]. f_equal; [apply Hx; exact E1|apply IH; exact E2].
  - f_equal. revert l0 E. induction H as [|x l Hx _ IH]; intros [|y m] E; try discriminate; [reflexivity|].
    apply andb_true_iff in E. destruct E as [E1 E2]. f_equal; [apply Hx; exact E1|apply IH; exact E2].
  - f_equal. revert kvs0 E. induction H as [|[k x] l [Hk Hx] _ IH]; intros [|[k' y] m] E; try discriminate; [reflexivity|].
    apply andb_true_iff in E. destruct E as [E12 E3]. apply andb_true_iff in E12. destruct E12 as [E1 E2].
    cbn [fst snd] in Hk, Hx. f_equal; [f_equal; [apply Hk; exact E1|apply Hx; exact E2]|apply IH; exact E3].
  - apply andb_true_iff in E. destruct E as [E1 E2]. apply text_eqb_eq in E1. apply IHa in E2. congruence.
Qed.

Lemma strict_prefix_is_firstn (a b : bytes) :
  strict_prefix a b -> a = firstn (length a) b /\ length a < length b.
Proof.
  intros (t & Ht & ->). split.
  - rewrite firstn_app, firstn_all, Nat.sub_diag. cbn. rewrite app_nil_r. reflexivity.
  - rewrite app_length. destruct t; [contradiction|cbn; lia].
Qed.

Lemma good_pickleb_sound tbl e :
  good_pickleb tbl e = true -> good_pickle (tbl_unpickle tbl) (t_val e) (t_bytes e).
Proof.
  unfold good_pickleb. intros H. apply andb_true_iff in H. destruct H as [Hv Hp]. split.
  - unfold is_value_of in Hv. destruct (tbl_unpickle tbl (t_bytes e)) as [v' rest| |]; try discriminate.
    destruct rest; [|discriminate]. apply pval_eqb_eq in Hv. congruence.
  - intros a Hne Hs. destruct (strict_prefix_is_firstn a _ Hs) as [Ea Hl].
    rewrite forallb_forall in Hp.
    assert (Hin : In (length a) (seq 1 (length (t_bytes e) - 1))).
    { apply in_seq. destruct a; [contradiction|]. cbn [length] in *. lia. }
    specialize (Hp _ Hin). rewrite <- Ea in Hp.
    destruct (tbl_unpickle tbl a); cbn in Hp; try discriminate; auto.
Qed.

Lemma tbl_unpickle_empty tbl : tbl_unpickle tbl [] = Eof.
Proof. reflexivity. Qed.

(* ------------------------------------------------------------------------------------------------ *)
(* every byte prefix is a crash state (the crash set of the model is not too small): write i of the
   save is in progress, np bytes of its pickle and nj bytes of its side file have reached the disk *)
Definition partial_write (w : write) (np nj : nat) : list step :=
  [OpenTrunc (P (w_file w)); OpenTrunc (J (w_file w))]
    ++ map (Append (P (w_file w))) (firstn np (w_pickle w))
    ++ map (Append (J (w_file w))) (firstn nj (w_json w)).
Definition rest_write (w : write) (np nj : nat) : list step :=
  map (Append (P (w_file w))) (skipn np (w_pickle w))
    ++ map (Append (J (w_file w))) (skipn nj (w_json w))
    ++ [Close (J (w_file w)); Close (P (w_file w))].

Lemma syscalls_app l1 l2 : syscalls (l1 ++ l2) = syscalls l1 ++ syscalls l2.
Proof. unfold syscalls. apply filter_app. Qed.

Lemma syscalls_appends x bs : syscalls (map (Append x) bs) = [].
Proof. unfold syscalls. induction bs; cbn; auto. Qed.

Lemma proj_appends x y bs : proj x (map (Append y) bs) = if file_eqb y x then map (Append y) bs else [].
Proof.
  destruct (file_eqb y x) eqn:E.
  - apply file_eqb_eq in E. subst. apply proj_appends_same.
  - apply proj_appends_other. exact E.
Qed.

Lemma partial_rest_schedule w np nj :
  schedule_of (write_steps w) (partial_write w np nj ++ rest_write w np nj).
Proof.
  unfold partial_write, rest_write, write_steps. split.
  - intros x. rewrite !proj_app. rewrite !proj_appends.
    destruct (file_eqb (P (w_file w)) x) eqn:E1; destruct (file_eqb (J (w_file w)) x) eqn:E2.
    + apply file_eqb_eq in E1. apply file_eqb_eq in E2. congruence.
    + rewrite !app_nil_r. rewrite <- !app_assoc. f_equal. cbn [app]. rewrite app_assoc. f_equal.
      rewrite <- map_app, firstn_skipn. reflexivity.
    + cbn [app]. rewrite <- !app_assoc. f_equal. rewrite app_assoc. f_equal.
      rewrite <- map_app, firstn_skipn. reflexivity.
    + cbn [app]. rewrite !app_nil_r. reflexivity.
  - rewrite !syscalls_app. rewrite !syscalls_appends. cbn [app]. rewrite !app_nil_r. reflexivity.
Qed.

Lemma schedule_of_app p1 l1 p2 l2 :
  schedule_of p1 l1 -> schedule_of p2 l2 -> schedule_of (p1 ++ p2) (l1 ++ l2).
Proof.
  intros [A1 B1] [A2 B2]. split.
  - intros x. rewrite !proj_app, A1, A2. reflexivity.
  - rewrite !syscalls_app, B1, B2. reflexivity.
Qed.

Lemma schedule_of_refl p : schedule_of p p.
Proof. split; reflexivity. Qed.

Lemma save_steps_app a b : save_steps (a ++ b) = save_steps a ++ save_steps b.
Proof. unfold save_steps. apply flat_map_app. Qed.

Lemma every_prefix_is_crash_state ws1 w ws2 np nj d0 :
  crash_state (save_steps (ws1 ++ w :: ws2)) d0 (run (save_steps ws1 ++ partial_write w np nj) d0).
Proof.
  exists ((save_steps ws1 ++ partial_write w np nj) ++ rest_write w np nj ++ save_steps ws2).
  exists (length (save_steps ws1 ++ partial_write w np nj)). split.
  - rewrite save_steps_app. rewrite <- app_assoc. apply schedule_of_app; [apply schedule_of_refl|].
    change (save_steps (w :: ws2)) with (write_steps w ++ save_steps ws2).
    rewrite app_assoc. apply schedule_of_app; [apply partial_rest_schedule|apply schedule_of_refl].
  - intros x. rewrite firstn_app, firstn_all, Nat.sub_diag. cbn [firstn]. rewrite app_nil_r. reflexivity.
Qed.

Lemma run_appends_content x bs : forall d c, d x = Some c -> run (map (Append x) bs) d x = Some (c ++ bs).
Proof.
  intros d c H. rewrite run_proj, proj_appends_same, H. apply run_file_appends.
Qed.

Lemma partial_write_content w np nj d :
  run (partial_write w np nj) d (P (w_file w)) = Some (firstn np (w_pickle w))
  /\ run (partial_write w np nj) d (J (w_file w)) = Some (firstn nj (w_json w)).
Proof.
  unfold partial_write. split; rewrite run_proj, !proj_app, !proj_appends.
  - unfold proj. cbn [filter step_file file_eqb]. rewrite (proj2 (dfile_eqb_eq _ _) eq_refl).
    cbn [app run_file step_content]. rewrite app_nil_r. rewrite run_file_appends. reflexivity.
  - unfold proj. cbn [filter step_file file_eqb]. rewrite (proj2 (dfile_eqb_eq _ _) eq_refl).
    cbn [app run_file step_content]. rewrite run_file_appends. reflexivity.
Qed.


(* ------------------------------------------------------------------------------------------------ *)
Lemma reader_total_old unpickle catches :
  unpickle [] = Eof -> catches ExEOF = true -> catches ExUnpickling = true ->
  forall (ws : list write) (d0 d : disk) (f : dfile) (vold : pval),
    Forall (good_write unpickle) ws ->
    read_data unpickle catches d0 f = Loaded vold ->
    crash_state (save_steps ws) d0 d ->
    read_data unpickle catches d f = Loaded vold
    \/ read_data unpickle catches d f = Loaded PNone
    \/ exists v, written f ws v /\ read_data unpickle catches d f = Loaded v.
Proof.
  intros He Hc1 Hc2 ws d0 d f vold Hg H0 Hc.
  destruct (reader_total unpickle catches He ws d0 d f Hc1 Hc2 Hg Hc) as [R|[R|R]]; auto.
  left. rewrite R. exact H0.
Qed.

(* the side files are never read: two disks that agree on the pickles open alike *)
Lemma json_side_file_irrelevant unpickle catches (d d' : disk) :
  (forall f, d (P f) = d' (P f)) ->
  forall f, read_data unpickle catches d f = read_data unpickle catches d' f.
Proof. intros H f. apply read_data_ext. apply H. Qed.

Lemma json_side_file_irrelevant_consumers unpickle catches (d d' : disk) :
  (forall f, d (P f) = d' (P f)) ->
  load_history (read_data unpickle catches d History) = load_history (read_data unpickle catches d' History)
  /\ load_files (read_data unpickle catches d Objectdb) = load_files (read_data unpickle catches d' Objectdb).
Proof. intros H. rewrite !(json_side_file_irrelevant unpickle catches d d' H). split; reflexivity. Qed.

(* a disk that differs only in side files: e.g. after any steps addressed to side files *)
Lemma side_file_steps_invisible l d :
  (forall s, In s l -> exists f, step_file s = J f) -> forall f, run l d (P f) = d (P f).
Proof.
  intros H f. rewrite run_proj.
  assert (E : proj (P f) l = []).
  { unfold proj. induction l as [|s l IH]; [reflexivity|]. cbn [filter].
    destruct (H s (or_introl eq_refl)) as [g Hg]. rewrite Hg. cbn [file_eqb].
    apply IH. intros s' Hs'. apply H. right. exact Hs'. }
  rewrite E. reflexivity.
Qed.

(* ------------------------------------------------------------------------------------------------ *)
(* every reordering produced by buffering is a schedule *)
Lemma file_eqb_sym a b : file_eqb a b = file_eqb b a.
Proof.
  destruct (file_eqb a b) eqn:E.
  - apply file_eqb_eq in E. subst. symmetry. apply file_eqb_refl.
  - symmetry. apply file_eqb_neq. apply file_eqb_neq in E. congruence.
Qed.

Lemma delays_schedule prog l : delays prog l -> schedule_of prog l.
Proof.
  induction 1 as [l|a x b s c l Hne _ IH]; [apply schedule_of_refl|].
  destruct IH as [IHp IHs]. split.
  - intros y. rewrite IHp. rewrite !proj_app, !proj_cons. cbn [step_file].
    destruct (file_eqb x y) eqn:Ex; destruct (file_eqb (step_file s) y) eqn:Es; try reflexivity.
    apply file_eqb_eq in Ex. apply file_eqb_eq in Es. subst. rewrite file_eqb_refl in Hne. discriminate.
  - rewrite IHs. rewrite !syscalls_app. unfold syscalls. cbn [filter is_append negb]. reflexivity.
Qed.

Lemma delays_example :
  delays [Append (P History) 1%N; Append (J History) 2%N; Close (J History); Close (P History)]
         [Append (J History) 2%N; Close (J History); Append (P History) 1%N; Close (P History)].
Proof.
  apply (delays_swap [] (P History) 1%N (Append (J History) 2%N) [Close (J History); Close (P History)]); [reflexivity|].
  apply (delays_swap [Append (J History) 2%N] (P History) 1%N (Close (J History)) [Close (P History)]); [reflexivity|].
  apply delays_refl.
Qed.

(* ------------------------------------------------------------------------------------------------ *)
(* the abstract writer: its direct meaning is the run of its translation into steps                  *)
Lemma run_ext l : forall d d', (forall x, d x = d' x) -> forall x, run l d x = run l d' x.
Proof. intros d d' H x. rewrite !run_proj, H. reflexivity. Qed.

Lemma run_appends_other x bs d y : file_eqb x y = false -> run (map (Append x) bs) d y = d y.
Proof.
  intros E. rewrite run_proj, proj_appends_other by exact E. reflexivity.
Qed.

Lemma run_appends_none x bs d : d x = None -> run (map (Append x) bs) d x = None.
Proof.
  intros H. rewrite run_proj, proj_appends_same, H. induction bs; cbn; auto.
Qed.

Lemma exec_tev_steps e s0 :
  trace_steps [e] = Some s0 -> forall d y, exec_tev e d y = run s0 d y.
Proof.
  destruct e as [x [|]|x bs|x]; cbn; intros E; inversion E; subst; intros d y; cbn.
  - reflexivity.
  - rewrite app_nil_r. destruct (d x) as [c|] eqn:Hx.
    + unfold upd. destruct (file_eqb x y) eqn:Exy.
      * apply file_eqb_eq in Exy. subst y. symmetry. apply run_appends_content. exact Hx.
      * symmetry. apply run_appends_other. exact Exy.
    + destruct (file_eqb x y) eqn:Exy.
      * apply file_eqb_eq in Exy. subst y. rewrite run_appends_none by exact Hx. exact Hx.
      * symmetry. apply run_appends_other. exact Exy.
  - unfold do_step. cbn. unfold upd. destruct (file_eqb x y) eqn:Exy; [|reflexivity].
    apply file_eqb_eq in Exy. subst. reflexivity.
Qed.

Lemma trace_steps_cons e r s :
  trace_steps (e :: r) = Some s -> exists s0 s1, trace_steps [e] = Some s0 /\ trace_steps r = Some s1 /\ s = s0 ++ s1.
Proof.
  cbn. destruct (trace_steps r) as [s1|]; [|discriminate].
  destruct e as [x [|]|x bs|x]; intros E; inversion E; subst.
  - exists [OpenTrunc x], s1. auto.
  - exists (map (Append x) bs ++ []), s1. rewrite app_nil_r. auto.
  - exists [Close x], s1. auto.
Qed.

Lemma trace_simulation t : forall s d, trace_steps t = Some s -> forall x, exec_trace t d x = run s d x.
Proof.
  induction t as [|e r IH]; intros s d E x.
  - inversion E. reflexivity.
  - destruct (trace_steps_cons e r s E) as (s0 & s1 & E0 & E1 & ->).
    cbn [exec_trace]. rewrite run_app. rewrite (IH s1 _ E1).
    apply run_ext. intros y. apply exec_tev_steps. exact E0.
Qed.

(* ------------------------------------------------------------------------------------------------ *)
(* exact buffering: its crash states are crash states, and every byte prefix is one of them          *)
Lemma buffered_is_crash_state prog d0 d : buffered_crash_state prog d0 d -> crash_state prog d0 d.
Proof. intros (l & k & H & Hd). exists l, k. split; [apply delays_schedule; exact H|exact Hd]. Qed.

Lemma delays_ctx a c p l : delays p l -> delays (a ++ p ++ c) (a ++ l ++ c).
Proof.
  induction 1 as [l|a0 x b s c0 l Hne _ IH]; [apply delays_refl|].
  replace (a ++ (a0 ++ Append x b :: s :: c0) ++ c) with ((a ++ a0) ++ Append x b :: s :: (c0 ++ c))
    by (rewrite <- !app_assoc; reflexivity).
  apply delays_swap; [exact Hne|].
  replace ((a ++ a0) ++ s :: Append x b :: c0 ++ c) with (a ++ (a0 ++ s :: Append x b :: c0) ++ c)
    by (rewrite <- !app_assoc; reflexivity).
  exact IH.
Qed.

(* a step on another file overtakes a block of pending appends *)
Lemma delays_block_one x s bs : file_eqb (step_file s) x = false ->
  forall a c l, delays (a ++ s :: map (Append x) bs ++ c) l -> delays (a ++ map (Append x) bs ++ s :: c) l.
Proof.
  intros Hne. induction bs as [|b bs IH] using rev_ind; intros a c l H; [exact H|].
  rewrite map_app in *. cbn [map] in *. rewrite <- app_assoc in *. cbn [app] in *.
  rewrite app_assoc. apply delays_swap; [exact Hne|]. rewrite <- app_assoc.
  apply IH. exact H.
Qed.

Lemma delays_block x bs ss : Forall (fun s => file_eqb (step_file s) x = false) ss ->
  forall a c l, delays (a ++ ss ++ map (Append x) bs ++ c) l -> delays (a ++ map (Append x) bs ++ ss ++ c) l.
Proof.
  induction 1 as [|s ss Hs _ IH]; intros a c l H; [exact H|].
  cbn [app]. apply delays_block_one; [exact Hs|].
  replace (a ++ s :: map (Append x) bs ++ ss ++ c) with ((a ++ [s]) ++ map (Append x) bs ++ ss ++ c)
    by (rewrite <- app_assoc; reflexivity).
  apply IH. rewrite <- app_assoc. exact H.
Qed.

Lemma partial_rest_delays w np nj : delays (write_steps w) (partial_write w np nj ++ rest_write w np nj).
Proof.
  unfold write_steps, partial_write, rest_write.
  rewrite <- (firstn_skipn np (w_pickle w)) at 1. rewrite <- (firstn_skipn nj (w_json w)) at 1.
  rewrite !map_app, <- !app_assoc.
  rewrite !(app_assoc [OpenTrunc (P (w_file w)); OpenTrunc (J (w_file w))]
                      (map (Append (P (w_file w))) (firstn np (w_pickle w)))).
  apply delays_block; [|apply delays_refl].
  apply Forall_forall. intros s Hs. apply in_map_iff in Hs. destruct Hs as (b & <- & _). reflexivity.
Qed.

Lemma every_prefix_is_buffered_crash_state ws1 w ws2 np nj d0 :
  buffered_crash_state (save_steps (ws1 ++ w :: ws2)) d0 (run (save_steps ws1 ++ partial_write w np nj) d0).
Proof.
  exists ((save_steps ws1 ++ partial_write w np nj) ++ rest_write w np nj ++ save_steps ws2).
  exists (length (save_steps ws1 ++ partial_write w np nj)). split.
  - rewrite save_steps_app. change (save_steps (w :: ws2)) with (write_steps w ++ save_steps ws2).
    rewrite <- app_assoc.
    replace (partial_write w np nj ++ rest_write w np nj ++ save_steps ws2)
      with ((partial_write w np nj ++ rest_write w np nj) ++ save_steps ws2) by (rewrite <- app_assoc; reflexivity).
    apply delays_ctx. apply partial_rest_delays.
  - intros x. rewrite firstn_app, firstn_all, Nat.sub_diag. cbn [firstn]. rewrite app_nil_r. reflexivity.
Qed.

(* ------------------------------------------------------------------------------------------------ *)
(* several sessions: any number of saves, each interrupted anywhere or complete                      *)
Lemma written_app_l f W ws v : written f W v -> written f (W ++ ws) v.
Proof. intros (w & Hin & H). exists w. split; [apply in_or_app; left; exact Hin|exact H]. Qed.
Lemma written_app_r f W ws v : written f ws v -> written f (W ++ ws) v.
Proof. intros (w & Hin & H). exists w. split; [apply in_or_app; right; exact Hin|exact H]. Qed.

Lemma sessions_reader_total unpickle catches :
  unpickle [] = Eof -> catches ExEOF = true -> catches ExUnpickling = true ->
  forall (d0 : disk) (W : list write) (d : disk) (f : dfile) (v0 : pval),
    evolves unpickle d0 W d ->
    read_data unpickle catches d0 f = Loaded v0 ->
    read_data unpickle catches d f = Loaded v0
    \/ read_data unpickle catches d f = Loaded PNone
    \/ exists v, written f W v /\ read_data unpickle catches d f = Loaded v.
Proof.
  intros He Hc1 Hc2 d0 W d f v0 Hev H0.
  induction Hev as [d d' Hd|d0 W d1 ws d2 _ IH Hg Hc].
  - left. rewrite (read_data_ext unpickle catches d' d f (Hd (P f))). exact H0.
  - specialize (IH H0).
    assert (Step : forall v1, read_data unpickle catches d1 f = Loaded v1 ->
              read_data unpickle catches d2 f = Loaded v1
              \/ read_data unpickle catches d2 f = Loaded PNone
              \/ exists v, written f ws v /\ read_data unpickle catches d2 f = Loaded v).
    { intros v1 H1. exact (reader_total_old unpickle catches He Hc1 Hc2 ws d1 d2 f v1 Hg H1 Hc). }
    destruct IH as [R|[R|(v & Hw & R)]].
    + destruct (Step _ R) as [S|[S|(v' & Hw' & S)]]; auto.
      right. right. exists v'. split; [apply written_app_r; exact Hw'|exact S].
    + destruct (Step _ R) as [S|[S|(v' & Hw' & S)]]; auto.
      right. right. exists v'. split; [apply written_app_r; exact Hw'|exact S].
    + destruct (Step _ R) as [S|[S|(v' & Hw' & S)]]; auto.
      * right. right. exists v. split; [apply written_app_l; exact Hw|exact S].
      * right. right. exists v'. split; [apply written_app_r; exact Hw'|exact S].
Qed.

Lemma complete_is_crash_state prog d0 : crash_state prog d0 (run prog d0).
Proof. exists prog, (length prog). split; [apply schedule_of_refl|]. intros x. rewrite firstn_all. reflexivity. Qed.

(* ------------------------------------------------------------------------------------------------ *)
(* the fuel of DataToChange's model always suffices: ExFuel never comes out of load_history          *)
Lemma py_index_depth v i x : py_index v i = Ok x -> pval_depth x <= pval_depth v - 1.
Proof.
  destruct v; cbn [py_index]; try discriminate.
  - destruct (nth_error s i); intros E; inversion E; cbn; lia.
  - destruct (nth_error l i) eqn:En; intros E; inversion E; subst.
    apply nth_error_In in En. pose proof (list_max_in pval_depth l x En). cbn [pval_depth]. lia.
  - destruct (nth_error l i) eqn:En; intros E; inversion E; subst.
    apply nth_error_In in En. pose proof (list_max_in pval_depth l x En). cbn [pval_depth]. lia.
  - destruct (find _ kvs) as [kv|] eqn:Ef; intros E; inversion E; subst.
    apply find_some in Ef. destruct Ef as [Hin _].
    pose proof (list_max_in (fun kv => Nat.max (pval_depth (fst kv)) (pval_depth (snd kv))) kvs kv Hin) as H.
    cbn beta in H. cbn [pval_depth]. lia.
Qed.

Lemma py_iter_depth v l x : py_iter v = Ok l -> In x l -> pval_depth x <= pval_depth v - 1.
Proof.
  destruct v; cbn [py_iter]; try discriminate; intros E Hin; inversion E; subst.
  - apply in_map_iff in Hin. destruct Hin as (c & <- & _). cbn. lia.
  - pose proof (list_max_in pval_depth l x Hin). cbn [pval_depth]. lia.
  - pose proof (list_max_in pval_depth l x Hin). cbn [pval_depth]. lia.
  - apply in_map_iff in Hin. destruct Hin as (kv & <- & Hin).
    pose proof (list_max_in (fun kv => Nat.max (pval_depth (fst kv)) (pval_depth (snd kv))) kvs kv Hin) as H.
    cbn beta in H. cbn [pval_depth]. lia.
Qed.

Lemma py_index_no_fuel v i : py_index v i <> Err ExFuel.
Proof.
  destruct v; cbn [py_index]; try discriminate.
  - destruct (nth_error s i); discriminate.
  - destruct (nth_error l i); discriminate.
  - destruct (nth_error l i); discriminate.
  - destruct (find _ kvs); discriminate.
Qed.

Lemma py_iter_no_fuel v : py_iter v <> Err ExFuel.
Proof. destruct v; cbn; discriminate. Qed.

Lemma map_m_no_fuel {A B} (f : A -> outcome B) l :
  (forall x, In x l -> f x <> Err ExFuel) -> map_m f l <> Err ExFuel.
Proof.
  induction l as [|x l IH]; intros H; cbn [map_m]; [discriminate|].
  destruct (f x) eqn:E; cbn [bind].
  2:{ intro Hx. inversion Hx; subst. exact (H x (or_introl eq_refl) E). }
  destruct (map_m f l) eqn:E2; cbn [bind]; [discriminate|].
  intro Hx. inversion Hx; subst. apply IH; [|reflexivity]. intros y Hy. apply H. right. exact Hy.
Qed.

Lemma maker_of_char c : maker_of [c] = None.
Proof.
  unfold maker_of. cbn.
  repeat match goal with |- context [N.eqb c ?k] => destruct (N.eqb c k); cbn end; reflexivity.
Qed.

Lemma index0_maker_depth data nm mk :
  py_index data 0 = Ok (PStr nm) -> maker_of nm = Some mk -> 1 <= pval_depth data.
Proof.
  destruct data; cbn [py_index]; try discriminate; cbn [pval_depth]; try lia.
  destruct (nth_error s 0); intros E; inversion E; subst. rewrite maker_of_char. discriminate.
Qed.

Lemma to_change_no_fuel n : forall v, pval_depth v < n -> to_change n v <> Err ExFuel.
Proof.
  induction n as [|m IH]; intros v Hd; [lia|].
  cbn [to_change].
  destruct (py_index v 0) as [name|e] eqn:E0; cbn [bind]; [|intro Hx; inversion Hx; subst; exact (py_index_no_fuel _ _ E0)].
  destruct name; try discriminate.
  destruct (maker_of s) as [mk|] eqn:Em; [|discriminate].
  pose proof (index0_maker_depth _ _ _ E0 Em) as Hpos.
  destruct (py_index v 1) as [a|e] eqn:E1; cbn [bind]; [|intro Hx; inversion Hx; subst; exact (py_index_no_fuel _ _ E1)].
  destruct (py_iter a) as [args|e] eqn:Ea; cbn [bind]; [|intro Hx; inversion Hx; subst; exact (py_iter_no_fuel _ Ea)].
  pose proof (py_index_depth _ _ _ E1) as Da.
  assert (Children : forall cs, In cs args -> forall d t,
            bind (py_iter cs) (fun l => bind (map_m (to_change m) l) (fun l' => Ok (CSet d l' t))) <> Err ExFuel).
  { intros cs Hcs d t.
    pose proof (py_iter_depth _ _ _ Ea Hcs) as Dcs.
    destruct (py_iter cs) as [l|e] eqn:El; cbn [bind]; [|intro Hx; inversion Hx; subst; exact (py_iter_no_fuel _ El)].
    destruct (map_m (to_change m) l) eqn:Em2; cbn [bind]; [discriminate|].
    intro Hx. inversion Hx; subst. revert Em2. apply map_m_no_fuel. intros x Hin. apply IH.
    pose proof (py_iter_depth _ _ _ El Hin). lia. }
  destruct mk; destruct args as [|x1 [|x2 [|x3 [|x4 r]]]]; try discriminate.
  - apply Children. right. left. reflexivity.
  - apply Children. right. left. reflexivity.
Qed.

Lemma load_history_no_fuel v : load_history (Loaded v) <> HRaised ExFuel.
Proof.
  assert (Conv : forall x, pval_depth x <= pval_depth v - 1 ->
            bind (py_iter x) (map_m (to_change (S (pval_depth v)))) <> Err ExFuel).
  { intros x Dx. destruct (py_iter x) as [l|e] eqn:El; cbn [bind]; [|intro Hx; inversion Hx; subst; exact (py_iter_no_fuel _ El)].
    apply map_m_no_fuel. intros y Hy. apply to_change_no_fuel.
    pose proof (py_iter_depth _ _ _ El Hy). lia. }
  assert (Side : forall i, bind (py_index v i) (fun x => bind (py_iter x) (map_m (to_change (S (pval_depth v)))))
                           <> Err ExFuel).
  { intros i. destruct (py_index v i) as [x|e] eqn:Ei; cbn [bind]; [|intro Hx; inversion Hx; subst; exact (py_index_no_fuel _ _ Ei)].
    apply Conv. apply (py_index_depth _ _ _ Ei). }
  unfold load_history.
  destruct v; try discriminate;
    (destruct (bind (py_index _ 0) _) as [us|e] eqn:E0;
     [destruct (bind (py_index _ 1) _) as [rs|e] eqn:E1; [discriminate|]|];
     intro H; inversion H; subst;
     [eapply (Side 1); exact E1|eapply (Side 0); exact E0]).
Qed.
