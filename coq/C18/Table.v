(* A concrete instance of the Section variable [unpickle] of Persist.v, built from what the real pickle
   module did on one case: for each pickled value its bytes and the lengths of the strict prefixes on
   which pickle.load raised EOFError (all other non-empty strict prefixes raised UnpicklingError).
   Used by the correspondence runner and by the witness of C18_truncated_pickle_refuted.
   Definitions only. *)
From Coq Require Import List NArith ZArith Bool Arith.
From RopeVerif.Lib Require Import Text.
From RopeVerif.C18 Require Import Persist.
Import ListNotations.

Record tentry := { t_val : pval; t_bytes : bytes; t_eofs : list N }.

Fixpoint is_prefixb (a b : bytes) : bool :=
  match a, b with
  | [], _ => true
  | x :: a', y :: b' => N.eqb x y && is_prefixb a' b'
  | _ :: _, [] => false
  end.

Definition tbl_unpickle (tbl : list tentry) (b : bytes) : load :=
  match b with
  | [] => Eof
  | _ =>
      match find (fun e => is_prefixb (t_bytes e) b) tbl with
      | Some e => Value (t_val e) (skipn (length (t_bytes e)) b)
      | None =>
          match find (fun e => is_prefixb b (t_bytes e)) tbl with
          | Some e => if existsb (N.eqb (N.of_nat (length b))) (t_eofs e) then Eof else Corrupt
          | None => Corrupt
          end
      end
  end.

Fixpoint pval_eqb (a b : pval) {struct a} : bool :=
  match a, b with
  | PStr s, PStr t | PFloat s, PFloat t => text_eqb s t
  | PInt x, PInt y => Z.eqb x y
  | PBool x, PBool y => Bool.eqb x y
  | PNone, PNone => true
  | PTuple l, PTuple m | PList l, PList m =>
      (fix go (l m : list pval) {struct l} : bool :=
         match l, m with
         | [], [] => true
         | x :: l', y :: m' => pval_eqb x y && go l' m'
         | _, _ => false
         end) l m
  | PDict l, PDict m =>
      (fix go (l m : list (pval * pval)) {struct l} : bool :=
         match l, m with
         | [], [] => true
         | (k, x) :: l', (k', y) :: m' => pval_eqb k k' && pval_eqb x y && go l' m'
         | _, _ => false
         end) l m
  | PObj c s, PObj c' s' => text_eqb c c' && pval_eqb s s'
  | _, _ => false
  end.

Definition is_value_of (v : pval) (l : load) : bool :=
  match l with Value v' [] => pval_eqb v v' | _ => false end.
Definition is_eof_or_corrupt (l : load) : bool :=
  match l with Eof | Corrupt => true | _ => false end.

(* boolean form of [good_pickle (tbl_unpickle tbl) (t_val e) (t_bytes e)] *)
Definition good_pickleb (tbl : list tentry) (e : tentry) : bool :=
  is_value_of (t_val e) (tbl_unpickle tbl (t_bytes e))
  && forallb (fun n => is_eof_or_corrupt (tbl_unpickle tbl (firstn n (t_bytes e))))
             (seq 1 (length (t_bytes e) - 1)).
