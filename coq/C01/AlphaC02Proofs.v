(* The alpha theorem for the rename rope performs (C02's occurrence model):
   inside C02's domain the set of respelled tokens is exact, so AlphaProofs.alpha_program applies. *)
From Coq Require Import List NArith Bool PeanoNat.
From RopeVerif.C15 Require Import Syntax Scoping RopeScopes Fragment.
From RopeVerif.C02 Require Import Occurrences OccurrencesProofs.
From RopeVerif.C01 Require Import Rename OccTree OccTreeProofs AlphaSpec AlphaTreeProofs AlphaProofs TokensProofs.
Import ListNotations.

Lemma memN_spec i l : memN i l = true <-> In i l.
Proof.
  unfold memN. rewrite existsb_exists. split.
  - intros (y & Hy & E). apply N.eqb_eq in E. now subst.
  - intros H. exists i. split; [exact H | apply N.eqb_refl].
Qed.

Lemma nodupN_inj {A} (f : A -> N) l : nodupN (map f l) = true -> forall a b, In a l -> In b l -> f a = f b -> a = b.
Proof.
  induction l as [|c r IH]; intros H a b Ha Hb E; [destruct Ha|].
  cbn in H. apply andb_prop in H as [Hc Hr]. apply negb_true_iff in Hc.
  assert (X : forall d, In d r -> f d <> f c).
  { intros d Hd Ed. assert (Y : memN (f c) (map f r) = true) by (apply memN_spec; rewrite <- Ed; now apply in_map).
    congruence. }
  destruct Ha as [->|Ha], Hb as [->|Hb]; auto.
  - exfalso. exact (X b Hb (eq_sym E)).
  - exfalso. exact (X a Ha E).
Qed.

(* the listed chains are the chains of their paths *)
Lemma listed_chain_gen t : forall pre acc ch,
  In ch (o_chains pre acc t) -> exists p, chain_path ch = pre ++ p /\ ochain_from t pre p acc = Some ch.
Proof.
  induction t as [k a b bo gl nl cs IH] using oscope_ind'. intros pre acc ch.
  rewrite o_chains_eq. intros [<-|H].
  - exists []. cbn. now rewrite app_nil_r.
  - cbn [ochildren] in H.
    destruct (o_chains_list_inv _ _ _ _ _ H) as (j & c & Hn & Hin). cbn [Nat.add] in Hin.
    rewrite Forall_forall in IH. destruct (IH c (nth_error_In _ _ Hn) _ _ _ Hin) as (p & Hp & Hc).
    exists (j :: p). split; [now rewrite Hp, <- app_assoc|].
    cbn [ochain_from ochildren]. now rewrite Hn.
Qed.

Lemma listed_chain ot ch : In ch (o_chains [] [] ot) -> ochain ot (chain_path ch) = Some ch.
Proof. intros H. destruct (listed_chain_gen ot [] [] ch H) as (p & Hp & Hc). cbn in Hp. now rewrite Hp. Qed.

Section OnModule.
  Variable p : program.
  Variable nl : N.
  Variable bi : list ident.
  Variable inh : path -> ident -> option binding.
  Variable init call : ident.
  Variable meths : list (path * option ident * (bool * bool)).
  Variable kwlike : N -> bool.
  Variable q : tok.
  Variable n : ident.
  Variable Pb : path.

  Local Notation st := (spec_tree nl p).
  Local Notation ot := (spec_otree nl p).
  Local Notation occs := (rope_occurrences bi inh (rope_tree p) init call meths kwlike (toks p) q).
  Local Notation ids := (rename_ids bi inh (rope_tree p) init call meths kwlike (toks p) q).
  Local Notation x := (t_name q).

  Hypothesis Hfrag : in_fragment_C02 bi inh init call meths kwlike p = true.
  Hypothesis Hwt : well_tokened nl p = true.
  Hypothesis Hfresh : fresh nl p n = true.
  Hypothesis Hq : In q (toks p).
  Hypothesis Cq : core q = true.
  Hypothesis Bq : spec_binding bi st q = BScope Pb.

  Lemma nodup_ids : nodupN (map t_id (toks p)) = true.
  Proof. pose proof Hwt as W. unfold well_tokened in W. now apply andb_prop in W as [H _]. Qed.

  Lemma occs_in o : In o occs -> In o (toks p) /\ t_name o = x.
  Proof.
    unfold rope_occurrences, candidates. intros H. apply filter_In in H as [H _].
    apply filter_In in H as [H E]. apply N.eqb_eq in E. now split.
  Qed.

  (* C02's exactness, in the form the alpha theorem wants *)
  Lemma token_exact t :
    In t (toks p) -> core t = true ->
    memN (t_id t) ids = (is_target Pb (spec_binding bi st t) && N.eqb (t_name t) x).
  Proof.
    intros Ht Ct. unfold rename_ids.
    destruct (memN (t_id t) (map t_id occs)) eqn:E.
    - apply memN_spec, in_map_iff in E as (o & Eo & Ho).
      destruct (occs_in o Ho) as [Hin Hn].
      assert (o = t) by (apply (nodupN_inj t_id (toks p) nodup_ids); auto). subst o.
      rewrite (sound p nl bi inh init call meths kwlike q t Hfrag Hq Cq Ct Ho), Bq, Hn, N.eqb_refl.
      unfold is_target. now rewrite binding_eqb_refl.
    - destruct (N.eqb_spec (t_name t) x) as [Hn|Hn]; [|now rewrite andb_false_r].
      rewrite andb_true_r. unfold is_target.
      destruct (binding_eqb (spec_binding bi st t) (BScope Pb)) eqn:B; [|reflexivity].
      apply binding_eqb_eq in B.
      assert (Ho : In t occs).
      { apply (complete p nl bi inh init call meths kwlike q t Hfrag Hq Ht Cq Ct Hn); [congruence|].
        rewrite Bq. discriminate. }
      assert (X : memN (t_id t) (map t_id occs) = true) by (apply memN_spec; now apply in_map).
      congruence.
  Qed.

  Lemma name_fresh t : In t (toks p) -> t_name t <> n.
  Proof.
    intros Ht E. pose proof Hfresh as F. unfold fresh in F. apply andb_prop in F as [H _]. apply negb_true_iff in H.
    assert (X : mem n (map t_name (toks p)) = true) by (apply mem_spec; rewrite <- E; now apply in_map).
    congruence.
  Qed.

  Lemma resolve_on_listed ch y :
    In ch (o_chains [] [] ot) ->
    spec_resolve bi st (chain_path ch) y = resolve_chain (spec_module_globals (to_s oname ot)) bi (schain_of ch) y.
  Proof.
    intros Hch. rewrite <- (forget_tree nl p). unfold spec_resolve.
    rewrite schain_to_s0, (listed_chain ot ch Hch). reflexivity.
  Qed.

  Lemma exact : exact_tree bi x n Pb ids ot = true.
  Proof.
    unfold exact_tree. apply andb_true_intro. split; [reflexivity|].
    apply forallb_forall. intros ch Hch.
    pose proof Hwt as W. unfold well_tokened in W. apply andb_prop in W as [_ W]. rewrite forallb_forall in W.
    specialize (W ch Hch). apply andb_prop in W as [Wt Wn].
    pose proof Hfresh as F. unfold fresh in F. apply andb_prop in F as [_ F]. rewrite forallb_forall in F.
    specialize (F ch Hch).
    destruct ch as [|[pq os] r]; [reflexivity|].
    cbn [exact_scope chain_scope chain_path] in *.
    rewrite Wn, F, !andb_true_r.
    apply forallb_forall. intros o Ho. rewrite forallb_forall in Wt. specialize (Wt o Ho).
    apply existsb_exists in Wt as (t & Ht & Hc). apply andb_prop in Hc as [Hc Hp]. apply andb_prop in Hc as [Ct Ho'].
    apply path_eqb_eq in Hp. unfold occ_eqb in Ho'. apply andb_prop in Ho' as [Ei En].
    apply N.eqb_eq in Ei, En.
    change (oid (t_occ t)) with (t_id t) in Ei. change (oname (t_occ t)) with (t_name t) in En.
    rewrite <- Ei, <- En, (token_exact t Ht Ct).
    destruct (N.eqb_spec (t_name t) x) as [Hn|Hn]; [|rewrite !andb_false_r; reflexivity].
    rewrite !andb_true_r. unfold spec_binding. rewrite Hp, Hn.
    change pq with (chain_path ((pq, os) :: r)).
    rewrite (resolve_on_listed _ x Hch). unfold D. apply Bool.eqb_reflx.
  Qed.

  (* every core token of the renamed module denotes the binding it denoted *)
  Theorem alpha_rename t :
    In t (toks p) -> core t = true -> alpha_tok bi nl p ids n (t_env t) (t_id t) (t_name t) = true.
  Proof.
    intros Ht Ct.
    apply (alpha_program bi nl p x n Pb ids).
    - exact (name_fresh q Hq).
    - exact exact.
    - exact (name_fresh t Ht).
    - rewrite (token_exact t Ht Ct). unfold spec_binding.
      destruct (N.eqb_spec (t_name t) x) as [Hn|Hn]; [now rewrite Hn | now rewrite !andb_false_r].
  Qed.
End OnModule.

(* the same without the structural hypothesis: inside the fragment C02's tokens and the SPEC's binders agree
   (TokensProofs.well_tokened_frag); what is asked of the program term is that its token ids are unique *)
Theorem alpha_rename_full p nl bi inh init call meths kwlike q n Pb :
  in_fragment_C02 bi inh init call meths kwlike p = true ->
  unique_ids p = true ->
  fresh_name p n = true ->
  In q (toks p) -> core q = true ->
  spec_binding bi (spec_tree nl p) q = BScope Pb ->
  forall t, In t (toks p) -> core t = true ->
    alpha_tok bi nl p (rename_ids bi inh (rope_tree p) init call meths kwlike (toks p) q) n
              (t_env t) (t_id t) (t_name t) = true.
Proof.
  intros Hf Hu Hn Hq Cq Bq t Ht Ct.
  assert (H15 : in_fragment_C15 p = true).
  { unfold in_fragment_C02 in Hf. now apply andb_prop in Hf as [H _]. }
  exact (alpha_rename p nl bi inh init call meths kwlike q n Pb Hf
           (well_tokened_frag nl p H15 Hu) (fresh_of_name nl p n H15 Hn) Hq Cq Bq t Ht Ct).
Qed.
