(* C02's token traversal ([toks], coq/C02/Occurrences.v) against the binder traversal of the SPEC (OccTree.spec_otree):
   inside C15's fragment every binder token of every scope of the token tree is a core token of [toks p] whose
   scope path is the path of that scope, and no scope has a nonlocal declaration ([well_tokened_frag]).
   This removes the structural hypothesis from the alpha theorem; what remains of it is that token ids are unique. *)
From Coq Require Import List NArith Bool PeanoNat Lia.
From RopeVerif.C15 Require Import Syntax Scoping RopeScopes Fragment RopeScopesProofs.
From RopeVerif.C02 Require Import Occurrences OccurrencesProofs.
From RopeVerif.C01 Require Import Rename OccTree OccTreeProofs AlphaSpec AlphaTreeProofs AlphaProofs.
Import ListNotations.

(* ------------------------------------------------------------------ the nested loops of e_toks as functions *)
Fixpoint arg_toks (env : path) (inner : option nat) (c : callee) (k : nat) (l : list expr) : list tok * nat :=
  match l with
  | [] => ([], k)
  | EKw o v :: r => let '(b, k2) := e_toks env inner k v in
                    let '(d, k3) := arg_toks env inner c k2 r in (mk env inner (RKw c) o :: b ++ d, k3)
  | x :: r => let '(b, k2) := e_toks env inner k x in
              let '(d, k3) := arg_toks env inner c k2 r in (b ++ d, k3)
  end.

Fixpoint gens_toks (env : path) (k : nat) (gs : list comp) : list tok * nat :=
  match gs with
  | [] => ([], k)
  | g :: r => let '(a, k1) := c_toks env k g in
              let '(b, k2) := gens_toks env k1 r in (a ++ b, k2)
  end.

Lemma e_toks_tuple env inner k es : e_toks env inner k (ETuple es) = es_toks env inner k es.
Proof.
  cbn [e_toks]. revert k. induction es as [|x r IH]; intros k; cbn [es_toks]; [reflexivity|].
  destruct (e_toks env inner k x) as [a k1]. now rewrite IH.
Qed.
Lemma e_toks_op env inner k es : e_toks env inner k (EOp es) = es_toks env inner k es.
Proof.
  cbn [e_toks]. revert k. induction es as [|x r IH]; intros k; cbn [es_toks]; [reflexivity|].
  destruct (e_toks env inner k x) as [a k1]. now rewrite IH.
Qed.

Lemma e_toks_call env inner k f args :
  e_toks env inner k (ECall f args) =
  let '(a, k1) := e_toks env inner k f in
  let '(b, k2) := arg_toks env inner (callee_of f) k1 args in (a ++ b, k2).
Proof.
  cbn [e_toks]. destruct (e_toks env inner k f) as [a k1].
  match goal with |- (let '(b, k2) := ?g k1 args in _) = _ =>
    assert (E : forall l k, g k l = arg_toks env inner (callee_of f) k l) end.
  { induction l as [|x r IH]; intros k0; [reflexivity|].
    destruct x; cbn -[e_toks mk]; destruct (e_toks env inner k0 _) as [bb kk]; rewrite IH; reflexivity. }
  now rewrite E.
Qed.

Lemma c_toks_eq env k t i ifs :
  c_toks env k (Comp t i ifs) =
  let '(a, k1) := e_toks env None k t in
  let '(b, k2) := e_toks env None k1 i in
  let '(d, k3) := es_toks env None k2 ifs in (a ++ b ++ d, k3).
Proof.
  cbn [c_toks]. destruct (e_toks env None k t) as [a k1]. destruct (e_toks env None k1 i) as [b k2].
  match goal with |- (let '(d, k3) := ?g k2 ifs in _) = _ =>
    assert (E : forall l k, g k l = es_toks env None k l) end.
  { induction l as [|x r IH]; intros k0; cbn [es_toks]; [reflexivity|].
    destruct (e_toks env None k0 x) as [a0 k0']. now rewrite IH. }
  now rewrite E.
Qed.

Lemma e_toks_comp env inner k ck ln st elts gens :
  e_toks env inner k (EComp ck ln st elts gens) =
  let c := env ++ [k] in
  let '(te, k1) := es_toks c None 0%nat elts in
  match gens with
  | [] => (te, S k)
  | Comp t0 i0 ifs0 :: rest =>
      let '(tg, k2) := e_toks c None k1 t0 in
      let '(ti, _) := e_toks env (Some k) 0%nat i0 in
      let '(tf, k3) := es_toks c None k2 ifs0 in
      let '(tr, _) := gens_toks c k3 rest in
      (te ++ tg ++ ti ++ tf ++ tr, S k)
  end.
Proof.
  cbn [e_toks]. cbv zeta.
  match goal with |- (let '(te, k1) := ?g 0%nat elts in _) = _ =>
    assert (E : forall l k', g k' l = es_toks (env ++ [k]) None k' l) end.
  { induction l as [|x r IH]; intros k0; cbn [es_toks]; [reflexivity|].
    destruct (e_toks (env ++ [k]) None k0 x) as [a0 k0']. now rewrite IH. }
  rewrite !E. destruct (es_toks (env ++ [k]) None 0 elts) as [te k1].
  destruct gens as [|[t0 i0 ifs0] rest]; [reflexivity|].
  destruct (e_toks (env ++ [k]) None k1 t0) as [tg k2]. destruct (e_toks env (Some k) 0 i0) as [ti ki].
  rewrite E. destruct (es_toks (env ++ [k]) None k2 ifs0) as [tf k3].
  match goal with |- (let '(tr, _) := ?g k3 rest in _) = _ =>
    assert (G : forall l k', g k' l = gens_toks (env ++ [k]) k' l) end.
  { induction l as [|x r IH]; intros k0; cbn [gens_toks]; [reflexivity|].
    destruct (c_toks (env ++ [k]) k0 x) as [a0 k0']. now rewrite IH. }
  now rewrite G.
Qed.

(* ------------------------------------------------------------------ what a token list covers *)
Definition is_tok (ts : list tok) (P : path) (o : occ) : Prop :=
  exists t, In t ts /\ core t = true /\ t_occ t = o /\ t_env t = P.
Definition covers (ts : list tok) (P : path) (bs : list occ) : Prop := forall o, In o bs -> is_tok ts P o.
Definition head_ok (ts : list tok) (ch : list (path * oscope)) : Prop :=
  covers ts (chain_path ch) (chain_scope ch)
  /\ match ch with (_, os) :: _ => ononlocals os = [] | [] => True end.
Definition tree_ok (ts : list tok) (pre : path) (sc : oscope) : Prop :=
  forall acc ch, In ch (o_chains pre acc sc) -> head_ok ts ch.

Definition incl_core (ts ts' : list tok) : Prop := forall t, In t ts -> core t = true -> In t ts'.
Lemma incl_incl_core ts ts' : incl ts ts' -> incl_core ts ts'.
Proof. intros I t Ht _. now apply I. Qed.
Lemma is_tok_incl_core ts ts' P o : incl_core ts ts' -> is_tok ts P o -> is_tok ts' P o.
Proof. intros I (t & Ht & C & H). exists t. split; [now apply I | now split]. Qed.
Lemma is_tok_incl ts ts' P o : incl ts ts' -> is_tok ts P o -> is_tok ts' P o.
Proof. intros I. apply is_tok_incl_core. now apply incl_incl_core. Qed.
Lemma covers_incl ts ts' P bs : incl ts ts' -> covers ts P bs -> covers ts' P bs.
Proof. intros I H o Ho. eapply is_tok_incl; eauto. Qed.
Lemma tree_ok_incl ts ts' pre sc : incl ts ts' -> tree_ok ts pre sc -> tree_ok ts' pre sc.
Proof.
  intros I H acc ch Hc. destruct (H acc ch Hc) as [A B]. split; [eapply covers_incl; eauto | exact B].
Qed.
Lemma covers_app ts P a b : covers ts P a -> covers ts P b -> covers ts P (a ++ b).
Proof. intros A B o Ho. apply in_app_or in Ho as [Ho|Ho]; auto. Qed.
Lemma covers_nil ts P : covers ts P [].
Proof. intros o []. Qed.

(* a producer of tokens that threads the index of the next child scope: it creates the scopes [scs] (in order)
   and covers the binder tokens [bs] of the current scope [env] *)
Definition good (env : path) (f : nat -> list tok * nat) (scs : list oscope) (bs : list occ) : Prop :=
  forall k, snd (f k) = (k + length scs)%nat
            /\ covers (fst (f k)) env bs
            /\ forall j sc, nth_error scs j = Some sc -> tree_ok (fst (f k)) (env ++ [(k + j)%nat]) sc.

Lemma good_nil env : good env (fun k => ([], k)) [] [].
Proof. intros k. cbn. split; [lia|]. split; [apply covers_nil | intros [|j] sc H; discriminate]. Qed.

Lemma good_seq env f g s1 s2 b1 b2 :
  good env f s1 b1 -> good env g s2 b2 ->
  good env (fun k => let '(a, k1) := f k in let '(b, k2) := g k1 in (a ++ b, k2)) (s1 ++ s2) (b1 ++ b2).
Proof.
  intros F G k. destruct (F k) as (F1 & F2 & F3). destruct (f k) as [a k1] eqn:Ef. cbn [fst snd] in *.
  destruct (G k1) as (G1 & G2 & G3). destruct (g k1) as [b k2] eqn:Eg. cbn [fst snd] in *.
  split; [|split].
  - rewrite app_length. lia.
  - apply covers_app; [eapply covers_incl; [|exact F2] | eapply covers_incl; [|exact G2]];
      intros t Ht; apply in_or_app; auto.
  - intros j sc Hn. destruct (Nat.lt_ge_cases j (length s1)) as [L|L].
    + rewrite nth_error_app1 in Hn by exact L. eapply tree_ok_incl; [|exact (F3 j sc Hn)].
      intros t Ht; apply in_or_app; auto.
    + rewrite nth_error_app2 in Hn by exact L.
      eapply tree_ok_incl; [|]. { intros t Ht; apply in_or_app; right; exact Ht. }
      replace (k + j)%nat with (k1 + (j - length s1))%nat by lia. exact (G3 _ sc Hn).
Qed.

(* extra tokens around, fewer binders asked for *)
Lemma covers_incl_core ts ts' P bs : incl_core ts ts' -> covers ts P bs -> covers ts' P bs.
Proof. intros I H o Ho. eapply is_tok_incl_core; eauto. Qed.
Lemma tree_ok_incl_core ts ts' pre sc : incl_core ts ts' -> tree_ok ts pre sc -> tree_ok ts' pre sc.
Proof.
  intros I H acc ch Hc. destruct (H acc ch Hc) as [A B]. split; [eapply covers_incl_core; eauto | exact B].
Qed.

Lemma good_weaken env f f' scs bs bs' :
  good env f scs bs ->
  (forall k, snd (f' k) = snd (f k) /\ incl_core (fst (f k)) (fst (f' k))) ->
  incl bs' bs ->
  good env f' scs bs'.
Proof.
  intros F H I k. destruct (F k) as (F1 & F2 & F3). destruct (H k) as [H1 H2]. split; [|split].
  - now rewrite H1.
  - intros o Ho. eapply is_tok_incl_core; [exact H2 | apply F2, I, Ho].
  - intros j sc Hn. eapply tree_ok_incl_core; [exact H2 | exact (F3 j sc Hn)].
Qed.

Lemma good_ext env f f' scs bs : good env f scs bs -> (forall k, f' k = f k) -> good env f' scs bs.
Proof. intros F E k. rewrite E. apply F. Qed.

(* the binder tokens may also be given by extra tokens of the producer *)
Lemma good_more env f scs bs extra :
  good env f scs bs -> (forall k, covers (fst (f k)) env extra) -> good env f scs (extra ++ bs).
Proof.
  intros F H k. destruct (F k) as (F1 & F2 & F3). split; [exact F1|]. split; [apply covers_app; auto | exact F3].
Qed.

(* ------------------------------------------------------------------ the chains under a scope *)
Lemma tree_ok_scope ts pre k0 a b bo gl nl cs :
  covers ts pre (bo ++ gl) -> nl = [] ->
  (forall j sc, nth_error cs j = Some sc -> tree_ok ts (pre ++ [j]) sc) ->
  tree_ok ts pre (OScope k0 a b bo gl nl cs).
Proof.
  intros Hc Hn Hk acc ch Hin. rewrite o_chains_eq in Hin. destruct Hin as [<-|Hin].
  - split; [exact Hc | exact Hn].
  - cbn [ochildren] in Hin. destruct (o_chains_list_inv _ _ _ _ _ Hin) as (j & c & Hj & Hc').
    exact (Hk j c Hj _ _ Hc').
Qed.

(* ------------------------------------------------------------------ targets: no hypothesis *)
Lemma mk_core_plain env inner o : core (mk env inner RPlain o) = true /\ t_occ (mk env inner RPlain o) = o
                                  /\ t_env (mk env inner RPlain o) = env.
Proof. repeat split. Qed.

Lemma es_toks_incl env inner es : forall k x, In x es ->
  exists k', incl (fst (e_toks env inner k' x)) (fst (es_toks env inner k es)).
Proof.
  induction es as [|y r IH]; intros k x Hx; [destruct Hx|].
  cbn [es_toks]. destruct (e_toks env inner k y) as [a k1] eqn:E.
  destruct (es_toks env inner k1 r) as [b k2] eqn:F. cbn [fst].
  destruct Hx as [->|Hx].
  - exists k. rewrite E. cbn. intros t Ht. apply in_or_app. now left.
  - destruct (IH k1 x Hx) as (k' & I). exists k'. rewrite F in I. cbn in I.
    intros t Ht. apply in_or_app. right. now apply I.
Qed.

Lemma targets_covered e : forall env inner k, covers (fst (e_toks env inner k e)) env (o_target_names e).
Proof.
  induction e using expr_ind'
    with (Q := fun _ => True); try (intros; exact I); intros env0 inner0 k0;
    try (cbn [o_target_names]; apply covers_nil).
  - intros x [<-|[]]. exists (mk env0 inner0 RPlain o). cbn. auto.
  - rewrite e_toks_tuple. cbn [o_target_names]. intros o Ho. apply in_flat_map in Ho as (x & Hx & Ho).
    rewrite Forall_forall in H. destruct (es_toks_incl env0 inner0 es k0 x Hx) as (k' & I).
    eapply is_tok_incl; [exact I|]. exact (H x Hx env0 inner0 k' o Ho).
Qed.

(* ------------------------------------------------------------------ expressions *)
Definition EP (e : expr) : Prop :=
  forall w, expr_ok w e = true ->
    (forall env inner, good env (fun k => e_toks env inner k e) (oe_scopes e) (oe_walrus e))
    /\ (w = false -> oe_walrus e = []).
Definition QP (c : comp) : Prop := match c with Comp t i ifs => EP t /\ EP i /\ Forall EP ifs end.

Lemma es_good w es :
  Forall EP es -> forallb (expr_ok w) es = true ->
  (forall env inner, good env (fun k => es_toks env inner k es) (flat_map oe_scopes es) (flat_map oe_walrus es))
  /\ (w = false -> flat_map oe_walrus es = []).
Proof.
  induction 1 as [|x r Hx _ IH]; intros Hok; cbn [forallb flat_map es_toks] in *.
  - split; [intros; apply good_nil | reflexivity].
  - apply andb_prop in Hok as [Ox Or]. destruct (Hx w Ox) as [Gx Wx]. destruct (IH Or) as [Gr Wr].
    split.
    + intros env inner. exact (good_seq env _ _ _ _ _ _ (Gx env inner) (Gr env inner)).
    + intros ->. now rewrite Wx, Wr.
Qed.

Lemma simple_list_ok w es : forallb simple_expr es = true -> forallb (expr_ok w) es = true.
Proof.
  intros H. apply forallb_forall. intros e He. rewrite forallb_forall in H. now apply simple_expr_ok, H.
Qed.

(* a simple expression creates no scope and binds nothing *)
Lemma simple_o_nil e : simple_expr e = true -> oe_scopes e = [] /\ oe_walrus e = [].
Proof.
  intros H. destruct (simple_expr_nil e H) as (_ & _ & W & S).
  rewrite <- forget_walrus in W. rewrite <- forget_scopes in S.
  split; [now destruct (oe_scopes e) | now destruct (oe_walrus e)].
Qed.
Lemma simple_list_o_nil es :
  forallb simple_expr es = true -> flat_map oe_scopes es = [] /\ flat_map oe_walrus es = [].
Proof.
  induction es as [|x r IH]; cbn; [auto|]. intros H. apply andb_prop in H as [Hx Hr].
  destruct (simple_o_nil x Hx) as [A B]. destruct (IH Hr) as [C D]. now rewrite A, B, C, D.
Qed.

Lemma comp_good t i ifs :
  QP (Comp t i ifs) -> gen_ok (Comp t i ifs) = true ->
  (forall env, good env (fun k => c_toks env k (Comp t i ifs)) (oc_scopes (Comp t i ifs)) [])
  /\ oc_walrus (Comp t i ifs) = [].
Proof.
  intros (Pt & Pi & Pf) H. cbn [gen_ok] in H. apply andb_prop in H as [H Hf]. apply andb_prop in H as [Ht Hi].
  destruct (Pt false Ht) as [Gt Wt]. destruct (Pi false Hi) as [Gi Wi].
  destruct (es_good false ifs Pf (simple_list_ok false ifs Hf)) as [Gf Wf].
  specialize (Wt eq_refl). specialize (Wi eq_refl). specialize (Wf eq_refl).
  split; [|cbn [oc_walrus]; now rewrite Wt, Wi, Wf].
  intros env. cbn [oc_scopes].
  pose proof (good_seq env _ _ _ _ _ _ (Gt env None)
               (good_seq env _ _ _ _ _ _ (Gi env None) (Gf env None))) as G.
  rewrite Wt, Wi, Wf in G. cbn [app] in G.
  eapply good_ext; [exact G|]. intros k. rewrite c_toks_eq.
  destruct (e_toks env None k t) as [a k1]. destruct (e_toks env None k1 i) as [b k2].
  destruct (es_toks env None k2 ifs) as [d k3]. reflexivity.
Qed.

Lemma gens_good gens :
  Forall QP gens -> forallb gen_ok gens = true ->
  (forall env, good env (fun k => gens_toks env k gens) (flat_map oc_scopes gens) [])
  /\ flat_map oc_walrus gens = [].
Proof.
  induction 1 as [|[t i ifs] r Hx _ IH]; intros Hok; cbn [forallb flat_map gens_toks] in *.
  - split; [intros; apply good_nil | reflexivity].
  - apply andb_prop in Hok as [Ox Or]. destruct (comp_good t i ifs Hx Ox) as [Gx Wx]. destruct (IH Or) as [Gr Wr].
    split; [|now rewrite Wx, Wr].
    intros env. exact (good_seq env _ _ _ _ [] [] (Gx env) (Gr env)).
Qed.

Lemma c_toks_targets env k t i ifs : covers (fst (c_toks env k (Comp t i ifs))) env (o_target_names t).
Proof.
  rewrite c_toks_eq. pose proof (targets_covered t env None k) as T.
  destruct (e_toks env None k t) as [a k1]. destruct (e_toks env None k1 i) as [b k2].
  destruct (es_toks env None k2 ifs) as [d k3]. cbn [fst] in *.
  eapply covers_incl; [|exact T]. intros x Hx. apply in_or_app. now left.
Qed.

Lemma gens_targets env gens : forall k, covers (fst (gens_toks env k gens)) env (flat_map oc_targets gens).
Proof.
  induction gens as [|[t i ifs] r IH]; intros k; cbn [flat_map gens_toks]; [apply covers_nil|].
  pose proof (c_toks_targets env k t i ifs) as T.
  destruct (c_toks env k (Comp t i ifs)) as [a k1]. specialize (IH k1).
  destruct (gens_toks env k1 r) as [b k2]. cbn [fst oc_targets] in *.
  apply covers_app; [eapply covers_incl; [|exact T] | eapply covers_incl; [|exact IH]];
    intros x Hx; apply in_or_app; auto.
Qed.

Lemma good_trivial env f : (forall k, snd (f k) = k) -> good env f [] [].
Proof.
  intros H k. split; [rewrite H; cbn; lia|]. split; [apply covers_nil | intros [|j] sc Hn; discriminate].
Qed.

Lemma noncore_drop t ts : core t = false -> incl_core (t :: ts) ts.
Proof. intros H x [<-|Hx] C; [congruence | exact Hx]. Qed.

Lemma arg_good w c args :
  Forall EP args -> forallb (expr_ok w) args = true ->
  (forall env inner, good env (fun k => arg_toks env inner c k args) (flat_map oe_scopes args) (flat_map oe_walrus args))
  /\ (w = false -> flat_map oe_walrus args = []).
Proof.
  induction 1 as [|x r Hx _ IH]; intros Hok; cbn [forallb flat_map] in *.
  - split; [intros; apply good_nil | reflexivity].
  - apply andb_prop in Hok as [Ox Or]. destruct (Hx w Ox) as [Gx Wx]. destruct (IH Or) as [Gr Wr].
    split; [|intros ->; now rewrite Wx, Wr].
    intros env inner.
    assert (Plain : forall y, good env (fun k => e_toks env inner k y) (oe_scopes y) (oe_walrus y) ->
                     good env (fun k => let '(b, k2) := e_toks env inner k y in
                                        let '(d, k3) := arg_toks env inner c k2 r in (b ++ d, k3))
                          (oe_scopes y ++ flat_map oe_scopes r) (oe_walrus y ++ flat_map oe_walrus r)).
    { intros y Gy. exact (good_seq env _ _ _ _ _ _ Gy (Gr env inner)). }
    destruct x; try exact (Plain _ (Gx env inner)).
    (* a keyword argument: the token of the keyword is not a core token *)
    cbn [oe_scopes oe_walrus arg_toks] in *.
    assert (Gv : good env (fun k => e_toks env inner k x) (oe_scopes x) (oe_walrus x)).
    { eapply good_weaken; [exact (Gx env inner) | | apply incl_refl].
      intros k. cbn [e_toks]. destruct (e_toks env inner k x) as [b k1]. cbn [fst snd].
      split; [reflexivity | now apply noncore_drop]. }
    eapply good_weaken; [exact (Plain x Gv) | | apply incl_refl].
    intros k. cbv beta. destruct (e_toks env inner k x) as [b k1]. destruct (arg_toks env inner c k1 r) as [d k3].
    cbn [fst snd]. split; [reflexivity|]. apply incl_incl_core. intros t Ht. now right.
Qed.

Theorem expr_EP : (forall e, EP e) /\ (forall c, QP c).
Proof.
  apply expr_comp_ind; unfold EP.
  - (* EName *) intros o w _. split; [|reflexivity]. intros env inner. now apply good_trivial.
  - (* EConst *) intros w _. split; [|reflexivity]. intros env inner. now apply good_trivial.
  - (* EAttr *) intros e o IH w Hok. cbn [expr_ok] in Hok. destruct (IH w Hok) as [G W]. split; [|exact W].
    intros env inner. cbn [oe_scopes oe_walrus].
    eapply good_weaken; [exact (G env inner) | | apply incl_refl].
    intros k. cbn [e_toks]. destruct (e_toks env inner k e) as [a k1]. cbn [fst snd].
    split; [reflexivity|]. apply incl_incl_core. intros t Ht. apply in_or_app. now left.
  - (* ESub *) intros e i IHe IHi w Hok. cbn [expr_ok] in Hok. apply andb_prop in Hok as [He Hi].
    destruct (IHe w He) as [Ge We]. destruct (IHi w Hi) as [Gi Wi].
    split; [|intros ->; cbn [oe_walrus]; now rewrite We, Wi].
    intros env inner. cbn [oe_scopes oe_walrus].
    eapply good_ext; [exact (good_seq env _ _ _ _ _ _ (Ge env inner) (Gi env inner))|].
    intros k. reflexivity.
  - (* ETuple *) intros es IH w Hok. cbn [expr_ok] in Hok. destruct (es_good w es IH Hok) as [G W].
    split; [|exact W]. intros env inner. cbn [oe_scopes oe_walrus].
    eapply good_ext; [exact (G env inner)|]. intros k. apply e_toks_tuple.
  - (* EOp *) intros es IH w Hok. cbn [expr_ok] in Hok. destruct (es_good w es IH Hok) as [G W].
    split; [|exact W]. intros env inner. cbn [oe_scopes oe_walrus].
    eapply good_ext; [exact (G env inner)|]. intros k. apply e_toks_op.
  - (* ECall *) intros f args IHf IHa w Hok. cbn [expr_ok] in Hok. apply andb_prop in Hok as [Hf Ha].
    destruct (IHf w Hf) as [Gf Wf]. destruct (arg_good w (callee_of f) args IHa Ha) as [Ga Wa].
    split; [|intros ->; cbn [oe_walrus]; now rewrite Wf, Wa].
    intros env inner. cbn [oe_scopes oe_walrus].
    eapply good_ext; [exact (good_seq env _ _ _ _ _ _ (Gf env inner) (Ga env inner))|].
    intros k. apply e_toks_call.
  - (* EKw *) intros o e IH w Hok. cbn [expr_ok] in Hok. destruct (IH w Hok) as [G W]. split; [|exact W].
    intros env inner. cbn [oe_scopes oe_walrus].
    eapply good_weaken; [exact (G env inner) | | apply incl_refl].
    intros k. cbn [e_toks]. destruct (e_toks env inner k e) as [b k1]. cbn [fst snd].
    split; [reflexivity|]. apply incl_incl_core. intros t Ht. now right.
  - (* ENamed *) intros o v IH w Hok. cbn [expr_ok] in Hok. apply andb_prop in Hok as [Hw Hv]. subst w.
    destruct (IH true Hv) as [G _]. split; [|discriminate].
    intros env inner. cbn [oe_scopes oe_walrus].
    change (o :: oe_walrus v) with ([o] ++ oe_walrus v).
    apply good_more.
    + eapply good_weaken; [exact (G env inner) | | apply incl_refl].
      intros k. cbn [e_toks]. destruct (e_toks env inner k v) as [b k1]. cbn [fst snd].
      split; [reflexivity|]. apply incl_incl_core. intros t Ht. now right.
    + intros k x [<-|[]]. cbn [e_toks]. destruct (e_toks env inner k v) as [b k1]. cbn [fst].
      exists (mk env inner RPlain o). split; [now left | repeat split].
  - (* ELambda *) intros l s ps ae b _ _ w Hok. discriminate.
  - (* EComp *) intros ck ln st elts gens IHe IHg w Hok. cbn [expr_ok] in Hok.
    apply andb_prop in Hok as [Helts Hg].
    destruct gens as [|[t0 i0 ifs0] rest]; [discriminate|].
    apply andb_prop in Hg as [Hg Hrest]. apply andb_prop in Hg as [Hg Hifs]. apply andb_prop in Hg as [Ht0 Hi0].
    inversion IHg as [|? ? Q0 Qrest]; subst. destruct Q0 as (Pt0 & Pi0 & Pifs).
    destruct (es_good false elts IHe Helts) as [Ge We]. specialize (We eq_refl).
    destruct (Pt0 false Ht0) as [Gt Wt]. specialize (Wt eq_refl).
    destruct (es_good false ifs0 Pifs (simple_list_ok false ifs0 Hifs)) as [Gf Wf]. specialize (Wf eq_refl).
    destruct (gens_good rest Qrest Hrest) as [Gr Wr].
    destruct (simple_o_nil i0 Hi0) as [Si Wi].
    destruct (simple_list_o_nil ifs0 Hifs) as [Sf _].
    assert (Wall : oe_walrus (EComp ck ln st elts (Comp t0 i0 ifs0 :: rest)) = []).
    { cbn [oe_walrus flat_map oc_walrus]. now rewrite We, Wt, Wi, Wf, Wr. }
    split; [|intros _; exact Wall].
    intros env inner. rewrite Wall. cbn [oe_scopes]. rewrite Si.
    intros k. rewrite e_toks_comp. cbv zeta.
    set (c := env ++ [k]).
    (* the producer of the tokens inside the comprehension, started at index 0 *)
    pose proof (good_seq c _ _ _ _ _ _ (Ge c None)
                 (good_seq c _ _ _ _ _ _ (Gt c None)
                    (good_seq c _ _ _ _ _ _ (Gf c None) (Gr c)))) as Gin.
    specialize (Gin 0%nat). cbv beta in Gin.
    pose proof (targets_covered t0 c None) as Tt.
    pose proof (gens_targets c rest) as Tr.
    destruct (es_toks c None 0 elts) as [te k1].
    specialize (Tt k1).
    destruct (e_toks c None k1 t0) as [tg k2].
    destruct (e_toks env (Some k) 0 i0) as [ti ki].
    destruct (es_toks c None k2 ifs0) as [tf k3].
    specialize (Tr k3).
    destruct (gens_toks c k3 rest) as [tr k4].
    cbn [fst snd] in *. destruct Gin as (_ & _ & Gkids).
    split; [cbn; lia|]. split; [apply covers_nil|].
    intros [|j] sc Hn; [|destruct j; discriminate]. cbn in Hn. inversion Hn; subst sc. clear Hn.
    rewrite Nat.add_0_r. fold c.
    apply tree_ok_scope; [| reflexivity |].
    + rewrite app_nil_r. apply covers_app.
      * eapply covers_incl; [|exact Tt]. intros x Hx. apply in_or_app. right. apply in_or_app. now left.
      * eapply covers_incl; [|exact Tr]. intros x Hx. do 4 (apply in_or_app; right). exact Hx.
    + intros j sc Hn. eapply tree_ok_incl; [|exact (Gkids j sc Hn)].
      intros x Hx. apply in_app_or in Hx as [Hx|Hx]; [apply in_or_app; now left|].
      apply in_or_app; right. apply in_app_or in Hx as [Hx|Hx]; [apply in_or_app; now left|].
      apply in_or_app; right. apply in_or_app; right. exact Hx.
  - (* Comp *) intros t i ifs Ht Hi Hf. cbn. auto.
Qed.

(* ------------------------------------------------------------------ the nested loops of s_toks as functions *)
Fixpoint handlers_toks (cls : bool) (env : path) (k : nat) (l : list (handler stmt)) : list tok * nat :=
  match l with
  | [] => ([], k)
  | Handler _ ty nm hb :: r =>
      let '(c, k1) := block_toks cls env k hb in
      let '(d, k2) := handlers_toks cls env k1 r in
      (flat_toks env None k (opt_list ty) ++ map (mk env None RPlain) (opt_list nm) ++ c ++ d, k2)
  end.

Ltac blk_is_block :=
  match goal with
  | |- context [(let '(_, _) := ?g ?c ?e ?k ?b in _)] =>
      let E := fresh "E" in
      assert (E : forall bb cc ee kk, g cc ee kk bb = block_toks cc ee kk bb);
      [ let bb0 := fresh "bb" in let IH0 := fresh "IH" in let cc0 := fresh "cc" in
        let ee0 := fresh "ee" in let kk0 := fresh "kk" in
        intro bb0; induction bb0 as [|? ? IH0]; intros cc0 ee0 kk0; cbn [block_toks]; [reflexivity|];
        match goal with |- context [s_toks cc0 ee0 kk0 ?x] => destruct (s_toks cc0 ee0 kk0 x) end;
        rewrite IH0; reflexivity
      | rewrite ?E ]
  end.

Lemma s_toks_if cls env k l t b o :
  s_toks cls env k (SIf l t b o) =
  let '(a, k1) := e_toks env None k t in
  let '(c, k2) := block_toks cls env k1 b in
  let '(d, k3) := block_toks cls env k2 o in (a ++ c ++ d, k3).
Proof. cbn [s_toks]. destruct (e_toks env None k t) as [a k1]. blk_is_block. reflexivity. Qed.
Lemma s_toks_while cls env k l t b o :
  s_toks cls env k (SWhile l t b o) =
  let '(a, k1) := e_toks env None k t in
  let '(c, k2) := block_toks cls env k1 b in
  let '(d, k3) := block_toks cls env k2 o in (a ++ c ++ d, k3).
Proof. cbn [s_toks]. destruct (e_toks env None k t) as [a k1]. blk_is_block. reflexivity. Qed.
Lemma s_toks_for cls env k l t i b o :
  s_toks cls env k (SFor l t i b o) =
  let '(c, k2) := block_toks cls env k b in
  let '(d, k3) := block_toks cls env k2 o in (flat_toks env None k [t; i] ++ c ++ d, k3).
Proof. cbn [s_toks]. blk_is_block. reflexivity. Qed.
Lemma s_toks_with cls env k l items b :
  s_toks cls env k (SWith l items b) =
  let '(c, k2) := block_toks cls env k b in
  (flat_map (fun it => flat_toks env None k (fst it :: opt_list (snd it))) items ++ c, k2).
Proof. cbn [s_toks]. blk_is_block. reflexivity. Qed.
Lemma s_toks_def cls env k l st d n ps ae r body :
  s_toks cls env k (SDef l st d n ps ae r body) =
  let c := env ++ [k] in
  let '(tb, _) := block_toks false c (length (flat_map rx_scopes ae)) body in
  (flat_toks env (Some k) 0%nat d
   ++ mk env (Some k) RDef n
   :: map (fun p => mk c None (RParam (oname n)) (pocc p)) ps
   ++ flat_toks env (Some k) 0%nat ae
   ++ flat_toks env (Some k) 0%nat (opt_list r)
   ++ tb,
   (S k + (if cls then match first_arg ps with
                       | Some _ => length (flat_map ci_scopes body)
                       | None => 0
                       end
           else 0))%nat).
Proof. cbn [s_toks]. cbv zeta. blk_is_block. reflexivity. Qed.
Lemma s_toks_class cls env k l st d n bs body :
  s_toks cls env k (SClass l st d n bs body) =
  let c := env ++ [k] in
  let '(tb, _) := block_toks true c (length (flat_map rx_scopes bs)) body in
  (flat_toks env (Some k) 0%nat d
   ++ mk env (Some k) RClass n
   :: flat_toks env (Some k) 0%nat bs
   ++ tb,
   S k).
Proof. cbn [s_toks]. cbv zeta. blk_is_block. reflexivity. Qed.
Lemma s_toks_try cls env k l b hs o f :
  s_toks cls env k (STry l b hs o f) =
  let '(a, k1) := block_toks cls env k b in
  let '(c, k2) := handlers_toks cls env k1 hs in
  let '(d, k3) := block_toks cls env k2 o in
  let '(e, k4) := block_toks cls env k3 f in (a ++ c ++ d ++ e, k4).
Proof.
  cbn [s_toks]. blk_is_block. destruct (block_toks cls env k b) as [a k1].
  match goal with |- (let '(c, k2) := ?g k1 hs in _) = _ =>
    assert (H : forall hl kk, g kk hl = handlers_toks cls env kk hl) end.
  { induction hl as [|[hl0 ty nm hb] r0 IH0]; intros kk; cbn [handlers_toks]; [reflexivity|].
    rewrite E. destruct (block_toks cls env kk hb) as [c0 k0']. now rewrite IH0. }
  now rewrite H.
Qed.

(* ------------------------------------------------------------------ statements *)
Ltac bools :=
  repeat match goal with
         | H : _ && _ = true |- _ => apply andb_prop in H; destruct H
         end.
Ltac incl_tac := let x := fresh in intros x; rewrite ?in_app_iff; cbn [In]; tauto.

Lemma good_perm env f scs bs bs' : good env f scs bs -> incl bs' bs -> good env f scs bs'.
Proof.
  intros F I. eapply good_weaken; [exact F | | exact I]. intros k. split; [reflexivity|].
  apply incl_incl_core, incl_refl.
Qed.

Lemma good_flat env (ts_of : nat -> list tok) bs :
  (forall k, covers (ts_of k) env bs) -> good env (fun k => (ts_of k, k)) [] bs.
Proof.
  intros H k. cbn [fst snd]. split; [cbn; lia|]. split; [apply H | intros [|j] sc Hn; discriminate].
Qed.

Lemma es_targets env inner es k : covers (fst (es_toks env inner k es)) env (flat_map o_target_names es).
Proof.
  intros o Ho. apply in_flat_map in Ho as (x & Hx & Ho).
  destruct (es_toks_incl env inner es k x Hx) as (k' & I).
  eapply is_tok_incl; [exact I|]. exact (targets_covered x env inner k' o Ho).
Qed.

(* simple expressions: es_toks neither advances the index nor creates scopes *)
Lemma simple_es_good es :
  forallb simple_expr es = true ->
  forall env inner, good env (fun k => es_toks env inner k es) [] (flat_map o_target_names es).
Proof.
  intros H env inner.
  assert (EPs : Forall EP es) by (apply Forall_forall; intros e _; apply expr_EP).
  destruct (es_good true es EPs (simple_list_ok true es H)) as [G _].
  destruct (simple_list_o_nil es H) as [S W]. specialize (G env inner). rewrite S, W in G.
  rewrite <- (app_nil_r (flat_map o_target_names es)). apply good_more; [exact G|].
  intros k. apply es_targets.
Qed.

Lemma simple_snd es : forallb simple_expr es = true -> forall env inner k, snd (es_toks env inner k es) = k.
Proof. intros H env inner k. destruct (simple_es_good es H env inner k) as [E _]. rewrite E. cbn. lia. Qed.

Definition SP (s : stmt) : Prop :=
  forall mn cls, frag_stmt mn cls s = true ->
    (forall env, good env (fun k => s_toks cls env k s) (os_scopes s) (os_binds s ++ os_globals s))
    /\ os_nonlocals s = [].

Lemma blk_good mn cls b :
  Forall SP b -> forallb (frag_stmt mn cls) b = true ->
  (forall env, good env (fun k => block_toks cls env k b) (flat_map os_scopes b)
                    (flat_map os_binds b ++ flat_map os_globals b))
  /\ flat_map os_nonlocals b = [].
Proof.
  induction 1 as [|x r Hx _ IH]; intros Hok; cbn [forallb flat_map block_toks] in *.
  - split; [intros; apply good_nil | reflexivity].
  - apply andb_prop in Hok as [Ox Or]. destruct (Hx mn cls Ox) as [Gx Nx]. destruct (IH Or) as [Gr Nr].
    split; [|now rewrite Nx, Nr].
    intros env. eapply good_perm; [exact (good_seq env _ _ _ _ _ _ (Gx env) (Gr env))|]. incl_tac.
Qed.

Lemma import_toks_cover env ns :
  covers (flat_map (import_toks env) ns) env (flat_map o_import_bound ns).
Proof.
  intros o Ho. apply in_flat_map in Ho as (n & Hn & Ho).
  assert (X : is_tok (import_toks env n) env o).
  { destruct n as [[|o0 os] [a|]]; cbn in Ho; try (destruct Ho as [<-|[]]); try destruct Ho.
    - exists (mk env None RPlain a). cbn. auto.
    - exists (mk env None RPlain a). split; [|repeat split]. cbn [import_toks]. apply in_or_app. right. now left.
    - exists (mk env None RPlain o0). cbn. auto. }
  eapply is_tok_incl; [|exact X]. intros t Ht. apply in_flat_map. now exists n.
Qed.

Lemma from_toks_cover env l :
  covers (flat_map (from_toks env) l) env (map o_from_bound l).
Proof.
  intros o Ho. apply in_map_iff in Ho as (n & <- & Hn).
  assert (X : is_tok (from_toks env n) env (o_from_bound n)).
  { destruct n as [o0 [a|]]; cbn.
    - exists (mk env None RPlain a). cbn. auto.
    - exists (mk env None RPlain o0). cbn. auto. }
  eapply is_tok_incl; [|exact X]. intros t Ht. apply in_flat_map. now exists n.
Qed.

Lemma plain_cover env os : covers (map (mk env None RPlain) os) env os.
Proof. intros o Ho. exists (mk env None RPlain o). split; [now apply in_map | repeat split]. Qed.

Lemma items_cover env k items :
  forallb (fun it : expr * option expr => match it with (c, v) => simple_expr c && oforall simple_expr v end) items = true ->
  covers (flat_map (fun it => flat_toks env None k (fst it :: opt_list (snd it))) items) env
         (flat_map o_item_binds items).
Proof.
  intros H o Ho. apply in_flat_map in Ho as (it & Hit & Ho).
  rewrite forallb_forall in H. specialize (H it Hit). destruct it as [c [v|]]; apply andb_prop in H as [Hc Hv].
  - cbn [o_item_binds] in Ho. destruct (simple_o_nil c Hc) as [_ Wc]. cbn in Hv. destruct (simple_o_nil v Hv) as [_ Wv].
    rewrite Wc, Wv, app_nil_r in Ho. cbn [app] in Ho.
    eapply is_tok_incl; [|apply (es_targets env None [c; v] k o)].
    + intros t Ht. apply in_flat_map. exists (c, Some v). split; [exact Hit | exact Ht].
    + cbn [flat_map]. apply in_or_app. right. apply in_or_app. now left.
  - cbn [o_item_binds] in Ho. destruct (simple_o_nil c Hc) as [_ Wc]. rewrite Wc in Ho. destruct Ho.
Qed.

Lemma handlers_good mn cls hs :
  Forall (HP SP) hs ->
  forallb (fun h => match h with Handler _ ty _ hb => oforall simple_expr ty && forallb (frag_stmt mn cls) hb end) hs = true ->
  (forall env, good env (fun k => handlers_toks cls env k hs)
                    (flat_map (fun h => match h with Handler _ ty _ hb => ooe_scopes ty ++ flat_map os_scopes hb end) hs)
                    (flat_map (fun h => match h with Handler _ ty nm hb => ooe_walrus ty ++ opt_list nm ++ flat_map os_binds hb end) hs
                     ++ flat_map (fun h => match h with Handler _ _ _ hb => flat_map os_globals hb end) hs))
  /\ flat_map (fun h => match h with Handler _ _ _ hb => flat_map os_nonlocals hb end) hs = [].
Proof.
  induction 1 as [|[hl ty nm hb] r Hx _ IH]; intros Hok; cbn [forallb flat_map handlers_toks] in *.
  - split; [intros; apply good_nil | reflexivity].
  - apply andb_prop in Hok as [Ox Or]. apply andb_prop in Ox as [Oty Ohb].
    unfold HP in Hx. cbn [hbody] in Hx. destruct (blk_good mn cls hb Hx Ohb) as [Gb Nb]. destruct (IH Or) as [Gr Nr].
    split; [|now rewrite Nb, Nr].
    assert (Sty : ooe_scopes ty = [] /\ ooe_walrus ty = []).
    { destruct ty as [e|]; cbn in *; [now apply simple_o_nil | auto]. }
    destruct Sty as [Sty Wty]. rewrite Sty, Wty. cbn [app].
    intros env.
    pose proof (good_seq env _ _ _ _ _ _ (Gb env) (Gr env)) as G0.
    assert (G1 : good env (fun k => handlers_toks cls env k (Handler hl ty nm hb :: r))
                      (flat_map os_scopes hb ++
                       flat_map (fun h => match h with Handler _ ty0 _ hb0 => ooe_scopes ty0 ++ flat_map os_scopes hb0 end) r)
                      ((flat_map os_binds hb ++ flat_map os_globals hb) ++
                       flat_map (fun h => match h with Handler _ ty0 nm0 hb0 => ooe_walrus ty0 ++ opt_list nm0 ++ flat_map os_binds hb0 end) r ++
                       flat_map (fun h => match h with Handler _ _ _ hb0 => flat_map os_globals hb0 end) r)).
    { eapply good_weaken; [exact G0 | | apply incl_refl].
      intros k. cbn [handlers_toks]. cbv beta.
      destruct (block_toks cls env k hb) as [c k1]. destruct (handlers_toks cls env k1 r) as [d k2].
      cbn [fst snd]. split; [reflexivity|]. apply incl_incl_core. intros t Ht.
      apply in_or_app. right. apply in_or_app. right. exact Ht. }
    eapply good_perm; [apply (good_more env _ _ _ (opt_list nm) G1)|incl_tac].
    intros k. cbn [handlers_toks].
    destruct (block_toks cls env k hb) as [c k1]. destruct (handlers_toks cls env k1 r) as [d k2]. cbn [fst].
    eapply covers_incl; [|apply plain_cover]. intros t Ht. apply in_or_app. right. apply in_or_app. now left.
Qed.

Ltac in_tac_goal := repeat rewrite ?in_app_iff; cbn [In]; repeat rewrite ?in_app_iff; tauto.
Ltac in_tac := let t := fresh "t" in let Ht := fresh "Ht" in
  intros t Ht; repeat rewrite ?in_app_iff in *; cbn [In] in *; repeat rewrite ?in_app_iff in *; tauto.

Lemma covers_sub ts P big small : covers ts P big -> incl small big -> covers ts P small.
Proof. intros H I o Ho. apply H, I, Ho. Qed.

Lemma osimple_o_nil r : oforall simple_expr r = true -> ooe_scopes r = [] /\ ooe_walrus r = [].
Proof. destruct r as [e|]; cbn; [apply simple_o_nil | auto]. Qed.

Lemma params_cover c f ps : covers (map (fun p => mk c None (RParam f) (pocc p)) ps) c (map pocc ps).
Proof.
  intros o Ho. apply in_map_iff in Ho as (p & <- & Hp).
  exists (mk c None (RParam f) (pocc p)). split; [|repeat split].
  apply in_map_iff. now exists p.
Qed.

Theorem stmt_SP s : SP s.
Proof.
  induction s using stmt_ind'; intros mn cls Hf; cbn [frag_stmt] in Hf; bools.
  - (* SExpr *)
    assert (EPs : Forall EP es) by (apply Forall_forall; intros e _; apply expr_EP).
    destruct (es_good true es EPs ltac:(assumption)) as [G _]. split; [|reflexivity].
    intros env. cbn [os_scopes os_binds os_globals]. eapply good_perm; [|rewrite app_nil_r; apply incl_refl].
    eapply good_ext; [exact (G env None)|]. reflexivity.
  - (* SReturn *)
    destruct (osimple_o_nil e ltac:(assumption)) as [S W]. split; [|reflexivity].
    intros env. cbn [os_scopes os_binds os_globals s_toks]. rewrite S, W. apply good_flat. intros k. apply covers_nil.
  - (* SAssign *)
    destruct (simple_list_o_nil ts ltac:(assumption)) as [S W]. destruct (proj1 expr_EP v true ltac:(assumption)) as [G _]. split; [|reflexivity].
    intros env. cbn [os_scopes os_binds os_globals]. rewrite S, W. cbn [app]. rewrite app_nil_r.
    apply good_more.
    + eapply good_weaken; [exact (G env None) | | apply incl_refl].
      intros k. cbn [s_toks]. destruct (e_toks env None k v) as [b k1]. cbn [fst snd].
      split; [reflexivity|]. apply incl_incl_core. in_tac.
    + intros k. cbn [s_toks]. destruct (e_toks env None k v) as [b k1]. cbn [fst].
      eapply covers_incl; [|apply (es_targets env None ts k)]. unfold flat_toks. in_tac.
  - (* SAug *)
    destruct (simple_o_nil t H) as [St Wt]. destruct (simple_o_nil v ltac:(assumption)) as [Sv Wv]. split; [|reflexivity].
    intros env. cbn [os_scopes os_binds os_globals s_toks]. rewrite St, Sv, Wt, Wv. cbn [app].
    apply good_flat. intros k. eapply covers_sub; [apply (es_targets env None [t; v] k)|]. cbn [flat_map]. in_tac.
  - (* SAnn *)
    destruct (simple_o_nil t H) as [St Wt]. destruct (simple_o_nil a ltac:(assumption)) as [Sa Wa].
    destruct (osimple_o_nil v ltac:(assumption)) as [Sv Wv]. split; [|reflexivity].
    intros env. cbn [os_scopes os_binds os_globals s_toks]. rewrite St, Sa, Sv, Wt, Wa, Wv. cbn [app].
    apply good_flat. intros k. eapply covers_sub; [apply (es_targets env None (t :: a :: opt_list v) k)|].
    cbn [flat_map]. in_tac.
  - (* SDel *)
    destruct (simple_list_o_nil ts ltac:(assumption)) as [S W]. split; [|reflexivity].
    intros env. cbn [os_scopes os_binds os_globals]. rewrite S, W, !app_nil_r.
    eapply good_ext; [exact (simple_es_good ts ltac:(assumption) env None)|]. reflexivity.
  - (* SPass *) split; [|reflexivity]. intros env. cbn. apply good_nil.
  - (* SIf *)
    destruct (proj1 expr_EP t true ltac:(assumption)) as [Gt _].
    destruct (blk_good mn cls b ltac:(assumption) ltac:(assumption)) as [Gb Nb]. destruct (blk_good mn cls o ltac:(assumption) ltac:(assumption)) as [Go No].
    split; [|cbn [os_nonlocals]; now rewrite Nb, No].
    intros env. cbn [os_scopes os_binds os_globals].
    eapply good_perm; [|].
    2:{ instantiate (1 := oe_walrus t ++ (flat_map os_binds b ++ flat_map os_globals b)
                          ++ (flat_map os_binds o ++ flat_map os_globals o)). in_tac. }
    eapply good_ext; [exact (good_seq env _ _ _ _ _ _ (Gt env None) (good_seq env _ _ _ _ _ _ (Gb env) (Go env)))|].
    intros k. rewrite s_toks_if. cbv beta. destruct (e_toks env None k t) as [a k1].
    destruct (block_toks cls env k1 b) as [c k2]. destruct (block_toks cls env k2 o) as [d k3]. reflexivity.
  - (* SWhile *)
    destruct (proj1 expr_EP t true ltac:(assumption)) as [Gt _].
    destruct (blk_good mn cls b ltac:(assumption) ltac:(assumption)) as [Gb Nb]. destruct (blk_good mn cls o ltac:(assumption) ltac:(assumption)) as [Go No].
    split; [|cbn [os_nonlocals]; now rewrite Nb, No].
    intros env. cbn [os_scopes os_binds os_globals].
    eapply good_perm; [|].
    2:{ instantiate (1 := oe_walrus t ++ (flat_map os_binds b ++ flat_map os_globals b)
                          ++ (flat_map os_binds o ++ flat_map os_globals o)). in_tac. }
    eapply good_ext; [exact (good_seq env _ _ _ _ _ _ (Gt env None) (good_seq env _ _ _ _ _ _ (Gb env) (Go env)))|].
    intros k. rewrite s_toks_while. cbv beta. destruct (e_toks env None k t) as [a k1].
    destruct (block_toks cls env k1 b) as [c k2]. destruct (block_toks cls env k2 o) as [d k3]. reflexivity.
  - (* SFor *)
    destruct (simple_o_nil t ltac:(assumption)) as [St Wt]. destruct (simple_o_nil i ltac:(assumption)) as [Si Wi].
    destruct (blk_good mn cls b ltac:(assumption) ltac:(assumption)) as [Gb Nb]. destruct (blk_good mn cls o ltac:(assumption) ltac:(assumption)) as [Go No].
    split; [|cbn [os_nonlocals]; now rewrite Nb, No].
    intros env. cbn [os_scopes os_binds os_globals]. rewrite St, Si, Wt, Wi. cbn [app].
    eapply good_perm; [|].
    2:{ instantiate (1 := o_target_names t ++ (flat_map os_binds b ++ flat_map os_globals b)
                          ++ (flat_map os_binds o ++ flat_map os_globals o)). in_tac. }
    apply good_more.
    + eapply good_weaken; [exact (good_seq env _ _ _ _ _ _ (Gb env) (Go env)) | | apply incl_refl].
      intros k. rewrite s_toks_for. cbv beta.
      destruct (block_toks cls env k b) as [c k2]. destruct (block_toks cls env k2 o) as [d k3]. cbn [fst snd].
      split; [reflexivity|]. apply incl_incl_core. in_tac.
    + intros k. rewrite s_toks_for.
      destruct (block_toks cls env k b) as [c k2]. destruct (block_toks cls env k2 o) as [d k3]. cbn [fst].
      eapply covers_sub; [eapply covers_incl; [|apply (es_targets env None [t; i] k)]|].
      * unfold flat_toks. in_tac.
      * cbn [flat_map]. in_tac.
  - (* SWith *)
    destruct (blk_good mn cls b ltac:(assumption) ltac:(assumption)) as [Gb Nb]. split; [|exact Nb].
    assert (Sit : flat_map o_item_scopes items = []).
    { apply (flat_map_nil_cond (fun it : expr * option expr => match it with (c, v) => simple_expr c && oforall simple_expr v end)); [|assumption].
      apply Forall_forall. intros [c [v|]] _ Hc; apply andb_prop in Hc as [Hc Hv]; cbn.
      - destruct (simple_o_nil c Hc) as [-> _]. cbn in Hv. now destruct (simple_o_nil v Hv) as [-> _].
      - now destruct (simple_o_nil c Hc) as [-> _]. }
    intros env. cbn [os_scopes os_binds os_globals]. rewrite Sit. cbn [app].
    eapply good_perm; [|].
    2:{ instantiate (1 := flat_map o_item_binds items ++ (flat_map os_binds b ++ flat_map os_globals b)). in_tac. }
    apply good_more.
    + eapply good_weaken; [exact (Gb env) | | apply incl_refl].
      intros k. rewrite s_toks_with. destruct (block_toks cls env k b) as [c k2]. cbn [fst snd].
      split; [reflexivity|]. apply incl_incl_core. in_tac.
    + intros k. rewrite s_toks_with. destruct (block_toks cls env k b) as [c k2]. cbn [fst].
      eapply covers_incl; [|apply (items_cover env k items ltac:(assumption))]. in_tac.
  - (* STry *)
    destruct (blk_good mn cls b ltac:(assumption) ltac:(assumption)) as [Gb Nb]. destruct (blk_good mn cls o ltac:(assumption) ltac:(assumption)) as [Go No].
    destruct (blk_good mn cls f ltac:(assumption) ltac:(assumption)) as [Gf Nf]. destruct (handlers_good mn cls hs ltac:(assumption) ltac:(assumption)) as [Gh Nh].
    split; [|cbn [os_nonlocals]; now rewrite Nb, Nh, No, Nf].
    intros env. cbn [os_scopes os_binds os_globals].
    eapply good_perm; [|].
    2:{ instantiate (1 := (flat_map os_binds b ++ flat_map os_globals b) ++
           (flat_map (fun h => match h with Handler _ ty nm hb => ooe_walrus ty ++ opt_list nm ++ flat_map os_binds hb end) hs
            ++ flat_map (fun h => match h with Handler _ _ _ hb => flat_map os_globals hb end) hs) ++
           (flat_map os_binds o ++ flat_map os_globals o) ++ (flat_map os_binds f ++ flat_map os_globals f)). in_tac. }
    eapply good_ext; [exact (good_seq env _ _ _ _ _ _ (Gb env) (good_seq env _ _ _ _ _ _ (Gh env)
                               (good_seq env _ _ _ _ _ _ (Go env) (Gf env))))|].
    intros k. rewrite s_toks_try. cbv beta. destruct (block_toks cls env k b) as [a k1].
    destruct (handlers_toks cls env k1 hs) as [c k2]. destruct (block_toks cls env k2 o) as [d k3].
    destruct (block_toks cls env k3 f) as [e k4]. reflexivity.
  - (* SDef *)
    destruct (simple_list_o_nil d ltac:(assumption)) as [Sd Wd]. destruct (simple_list_o_nil ae ltac:(assumption)) as [Sa Wa].
    destruct (osimple_o_nil r ltac:(assumption)) as [Sr Wr].
    destruct (simple_list_nil ae ltac:(assumption)) as (_ & Rae & _ & _).
    destruct (blk_good mn false b ltac:(assumption) ltac:(assumption)) as [Gb Nb].
    split; [|reflexivity].
    intros env. cbn [os_scopes os_binds os_globals]. rewrite Sd, Sa, Sr, Wd, Wa, Wr. cbn [app].
    intros k. rewrite s_toks_def. cbv zeta. rewrite Rae. cbn [length].
    set (c := env ++ [k]). destruct (Gb c 0%nat) as (_ & Cb & Kb).
    destruct (block_toks false c 0 b) as [tb kb]. cbn [fst snd] in *.
    split; [|split].
    + cbn [length]. destruct cls; [|lia]. destruct (first_arg ps); [|lia].
      destruct (ci_simple_list 0%N b ltac:(assumption)) as [_ ->]. cbn. lia.
    + intros o [<-|[]]. exists (mk env (Some k) RDef n). split; [in_tac_goal | repeat split].
    + intros [|j] sc Hn; [|destruct j; discriminate]. cbn in Hn. inversion Hn; subst sc. clear Hn.
      rewrite Nat.add_0_r. fold c. apply tree_ok_scope; [|exact Nb|].
      * rewrite <- app_assoc. apply covers_app.
        -- eapply covers_incl; [|apply (params_cover c (oname n) ps)]. in_tac.
        -- eapply covers_incl; [|exact Cb]. in_tac.
      * intros j sc Hn. eapply tree_ok_incl; [|exact (Kb j sc Hn)]. in_tac.
  - (* SClass *)
    destruct (simple_list_o_nil d ltac:(assumption)) as [Sd Wd]. destruct (simple_list_o_nil bs ltac:(assumption)) as [Sb Wb].
    destruct (simple_list_nil bs ltac:(assumption)) as (_ & Rbs & _ & _).
    destruct (blk_good mn true b ltac:(assumption) ltac:(assumption)) as [Gb Nb].
    split; [|reflexivity].
    intros env. cbn [os_scopes os_binds os_globals]. rewrite Sd, Sb, Wd, Wb. cbn [app].
    intros k. rewrite s_toks_class. cbv zeta. rewrite Rbs. cbn [length].
    set (c := env ++ [k]). destruct (Gb c 0%nat) as (_ & Cb & Kb).
    destruct (block_toks true c 0 b) as [tb kb]. cbn [fst snd] in *.
    split; [|split].
    + cbn [length]. lia.
    + intros o [<-|[]]. exists (mk env (Some k) RClass n). split; [in_tac_goal | repeat split].
    + intros [|j] sc Hn; [|destruct j; discriminate]. cbn in Hn. inversion Hn; subst sc. clear Hn.
      rewrite Nat.add_0_r. fold c. apply tree_ok_scope; [|exact Nb|].
      * eapply covers_incl; [|exact Cb]. in_tac.
      * intros j sc Hn. eapply tree_ok_incl; [|exact (Kb j sc Hn)]. in_tac.
  - (* SImport *) split; [|reflexivity]. intros env. cbn [os_scopes os_binds os_globals s_toks]. rewrite app_nil_r.
    apply good_flat. intros k. apply import_toks_cover.
  - (* SFrom *) split; [|reflexivity]. intros env. cbn [os_scopes os_binds os_globals s_toks].
    destruct ns as [ns|]; rewrite app_nil_r; apply good_flat; intros k; [|apply covers_nil].
    eapply covers_incl; [|apply from_toks_cover]. in_tac.
  - (* SGlobal *) split; [|reflexivity]. intros env. cbn [os_scopes os_binds os_globals s_toks app].
    apply good_flat. intros k. apply plain_cover.
  - (* SNonlocal *) discriminate.
Qed.

(* ------------------------------------------------------------------ programs *)
Theorem binders_are_tokens nl p :
  in_fragment_C15 p = true ->
  forall ch, In ch (o_chains [] [] (spec_otree nl p)) -> head_ok (toks p) ch.
Proof.
  intros Hf ch Hch. unfold in_fragment_C15 in Hf. apply andb_prop in Hf as [Hf _]. apply andb_prop in Hf as [Hf _].
  assert (SPs : Forall SP p) by (apply Forall_forall; intros s _; apply stmt_SP).
  destruct (blk_good _ false p SPs Hf) as [G N].
  destruct (G [] 0%nat) as (_ & C & K).
  assert (T : tree_ok (toks p) [] (spec_otree nl p)).
  { unfold spec_otree. apply tree_ok_scope; [exact C | exact N |]. intros j sc Hn. exact (K j sc Hn). }
  exact (T [] ch Hch).
Qed.

Lemma occ_eqb_refl o : occ_eqb o o = true.
Proof. unfold occ_eqb. now rewrite !N.eqb_refl. Qed.

(* the structural hypothesis of the first version of the alpha theorem holds on the whole fragment *)
Theorem well_tokened_frag nl p :
  in_fragment_C15 p = true -> unique_ids p = true -> well_tokened nl p = true.
Proof.
  intros Hf Hu. unfold well_tokened. apply andb_true_intro. split; [exact Hu|].
  apply forallb_forall. intros ch Hch. destruct (binders_are_tokens nl p Hf ch Hch) as [C Nn].
  apply andb_true_intro. split.
  - apply forallb_forall. intros o Ho. destruct (C o Ho) as (t & Ht & Ct & Eo & Ee).
    apply existsb_exists. exists t. split; [exact Ht|]. rewrite Ct, Eo, occ_eqb_refl, Ee. cbn.
    now apply path_eqb_eq.
  - destruct ch as [|[q os] r]; [reflexivity|]. now rewrite Nn.
Qed.

Lemma fresh_of_name nl p n :
  in_fragment_C15 p = true -> fresh_name p n = true -> fresh nl p n = true.
Proof.
  intros Hf Hn. unfold fresh. apply andb_true_intro. split; [exact Hn|].
  apply forallb_forall. intros ch Hch. destruct (binders_are_tokens nl p Hf ch Hch) as [C _].
  apply negb_true_iff. destruct (mem n (map oname (chain_scope ch))) eqn:E; [|reflexivity].
  apply mem_spec, in_map_iff in E as (o & Eo & Ho). destruct (C o Ho) as (t & Ht & _ & Et & _).
  unfold fresh_name in Hn. apply negb_true_iff in Hn.
  assert (X : mem n (map t_name (toks p)) = true).
  { apply mem_spec. apply in_map_iff. exists t. split; [|exact Ht]. unfold t_name. now rewrite Et. }
  congruence.
Qed.
