(* Correspondence runner for C01.

   A case is a project of flat modules (each translated from its source by the harness, with the textual facts C02's
   model takes as input) and a list of queries: (module, token id, is the new name a keyword) with what
   Rename(project, resource, offset).get_changes(new_name) did on the real library, reduced by the harness to
     ORefused                    RefactoringError
     ORaised                     another exception
     OChanges local edits moves  local = the value of rename._is_local(old_pyname); edits = per module the ids of the
                                 tokens whose spelling changed (the harness has checked that the new text is the old
                                 text with exactly these tokens respelled); moves = the modules whose file is moved
   Computed here (vm_compute): the model's answer (Rename.project_rename) against the observation, on the tokens the
   model speaks about; and - for queries inside the domain of the alpha theorem - the theorem's conclusion evaluated
   on the case.  A second kind of case compares the ChangeCollector model with the class itself. *)
From Coq Require Import List NArith Bool PeanoNat.
From RopeVerif.Lib Require Import Text.
From RopeVerif.C15 Require Import Syntax Scoping RopeScopes Fragment.
From RopeVerif.C02 Require Import Occurrences.
From RopeVerif.C01 Require Import Collector Rename OccTree AlphaSpec.
Import ListNotations.

Record pmod := {
  pm_name : ident;
  pm_prog : program;
  pm_nlines : N;
  pm_kwlike : list N;
  pm_skip : list N
}.

Inductive obs :=
| ORefused | ORaised
| OChanges (local : bool) (edits : list (N * list N)) (moves : list N).

(* [q_alpha]: evaluate the alpha theorem on this query (the harness sets it for one query per distinct change set) *)
Record query := { q_mod : N; q_tok : N; q_kw : bool; q_alpha : bool; q_obs : obs }.

Record case := {
  c_mods : list pmod;
  c_builtins : list ident;
  c_idents : list ident;
  c_init : ident;
  c_call : ident;
  c_odd : list ident;
  c_prop : ident;                  (* the identifier property *)
  c_fresh : ident;                 (* the new name of the queries that are not keyword queries *)
  c_queries : list query
}.

Definition subsetN (a b : list N) : bool := forallb (fun x => memN x b) a.
Definition seteqN (a b : list N) : bool := subsetN a b && subsetN b a.

Fixpoint assocN {A} (x : N) (l : list (N * A)) : option A :=
  match l with
  | [] => None
  | (y, v) :: r => if N.eqb x y then Some v else assocN x r
  end.

Definition is_unm (k : gkey) : bool := match k with GUnm => true | _ => false end.

(* computed once per case (vm_compute is call by value: a section-local [Let] would be recomputed by every
   definition that mentions it, i.e. once per query) *)
Definition case_ctx (c : case) : list mctx :=
  map (fun m => mk_ctx (c_builtins c) (c_idents c) (c_odd c) (c_prop c) (pm_name m) (pm_kwlike m) (pm_prog m)) (c_mods c).

(* per module, the ids of the tokens the model is compared on: not in a skipped textual situation, modelled *)
Definition case_cmps (c : case) (cx : list mctx) : list (list N) :=
  let skips := map (fun m => pm_skip m ++ unvisited_ids (pm_prog m)) (c_mods c) in
  map (fun jx =>
         map t_id (filter (fun t =>
                     if memN (t_id t) (nth (fst jx) skips []) then false
                     else negb (is_unm (gkey_of (c_builtins c) (c_init c) (c_call c) cx (fst jx) (snd jx) t)))
                   (x_ts (snd jx))))
      (enum_from 0 cx).

(* per module: inside C02's fragment / token ids unique and the new name fresh *)
Definition case_frags (c : case) (cx : list mctx) : list (bool * bool) :=
  map (fun mx => let m := fst mx in let x := snd mx in
                 (in_fragment_C02 (c_builtins c) (inh_of (x_inh x)) (c_init c) (c_call c) (x_ms x) (kw_of (x_kw x)) (pm_prog m),
                  unique_ids (pm_prog m) && fresh_name (pm_prog m) (c_fresh c)))
      (combine (c_mods c) cx).

Section Run.
  Variable c : case.
  Variable cx : list mctx.
  Variable cmps : list (list N).
  Variable frags : list (bool * bool).
  Let bi := c_builtins c.

  Definition cmp_ids (j : nat) : list N := nth j cmps [].
  Definition compared (j : nat) (t : tok) : bool := memN (t_id t) (cmp_ids j).

  (* 0 agree or not modelled; 2 edit sets differ; 3 refusal differs; 4 exception differs; 5 _is_local differs;
     6 resource moves differ; 7 the model has no such token *)
  Definition whole_module : N := 999999.

  Definition model_answer_gen (repaired : bool) (q : query) : option result :=
    let m := N.to_nat (q_mod q) in
    if N.eqb (q_tok q) whole_module then Some (module_rename bi (c_init c) (c_call c) cx compared m (q_kw q))
    else
      match token_of cx m (q_tok q) with
      | None => None
      | Some (x, t) =>
          if negb (compared m t) then Some RUnmodelled
          else Some (project_rename_gen bi (c_init c) (c_call c) cx repaired compared m (q_tok q) (q_kw q))
      end.
  Definition model_answer := model_answer_gen true.

  Definition check_query_gen (repaired : bool) (q : query) : N :=
    let m := N.to_nat (q_mod q) in
    match model_answer_gen repaired q with
    | None => 7
    | Some ans =>
          match ans, q_obs q with
          | RUnmodelled, _ => 0
          | RRefused, ORefused => 0
          | RRefused, _ => 3
          | _, ORefused => 3
          | RRaised, ORaised => 0
          | RRaised, _ => 4
          | _, ORaised => 4
          | RChanges loc edits moves, OChanges oloc oedits omoves =>
              (* rope finds the scope of the definition through its LINE: a local first assigned on a line that
                 also starts a comprehension is not recognised as local (all modules are searched: slower, same
                 result).  The model decides by ownership; only the unsafe direction is a disagreement. *)
              if oloc && negb loc then 5
              else if negb (seteqN (map N.of_nat moves) omoves) then 6
              else
                let mods := seq 0 (length cx) in
                if forallb (fun j =>
                     let want := match assocN (N.of_nat j) (map (fun e => (N.of_nat (fst e), snd e)) edits) with
                                 | Some l => l | None => [] end in
                     let got := filter (fun i => memN i (cmp_ids j))
                                       (match assocN (N.of_nat j) oedits with Some l => l | None => [] end) in
                     seteqN want got) mods
                then 0 else 2
          end
    end%N.


  Definition check_query (q : query) : N := check_query_gen true q.
  (* 1: the observation is the behaviour of the code AS FOUND for one of the two repaired defects (a builtin
     respelled, a module moved through its alias) and not the behaviour of the repaired code: reported by the
     harness as the return of a fixed defect *)
  Definition regressed (q : query) : N :=
    if N.eqb (check_query_gen true q) 0 then 0 else if N.eqb (check_query_gen false q) 0 then 1 else 0.

  (* for the evidence: 0 not modelled / not compared, 1 refused, 2 raised, 3 local rename, 4 rename of a name
     seen from several modules (some edit outside the query's module), 5 other rename, 6 module rename *)
  Definition classify (q : query) : N :=
    let m := N.to_nat (q_mod q) in
    match model_answer q with
    | None => 0
    | Some ans =>
          match ans with
          | RUnmodelled => 0
          | RRefused => 1
          | RRaised => 2
          | RChanges loc edits moves =>
              match moves with
              | _ :: _ => 6
              | [] => if loc then 3
                      else if existsb (fun e => negb (Nat.eqb (fst e) m)) edits then 4 else 5
              end
          end
    end%N.

  Fixpoint bad_from (i : N) (qs : list query) : list (N * N) :=
    match qs with
    | [] => []
    | q :: r => let code := check_query q in
                if N.eqb code 0 then bad_from (N.succ i) r else (i, code) :: bad_from (N.succ i) r
    end.

  (* the queries on which model and observation differ: (index of the query, code) *)
  Definition run_case : list (N * N) := bad_from 0 (c_queries c).

  (* 0 not applicable (keyword query, module rename, token that is not a core token or denotes no scope-owned
       binding, binding seen from several modules);
     1 inside the domain of C01_alpha_partial and its conclusion holds on every core token of the module;
     2 inside the domain and the conclusion FAILS (would contradict the theorem);
     3 outside C02's fragment, conclusion holds;   4 outside the fragment, conclusion fails;
     5 inside the fragment but the token ids are not unique or the new name is not fresh (a defect of the
       harness's translation, not of rope) *)
  Definition alpha_class (q : query) : N :=
    let m := N.to_nat (q_mod q) in
    if negb (q_alpha q) || q_kw q || N.eqb (q_tok q) whole_module then 0
    else
      match nth_error (c_mods c) m, token_of cx m (q_tok q), nth_error frags m with
      | Some pm, Some (x, t), Some (frag, wt) =>
          if negb (core t) then 0
          else
            let p := pm_prog pm in
            let nl := pm_nlines pm in
            match spec_binding bi (spec_tree nl p) t,
                  project_rename bi (c_init c) (c_call c) cx (fun _ _ => true) m (q_tok q) false with
            | BScope _, RChanges _ edits [] =>
                if existsb (fun e => negb (Nat.eqb (fst e) m)) edits then 0
                else
                  let ids := rename_ids bi (inh_of (x_inh x)) (x_rt x) (c_init c) (c_call c) (x_ms x)
                                        (kw_of (x_kw x)) (x_ts x) t in
                  let holds := forallb (fun u => if core u
                                                 then alpha_tok bi nl p ids (c_fresh c) (t_env u) (t_id u) (t_name u)
                                                 else true) (x_ts x) in
                  if frag then (if wt then (if holds then 1 else 2) else 5)
                  else (if holds then 3 else 4)
            | _, _ => 0
            end
      | _, _, _ => 0
      end%N.
  Definition alpha_classes : list N := map alpha_class (c_queries c).

  (* The alpha theorem on a rename of a MODULE-LEVEL binding that is seen from several modules (un-aliased
     from-imports, module attributes).  In module j the respelled tokens [ids_j] are a rename of j's own module-level
     name (when that name is linked to the target: Pb = []) or touch no binding of j at all (Pb = a path that owns
     nothing).  Evaluated per module: the hypotheses of C01_alpha_exact (exact_tree for ids_j, exactness on every core
     token, freshness) and its conclusion; and that every `from a import y` at module level (whose bound name is
     bound by no other import of the module) still names something the (relabelled) module a binds at module level.
       0 not such a rename;  6 hypotheses and conclusion hold in every module, import links kept;
       7 some hypothesis fails (outside the theorem's domain), conclusion and links hold;
       8 hypotheses hold but the conclusion FAILS somewhere (would contradict C01_alpha_exact);
       9 hypotheses fail and the conclusion or an import link fails *)
  Definition nowhere : path := repeat 0%nat 16.
  Definition ids_in (edits : list (nat * list N)) (j : nat) : list N :=
    match find (fun e => Nat.eqb (fst e) j) edits with Some e => snd e | None => [] end.
  Definition root_bound (pm : pmod) (ids : list N) (n : ident) : list ident :=
    map (new_name n ids) (obound (spec_otree (pm_nlines pm) (pm_prog pm))).

  Definition alpha_multi_class (q : query) : N :=
    let m := N.to_nat (q_mod q) in
    if negb (q_alpha q) || q_kw q || N.eqb (q_tok q) whole_module then 0
    else
      match token_of cx m (q_tok q) with
      | Some (xm, t) =>
          match gkey_of bi (c_init c) (c_call c) cx m xm t,
                project_rename bi (c_init c) (c_call c) cx (fun _ _ => true) m (q_tok q) false with
          | GVar m0 (BScope []) y, RChanges _ edits [] =>
              if forallb (fun e => Nat.eqb (fst e) m0) edits then 0
              else
                let x := t_name t in
                let n := c_fresh c in
                let target := GVar m0 (BScope []) y in
                let mods := combine (seq 0 (length cx)) (combine (c_mods c) cx) in
                let per := map (fun jmx =>
                  let j := fst jmx in let pm := fst (snd jmx) in let xj := snd (snd jmx) in
                  let p := pm_prog pm in let nl := pm_nlines pm in
                  let ids := ids_in edits j in
                  let Pb := if same_key target (name_in cx (fuel0 cx) j x) then [] else nowhere in
                  let st := spec_tree nl p in
                  let hyp :=
                    exact_tree bi x n Pb ids (spec_otree nl p)
                    && fresh_name p n
                    && forallb (fun u => if core u
                                         then Bool.eqb (memN (t_id u) ids)
                                                       (is_target Pb (spec_binding bi st u) && N.eqb (t_name u) x)
                                         else true) (x_ts xj) in
                  let concl :=
                    forallb (fun u => if core u then alpha_tok bi nl p ids n (t_env u) (t_id u) (t_name u) else true)
                            (x_ts xj) in
                  let links :=
                    forallb (fun u =>
                      match okind_of (t_occ u), t_env u with
                      | KImportName, [] =>
                          let bound := match t_role u with RAliased k => k | _ => t_name u end in
                          match (if Nat.eqb (length (filter (fun e => N.eqb (fst e) bound) (x_imports xj))) 1
                                 then last_import (x_imports xj) bound else None) with
                          | Some (TName a z) =>
                              match find_mod cx a with
                              | Some ia =>
                                  match nth_error (c_mods c) ia with
                                  | Some pa =>
                                      let z' := if memN (t_id u) ids then n else t_name u in
                                      implb (mem (t_name u) (root_bound pa [] n))
                                            (mem z' (root_bound pa (ids_in edits ia) n))
                                  | None => true
                                  end
                              | None => true
                              end
                          | _ => true
                          end
                      | _, _ => true
                      end) (x_ts xj) in
                  (hyp, concl && links)) mods in
                let hyps := forallb fst per in
                let concls := forallb snd per in
                if hyps then (if concls then 6 else 8) else (if concls then 7 else 9)
          | _, _ => 0
          end
      | None => 0
      end%N.
  Definition alpha_multi_classes : list N := map alpha_multi_class (c_queries c).
  Definition classes : list N := map classify (c_queries c).
  Definition regressed_count : N := fold_right N.add 0%N (map regressed (c_queries c)).
  Definition results := (run_case, classes, alpha_classes, regressed_count, alpha_multi_classes).
End Run.

Definition case_results (c : case) :=
  let cx := case_ctx c in
  results c cx (case_cmps c cx) (case_frags c cx).
(* per case: (mismatching queries, class per query, alpha class per query, observations that show a fixed defect
   again, alpha class of the renames that touch several modules) *)
Definition all_results (cs : list case) := map case_results cs.

(* debugging aid: the model's view of a case: per module, per token (id, key class, module of the key) *)
Definition describe (c : case) : list (list (N * (N * N))) :=
  let bi := c_builtins c in
  let cx := map (fun m => mk_ctx bi (c_idents c) (c_odd c) (c_prop c) (pm_name m) (pm_kwlike m) (pm_prog m)) (c_mods c) in
  map (fun jc =>
         map (fun t => (t_id t,
                        match gkey_of bi (c_init c) (c_call c) cx (fst jc) (snd jc) t with
                        | GNone => (0, 0) | GErr => (1, 0) | GUnm => (2, 0)
                        | GVar m _ _ => (3, N.of_nat m) | GMod m => (4, N.of_nat m) | GUnres => (5, 0) | GBuiltin _ => (6, 0)
                        end)) (x_ts (snd jc)))%N
      (enum_from 0 cx).

(* ------------------------------------------------------------------ ChangeCollector against the class *)
Record ccase := {
  cc_text : text;
  cc_changes : list (N * N * text);      (* in the order add_change was called *)
  cc_result : option text                (* get_changed() *)
}.

Definition opt_text_eqb (a b : option text) : bool :=
  match a, b with
  | None, None => true
  | Some x, Some y => text_eqb x y
  | _, _ => false
  end.

Definition run_ccase (c : ccase) : bool :=
  opt_text_eqb
    (get_changed (cc_text c) (map (fun e => Ch (N.to_nat (fst (fst e))) (N.to_nat (snd (fst e))) (snd e)) (cc_changes c)))
    (cc_result c).

Fixpoint cmismatches_from (i : N) (cs : list ccase) : list N :=
  match cs with
  | [] => []
  | c :: r => if run_ccase c then cmismatches_from (N.succ i) r else i :: cmismatches_from (N.succ i) r
  end.
Definition cmismatches (cs : list ccase) : list N := cmismatches_from 0 cs.

(* debugging aid: the model's answer to query number i: (kind, [(module, ids)]) with kind 0 not modelled, 1 refused,
   2 raised, 3 changes (local), 4 changes (not local) *)
Definition show_answer (c : case) (i : N) : N * list (N * list N) :=
  let cx := case_ctx c in
  match nth_error (c_queries c) (N.to_nat i) with
  | None => (9, [])
  | Some q =>
      match model_answer c cx (case_cmps c cx) q with
      | None => (8, [])
      | Some RUnmodelled => (0, [])
      | Some RRefused => (1, [])
      | Some RRaised => (2, [])
      | Some (RChanges loc edits moves) =>
          (if loc then 3 else 4, map (fun e => (N.of_nat (fst e), snd e)) edits ++ map (fun m => (N.of_nat m, [999999])) moves)
      end
  end%N.
