(* Correspondence runner for C01.

   A case is a project of flat modules (each translated from its source by the harness, with the textual facts C02's
   model takes as input) and a list of queries: (module, token id, is the new name a keyword) with what
   Rename(project, resource, offset).get_changes(new_name) did on the real library, reduced by the harness to
     ORefused                    RefactoringError
     ORaised                     another exception
     OChanges local edits moves  local = the value of rename._is_local(old_pyname); edits = per module the ids of the
                                 tokens whose spelling changed (the harness has checked that the new text is the old
                                 text with exactly these tokens respelled); moves = the modules whose file is moved
   Computed here (vm_compute): the model's answer (Rename.project_rename) against the observation, on the tokens the
   model speaks about; and - for queries inside the domain of the alpha theorem - the theorem's conclusion evaluated
   on the case.  A second kind of case compares the ChangeCollector model with the class itself. *)
From Coq Require Import List NArith Bool PeanoNat.
From RopeVerif.Lib Require Import Text.
From RopeVerif.C15 Require Import Syntax Scoping RopeScopes Fragment.
From RopeVerif.C02 Require Import Occurrences.
From RopeVerif.C01 Require Import Collector Rename.
Import ListNotations.

Record pmod := {
  pm_name : ident;
  pm_prog : program;
  pm_nlines : N;
  pm_kwlike : list N;
  pm_skip : list N
}.

Inductive obs :=
| ORefused | ORaised
| OChanges (local : bool) (edits : list (N * list N)) (moves : list N).

Record query := { q_mod : N; q_tok : N; q_kw : bool; q_obs : obs }.

Record case := {
  c_mods : list pmod;
  c_builtins : list ident;
  c_idents : list ident;
  c_init : ident;
  c_call : ident;
  c_odd : list ident;
  c_queries : list query
}.

Definition subsetN (a b : list N) : bool := forallb (fun x => memN x b) a.
Definition seteqN (a b : list N) : bool := subsetN a b && subsetN b a.

Fixpoint assocN {A} (x : N) (l : list (N * A)) : option A :=
  match l with
  | [] => None
  | (y, v) :: r => if N.eqb x y then Some v else assocN x r
  end.

Definition is_unm (k : gkey) : bool := match k with GUnm => true | _ => false end.

Section Run.
  Variable c : case.
  Let bi := c_builtins c.
  Let cx := map (fun m => mk_ctx bi (c_idents c) (c_odd c) (pm_name m) (pm_kwlike m) (pm_prog m)) (c_mods c).
  Let skips := map pm_skip (c_mods c).

  Definition compared (j : nat) (t : tok) : bool :=
    negb (memN (t_id t) (nth j skips []))
    && match nth_error cx j with
       | Some x => negb (is_unm (gkey_of bi (c_init c) (c_call c) cx j x t))
       | None => false
       end.

  Definition cmp_ids (j : nat) : list N :=
    match nth_error cx j with
    | Some x => map t_id (filter (compared j) (x_ts x))
    | None => []
    end.

  (* 0 agree or not modelled; 2 edit sets differ; 3 refusal differs; 4 exception differs; 5 _is_local differs;
     6 resource moves differ; 7 the model has no such token *)
  Definition whole_module : N := 999999.

  Definition model_answer (q : query) : option result :=
    let m := N.to_nat (q_mod q) in
    if N.eqb (q_tok q) whole_module then Some (module_rename bi (c_init c) (c_call c) cx compared m (q_kw q))
    else
      match token_of cx m (q_tok q) with
      | None => None
      | Some (x, t) =>
          if negb (compared m t) then Some RUnmodelled
          else Some (project_rename bi (c_init c) (c_call c) cx compared m (q_tok q) (q_kw q))
      end.

  Definition check_query (q : query) : N :=
    let m := N.to_nat (q_mod q) in
    match model_answer q with
    | None => 7
    | Some ans =>
          match ans, q_obs q with
          | RUnmodelled, _ => 0
          | RRefused, ORefused => 0
          | RRefused, _ => 3
          | _, ORefused => 3
          | RRaised, ORaised => 0
          | RRaised, _ => 4
          | _, ORaised => 4
          | RChanges loc edits moves, OChanges oloc oedits omoves =>
              if negb (Bool.eqb loc oloc) then 5
              else if negb (seteqN (map N.of_nat moves) omoves) then 6
              else
                let mods := seq 0 (length cx) in
                if forallb (fun j =>
                     let want := match assocN (N.of_nat j) (map (fun e => (N.of_nat (fst e), snd e)) edits) with
                                 | Some l => l | None => [] end in
                     let got := filter (fun i => memN i (cmp_ids j))
                                       (match assocN (N.of_nat j) oedits with Some l => l | None => [] end) in
                     seteqN want got) mods
                then 0 else 2
          end
    end%N.


  (* for the evidence: 0 not modelled / not compared, 1 refused, 2 raised, 3 local rename, 4 rename of a name
     seen from several modules (some edit outside the query's module), 5 other rename, 6 module rename *)
  Definition classify (q : query) : N :=
    let m := N.to_nat (q_mod q) in
    match model_answer q with
    | None => 0
    | Some ans =>
          match ans with
          | RUnmodelled => 0
          | RRefused => 1
          | RRaised => 2
          | RChanges loc edits moves =>
              match moves with
              | _ :: _ => 6
              | [] => if loc then 3
                      else if existsb (fun e => negb (Nat.eqb (fst e) m)) edits then 4 else 5
              end
          end
    end%N.

  Fixpoint first_bad (i : N) (qs : list query) : N :=
    match qs with
    | [] => 0
    | q :: r => let code := check_query q in
                if N.eqb code 0 then first_bad (N.succ i) r else (code + 10 * i)%N
    end.

  (* 0: every query agrees; otherwise code + 10 * index of the first query that does not *)
  Definition run_case : N := first_bad 0 (c_queries c).
  Definition classes : list N := map classify (c_queries c).
End Run.

Fixpoint mismatches_from (i : N) (cs : list case) : list (N * N) :=
  match cs with
  | [] => []
  | c :: r =>
      let code := run_case c in
      if N.eqb code 0 then mismatches_from (N.succ i) r else (i, code) :: mismatches_from (N.succ i) r
  end.
Definition mismatches (cs : list case) : list (N * N) := mismatches_from 0 cs.
Definition all_classes (cs : list case) : list (list N) := map classes cs.

(* debugging aid: the model's view of a case: per module, per token (id, key class, module of the key) *)
Definition describe (c : case) : list (list (N * (N * N))) :=
  let bi := c_builtins c in
  let cx := map (fun m => mk_ctx bi (c_idents c) (c_odd c) (pm_name m) (pm_kwlike m) (pm_prog m)) (c_mods c) in
  map (fun jc =>
         map (fun t => (t_id t,
                        match gkey_of bi (c_init c) (c_call c) cx (fst jc) (snd jc) t with
                        | GNone => (0, 0) | GErr => (1, 0) | GUnm => (2, 0)
                        | GVar m _ _ => (3, N.of_nat m) | GMod m => (4, N.of_nat m) | GUnres => (5, 0)
                        end)) (x_ts (snd jc)))%N
      (enum_from 0 cx).

(* ------------------------------------------------------------------ ChangeCollector against the class *)
Record ccase := {
  cc_text : text;
  cc_changes : list (N * N * text);      (* in the order add_change was called *)
  cc_result : option text                (* get_changed() *)
}.

Definition opt_text_eqb (a b : option text) : bool :=
  match a, b with
  | None, None => true
  | Some x, Some y => text_eqb x y
  | _, _ => false
  end.

Definition run_ccase (c : ccase) : bool :=
  opt_text_eqb
    (get_changed (cc_text c) (map (fun e => Ch (N.to_nat (fst (fst e))) (N.to_nat (snd (fst e))) (snd e)) (cc_changes c)))
    (cc_result c).

Fixpoint cmismatches_from (i : N) (cs : list ccase) : list N :=
  match cs with
  | [] => []
  | c :: r => if run_ccase c then cmismatches_from (N.succ i) r else i :: cmismatches_from (N.succ i) r
  end.
Definition cmismatches (cs : list ccase) : list N := cmismatches_from 0 cs.
