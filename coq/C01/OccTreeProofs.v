(* The token tree (OccTree.v) against the SPEC tree (coq/C15/Scoping.v) and against relabelling (Rename.v):
     forget_tree   : to_s oname (spec_otree nl p) = spec_tree nl p
     relabel_tree  : spec_otree nl (relabel f p) = omap f (spec_otree nl p)
     to_s_omap     : to_s nm (omap f t) = to_s (fun o => nm (f o)) t
   hence  spec_tree nl (relabel f p) = to_s (fun o => oname (f o)) (spec_otree nl p)   ([spec_tree_relabel]). *)
From Coq Require Import List NArith Bool.
From RopeVerif.C15 Require Import Syntax Scoping.
From RopeVerif.C01 Require Import Rename OccTree.
Import ListNotations.

(* ------------------------------------------------------------------ list helpers *)
Lemma mfm {A B C} (g : B -> C) (f : A -> list B) (f' : A -> list C) l :
  Forall (fun x => map g (f x) = f' x) l -> map g (flat_map f l) = flat_map f' l.
Proof. induction 1 as [|x l H _ IH]; cbn; [reflexivity|]. now rewrite map_app, H, IH. Qed.

Lemma fmm {A B C} (h : A -> A) (g : A -> list B) (k : B -> C) (g' : A -> list C) l :
  Forall (fun x => g' (h x) = map k (g x)) l -> flat_map g' (map h l) = map k (flat_map g l).
Proof. induction 1 as [|x l H _ IH]; cbn; [reflexivity|]. now rewrite map_app, H, IH. Qed.

Lemma Forall_and3 {A} (P Q R : A -> Prop) l :
  Forall (fun x => P x /\ Q x /\ R x) l -> Forall P l /\ Forall Q l /\ Forall R l.
Proof.
  induction 1 as [|x l [H1 [H2 H3]] _ [I1 [I2 I3]]]; [repeat split; constructor|].
  repeat split; constructor; assumption.
Qed.

Lemma Forall_and4 {A} (P Q R S : A -> Prop) l :
  Forall (fun x => P x /\ Q x /\ R x /\ S x) l -> Forall P l /\ Forall Q l /\ Forall R l /\ Forall S l.
Proof.
  induction 1 as [|x l [H1 [H2 [H3 H4]]] _ [I1 [I2 [I3 I4]]]]; [repeat split; constructor|].
  repeat split; constructor; assumption.
Qed.

Lemma map_pname ps : map oname (map pocc ps) = map pname ps.
Proof. rewrite map_map. apply map_ext. reflexivity. Qed.

(* ------------------------------------------------------------------ 1. forgetting the tokens *)
Definition F1e (e : expr) : Prop :=
  map oname (o_target_names e) = target_names e
  /\ map oname (oe_walrus e) = e_walrus e
  /\ map (to_s oname) (oe_scopes e) = e_scopes e.
Definition F1c (c : comp) : Prop :=
  match c with Comp t i ifs => F1e t /\ F1e i /\ Forall F1e ifs end.

Lemma F1c_walrus c : F1c c -> map oname (oc_walrus c) = c_walrus c.
Proof.
  destruct c as [t i ifs]. intros ((_ & Wt & _) & (_ & Wi & _) & H). apply Forall_and3 in H as (_ & Wf & _).
  cbn. rewrite !map_app, Wt, Wi. do 2 f_equal. apply mfm; assumption.
Qed.
Lemma F1c_targets c : F1c c -> map oname (oc_targets c) = c_targets c.
Proof. destruct c as [t i ifs]. intros ((Tt & _ & _) & _). exact Tt. Qed.
Lemma F1c_scopes c : F1c c -> map (to_s oname) (oc_scopes c) = c_scopes c.
Proof.
  destruct c as [t i ifs]. intros ((_ & _ & St) & (_ & _ & Si) & H). apply Forall_and3 in H as (_ & _ & Sf).
  cbn. rewrite !map_app, St, Si. do 2 f_equal. apply mfm; assumption.
Qed.

Lemma forget_expr_comp : (forall e, F1e e) /\ (forall c, F1c c).
Proof.
  apply expr_comp_ind; unfold F1e.
  - intros o. repeat split.
  - repeat split.
  - intros e o (T & W & S). repeat split; cbn; assumption.
  - intros e i (T1 & W1 & S1) (T2 & W2 & S2). repeat split; cbn; rewrite ?map_app; congruence.
  - intros es H. apply Forall_and3 in H as (T & W & S).
    repeat split; cbn; apply mfm; assumption.
  - intros es H. apply Forall_and3 in H as (T & W & S).
    repeat split; cbn; [apply mfm; assumption | apply mfm; assumption].
  - intros f args (T & W & S) H. apply Forall_and3 in H as (Ta & Wa & Sa).
    repeat split; cbn; rewrite ?map_app; f_equal; try assumption; apply mfm; assumption.
  - intros o e (T & W & S). repeat split; cbn; assumption.
  - intros o v (T & W & S). repeat split; cbn; [now rewrite W | assumption].
  - intros l s ps ae b H (T & W & S). apply Forall_and3 in H as (Ta & Wa & Sa).
    repeat split; cbn.
    + apply mfm; assumption.
    + rewrite map_app, map_pname, W, S. f_equal. apply mfm; assumption.
  - intros k l s elts gens He Hg. apply Forall_and3 in He as (Te & We & Se).
    repeat split; cbn.
    + rewrite map_app. f_equal; [apply mfm; assumption|].
      apply mfm. eapply Forall_impl; [|exact Hg]. apply F1c_walrus.
    + destruct gens as [|[t0 i0 ifs0] rest]; [reflexivity|].
      inversion Hg as [|? ? H0 Hr]; subst. destruct H0 as ((Tt & Wt & St) & (Ti & Wi & Si) & Hf).
      apply Forall_and3 in Hf as (_ & _ & Sf).
      cbn [map to_s]. rewrite !map_app, Tt, St, Si. f_equal. f_equal.
      * f_equal. apply mfm. eapply Forall_impl; [|exact Hr]. apply F1c_targets.
      * f_equal; [apply mfm; assumption|]. f_equal. f_equal; [apply mfm; assumption|].
        apply mfm. eapply Forall_impl; [|exact Hr]. apply F1c_scopes.
  - intros t i ifs Ht Hi H. cbn. auto.
Qed.

Lemma forget_e e : F1e e. Proof. apply forget_expr_comp. Qed.
Lemma forget_targets e : map oname (o_target_names e) = target_names e. Proof. apply forget_e. Qed.
Lemma forget_walrus e : map oname (oe_walrus e) = e_walrus e. Proof. apply forget_e. Qed.
Lemma forget_scopes e : map (to_s oname) (oe_scopes e) = e_scopes e. Proof. apply forget_e. Qed.

Lemma forget_walrus_l es : map oname (flat_map oe_walrus es) = flat_map e_walrus es.
Proof. apply mfm, Forall_forall. intros e _. apply forget_walrus. Qed.
Lemma forget_targets_l es : map oname (flat_map o_target_names es) = flat_map target_names es.
Proof. apply mfm, Forall_forall. intros e _. apply forget_targets. Qed.
Lemma forget_scopes_l es : map (to_s oname) (flat_map oe_scopes es) = flat_map e_scopes es.
Proof. apply mfm, Forall_forall. intros e _. apply forget_scopes. Qed.
Lemma forget_owalrus o : map oname (ooe_walrus o) = Scoping.oe_walrus o.
Proof. destruct o; cbn; [apply forget_walrus | reflexivity]. Qed.
Lemma forget_oscopes o : map (to_s oname) (ooe_scopes o) = Scoping.oe_scopes o.
Proof. destruct o; cbn; [apply forget_scopes | reflexivity]. Qed.

(* ---- statements *)
Definition F1s (s : stmt) : Prop :=
  map oname (os_binds s) = s_binds s
  /\ map oname (os_globals s) = s_globals s
  /\ map oname (os_nonlocals s) = s_nonlocals s
  /\ map (to_s oname) (os_scopes s) = s_scopes s.

Lemma F1_body b :
  Forall F1s b ->
  map oname (flat_map os_binds b) = flat_map s_binds b
  /\ map oname (flat_map os_globals b) = flat_map s_globals b
  /\ map oname (flat_map os_nonlocals b) = flat_map s_nonlocals b
  /\ map (to_s oname) (flat_map os_scopes b) = flat_map s_scopes b.
Proof. intros H. apply Forall_and4 in H as (B & G & N & S). repeat split; apply mfm; assumption. Qed.

Lemma forget_import_bound n : map oname (o_import_bound n) = import_bound n.
Proof. destruct n as [[|o os] [a|]]; reflexivity. Qed.
Lemma forget_item_binds it : map oname (o_item_binds it) = item_binds it.
Proof.
  destruct it as [c [v|]]; cbn; rewrite ?map_app, ?forget_walrus, ?forget_targets; reflexivity.
Qed.
Lemma forget_item_scopes it : map (to_s oname) (o_item_scopes it) = item_scopes it.
Proof. destruct it as [c [v|]]; cbn; rewrite ?map_app, ?forget_scopes; reflexivity. Qed.

Ltac fg :=
  repeat (rewrite ?map_app, ?forget_walrus, ?forget_targets, ?forget_scopes, ?forget_walrus_l, ?forget_targets_l,
          ?forget_scopes_l, ?forget_owalrus, ?forget_oscopes); try reflexivity.

Lemma forget_stmt s : F1s s.
Proof.
  induction s using stmt_ind'; unfold F1s, s_binds; cbn [os_binds os_globals os_nonlocals os_scopes
    s_binds_gen s_globals s_nonlocals s_scopes map].
  - repeat split; fg.
  - repeat split; fg.
  - repeat split; fg.
  - repeat split; fg.
  - repeat split; fg.
  - repeat split; fg.
  - repeat split; fg.
  - destruct (F1_body _ H) as (B1 & G1 & N1 & S1). destruct (F1_body _ H0) as (B2 & G2 & N2 & S2).
    unfold s_binds in *. repeat split; fg; congruence.
  - destruct (F1_body _ H) as (B1 & G1 & N1 & S1). destruct (F1_body _ H0) as (B2 & G2 & N2 & S2).
    unfold s_binds in *. repeat split; fg; congruence.
  - destruct (F1_body _ H) as (B1 & G1 & N1 & S1). destruct (F1_body _ H0) as (B2 & G2 & N2 & S2).
    unfold s_binds in *. repeat split; fg; congruence.
  - destruct (F1_body _ H) as (B1 & G1 & N1 & S1). unfold s_binds in *.
    repeat split; fg; try assumption.
    + f_equal; [|assumption]. apply mfm, Forall_forall. intros it _. apply forget_item_binds.
    + f_equal; [|assumption]. apply mfm, Forall_forall. intros it _. apply forget_item_scopes.
  - destruct (F1_body _ H) as (B1 & G1 & N1 & S1). destruct (F1_body _ H1) as (B3 & G3 & N3 & S3).
    destruct (F1_body _ H2) as (B4 & G4 & N4 & S4). unfold s_binds in *.
    assert (HB : map oname (flat_map (fun h => match h with
                  | Handler _ ty nm hb => ooe_walrus ty ++ opt_list nm ++ flat_map os_binds hb end) hs)
                 = flat_map (fun h => match h with
                  | Handler _ ty nm hb => Scoping.oe_walrus ty ++ map oname (opt_list nm) ++ flat_map (s_binds_gen true) hb
                  end) hs).
    { apply mfm. eapply Forall_impl; [|exact H0]. intros [hl ty nm hb] Hh. unfold HP in Hh. cbn in Hh.
      destruct (F1_body _ Hh) as (Bh & _). unfold s_binds in Bh. fg. now rewrite Bh. }
    assert (HG : map oname (flat_map (fun h => match h with Handler _ _ _ hb => flat_map os_globals hb end) hs)
                 = flat_map (fun h => match h with Handler _ _ _ hb => flat_map s_globals hb end) hs).
    { apply mfm. eapply Forall_impl; [|exact H0]. intros [hl ty nm hb] Hh. unfold HP in Hh. cbn in Hh.
      now destruct (F1_body _ Hh) as (_ & Gh & _). }
    assert (HN : map oname (flat_map (fun h => match h with Handler _ _ _ hb => flat_map os_nonlocals hb end) hs)
                 = flat_map (fun h => match h with Handler _ _ _ hb => flat_map s_nonlocals hb end) hs).
    { apply mfm. eapply Forall_impl; [|exact H0]. intros [hl ty nm hb] Hh. unfold HP in Hh. cbn in Hh.
      now destruct (F1_body _ Hh) as (_ & _ & Nh & _). }
    assert (HS : map (to_s oname) (flat_map (fun h => match h with
                  | Handler _ ty _ hb => ooe_scopes ty ++ flat_map os_scopes hb end) hs)
                 = flat_map (fun h => match h with
                  | Handler _ ty _ hb => Scoping.oe_scopes ty ++ flat_map s_scopes hb end) hs).
    { apply mfm. eapply Forall_impl; [|exact H0]. intros [hl ty nm hb] Hh. unfold HP in Hh. cbn in Hh.
      destruct (F1_body _ Hh) as (_ & _ & _ & Sh). fg. now rewrite Sh. }
    repeat split; fg; congruence.
  - destruct (F1_body _ H) as (B1 & G1 & N1 & S1). unfold s_binds in *.
    repeat split; fg; cbn [map to_s]; fg; rewrite ?map_pname; congruence.
  - destruct (F1_body _ H) as (B1 & G1 & N1 & S1). unfold s_binds in *.
    repeat split; fg; cbn [map to_s]; fg; congruence.
  - repeat split. apply mfm, Forall_forall. intros n _. apply forget_import_bound.
  - destruct ns as [ns|]; repeat split. cbn. rewrite map_map. apply map_ext. intros [o [a|]]; reflexivity.
  - repeat split.
  - repeat split.
Qed.

Theorem forget_tree nl p : to_s oname (spec_otree nl p) = spec_tree nl p.
Proof.
  assert (H : Forall F1s p) by (apply Forall_forall; intros s _; apply forget_stmt).
  destruct (F1_body _ H) as (B & G & N & S).
  unfold spec_otree, spec_tree. cbn [to_s]. congruence.
Qed.

(* ------------------------------------------------------------------ 2. relabelling commutes with the construction *)
Section Natural.
  Variable f : occ -> occ.

  Ltac sm := cbn [rl_e rl_c rl_oe rl_item rl_import rl_from rl_param o_target_names oe_walrus oc_walrus oe_scopes
                  oc_scopes oc_targets ooe_walrus ooe_scopes o_item_binds o_item_scopes o_import_bound o_from_bound
                  fst snd option_map map omap opt_list].

  Definition F2e (e : expr) : Prop :=
    o_target_names (rl_e f e) = map f (o_target_names e)
    /\ oe_walrus (rl_e f e) = map f (oe_walrus e)
    /\ oe_scopes (rl_e f e) = map (omap f) (oe_scopes e).
  Definition F2c (c : comp) : Prop :=
    match c with Comp t i ifs => F2e t /\ F2e i /\ Forall F2e ifs end.

  Lemma F2c_walrus c : F2c c -> oc_walrus (rl_c f c) = map f (oc_walrus c).
  Proof.
    destruct c as [t i ifs]. intros ((_ & Wt & _) & (_ & Wi & _) & H). apply Forall_and3 in H as (_ & Wf & _).
    sm.
    rewrite !map_app, Wt, Wi. do 2 f_equal. apply fmm; assumption.
  Qed.
  Lemma F2c_targets c : F2c c -> oc_targets (rl_c f c) = map f (oc_targets c).
  Proof. destruct c as [t i ifs]. intros ((Tt & _ & _) & _). exact Tt. Qed.
  Lemma F2c_scopes c : F2c c -> oc_scopes (rl_c f c) = map (omap f) (oc_scopes c).
  Proof.
    destruct c as [t i ifs]. intros ((_ & _ & St) & (_ & _ & Si) & H). apply Forall_and3 in H as (_ & _ & Sf).
    sm. rewrite !map_app, St, Si. do 2 f_equal. apply fmm; assumption.
  Qed.

  Lemma pocc_rl ps : map pocc (map (rl_param f) ps) = map f (map pocc ps).
  Proof. rewrite !map_map. apply map_ext. intros [k o]. reflexivity. Qed.

  Lemma natural_expr_comp : (forall e, F2e e) /\ (forall c, F2c c).
  Proof.
    apply expr_comp_ind; unfold F2e.
    - intros o. repeat split.
    - repeat split.
    - intros e o (T & W & S). repeat split; sm; assumption.
    - intros e i (T1 & W1 & S1) (T2 & W2 & S2). repeat split; sm; rewrite ?map_app; congruence.
    - intros es H. apply Forall_and3 in H as (T & W & S).
      repeat split; sm; apply fmm; assumption.
    - intros es H. apply Forall_and3 in H as (T & W & S).
      repeat split; sm; apply fmm; assumption.
    - intros g args (T & W & S) H. apply Forall_and3 in H as (Ta & Wa & Sa).
      repeat split; sm; rewrite ?map_app; f_equal; try assumption; apply fmm; assumption.
    - intros o e (T & W & S). repeat split; sm; assumption.
    - intros o v (T & W & S). repeat split; sm; [now rewrite W | assumption].
    - intros l s ps ae b H (T & W & S). apply Forall_and3 in H as (Ta & Wa & Sa).
      repeat split; sm.
      + apply fmm; assumption.
      + rewrite map_app, pocc_rl, W, S. f_equal. apply fmm; assumption.
    - intros k l s elts gens He Hg. apply Forall_and3 in He as (Te & We & Se).
      repeat split; sm.
      + rewrite map_app. f_equal; [apply fmm; assumption|].
        apply fmm. eapply Forall_impl; [|exact Hg]. apply F2c_walrus.
      + destruct gens as [|[t0 i0 ifs0] rest]; [reflexivity|].
        inversion Hg as [|? ? H0 Hr]; subst. destruct H0 as ((Tt & Wt & St) & (Ti & Wi & Si) & Hf).
        apply Forall_and3 in Hf as (_ & _ & Sf).
        cbn [map rl_c omap]. rewrite !map_app, Tt, St, Si. f_equal. f_equal.
        * f_equal. apply fmm. eapply Forall_impl; [|exact Hr]. apply F2c_targets.
        * f_equal; [apply fmm; assumption|]. f_equal. f_equal; [apply fmm; assumption|].
          apply fmm. eapply Forall_impl; [|exact Hr]. apply F2c_scopes.
    - intros t i ifs Ht Hi H. unfold F2c, F2e. auto.
  Qed.

  Lemma nat_e e : F2e e. Proof. apply natural_expr_comp. Qed.
  Lemma nat_targets e : o_target_names (rl_e f e) = map f (o_target_names e). Proof. apply nat_e. Qed.
  Lemma nat_walrus e : oe_walrus (rl_e f e) = map f (oe_walrus e). Proof. apply nat_e. Qed.
  Lemma nat_scopes e : oe_scopes (rl_e f e) = map (omap f) (oe_scopes e). Proof. apply nat_e. Qed.
  Lemma nat_walrus_l es : flat_map oe_walrus (map (rl_e f) es) = map f (flat_map oe_walrus es).
  Proof. apply fmm, Forall_forall. intros e _. apply nat_walrus. Qed.
  Lemma nat_targets_l es : flat_map o_target_names (map (rl_e f) es) = map f (flat_map o_target_names es).
  Proof. apply fmm, Forall_forall. intros e _. apply nat_targets. Qed.
  Lemma nat_scopes_l es : flat_map oe_scopes (map (rl_e f) es) = map (omap f) (flat_map oe_scopes es).
  Proof. apply fmm, Forall_forall. intros e _. apply nat_scopes. Qed.
  Lemma nat_owalrus o : ooe_walrus (rl_oe f o) = map f (ooe_walrus o).
  Proof. destruct o; sm; [apply nat_walrus | reflexivity]. Qed.
  Lemma nat_oscopes o : ooe_scopes (rl_oe f o) = map (omap f) (ooe_scopes o).
  Proof. destruct o; sm; [apply nat_scopes | reflexivity]. Qed.

  Definition F2s (s : stmt) : Prop :=
    os_binds (rl_s f s) = map f (os_binds s)
    /\ os_globals (rl_s f s) = map f (os_globals s)
    /\ os_nonlocals (rl_s f s) = map f (os_nonlocals s)
    /\ os_scopes (rl_s f s) = map (omap f) (os_scopes s).

  Lemma F2_body b :
    Forall F2s b ->
    flat_map os_binds (map (rl_s f) b) = map f (flat_map os_binds b)
    /\ flat_map os_globals (map (rl_s f) b) = map f (flat_map os_globals b)
    /\ flat_map os_nonlocals (map (rl_s f) b) = map f (flat_map os_nonlocals b)
    /\ flat_map os_scopes (map (rl_s f) b) = map (omap f) (flat_map os_scopes b).
  Proof. intros H. apply Forall_and4 in H as (B & G & N & S). repeat split; apply fmm; assumption. Qed.

  Lemma nat_import_bound n : o_import_bound (rl_import f n) = map f (o_import_bound n).
  Proof. destruct n as [[|o os] [a|]]; reflexivity. Qed.
  Lemma nat_item_binds it : o_item_binds (rl_item f it) = map f (o_item_binds it).
  Proof.
    destruct it as [c [v|]]; sm; rewrite ?map_app, ?nat_walrus, ?nat_targets; reflexivity.
  Qed.
  Lemma nat_item_scopes it : o_item_scopes (rl_item f it) = map (omap f) (o_item_scopes it).
  Proof. destruct it as [c [v|]]; sm; rewrite ?map_app, ?nat_scopes; reflexivity. Qed.

  Ltac nt :=
    repeat (rewrite ?map_app, ?nat_walrus, ?nat_targets, ?nat_scopes, ?nat_walrus_l, ?nat_targets_l,
            ?nat_scopes_l, ?nat_owalrus, ?nat_oscopes); try reflexivity.

  Lemma natural_stmt s : F2s s.
  Proof.
    induction s using stmt_ind'; unfold F2s; cbn [rl_s os_binds os_globals os_nonlocals os_scopes map].
    - repeat split; nt.
    - repeat split; nt.
    - repeat split; nt.
    - repeat split; nt.
    - repeat split; nt.
    - repeat split; nt.
    - repeat split; nt.
    - destruct (F2_body _ H) as (B1 & G1 & N1 & S1). destruct (F2_body _ H0) as (B2 & G2 & N2 & S2).
      repeat split; nt; congruence.
    - destruct (F2_body _ H) as (B1 & G1 & N1 & S1). destruct (F2_body _ H0) as (B2 & G2 & N2 & S2).
      repeat split; nt; congruence.
    - destruct (F2_body _ H) as (B1 & G1 & N1 & S1). destruct (F2_body _ H0) as (B2 & G2 & N2 & S2).
      repeat split; nt; congruence.
    - destruct (F2_body _ H) as (B1 & G1 & N1 & S1).
      repeat split; nt; try assumption.
      + f_equal; [|assumption]. apply fmm, Forall_forall. intros it _. apply nat_item_binds.
      + f_equal; [|assumption]. apply fmm, Forall_forall. intros it _. apply nat_item_scopes.
    - destruct (F2_body _ H) as (B1 & G1 & N1 & S1). destruct (F2_body _ H1) as (B3 & G3 & N3 & S3).
      destruct (F2_body _ H2) as (B4 & G4 & N4 & S4).
      set (rh := fun h : handler stmt => match h with
                 | Handler hl ty nm hb => Handler hl (rl_oe f ty) (option_map f nm) (map (rl_s f) hb) end).
      assert (HB : flat_map (fun h => match h with
                    | Handler _ ty nm hb => ooe_walrus ty ++ opt_list nm ++ flat_map os_binds hb end) (map rh hs)
                   = map f (flat_map (fun h => match h with
                    | Handler _ ty nm hb => ooe_walrus ty ++ opt_list nm ++ flat_map os_binds hb end) hs)).
      { apply fmm. eapply Forall_impl; [|exact H0]. intros [hl ty nm hb] Hh. unfold HP in Hh. cbn in Hh. unfold rh.
        destruct (F2_body _ Hh) as (Bh & _). sm. nt. rewrite Bh. do 2 f_equal. destruct nm; reflexivity. }
      assert (HG : flat_map (fun h => match h with Handler _ _ _ hb => flat_map os_globals hb end) (map rh hs)
                   = map f (flat_map (fun h => match h with Handler _ _ _ hb => flat_map os_globals hb end) hs)).
      { apply fmm. eapply Forall_impl; [|exact H0]. intros [hl ty nm hb] Hh. unfold HP in Hh. cbn in Hh. unfold rh.
        now destruct (F2_body _ Hh) as (_ & Gh & _). }
      assert (HN : flat_map (fun h => match h with Handler _ _ _ hb => flat_map os_nonlocals hb end) (map rh hs)
                   = map f (flat_map (fun h => match h with Handler _ _ _ hb => flat_map os_nonlocals hb end) hs)).
      { apply fmm. eapply Forall_impl; [|exact H0]. intros [hl ty nm hb] Hh. unfold HP in Hh. cbn in Hh. unfold rh.
        now destruct (F2_body _ Hh) as (_ & _ & Nh & _). }
      assert (HS : flat_map (fun h => match h with
                    | Handler _ ty _ hb => ooe_scopes ty ++ flat_map os_scopes hb end) (map rh hs)
                   = map (omap f) (flat_map (fun h => match h with
                    | Handler _ ty _ hb => ooe_scopes ty ++ flat_map os_scopes hb end) hs)).
      { apply fmm. eapply Forall_impl; [|exact H0]. intros [hl ty nm hb] Hh. unfold HP in Hh. cbn in Hh. unfold rh.
        destruct (F2_body _ Hh) as (_ & _ & _ & Sh). sm. nt. now rewrite Sh. }
      fold rh. repeat split; nt; congruence.
    - destruct (F2_body _ H) as (B1 & G1 & N1 & S1).
      repeat split; nt; cbn [map omap]; nt; rewrite ?pocc_rl; congruence.
    - destruct (F2_body _ H) as (B1 & G1 & N1 & S1).
      repeat split; nt; cbn [map omap]; nt; congruence.
    - repeat split. apply fmm, Forall_forall. intros n _. apply nat_import_bound.
    - destruct ns as [ns|]; repeat split. sm. rewrite !map_map. apply map_ext. intros [o [a|]]; reflexivity.
    - repeat split.
    - repeat split.
  Qed.

  Theorem relabel_tree nl p : spec_otree nl (relabel f p) = omap f (spec_otree nl p).
  Proof.
    assert (H : Forall F2s p) by (apply Forall_forall; intros s _; apply natural_stmt).
    destruct (F2_body _ H) as (B & G & N & S).
    unfold spec_otree, relabel. cbn [omap]. congruence.
  Qed.
End Natural.

(* ------------------------------------------------------------------ 3. trees *)
Section OInd.
  Variable P : oscope -> Prop.
  Hypothesis HS : forall k a b bo gl nl ch, Forall P ch -> P (OScope k a b bo gl nl ch).
  Fixpoint oscope_ind' (t : oscope) : P t :=
    match t with
    | OScope k a b bo gl nl ch =>
        HS k a b bo gl nl ch
           ((fix all (l : list oscope) : Forall P l :=
               match l with [] => Forall_nil _ | x :: r => Forall_cons _ (oscope_ind' x) (all r) end) ch)
    end.
End OInd.

Lemma to_s_omap nm f t : to_s nm (omap f t) = to_s (fun o => nm (f o)) t.
Proof.
  induction t as [k a b bo gl nl ch IH] using oscope_ind'. cbn. rewrite !map_map. f_equal.
  induction IH as [|c r Hc _ IHr]; cbn; [reflexivity|]. now rewrite Hc, IHr.
Qed.

(* the SPEC tree of a relabelled program is the old token tree read through the new spellings *)
Theorem spec_tree_relabel f nl p :
  spec_tree nl (relabel f p) = to_s (fun o => oname (f o)) (spec_otree nl p).
Proof. now rewrite <- forget_tree, relabel_tree, to_s_omap. Qed.
