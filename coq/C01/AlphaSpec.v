(* SPEC side of C01 for one module: what it means that a set of respelled tokens is an alpha-renaming.
   Definitions only (boolean, so that the runner evaluates them on every case).

   A rename of the binding (scope [Pb], name [x]) to the fresh name [n] respells the tokens whose id is in [ids].
   * [exact_tree]: in every scope of the token tree (OccTree.v) the binder tokens (bound / globals lists) are
     respelled exactly when they are spelled [x] and [x] denotes the target from that scope; no nonlocal
     declarations; [n] does not occur.
   * [alpha_tok]: the conclusion for one token: resolving its NEW spelling from its scope in the SPEC tree of the
     relabelled program gives the owner scope its OLD spelling had in the old program.
   * [well_tokened]: the structural facts tying C02's token list to the token tree (every binder token of the tree
     is a core token of [toks p] sitting in that scope; token ids are unique).  They hold for every program the
     harness has produced (evaluated in every case file) and are hypotheses of the corollary that goes through C02's
     exactness theorems. *)
From Coq Require Import List NArith Bool PeanoNat.
From RopeVerif.C15 Require Import Syntax Scoping RopeScopes.
From RopeVerif.C02 Require Import Occurrences.
From RopeVerif.C01 Require Import Rename OccTree.
Import ListNotations.

(* [x] denotes the target binding (owned by scope Pb) from the innermost scope of the chain; the respelling *)
Definition is_target (Pb : path) (b : binding) : bool := binding_eqb b (BScope Pb).
Definition D (bi : list ident) (x : ident) (Pb : path) (mg : list ident) (ch : list (path * sscope)) : bool :=
  is_target Pb (resolve_chain mg bi ch x).
Definition rho (x n : ident) (d : bool) (y : ident) : ident := if d && N.eqb y x then n else y.

(* every scope of the tree with its chain (innermost first) *)
Fixpoint o_chains (pre : path) (acc : list (path * oscope)) (t : oscope) : list (list (path * oscope)) :=
  let ch := (pre, t) :: acc in
  ch :: (fix go (i : nat) (cs : list oscope) : list (list (path * oscope)) :=
           match cs with
           | [] => []
           | c :: r => o_chains (pre ++ [i]) ch c ++ go (S i) r
           end) 0%nat (ochildren t).

Definition schain_of (ch : list (path * oscope)) : list (path * sscope) := map (to_se oname) ch.

Section Exact.
  Variable bi : list ident.
  Variables x n : ident.
  Variable Pb : path.
  Variable ids : list N.
  Variable mg : list ident.      (* the module globals of the old tree *)

  Definition new_name (o : occ) : ident := if memN (oid o) ids then n else oname o.

  Definition exact_scope (ch : list (path * oscope)) : bool :=
    match ch with
    | [] => true
    | (_, os) :: _ =>
        let d := D bi x Pb mg (schain_of ch) in
        forallb (fun o => Bool.eqb (memN (oid o) ids) (d && N.eqb (oname o) x)) (obound os ++ oglobals os)
        && match ononlocals os with [] => true | _ => false end
        && negb (mem n (map oname (obound os ++ oglobals os)))
    end.
End Exact.

Definition is_module (k : skind) : bool := match k with KModule => true | _ => false end.

Definition exact_tree (bi : list ident) (x n : ident) (Pb : path) (ids : list N) (ot : oscope) : bool :=
  is_module (ok ot)
  && forallb (exact_scope bi x n Pb ids (spec_module_globals (to_s oname ot))) (o_chains [] [] ot).

(* the statement about one token: scope path, id, old spelling *)
Definition alpha_tok (bi : list ident) (nl : N) (p : program) (ids : list N) (n : ident)
           (env : path) (i : N) (y : ident) : bool :=
  binding_eqb
    (spec_resolve bi (spec_tree nl (relabel (respell ids n) p)) env (if memN i ids then n else y))
    (spec_resolve bi (spec_tree nl p) env y).

(* ------------------------------------------------------------------ C02's tokens against the token tree *)
Definition occ_eqb (a b : occ) : bool :=
  N.eqb (oid a) (oid b) && N.eqb (oname a) (oname b).

Fixpoint nodupN (l : list N) : bool :=
  match l with [] => true | a :: r => negb (memN a r) && nodupN r end.

Definition chain_path (ch : list (path * oscope)) : path := match ch with (q, _) :: _ => q | [] => [] end.
Definition chain_scope (ch : list (path * oscope)) : list occ :=
  match ch with (_, os) :: _ => obound os ++ oglobals os | [] => [] end.

(* what is left as a hypothesis about the program term: the occurrence ids of its tokens are pairwise different
   (they are the indices of the NAME tokens in the token stream) *)
Definition unique_ids (p : program) : bool := nodupN (map t_id (toks p)).
(* [n] is new: no identifier token is spelled n *)
Definition fresh_name (p : program) (n : ident) : bool := negb (mem n (map t_name (toks p))).

Definition well_tokened (nl : N) (p : program) : bool :=
  let ts := toks p in
  nodupN (map t_id ts)
  && forallb (fun ch =>
       forallb (fun o => existsb (fun t => core t && occ_eqb (t_occ t) o && path_eqb (t_env t) (chain_path ch)) ts)
               (chain_scope ch)
       && match ch with (_, os) :: _ => match ononlocals os with [] => true | _ => false end | [] => true end)
     (o_chains [] [] (spec_otree nl p)).

(* [n] is new: no token is spelled n *)
Definition fresh (nl : N) (p : program) (n : ident) : bool :=
  negb (mem n (map t_name (toks p)))
  && forallb (fun ch => negb (mem n (map oname (chain_scope ch)))) (o_chains [] [] (spec_otree nl p)).
