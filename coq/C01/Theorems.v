(* The statements of coq/Props/C01.v that are about concrete projects: non-vacuity examples and the refutations
   (each witness is the replay input of an open finding; coq/C01/Witnesses.v is generated from the findings by
   harness/c01_witness.py). *)
From Coq Require Import List NArith Bool PeanoNat.
From RopeVerif.C15 Require Import Syntax Scoping RopeScopes Fragment.
From RopeVerif.C02 Require Import Occurrences OccurrencesProofs.
From RopeVerif.C01 Require Import Rename Runner OccTree AlphaSpec Witnesses.
Import ListNotations.

(* ------------------------------------------------------------------ one module of a witness project *)
Section OnModule.
  Variable m : pmod.
  Variable bi idents : list ident.
  Variable init call : ident.
  Variable odd : list ident.
  Variable prop : ident.

  Definition m_prog := pm_prog m.
  Definition m_inh := inh_of (fst (rope_inh bi (rope_tree m_prog) idents)).
  Definition m_meths := methods odd prop m_prog.
  Definition m_kw := kw_of (pm_kwlike m).
  Definition m_frag := in_fragment_C02 bi m_inh init call m_meths m_kw m_prog.
  Definition m_tok (i : N) : option tok := find (fun t => N.eqb (t_id t) i) (toks m_prog).
  Definition m_ids (q : tok) : list N :=
    rename_ids bi m_inh (rope_tree m_prog) init call m_meths m_kw (toks m_prog) q.
  Definition m_spec (t : tok) : binding := spec_binding bi (spec_tree (pm_nlines m) m_prog) t.
  (* the conclusion of the alpha theorem, for every core token *)
  Definition m_alpha (q : tok) (n : ident) : bool :=
    forallb (fun t => if core t
                      then alpha_tok bi (pm_nlines m) m_prog (m_ids q) n (t_env t) (t_id t) (t_name t)
                      else true) (toks m_prog).
  (* the core tokens on which it fails *)
  Definition m_alpha_fails (q : tok) (n : ident) : list N :=
    map t_id (filter (fun t => core t
                               && negb (alpha_tok bi (pm_nlines m) m_prog (m_ids q) n (t_env t) (t_id t) (t_name t)))
                     (toks m_prog)).
End OnModule.

Definition mod0 (ms : list pmod) : pmod :=
  nth 0 ms {| pm_name := 0%N; pm_prog := []; pm_nlines := 0%N; pm_kwlike := []; pm_skip := [] |}.

(* ------------------------------------------------------------------ the example module *)
Definition ex_m := mod0 w_example_mods.
Definition ex_tok (i : N) := m_tok ex_m i.

(* inside the domain of the theorems: C02's fragment, unique token ids, a fresh name; 32 identifier tokens *)
Lemma example_domain :
  m_frag ex_m w_example_builtins w_example_idents w_example_init w_example_call w_example_odd w_example_prop = true
  /\ unique_ids (pm_prog ex_m) = true
  /\ fresh_name (pm_prog ex_m) w_example_fresh = true
  /\ length (toks (pm_prog ex_m)) = 32%nat.
Proof. vm_compute. auto. Qed.

Definition ex_ids (i : N) : option (list N) :=
  option_map (m_ids ex_m w_example_builtins w_example_idents w_example_init w_example_call w_example_odd w_example_prop) (ex_tok i).
Definition ex_alpha (i : N) : option bool :=
  option_map (fun q => m_alpha ex_m w_example_builtins w_example_idents w_example_init w_example_call w_example_odd w_example_prop
                               q w_example_fresh) (ex_tok i).
Definition ex_binding (i : N) : option binding :=
  option_map (m_spec ex_m w_example_builtins) (ex_tok i).

(* [limit]: the module-level binding, also under the global declaration of use, but neither the parameter of
   grow nor the keyword argument that names it; [size]: the parameter of grow, not the comprehension variable in use;
   [total]: the local of grow.  In each case the renamed module satisfies the conclusion of the alpha theorem on
   every core token. *)
Lemma example_renames :
  ex_binding (snd w_example_q_limit) = Some (BScope [])
  /\ ex_ids (snd w_example_q_limit) = Some [0; 51; 53; 57; 63; 69; 81; 85; 92]%N
  /\ ex_alpha (snd w_example_q_limit) = Some true
  /\ ex_binding (snd w_example_q_size) = Some (BScope [0%nat])
  /\ ex_ids (snd w_example_q_size) = Some [7; 18; 23; 36]%N
  /\ ex_alpha (snd w_example_q_size) = Some true
  /\ ex_ids (snd w_example_q_total) = Some [16; 27; 32; 34; 40]%N
  /\ ex_alpha (snd w_example_q_total) = Some true.
Proof. vm_compute. repeat split. Qed.

(* ------------------------------------------------------------------ projects *)
Section OnProject.
  Variable ms : list pmod.
  Variable bi idents : list ident.
  Variable init call : ident.
  Variable odd : list ident.
  Variable prop : ident.

  Definition p_cx : list mctx := map (fun m => mk_ctx bi idents odd prop (pm_name m) (pm_kwlike m) (pm_prog m)) ms.
  Definition p_all (j : nat) (t : tok) : bool := true.
  Definition p_key (q : N * N) : gkey :=
    match token_of p_cx (N.to_nat (fst q)) (snd q) with
    | Some (c, t) => gkey_of bi init call p_cx (N.to_nat (fst q)) c t
    | None => GUnm
    end.
  Definition p_rename (q : N * N) : result :=
    project_rename bi init call p_cx p_all (N.to_nat (fst q)) (snd q) false.
  (* the code as it was found, before commits 3758d0a and 94dbab8 *)
  Definition p_rename_as_found (q : N * N) : result :=
    project_rename_as_found bi init call p_cx p_all (N.to_nat (fst q)) (snd q) false.

  (* a module file is moved although a token that denotes the module keeps its spelling *)
  Definition left_behind_in (r : result) : bool :=
    match r with
    | RChanges _ edits moves =>
        existsb (fun a =>
          existsb (fun jc =>
            existsb (fun t =>
              same_key (GMod a) (gkey_of bi init call p_cx (fst jc) (snd jc) t)
              && negb (existsb (fun e => Nat.eqb (fst e) (fst jc) && memN (t_id t) (snd e)) edits))
              (x_ts (snd jc)))
            (enum_from 0 p_cx)) moves
    | _ => false
    end.
  Definition left_behind (q : N * N) : bool := left_behind_in (p_rename_as_found q).
  Definition left_behind_now (q : N * N) : bool := left_behind_in (p_rename q).

  (* the name of a builtin is respelled *)
  Definition builtin_respelled (q : N * N) : bool :=
    match p_key q, p_rename_as_found q with
    | GBuiltin _, RChanges _ (_ :: _) _ => true
    | _, _ => false
    end.
End OnProject.

Lemma example_local :
  let cx := p_cx w_example_mods w_example_builtins w_example_idents w_example_odd w_example_prop in
  (forall c, In c cx -> rk (x_rt c) = KModule)
  /\ is_local cx (p_key w_example_mods w_example_builtins w_example_idents w_example_init w_example_call
                        w_example_odd w_example_prop w_example_q_total) = true
  /\ is_local cx (p_key w_example_mods w_example_builtins w_example_idents w_example_init w_example_call
                        w_example_odd w_example_prop w_example_q_limit) = false
  /\ p_rename w_example_mods w_example_builtins w_example_idents w_example_init w_example_call w_example_odd w_example_prop
              w_example_q_total = RChanges true [(0%nat, [16; 27; 32; 34; 40]%N)] [].
Proof.
  split.
  - intros c [<-|[]]. reflexivity.
  - vm_compute. repeat split.
Qed.

(* ------------------------------------------------------------------ two defects that were found and fixed *)
(* import mb as k / print(k.y): AS FOUND, renaming k respelled the two k and MOVED mb.py, while `mb` in the import
   statement - a token whose PyName is that module - kept its spelling (fixed by commit 94dbab8) *)
Lemma module_alias_refuted :
  p_rename_as_found w_module_alias_moves_module_mods w_module_alias_moves_module_builtins
           w_module_alias_moves_module_idents w_module_alias_moves_module_init
           w_module_alias_moves_module_call w_module_alias_moves_module_odd w_module_alias_moves_module_prop w_module_alias_moves_module_q
  = RChanges false [(0%nat, [3; 7]%N)] [1%nat]
  /\ left_behind w_module_alias_moves_module_mods w_module_alias_moves_module_builtins
                 w_module_alias_moves_module_idents w_module_alias_moves_module_init
                 w_module_alias_moves_module_call w_module_alias_moves_module_odd w_module_alias_moves_module_prop w_module_alias_moves_module_q
     = true.
Proof. vm_compute. split; reflexivity. Qed.

(* the same rename now: the two k are respelled, nothing is moved, no token is left behind *)
Lemma module_alias_fixed :
  p_rename w_module_alias_moves_module_mods w_module_alias_moves_module_builtins
           w_module_alias_moves_module_idents w_module_alias_moves_module_init
           w_module_alias_moves_module_call w_module_alias_moves_module_odd w_module_alias_moves_module_prop w_module_alias_moves_module_q
  = RChanges false [(0%nat, [3; 7]%N)] []
  /\ left_behind_now w_module_alias_moves_module_mods w_module_alias_moves_module_builtins
                 w_module_alias_moves_module_idents w_module_alias_moves_module_init
                 w_module_alias_moves_module_call w_module_alias_moves_module_odd w_module_alias_moves_module_prop w_module_alias_moves_module_q
     = false.
Proof. vm_compute. split; reflexivity. Qed.

(* x = [1, 2] / print(len(x)): AS FOUND, a rename at len was accepted and respelled it (fixed by commit 3758d0a) *)
Lemma builtin_refuted :
  builtin_respelled w_builtin_renamed_mods w_builtin_renamed_builtins w_builtin_renamed_idents
                    w_builtin_renamed_init w_builtin_renamed_call w_builtin_renamed_odd w_builtin_renamed_prop w_builtin_renamed_q = true.
Proof. vm_compute. reflexivity. Qed.

(* now it is refused *)
Lemma builtin_fixed :
  p_rename w_builtin_renamed_mods w_builtin_renamed_builtins w_builtin_renamed_idents
           w_builtin_renamed_init w_builtin_renamed_call w_builtin_renamed_odd w_builtin_renamed_prop w_builtin_renamed_q = RRefused.
Proof. vm_compute. reflexivity. Qed.

(* ------------------------------------------------------------------ refutations (open findings) *)
(* z = 2 / print([z for z in range(z)]): outside C02's domain; renaming the global z leaves the z of range(z), which
   then denotes nothing: the conclusion of the alpha theorem fails on that token *)
Definition cfi_m := mod0 w_comprehension_first_iterable_mods.
Lemma comprehension_first_iterable_refuted :
  m_frag cfi_m w_comprehension_first_iterable_builtins w_comprehension_first_iterable_idents
         w_comprehension_first_iterable_init w_comprehension_first_iterable_call w_comprehension_first_iterable_odd w_comprehension_first_iterable_prop
  = false
  /\ exists q, m_tok cfi_m (snd w_comprehension_first_iterable_q) = Some q
               /\ m_alpha_fails cfi_m w_comprehension_first_iterable_builtins w_comprehension_first_iterable_idents
                                 w_comprehension_first_iterable_init w_comprehension_first_iterable_call
                                 w_comprehension_first_iterable_odd w_comprehension_first_iterable_prop q w_comprehension_first_iterable_fresh <> [].
Proof.
  split; [vm_compute; reflexivity|]. eexists. split; [vm_compute; reflexivity|]. vm_compute. discriminate.
Qed.
