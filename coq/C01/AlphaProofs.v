(* From exactness of the respelled set on the token tree (AlphaSpec.exact_tree) to binding preservation for every
   token of the relabelled program:
     tree_alpha    on token trees (via AlphaTreeProofs.resolve_rel)
     alpha_program on programs (via OccTreeProofs.spec_tree_relabel / forget_tree) *)
From Coq Require Import List NArith Bool PeanoNat Lia.
From RopeVerif.C15 Require Import Syntax Scoping RopeScopes.
From RopeVerif.C02 Require Import Occurrences OccurrencesProofs.
From RopeVerif.C01 Require Import Rename OccTree OccTreeProofs AlphaSpec AlphaTreeProofs.
Import ListNotations.

(* ------------------------------------------------------------------ chains of a token tree and of its readings *)
Lemma schildren_to_s nm t : schildren (to_s nm t) = map (to_s nm) (ochildren t).
Proof. destruct t; reflexivity. Qed.

Lemma schain_to_s nm p : forall t pre acc,
  schain_from (to_s nm t) pre p (map (to_se nm) acc) = option_map (map (to_se nm)) (ochain_from t pre p acc).
Proof.
  induction p as [|i r IH]; intros t pre acc; cbn [schain_from ochain_from].
  - reflexivity.
  - rewrite schildren_to_s, nth_error_map.
    destruct (nth_error (ochildren t) i) as [c|]; cbn [option_map]; [|reflexivity].
    exact (IH c (pre ++ [i]) ((pre, t) :: acc)).
Qed.

Lemma schain_to_s0 nm t p : schain (to_s nm t) p = option_map (map (to_se nm)) (ochain t p).
Proof. exact (schain_to_s nm p t [] []). Qed.

(* the children part of o_chains as a function of its own *)
Fixpoint o_chains_list (pre : path) (ch : list (path * oscope)) (i : nat) (cs : list oscope)
  : list (list (path * oscope)) :=
  match cs with
  | [] => []
  | c :: r => o_chains (pre ++ [i]) ch c ++ o_chains_list pre ch (S i) r
  end.

Lemma o_chains_eq pre acc t :
  o_chains pre acc t = ((pre, t) :: acc) :: o_chains_list pre ((pre, t) :: acc) 0 (ochildren t).
Proof.
  destruct t as [k a b bo gl nl cs]. cbn [o_chains ochildren]. f_equal.
  generalize ((pre, OScope k a b bo gl nl cs) :: acc). intros ch.
  generalize 0%nat. induction cs as [|c r IH]; intros i; cbn [o_chains_list]; [reflexivity|]. now rewrite IH.
Qed.

Lemma o_chains_list_nth pre ch cs : forall i k c och,
  nth_error cs k = Some c -> In och (o_chains (pre ++ [i + k]) ch c) -> In och (o_chains_list pre ch i cs).
Proof.
  induction cs as [|c0 r IH]; intros i k c och Hn Hin; [destruct k; discriminate|].
  cbn [o_chains_list]. apply in_or_app. destruct k as [|k].
  - cbn in Hn. inversion Hn; subst. rewrite Nat.add_0_r in Hin. now left.
  - right. cbn in Hn. apply (IH (S i) k c och Hn). now rewrite Nat.add_succ_comm.
Qed.

Lemma o_chains_list_inv pre c0 cs : forall i ch,
  In ch (o_chains_list pre c0 i cs) ->
  exists j c, nth_error cs j = Some c /\ In ch (o_chains (pre ++ [i + j]) c0 c).
Proof.
  induction cs as [|c r IHr]; intros i ch H; [destruct H|].
  cbn [o_chains_list] in H. apply in_app_or in H as [H|H].
  - exists 0%nat, c. rewrite Nat.add_0_r. now split.
  - destruct (IHr (S i) ch H) as (j & c' & Hn & Hin). exists (S j), c'.
    rewrite <- Nat.add_succ_comm. now split.
Qed.

Fixpoint all_ok (P : list (path * oscope) -> bool) (ch : list (path * oscope)) : Prop :=
  match ch with
  | [] => True
  | e :: r => P (e :: r) = true /\ all_ok P r
  end.

(* every suffix of the chain of a path is one of the listed chains *)
Lemma chain_all_ok (P : list (path * oscope) -> bool) p : forall t pre acc och,
  (forall ch, In ch (o_chains pre acc t) -> P ch = true) ->
  all_ok P acc ->
  ochain_from t pre p acc = Some och -> all_ok P och.
Proof.
  induction p as [|i r IH]; intros t pre acc och HP Hacc Hc; cbn [ochain_from] in Hc.
  - inversion Hc; subst. cbn [all_ok]. split; [|exact Hacc].
    apply HP. rewrite o_chains_eq. now left.
  - destruct (nth_error (ochildren t) i) as [c|] eqn:En; [|discriminate].
    apply (IH c (pre ++ [i]) ((pre, t) :: acc) och); [| |exact Hc].
    + intros ch Hin. apply HP. rewrite o_chains_eq. right.
      apply (o_chains_list_nth pre _ _ 0 i c ch En). exact Hin.
    + cbn [all_ok]. split; [|exact Hacc]. apply HP. rewrite o_chains_eq. now left.
Qed.

(* the scopes of a reading of the tree are the heads of the listed chains *)
Definition dummy_scope : oscope := OScope KModule 0 0 [] [] [] [].
Definition chain_head (ch : list (path * oscope)) : oscope :=
  match ch with (_, os) :: _ => os | [] => dummy_scope end.

Lemma s_all_chains nm t : forall pre acc,
  s_all (to_s nm t) = map (fun ch => to_s nm (chain_head ch)) (o_chains pre acc t).
Proof.
  induction t as [k a b bo gl nl cs IH] using oscope_ind'. intros pre acc.
  rewrite o_chains_eq. cbn [map chain_head ochildren]. cbn [to_s s_all schildren]. f_equal.
  generalize 0%nat. generalize ((pre, OScope k a b bo gl nl cs) :: acc) as ch.
  induction IH as [|c r Hc _ IHr]; intros ch i; cbn [map flat_map o_chains_list]; [reflexivity|].
  now rewrite map_app, (Hc (pre ++ [i]) ch), (IHr ch (S i)).
Qed.

(* ------------------------------------------------------------------ module globals of a reading *)
Lemma in_module_globals nm ot z :
  In z (spec_module_globals (to_s nm ot)) <->
  In z (map nm (obound ot))
  \/ exists ch, In ch (o_chains [] [] ot)
                /\ In z (map nm (oglobals (chain_head ch))) /\ In z (map nm (obound (chain_head ch))).
Proof.
  unfold spec_module_globals. rewrite in_app_iff, in_flat_map.
  rewrite (s_all_chains nm ot [] []).
  assert (Eb : forall t, sbound (to_s nm t) = map nm (obound t)) by (intros []; reflexivity).
  assert (Eg : forall t, sglobals (to_s nm t) = map nm (oglobals t)) by (intros []; reflexivity).
  rewrite Eb. split.
  - intros [H|(s & Hs & Hz)]; [now left|]. right.
    apply in_map_iff in Hs as (ch & <- & Hch). exists ch. split; [exact Hch|].
    apply filter_In in Hz as [Hg Hb]. rewrite Eg in Hg. rewrite Eb in Hb. apply mem_spec in Hb. now split.
  - intros [H|(ch & Hch & Hg & Hb)]; [now left|]. right.
    exists (to_s nm (chain_head ch)). split; [apply in_map_iff; now exists ch|].
    apply filter_In. rewrite Eg, Eb. split; [exact Hg | now apply mem_spec].
Qed.

(* ------------------------------------------------------------------ the tree-level theorem *)
Section Tree.
  Variable bi : list ident.
  Variables x n : ident.
  Variable Pb : path.
  Variable ids : list N.
  Variable ot : oscope.

  Let mg := spec_module_globals (to_s oname ot).
  Let nn := new_name n ids.
  Let mg' := spec_module_globals (to_s nn ot).

  Hypothesis Hxn : x <> n.
  Hypothesis Hn_bi : mem n bi = false.
  Hypothesis Hroot : ok ot = KModule.
  Hypothesis Hexact : forall ch, In ch (o_chains [] [] ot) -> exact_scope bi x n Pb ids mg ch = true.

  Local Notation Dc ch := (D bi x Pb mg (schain_of ch)).

  (* what exactness says about one binder token *)
  Lemma exact_occ ch o :
    exact_scope bi x n Pb ids mg ch = true -> In o (obound (chain_head ch) ++ oglobals (chain_head ch)) ->
    nn o = rho x n (Dc ch) (oname o) /\ oname o <> n.
  Proof.
    intros Hex Ho. destruct ch as [|[q os] r]; [destruct Ho|].
    cbn [chain_head] in Ho. cbn [exact_scope] in Hex.
    apply andb_prop in Hex as [H1 Hfresh]. apply andb_prop in H1 as [Hall _].
    rewrite forallb_forall in Hall. specialize (Hall o Ho). apply Bool.eqb_prop in Hall.
    split.
    - unfold nn, new_name, rho. rewrite Hall. reflexivity.
    - intros E. apply negb_true_iff in Hfresh.
      assert (X : mem n (map oname (obound os ++ oglobals os)) = true).
      { apply mem_spec. rewrite <- E. now apply in_map. }
      congruence.
  Qed.

  Lemma exact_nonlocals q os r : exact_scope bi x n Pb ids mg ((q, os) :: r) = true -> ononlocals os = [].
  Proof.
    intros Hex. cbn [exact_scope] in Hex.
    apply andb_prop in Hex as [H1 _]. apply andb_prop in H1 as [_ H]. now destruct (ononlocals os).
  Qed.

  (* a list of binder tokens of the chain ch, read through the new and the old spellings *)
  Section OneList.
    Variable ch : list (path * oscope).
    Variable l : list occ.
    Hypothesis Hch : exact_scope bi x n Pb ids mg ch = true.
    Hypothesis Hl : forall o, In o l -> In o (obound (chain_head ch) ++ oglobals (chain_head ch)).

    Lemma new_list : map nn l = map (rho x n (Dc ch)) (map oname l).
    Proof.
      rewrite map_map. apply map_ext_in. intros o Ho. now apply exact_occ; [|apply Hl].
    Qed.
    Lemma old_fresh : mem n (map oname l) = false.
    Proof.
      destruct (mem n (map oname l)) eqn:E; [|reflexivity]. apply mem_spec, in_map_iff in E as (o & E & Ho).
      destruct (exact_occ ch o Hch (Hl o Ho)) as [_ H]. congruence.
    Qed.
    Lemma list_rel : lists_rel x n (Dc ch) (map oname l) (map nn l).
    Proof. split; [apply old_fresh|]. intros z. now rewrite new_list. Qed.

    Lemma in_new_other z : z <> x -> z <> n -> (In z (map nn l) <-> In z (map oname l)).
    Proof.
      intros Hx Hn. rewrite <- !mem_spec. now rewrite (lists_rel_other x n _ _ _ z list_rel Hx Hn).
    Qed.
    Lemma in_new_n : In n (map nn l) <-> (Dc ch = true /\ In x (map oname l)).
    Proof.
      rewrite <- !mem_spec. destruct (Dc ch) eqn:Ed.
      - pose proof list_rel as R. rewrite Ed in R. rewrite (lists_rel_true x n _ _ R). intuition.
      - pose proof list_rel as R. rewrite Ed in R. rewrite (lists_rel_false x n _ _ n R), old_fresh.
        intuition discriminate.
    Qed.
    Lemma in_new_x : In x (map nn l) <-> (Dc ch = false /\ In x (map oname l)).
    Proof.
      rewrite <- !mem_spec. destruct (Dc ch) eqn:Ed.
      - pose proof list_rel as R. rewrite Ed in R. destruct R as [Hn R]. rewrite R, (mem_map_rho x n) by exact Hn.
        apply N.eqb_neq in Hxn. rewrite Hxn, N.eqb_refl. intuition discriminate.
      - pose proof list_rel as R. rewrite Ed in R. rewrite (lists_rel_false x n _ _ x R). intuition.
    Qed.
  End OneList.

  Lemma incl_bound ch o : In o (obound (chain_head ch)) -> In o (obound (chain_head ch) ++ oglobals (chain_head ch)).
  Proof. intros H. apply in_or_app. now left. Qed.
  Lemma incl_globals ch o : In o (oglobals (chain_head ch)) -> In o (obound (chain_head ch) ++ oglobals (chain_head ch)).
  Proof. intros H. apply in_or_app. now right. Qed.

  Definition root_chain : list (path * oscope) := [([], ot)].
  Lemma root_in : In root_chain (o_chains [] [] ot).
  Proof. rewrite o_chains_eq. now left. Qed.

  Lemma D_root : Dc root_chain = is_target Pb (module_level mg bi x).
  Proof.
    unfold D, schain_of, root_chain. cbn [map to_se fst snd resolve_chain].
    destruct ot as [k a b bo gl nl cs]. cbn in Hroot. subst k. reflexivity.
  Qed.

  (* a scope that declares x global sends x to the module level *)
  Lemma D_global ch :
    ch <> [] -> In x (map oname (oglobals (chain_head ch))) -> Dc ch = is_target Pb (module_level mg bi x).
  Proof.
    intros Hne Hg. destruct ch as [|[q os] r]; [congruence|]. cbn [chain_head] in Hg.
    unfold D, schain_of. cbn [map to_se fst snd resolve_chain].
    assert (Eg : sglobals (to_s oname os) = map oname (oglobals os)) by (destruct os; reflexivity).
    apply mem_spec in Hg. destruct (sk (to_s oname os)); try reflexivity; now rewrite Eg, Hg.
  Qed.

  Lemma chains_nonempty pre acc t ch : In ch (o_chains pre acc t) -> ch <> [].
  Proof.
    revert pre acc. induction t as [k a b bo gl nl cs IH] using oscope_ind'. intros pre acc.
    rewrite o_chains_eq. intros [<-|H]; [discriminate|].
    cbn [ochildren] in H. revert H. generalize 0%nat.
    generalize ((pre, OScope k a b bo gl nl cs) :: acc) as c0.
    induction IH as [|c r Hc _ IHr]; intros c0 i H; cbn [o_chains_list] in H; [destruct H|].
    apply in_app_or in H as [H|H]; [exact (Hc _ _ H) | exact (IHr _ _ H)].
  Qed.

  Lemma target_of_module_level : mem x mg = true -> is_target Pb (module_level mg bi x) = path_eqb Pb [].
  Proof.
    intros H. unfold module_level. rewrite H. unfold is_target. cbn. destruct Pb; reflexivity.
  Qed.

  Lemma x_global_in_mg ch :
    In ch (o_chains [] [] ot) ->
    In x (map oname (oglobals (chain_head ch))) -> In x (map oname (obound (chain_head ch))) -> mem x mg = true.
  Proof.
    intros Hch Hg Hb. apply mem_spec. unfold mg. apply in_module_globals. right. now exists ch.
  Qed.

  (* the three facts about module globals resolve_rel needs *)
  Lemma mg_char_other z : z <> x -> z <> n -> (In z mg' <-> In z mg).
  Proof.
    intros Hx Hn. unfold mg', mg. rewrite !in_module_globals. split.
    - intros [H|(ch & Hch & Hg & Hb)].
      + left. apply (in_new_other root_chain (obound ot) (Hexact _ root_in)) in H; auto.
        intros o Ho. apply in_or_app. now left.
      + right. exists ch. split; [exact Hch|]. split.
        * apply (in_new_other ch _ (Hexact _ Hch) (incl_globals ch)) in Hg; auto.
        * apply (in_new_other ch _ (Hexact _ Hch) (incl_bound ch)) in Hb; auto.
    - intros [H|(ch & Hch & Hg & Hb)].
      + left. apply (in_new_other root_chain (obound ot) (Hexact _ root_in)); auto.
        intros o Ho. apply in_or_app. now left.
      + right. exists ch. split; [exact Hch|]. split.
        * apply (in_new_other ch _ (Hexact _ Hch) (incl_globals ch)); auto.
        * apply (in_new_other ch _ (Hexact _ Hch) (incl_bound ch)); auto.
  Qed.

  Lemma root_bound_incl o : In o (obound ot) -> In o (obound (chain_head root_chain) ++ oglobals (chain_head root_chain)).
  Proof. intros H. apply in_or_app. now left. Qed.

  Lemma mg_char_n : In n mg' <-> (In x mg /\ Pb = []).
  Proof.
    unfold mg', mg. rewrite !in_module_globals. split.
    - intros [H|(ch & Hch & Hg & Hb)].
      + apply (in_new_n root_chain (obound ot) (Hexact _ root_in) root_bound_incl) in H as [Hd Hx].
        assert (M : mem x mg = true) by (apply mem_spec; unfold mg; apply in_module_globals; now left).
        rewrite D_root, (target_of_module_level M) in Hd. apply path_eqb_eq in Hd. split; [now left | exact Hd].
      + apply (in_new_n ch _ (Hexact _ Hch) (incl_globals ch)) in Hg as [Hd Hg].
        apply (in_new_n ch _ (Hexact _ Hch) (incl_bound ch)) in Hb as [_ Hb].
        pose proof (x_global_in_mg ch Hch Hg Hb) as M.
        rewrite (D_global ch (chains_nonempty _ _ _ _ Hch) Hg), (target_of_module_level M) in Hd.
        apply path_eqb_eq in Hd. split; [|exact Hd]. right. now exists ch.
    - intros [[H|(ch & Hch & Hg & Hb)] HP].
      + left. apply (in_new_n root_chain (obound ot) (Hexact _ root_in) root_bound_incl). split; [|exact H].
        assert (M : mem x mg = true) by (apply mem_spec; unfold mg; apply in_module_globals; now left).
        rewrite D_root, (target_of_module_level M). now apply path_eqb_eq.
      + right. exists ch. split; [exact Hch|].
        pose proof (x_global_in_mg ch Hch Hg Hb) as M.
        assert (Hd : Dc ch = true).
        { rewrite (D_global ch (chains_nonempty _ _ _ _ Hch) Hg), (target_of_module_level M). now apply path_eqb_eq. }
        split.
        * apply (in_new_n ch _ (Hexact _ Hch) (incl_globals ch)). now split.
        * apply (in_new_n ch _ (Hexact _ Hch) (incl_bound ch)). now split.
  Qed.

  Lemma mg_char_x : In x mg' <-> (In x mg /\ Pb <> []).
  Proof.
    unfold mg', mg. rewrite !in_module_globals. split.
    - intros [H|(ch & Hch & Hg & Hb)].
      + apply (in_new_x root_chain (obound ot) (Hexact _ root_in) root_bound_incl) in H as [Hd Hx].
        assert (M : mem x mg = true) by (apply mem_spec; unfold mg; apply in_module_globals; now left).
        rewrite D_root, (target_of_module_level M) in Hd. split; [now left|].
        intros E. apply path_eqb_eq in E. congruence.
      + apply (in_new_x ch _ (Hexact _ Hch) (incl_globals ch)) in Hg as [Hd Hg].
        apply (in_new_x ch _ (Hexact _ Hch) (incl_bound ch)) in Hb as [_ Hb].
        pose proof (x_global_in_mg ch Hch Hg Hb) as M.
        rewrite (D_global ch (chains_nonempty _ _ _ _ Hch) Hg), (target_of_module_level M) in Hd.
        split; [right; now exists ch|]. intros E. apply path_eqb_eq in E. congruence.
    - intros [[H|(ch & Hch & Hg & Hb)] HP].
      + left. apply (in_new_x root_chain (obound ot) (Hexact _ root_in) root_bound_incl). split; [|exact H].
        assert (M : mem x mg = true) by (apply mem_spec; unfold mg; apply in_module_globals; now left).
        rewrite D_root, (target_of_module_level M).
        destruct (path_eqb Pb []) eqn:E; [|reflexivity]. apply path_eqb_eq in E. contradiction.
      + right. exists ch. split; [exact Hch|].
        pose proof (x_global_in_mg ch Hch Hg Hb) as M.
        assert (Hd : Dc ch = false).
        { rewrite (D_global ch (chains_nonempty _ _ _ _ Hch) Hg), (target_of_module_level M).
          destruct (path_eqb Pb []) eqn:E; [|reflexivity]. apply path_eqb_eq in E. contradiction. }
        split.
        * apply (in_new_x ch _ (Hexact _ Hch) (incl_globals ch)). now split.
        * apply (in_new_x ch _ (Hexact _ Hch) (incl_bound ch)). now split.
  Qed.

  Lemma Hmg_other z : z <> x -> z <> n -> mem z mg' = mem z mg.
  Proof.
    intros Hx Hn. destruct (mem z mg') eqn:E.
    - symmetry. apply mem_spec, (mg_char_other z Hx Hn), mem_spec, E.
    - destruct (mem z mg) eqn:F; [|reflexivity].
      apply mem_spec, (mg_char_other z Hx Hn), mem_spec in F. congruence.
  Qed.
  Lemma Hmg_n : mem n mg' = mem x mg && path_eqb Pb [].
  Proof.
    destruct (mem n mg') eqn:E.
    - apply mem_spec, mg_char_n in E as [H1 H2]. apply mem_spec in H1. rewrite H1. subst Pb. reflexivity.
    - destruct (mem x mg) eqn:F; [|reflexivity]. destruct (path_eqb Pb []) eqn:G; [|reflexivity].
      apply path_eqb_eq in G. apply mem_spec in F.
      assert (X : In n mg') by (apply mg_char_n; now split). apply mem_spec in X. congruence.
  Qed.
  Lemma Hmg_x : mem x mg' = mem x mg && negb (path_eqb Pb []).
  Proof.
    destruct (mem x mg') eqn:E.
    - apply mem_spec, mg_char_x in E as [H1 H2]. apply mem_spec in H1. rewrite H1.
      destruct (path_eqb Pb []) eqn:G; [apply path_eqb_eq in G; contradiction | reflexivity].
    - destruct (mem x mg) eqn:F; [|reflexivity]. destruct (path_eqb Pb []) eqn:G; [reflexivity|].
      apply mem_spec in F.
      assert (X : In x mg').
      { apply mg_char_x. split; [exact F|]. intros Ep. subst Pb. discriminate. }
      apply mem_spec in X. congruence.
  Qed.

  (* the chain of a path in the old and in the new reading *)
  Lemma crel_of_chain och :
    all_ok (exact_scope bi x n Pb ids mg) och ->
    crel bi x n Pb mg (map (to_se oname) och) (map (to_se nn) och).
  Proof.
    induction och as [|[q os] r IH]; intros Hall; [constructor|].
    destruct Hall as [Hex Hr].
    cbn [map to_se fst snd].
    constructor.
    - apply IH. exact Hr.
    - destruct os; reflexivity.
    - pose proof (exact_nonlocals q os r Hex) as E. destruct os; cbn in *. now rewrite E.
    - pose proof (exact_nonlocals q os r Hex) as E. destruct os; cbn in *. now rewrite E.
    - assert (Eb : forall f, sbound (to_s f os) = map f (obound os)) by (intros f; destruct os; reflexivity).
      rewrite !Eb. exact (list_rel ((q, os) :: r) (obound os) Hex (incl_bound ((q, os) :: r))).
    - assert (Eg : forall f, sglobals (to_s f os) = map f (oglobals os)) by (intros f; destruct os; reflexivity).
      rewrite !Eg. exact (list_rel ((q, os) :: r) (oglobals os) Hex (incl_globals ((q, os) :: r))).
  Qed.

  (* from every scope, the new spelling denotes in the new reading of the tree what the old spelling denoted *)
  Theorem tree_alpha p y :
    y <> n ->
    spec_resolve bi (to_s nn ot) p
                 (match ochain ot p with Some och => rho x n (Dc och) y | None => y end)
    = spec_resolve bi (to_s oname ot) p y.
  Proof.
    intros Hy. unfold spec_resolve. rewrite !schain_to_s0.
    destruct (ochain ot p) as [och|] eqn:Ec; cbn [option_map]; [|reflexivity].
    fold mg. fold mg'.
    apply (resolve_rel bi x n Pb mg mg' Hmg_other Hmg_n Hmg_x); [|exact Hy].
    apply crel_of_chain.
    unfold ochain in Ec.
    apply (chain_all_ok (exact_scope bi x n Pb ids mg) p ot [] [] och); [exact Hexact | exact I | exact Ec].
  Qed.
End Tree.

(* ------------------------------------------------------------------ programs *)
Lemma to_s_ext f g t : (forall o, f o = g o) -> to_s f t = to_s g t.
Proof.
  intros E. induction t as [k a b bo gl nl ch IH] using oscope_ind'. cbn.
  rewrite (map_ext f g E bo), (map_ext f g E gl), (map_ext f g E nl). f_equal.
  induction IH as [|c r Hc _ IHr]; cbn; [reflexivity|]. now rewrite Hc, IHr.
Qed.

Lemma respell_name ids n o : oname (respell ids n o) = new_name n ids o.
Proof. destruct o as [i k y]. unfold respell, new_name. cbn. now destruct (memN i ids). Qed.

Lemma spec_tree_respell ids n nl p :
  spec_tree nl (relabel (respell ids n) p) = to_s (new_name n ids) (spec_otree nl p).
Proof. rewrite spec_tree_relabel. apply to_s_ext. intros o. apply respell_name. Qed.

(* If the respelled set is exact on the binder tokens of every scope, then every token whose own respelling is exact
   denotes after the rename - under its new spelling, in the SPEC tree of the relabelled program - the binding it
   denoted before. *)
Theorem alpha_program bi nl p x n Pb ids :
  x <> n ->
  exact_tree bi x n Pb ids (spec_otree nl p) = true ->
  forall env i y,
    y <> n ->
    memN i ids = (is_target Pb (spec_resolve bi (spec_tree nl p) env x) && N.eqb y x) ->
    alpha_tok bi nl p ids n env i y = true.
Proof.
  intros Hxn Hex env i y Hy Hi. unfold alpha_tok. apply binding_eqb_eq.
  unfold exact_tree in Hex. apply andb_prop in Hex as [Hroot Hall].
  assert (Hk : ok (spec_otree nl p) = KModule) by reflexivity.
  rewrite forallb_forall in Hall.
  rewrite spec_tree_respell, <- (forget_tree nl p).
  pose proof (tree_alpha bi x n Pb ids (spec_otree nl p) Hxn Hk Hall env y Hy) as T.
  rewrite <- T. f_equal.
  rewrite Hi. rewrite <- (forget_tree nl p).
  unfold spec_resolve. rewrite schain_to_s0.
  destruct (ochain (spec_otree nl p) env) as [och|]; cbn [option_map]; [|reflexivity].
  reflexivity.
Qed.
