(* Alpha-equivalence at the level of scope trees (no syntax here).

   Setting.  CPython's scoping SPEC (coq/C15/Scoping.v) resolves a name from a scope by walking the chain of
   enclosing scopes and looking at three name lists per scope (bound, globals, nonlocals) and at the list of module
   globals.  A rename respells some identifier tokens; on the scope tree this respells entries of those lists.
   This file proves: if in every scope exactly those entries spelled [x] are respelled [n] from which [x] denotes
   the binding owned by scope [Pb] (and [n] is fresh), then resolving the respelled name in the respelled tree
   gives, from every scope, the owner that the old name had in the old tree:

       resolve_chain mg' bi ch' (rho (D ch) y) = resolve_chain mg bi ch y        ([resolve_rel])

   where [D ch] says "x denotes the target from the innermost scope of ch" and [rho d y] is [n] when [d] and
   [y = x], else [y].  Tokens that denoted the target still denote it (under the new name), every other token
   denotes what it denoted: no capture, nothing missed. *)
From Coq Require Import List NArith Bool PeanoNat Lia.
From RopeVerif.C15 Require Import Syntax Scoping RopeScopes.
From RopeVerif.C02 Require Import Occurrences OccurrencesProofs.
From RopeVerif.C01 Require Import Rename OccTree AlphaSpec.
Import ListNotations.

Lemma mem_spec x l : mem x l = true <-> In x l.
Proof.
  unfold mem. rewrite existsb_exists. split.
  - intros (y & Hy & E). apply N.eqb_eq in E. now subst.
  - intros H. exists x. split; [exact H | apply N.eqb_refl].
Qed.

Lemma mem_ext l l' : (forall z, In z l <-> In z l') -> forall z, mem z l = mem z l'.
Proof.
  intros H z. destruct (mem z l) eqn:E.
  - symmetry. apply mem_spec, H, mem_spec, E.
  - destruct (mem z l') eqn:F; [|reflexivity]. apply mem_spec, H, mem_spec in F. congruence.
Qed.

Section Rel.
  Variable bi : list ident.
  Variables x n : ident.
  Variable Pb : path.
  Variables mg mg' : list ident.

  Hypothesis Hxn : x <> n.
  Hypothesis Hn_bi : mem n bi = false.
  Hypothesis Hmg_other : forall z, z <> x -> z <> n -> mem z mg' = mem z mg.
  Hypothesis Hmg_n : mem n mg' = mem x mg && path_eqb Pb [].
  Hypothesis Hmg_x : mem x mg' = mem x mg && negb (path_eqb Pb []).

  Local Notation is_target := (AlphaSpec.is_target Pb).
  Local Notation D := (AlphaSpec.D bi x Pb mg).
  Local Notation rho := (AlphaSpec.rho x n).

  Lemma rho_other d y : y <> x -> rho d y = y.
  Proof. intros H. unfold AlphaSpec.rho. apply N.eqb_neq in H. rewrite H. now rewrite andb_false_r. Qed.
  Lemma rho_x_true : rho true x = n.
  Proof. unfold AlphaSpec.rho. now rewrite N.eqb_refl. Qed.
  Lemma rho_false y : rho false y = y.
  Proof. reflexivity. Qed.

  (* membership in a respelled list that does not contain n *)
  Lemma mem_map_rho d l z :
    mem n l = false ->
    mem z (map (rho d) l) =
    if d then (if N.eqb z n then mem x l else if N.eqb z x then false else mem z l) else mem z l.
  Proof.
    intros Hn. destruct d.
    2:{ f_equal. rewrite <- (map_id l) at 2. apply map_ext. intros a. apply rho_false. }
    induction l as [|a l IH]; cbn [map mem existsb].
    - destruct (N.eqb z n), (N.eqb z x); reflexivity.
    - cbn [mem existsb] in Hn. apply orb_false_elim in Hn as [Hna Hnl].
      fold (mem z (map (rho true) l)). fold (mem x l). fold (mem z l). rewrite (IH Hnl).
      unfold AlphaSpec.rho at 1. cbn [andb].
      destruct (N.eqb_spec a x) as [->|Hax].
      + (* a = x is respelled n *)
        rewrite N.eqb_refl. cbn [orb].
        destruct (N.eqb_spec z n) as [->|Hzn]; [reflexivity|].
        destruct (N.eqb_spec z x) as [->|Hzx]; [reflexivity|]. reflexivity.
      + destruct (N.eqb_spec z n) as [->|Hzn].
        * rewrite Hna. cbn. apply N.eqb_neq in Hax. rewrite N.eqb_sym in Hax. now rewrite Hax.
        * destruct (N.eqb_spec z x) as [->|Hzx].
          -- apply N.eqb_neq in Hax. rewrite N.eqb_sym in Hax. now rewrite Hax.
          -- reflexivity.
  Qed.

  Definition lists_rel (d : bool) (l l' : list ident) : Prop :=
    mem n l = false /\ forall z, mem z l' = mem z (map (rho d) l).

  Lemma lists_rel_other d l l' y : lists_rel d l l' -> y <> x -> y <> n -> mem y l' = mem y l.
  Proof.
    intros [Hn H] Hx Hnn. rewrite H, mem_map_rho by exact Hn.
    apply N.eqb_neq in Hx, Hnn. destruct d; [now rewrite Hnn, Hx | reflexivity].
  Qed.
  Lemma lists_rel_true l l' : lists_rel true l l' -> mem n l' = mem x l.
  Proof. intros [Hn H]. rewrite H, mem_map_rho by exact Hn. now rewrite N.eqb_refl. Qed.
  Lemma lists_rel_false l l' y : lists_rel false l l' -> mem y l' = mem y l.
  Proof. intros [Hn H]. now rewrite H, mem_map_rho by exact Hn. Qed.

  (* the relation between the chain of a scope in the old tree and in the respelled tree *)
  Inductive crel : list (path * sscope) -> list (path * sscope) -> Prop :=
  | crel_nil : crel [] []
  | crel_cons p s s' ch ch' :
      crel ch ch' ->
      sk s' = sk s ->
      snonlocals s = [] -> snonlocals s' = [] ->
      lists_rel (D ((p, s) :: ch)) (sbound s) (sbound s') ->
      lists_rel (D ((p, s) :: ch)) (sglobals s) (sglobals s') ->
      crel ((p, s) :: ch) ((p, s') :: ch').

  (* ---- module level *)
  Lemma module_level_rel d y :
    y <> n ->
    (y = x -> d = is_target (module_level mg bi x)) ->
    module_level mg' bi (rho d y) = module_level mg bi y.
  Proof.
    intros Hyn Hd. unfold module_level.
    destruct (N.eq_dec y x) as [->|Hyx].
    - specialize (Hd eq_refl). unfold module_level, AlphaSpec.is_target in Hd.
      destruct (mem x mg) eqn:Ex; cbn [andb] in Hmg_n, Hmg_x.
      + cbn [binding_eqb path_eqb] in Hd.
        destruct Pb as [|i r]; cbn [path_eqb negb] in *; subst d.
        * now rewrite rho_x_true, Hmg_n.
        * now rewrite rho_false, Hmg_x.
      + assert (d = false) as ->.
        { rewrite Hd. destruct (mem x bi); reflexivity. }
        rewrite rho_false, Hmg_x. reflexivity.
    - rewrite rho_other by exact Hyx. now rewrite Hmg_other.
  Qed.

  (* for a scope that is neither the module nor a class, looking x up from the scope itself and reaching the
     scope from an inner one are the same computation *)
  Lemma resolve_is_free p s ch :
    sk s <> KModule -> sk s <> KClass ->
    resolve_chain mg bi ((p, s) :: ch) x = free_lookup mg bi ((p, s) :: ch) x.
  Proof. intros H1 H2. cbn. destruct (sk s); try reflexivity; congruence. Qed.

  Lemma free_rel ch ch' :
    crel ch ch' ->
    forall d y, y <> n ->
    (y = x -> d = is_target (free_lookup mg bi ch x)) ->
    free_lookup mg' bi ch' (rho d y) = free_lookup mg bi ch y.
  Proof.
    induction 1 as [|p s s' ch ch' R IH Hk Hnl Hnl' Hb Hg]; intros d y Hyn Hd.
    - cbn. apply module_level_rel; assumption.
    - cbn [free_lookup]. rewrite Hk.
      destruct (sk s) eqn:K.
      + apply module_level_rel; [assumption|]. intros E. specialize (Hd E). cbn [free_lookup] in Hd.
        now rewrite K in Hd.
      + (* function-like *)
        rewrite Hnl, Hnl'. cbn [mem existsb].
        assert (HD : y = x -> D ((p, s) :: ch) = d).
        { intros E. unfold AlphaSpec.D. rewrite resolve_is_free by (rewrite K; discriminate). now rewrite (Hd E). }
        destruct (N.eq_dec y x) as [->|Hyx].
        * specialize (HD eq_refl). rewrite HD in Hb, Hg. specialize (Hd eq_refl).
          cbn [free_lookup] in Hd. rewrite K, Hnl in Hd. cbn [mem existsb] in Hd.
          destruct d.
          -- rewrite rho_x_true, (lists_rel_true _ _ Hg), (lists_rel_true _ _ Hb).
             destruct (mem x (sglobals s)).
             ++ rewrite <- rho_x_true. apply module_level_rel; [assumption | now intros _].
             ++ destruct (mem x (sbound s)); [reflexivity|].
                rewrite <- rho_x_true. apply IH; [assumption | now intros _].
          -- rewrite rho_false, (lists_rel_false _ _ x Hg), (lists_rel_false _ _ x Hb).
             destruct (mem x (sglobals s)).
             ++ rewrite <- (rho_false x) at 1. apply module_level_rel; [assumption | now intros _].
             ++ destruct (mem x (sbound s)); [reflexivity|].
                rewrite <- (rho_false x) at 1. apply IH; [assumption | now intros _].
        * rewrite rho_other by exact Hyx.
          rewrite (lists_rel_other _ _ _ y Hg Hyx Hyn), (lists_rel_other _ _ _ y Hb Hyx Hyn).
          destruct (mem y (sglobals s)).
          -- rewrite <- (rho_other false y Hyx). apply module_level_rel; [assumption | intros E; contradiction].
          -- destruct (mem y (sbound s)); [reflexivity|].
             rewrite <- (rho_other false y Hyx). apply IH; [assumption | intros E; contradiction].
      + (* class: skipped *)
        apply IH; [assumption|]. intros E. specialize (Hd E). cbn [free_lookup] in Hd. now rewrite K in Hd.
      + rewrite Hnl, Hnl'. cbn [mem existsb].
        assert (HD : y = x -> D ((p, s) :: ch) = d).
        { intros E. unfold AlphaSpec.D. rewrite resolve_is_free by (rewrite K; discriminate). now rewrite (Hd E). }
        destruct (N.eq_dec y x) as [->|Hyx].
        * specialize (HD eq_refl). rewrite HD in Hb, Hg. specialize (Hd eq_refl).
          cbn [free_lookup] in Hd. rewrite K, Hnl in Hd. cbn [mem existsb] in Hd.
          destruct d.
          -- rewrite rho_x_true, (lists_rel_true _ _ Hg), (lists_rel_true _ _ Hb).
             destruct (mem x (sglobals s)).
             ++ rewrite <- rho_x_true. apply module_level_rel; [assumption | now intros _].
             ++ destruct (mem x (sbound s)); [reflexivity|].
                rewrite <- rho_x_true. apply IH; [assumption | now intros _].
          -- rewrite rho_false, (lists_rel_false _ _ x Hg), (lists_rel_false _ _ x Hb).
             destruct (mem x (sglobals s)).
             ++ rewrite <- (rho_false x) at 1. apply module_level_rel; [assumption | now intros _].
             ++ destruct (mem x (sbound s)); [reflexivity|].
                rewrite <- (rho_false x) at 1. apply IH; [assumption | now intros _].
        * rewrite rho_other by exact Hyx.
          rewrite (lists_rel_other _ _ _ y Hg Hyx Hyn), (lists_rel_other _ _ _ y Hb Hyx Hyn).
          destruct (mem y (sglobals s)).
          -- rewrite <- (rho_other false y Hyx). apply module_level_rel; [assumption | intros E; contradiction].
          -- destruct (mem y (sbound s)); [reflexivity|].
             rewrite <- (rho_other false y Hyx). apply IH; [assumption | intros E; contradiction].
      + rewrite Hnl, Hnl'. cbn [mem existsb].
        assert (HD : y = x -> D ((p, s) :: ch) = d).
        { intros E. unfold AlphaSpec.D. rewrite resolve_is_free by (rewrite K; discriminate). now rewrite (Hd E). }
        destruct (N.eq_dec y x) as [->|Hyx].
        * specialize (HD eq_refl). rewrite HD in Hb, Hg. specialize (Hd eq_refl).
          cbn [free_lookup] in Hd. rewrite K, Hnl in Hd. cbn [mem existsb] in Hd.
          destruct d.
          -- rewrite rho_x_true, (lists_rel_true _ _ Hg), (lists_rel_true _ _ Hb).
             destruct (mem x (sglobals s)).
             ++ rewrite <- rho_x_true. apply module_level_rel; [assumption | now intros _].
             ++ destruct (mem x (sbound s)); [reflexivity|].
                rewrite <- rho_x_true. apply IH; [assumption | now intros _].
          -- rewrite rho_false, (lists_rel_false _ _ x Hg), (lists_rel_false _ _ x Hb).
             destruct (mem x (sglobals s)).
             ++ rewrite <- (rho_false x) at 1. apply module_level_rel; [assumption | now intros _].
             ++ destruct (mem x (sbound s)); [reflexivity|].
                rewrite <- (rho_false x) at 1. apply IH; [assumption | now intros _].
        * rewrite rho_other by exact Hyx.
          rewrite (lists_rel_other _ _ _ y Hg Hyx Hyn), (lists_rel_other _ _ _ y Hb Hyx Hyn).
          destruct (mem y (sglobals s)).
          -- rewrite <- (rho_other false y Hyx). apply module_level_rel; [assumption | intros E; contradiction].
          -- destruct (mem y (sbound s)); [reflexivity|].
             rewrite <- (rho_other false y Hyx). apply IH; [assumption | intros E; contradiction].
  Qed.

  (* THE tree-level statement: from every scope, the respelled name denotes in the respelled tree what the old name
     denoted in the old tree *)
  Theorem resolve_rel ch ch' :
    crel ch ch' ->
    forall y, y <> n ->
    resolve_chain mg' bi ch' (rho (D ch) y) = resolve_chain mg bi ch y.
  Proof.
    intros R y Hyn. inversion R as [|p s s' c c' R' Hk Hnl Hnl' Hb Hg]; subst; [reflexivity|].
    cbn [resolve_chain]. rewrite Hk.
    set (d := D ((p, s) :: c)) in *.
    assert (Hd : d = is_target (resolve_chain mg bi ((p, s) :: c) x)) by reflexivity.
    cbn [resolve_chain] in Hd.
    destruct (sk s) eqn:K.
    - apply module_level_rel; [assumption | now intros _].
    - rewrite Hnl, Hnl' in *. cbn [mem existsb] in *.
      destruct (N.eq_dec y x) as [->|Hyx].
      + destruct d.
        * rewrite rho_x_true, (lists_rel_true _ _ Hg), (lists_rel_true _ _ Hb).
          destruct (mem x (sglobals s)).
          -- rewrite <- rho_x_true. apply module_level_rel; [assumption | now intros _].
          -- destruct (mem x (sbound s)); [reflexivity|].
             rewrite <- rho_x_true. apply free_rel; [assumption | assumption | now intros _].
        * rewrite rho_false, (lists_rel_false _ _ x Hg), (lists_rel_false _ _ x Hb).
          destruct (mem x (sglobals s)).
          -- rewrite <- (rho_false x) at 1. apply module_level_rel; [assumption | now intros _].
          -- destruct (mem x (sbound s)); [reflexivity|].
             rewrite <- (rho_false x) at 1. apply free_rel; [assumption | assumption | now intros _].
      + rewrite rho_other by exact Hyx.
        rewrite (lists_rel_other _ _ _ y Hg Hyx Hyn), (lists_rel_other _ _ _ y Hb Hyx Hyn).
        destruct (mem y (sglobals s)).
        * rewrite <- (rho_other false y Hyx). apply module_level_rel; [assumption | intros E; contradiction].
        * destruct (mem y (sbound s)); [reflexivity|].
          rewrite <- (rho_other false y Hyx). apply free_rel; [assumption | assumption | intros E; contradiction].
    - rewrite Hnl, Hnl' in *. cbn [mem existsb] in *.
      destruct (N.eq_dec y x) as [->|Hyx].
      + destruct d.
        * rewrite rho_x_true, (lists_rel_true _ _ Hg), (lists_rel_true _ _ Hb).
          destruct (mem x (sglobals s)).
          -- rewrite <- rho_x_true. apply module_level_rel; [assumption | now intros _].
          -- destruct (mem x (sbound s)); [reflexivity|].
             rewrite <- rho_x_true. apply free_rel; [assumption | assumption | now intros _].
        * rewrite rho_false, (lists_rel_false _ _ x Hg), (lists_rel_false _ _ x Hb).
          destruct (mem x (sglobals s)).
          -- rewrite <- (rho_false x) at 1. apply module_level_rel; [assumption | now intros _].
          -- destruct (mem x (sbound s)); [reflexivity|].
             rewrite <- (rho_false x) at 1. apply free_rel; [assumption | assumption | now intros _].
      + rewrite rho_other by exact Hyx.
        rewrite (lists_rel_other _ _ _ y Hg Hyx Hyn), (lists_rel_other _ _ _ y Hb Hyx Hyn).
        destruct (mem y (sglobals s)).
        * rewrite <- (rho_other false y Hyx). apply module_level_rel; [assumption | intros E; contradiction].
        * destruct (mem y (sbound s)); [reflexivity|].
          rewrite <- (rho_other false y Hyx). apply free_rel; [assumption | assumption | intros E; contradiction].
    - rewrite Hnl, Hnl' in *. cbn [mem existsb] in *.
      destruct (N.eq_dec y x) as [->|Hyx].
      + destruct d.
        * rewrite rho_x_true, (lists_rel_true _ _ Hg), (lists_rel_true _ _ Hb).
          destruct (mem x (sglobals s)).
          -- rewrite <- rho_x_true. apply module_level_rel; [assumption | now intros _].
          -- destruct (mem x (sbound s)); [reflexivity|].
             rewrite <- rho_x_true. apply free_rel; [assumption | assumption | now intros _].
        * rewrite rho_false, (lists_rel_false _ _ x Hg), (lists_rel_false _ _ x Hb).
          destruct (mem x (sglobals s)).
          -- rewrite <- (rho_false x) at 1. apply module_level_rel; [assumption | now intros _].
          -- destruct (mem x (sbound s)); [reflexivity|].
             rewrite <- (rho_false x) at 1. apply free_rel; [assumption | assumption | now intros _].
      + rewrite rho_other by exact Hyx.
        rewrite (lists_rel_other _ _ _ y Hg Hyx Hyn), (lists_rel_other _ _ _ y Hb Hyx Hyn).
        destruct (mem y (sglobals s)).
        * rewrite <- (rho_other false y Hyx). apply module_level_rel; [assumption | intros E; contradiction].
        * destruct (mem y (sbound s)); [reflexivity|].
          rewrite <- (rho_other false y Hyx). apply free_rel; [assumption | assumption | intros E; contradiction].
    - rewrite Hnl, Hnl' in *. cbn [mem existsb] in *.
      destruct (N.eq_dec y x) as [->|Hyx].
      + destruct d.
        * rewrite rho_x_true, (lists_rel_true _ _ Hg), (lists_rel_true _ _ Hb).
          destruct (mem x (sglobals s)).
          -- rewrite <- rho_x_true. apply module_level_rel; [assumption | now intros _].
          -- destruct (mem x (sbound s)); [reflexivity|].
             rewrite <- rho_x_true. apply free_rel; [assumption | assumption | now intros _].
        * rewrite rho_false, (lists_rel_false _ _ x Hg), (lists_rel_false _ _ x Hb).
          destruct (mem x (sglobals s)).
          -- rewrite <- (rho_false x) at 1. apply module_level_rel; [assumption | now intros _].
          -- destruct (mem x (sbound s)); [reflexivity|].
             rewrite <- (rho_false x) at 1. apply free_rel; [assumption | assumption | now intros _].
      + rewrite rho_other by exact Hyx.
        rewrite (lists_rel_other _ _ _ y Hg Hyx Hyn), (lists_rel_other _ _ _ y Hb Hyx Hyn).
        destruct (mem y (sglobals s)).
        * rewrite <- (rho_other false y Hyx). apply module_level_rel; [assumption | intros E; contradiction].
        * destruct (mem y (sbound s)); [reflexivity|].
          rewrite <- (rho_other false y Hyx). apply free_rel; [assumption | assumption | intros E; contradiction].
  Qed.
End Rel.
