(* MODEL of rope/refactor/rename.py (Rename.__init__, get_changes, validate_changes, _is_local, _rename_module,
   rename_in_module) over the PyF syntax of coq/C15/Syntax.v, on top of
     coq/C15/RopeScopes.v   rope's scopes and lookup chain,
     coq/C02/Occurrences.v  rope's occurrence finder for one module (the PyName of every identifier token by the chain
                            of ifs of get_primary_and_pyname_at, same_pyname, PyNameFilter),
     coq/C01/Collector.v    ChangeCollector.
   Definitions only.

   One module
   ----------
   Rename(project, resource, offset): old_name = the word at the offset, old_pyname = eval_location2 (the PyName
   C02's [rope_pyname_at] computes for the token); None -> RefactoringError.  get_changes(new_name): a keyword is
   refused (validate_changes); the finder is the one of find_occurrences (create_finder with the same arguments), so
   the tokens rewritten in a module are [rope_occurrences]; each is replaced over its WORD range through
   ChangeCollector, i.e. the token is relabelled ([relabel], tied to the text level by CollectorProofs.collector_words).

   A project of flat modules  ([Section Project])
   -------------------------
   The PyName of a token is made comparable across modules by a key ([gkey]): the scope whose names dictionary owns
   the PyName, or - for ImportedModule / ImportedName made by an import statement AT MODULE LEVEL of the form
   [import a], [import a as k], [from a import y], [from a import y as k] - what it resolves to
   (ImportedName.get_definition_location / get_object follow the chain to the final PyName, and same_pyname compares
   exactly those two when one side is an import).  Attribute access on a name bound to a module ([a.y]) is the
   module's own PyName of y.  Everything else that needs more than that (imports inside functions or classes, dotted
   and relative imports, star imports, attributes of imported classes, keyword arguments of imported callables) is
   [GUnm]: not modelled, left to the oracle.
   [_is_local]: an AssignedName whose definition line lies in a function scope that holds it restricts the search
   to the module of the query.  The module of the definition line is modelled by the scope that owns the name (they
   coincide when every statement starts on its own line, which is what the harness generates; the value rope's
   _is_local returns is observed directly on every case).
   Renaming a module (the PyName is an ImportedModule of a project module): the occurrences are the tokens whose
   PyName is an ImportedModule of the same module, plus MoveResource of the file to new_name.py in the same folder. *)
From Coq Require Import List NArith Bool PeanoNat.
From RopeVerif.C15 Require Import Syntax Scoping RopeScopes Fragment.
From RopeVerif.C02 Require Import Occurrences.
Import ListNotations.

(* ------------------------------------------------------------------ relabelling the tokens of a program *)
Definition rl_param (f : occ -> occ) (p : param) : param := let 'Param k o := p in Param k (f o).

Fixpoint rl_e (f : occ -> occ) (e : expr) : expr :=
  match e with
  | EName o => EName (f o)
  | EConst => EConst
  | EAttr b o => EAttr (rl_e f b) (f o)
  | ESub b i => ESub (rl_e f b) (rl_e f i)
  | ETuple es => ETuple (map (rl_e f) es)
  | EOp es => EOp (map (rl_e f) es)
  | ECall g args => ECall (rl_e f g) (map (rl_e f) args)
  | EKw o v => EKw (f o) (rl_e f v)
  | ENamed o v => ENamed (f o) (rl_e f v)
  | ELambda l s ps ae b => ELambda l s (map (rl_param f) ps) (map (rl_e f) ae) (rl_e f b)
  | EComp k l s elts gens => EComp k l s (map (rl_e f) elts) (map (rl_c f) gens)
  end
with rl_c (f : occ -> occ) (c : comp) : comp :=
  match c with Comp t i ifs => Comp (rl_e f t) (rl_e f i) (map (rl_e f) ifs) end.

Definition rl_oe (f : occ -> occ) (o : option expr) : option expr := option_map (rl_e f) o.
Definition rl_item (f : occ -> occ) (it : expr * option expr) : expr * option expr :=
  (rl_e f (fst it), rl_oe f (snd it)).
Definition rl_import (f : occ -> occ) (n : list occ * option occ) : list occ * option occ :=
  (map f (fst n), option_map f (snd n)).
Definition rl_from (f : occ -> occ) (n : occ * option occ) : occ * option occ := (f (fst n), option_map f (snd n)).

Fixpoint rl_s (f : occ -> occ) (s : stmt) : stmt :=
  match s with
  | SExpr l es => SExpr l (map (rl_e f) es)
  | SReturn l e => SReturn l (rl_oe f e)
  | SAssign l ts v => SAssign l (map (rl_e f) ts) (rl_e f v)
  | SAug l t v => SAug l (rl_e f t) (rl_e f v)
  | SAnn l t a v => SAnn l (rl_e f t) (rl_e f a) (rl_oe f v)
  | SDel l ts => SDel l (map (rl_e f) ts)
  | SPass l => SPass l
  | SIf l t b o => SIf l (rl_e f t) (map (rl_s f) b) (map (rl_s f) o)
  | SWhile l t b o => SWhile l (rl_e f t) (map (rl_s f) b) (map (rl_s f) o)
  | SFor l t i b o => SFor l (rl_e f t) (rl_e f i) (map (rl_s f) b) (map (rl_s f) o)
  | SWith l items b => SWith l (map (rl_item f) items) (map (rl_s f) b)
  | STry l b hs o fin =>
      STry l (map (rl_s f) b)
           (map (fun h => match h with
                          | Handler hl ty nm hb => Handler hl (rl_oe f ty) (option_map f nm) (map (rl_s f) hb)
                          end) hs)
           (map (rl_s f) o) (map (rl_s f) fin)
  | SDef l st d n ps ae r b =>
      SDef l st (map (rl_e f) d) (f n) (map (rl_param f) ps) (map (rl_e f) ae) (rl_oe f r) (map (rl_s f) b)
  | SClass l st d n bs b => SClass l st (map (rl_e f) d) (f n) (map (rl_e f) bs) (map (rl_s f) b)
  | SImport l ns => SImport l (map (rl_import f) ns)
  | SFrom l lv m ns => SFrom l lv (map f m) (option_map (map (rl_from f)) ns)
  | SGlobal l ns => SGlobal l (map f ns)
  | SNonlocal l ns => SNonlocal l (map f ns)
  end.

Definition relabel (f : occ -> occ) (p : program) : program := map (rl_s f) p.

Definition memN (x : N) (l : list N) : bool := existsb (N.eqb x) l.

(* the tokens whose id is in [ids] are respelled [n] *)
Definition respell (ids : list N) (n : ident) (o : occ) : occ :=
  let 'Occ i k x := o in if memN i ids then Occ i k n else o.

(* ------------------------------------------------------------------ tokens in positions rope's visitors skip *)
(* A comprehension (or lambda / walrus) in a position the scope visitors do not descend into - return value, augmented
   and annotated assignment, assignment / del / for targets, for iterable, with items, except type, conditions of a
   comprehension - or that they attach elsewhere - decorators, defaults, annotations, base classes - has no scope
   of its own in rope (findings of C15: unvisited / misattached expressions).  The scope paths C02's token
   list gives to the tokens inside such an expression are then meaningless; the runner leaves these tokens out. *)
Fixpoint e_ids (e : expr) : list N :=
  match e with
  | EName o => [oid o]
  | EConst => []
  | EAttr b o => e_ids b ++ [oid o]
  | ESub b i => e_ids b ++ e_ids i
  | ETuple es | EOp es => flat_map e_ids es
  | ECall g args => e_ids g ++ flat_map e_ids args
  | EKw o v => oid o :: e_ids v
  | ENamed o v => oid o :: e_ids v
  | ELambda _ _ ps ae b => map (fun p => oid (pocc p)) ps ++ flat_map e_ids ae ++ e_ids b
  | EComp _ _ _ elts gens => flat_map e_ids elts ++ flat_map c_ids gens
  end
with c_ids (c : comp) : list N :=
  match c with Comp t i ifs => e_ids t ++ e_ids i ++ flat_map e_ids ifs end.

Definition odd_ids (e : expr) : list N := if simple_expr e then [] else e_ids e.

(* comprehension conditions anywhere inside a visited expression *)
Fixpoint e_cond_ids (e : expr) : list N :=
  match e with
  | EName _ | EConst => []
  | EAttr b _ => e_cond_ids b
  | ESub b i => e_cond_ids b ++ e_cond_ids i
  | ETuple es | EOp es => flat_map e_cond_ids es
  | ECall g args => e_cond_ids g ++ flat_map e_cond_ids args
  | EKw _ v => e_cond_ids v
  | ENamed _ v => e_cond_ids v
  | ELambda _ _ _ ae b => flat_map e_ids ae ++ e_ids b
  | EComp _ _ _ elts gens => flat_map e_cond_ids elts ++ flat_map c_cond_ids gens
  end
with c_cond_ids (c : comp) : list N :=
  match c with Comp t i ifs => odd_ids t ++ e_cond_ids i ++ flat_map odd_ids ifs end.

Fixpoint s_unvisited (s : stmt) : list N :=
  match s with
  | SExpr _ es => flat_map e_cond_ids es
  | SReturn _ e => flat_map odd_ids (opt_list e)
  | SAssign _ ts v => flat_map odd_ids ts ++ e_cond_ids v
  | SAug _ t v => odd_ids t ++ odd_ids v
  | SAnn _ t a v => odd_ids t ++ odd_ids a ++ flat_map odd_ids (opt_list v)
  | SDel _ ts => flat_map odd_ids ts
  | SPass _ => []
  | SIf _ t b o | SWhile _ t b o => e_cond_ids t ++ flat_map s_unvisited b ++ flat_map s_unvisited o
  | SFor _ t i b o => odd_ids t ++ odd_ids i ++ flat_map s_unvisited b ++ flat_map s_unvisited o
  | SWith _ items b =>
      flat_map (fun it => odd_ids (fst it) ++ flat_map odd_ids (opt_list (snd it))) items ++ flat_map s_unvisited b
  | STry _ b hs o f =>
      flat_map s_unvisited b
      ++ flat_map (fun h => match h with
                            | Handler _ ty _ hb => flat_map odd_ids (opt_list ty) ++ flat_map s_unvisited hb
                            end) hs
      ++ flat_map s_unvisited o ++ flat_map s_unvisited f
  | SDef _ _ d _ _ ae r b =>
      flat_map odd_ids d ++ flat_map odd_ids ae ++ flat_map odd_ids (opt_list r) ++ flat_map s_unvisited b
  | SClass _ _ d _ bs b => flat_map odd_ids d ++ flat_map odd_ids bs ++ flat_map s_unvisited b
  | SImport _ _ | SFrom _ _ _ _ | SGlobal _ _ | SNonlocal _ _ => []
  end.
Definition unvisited_ids (p : program) : list N := flat_map s_unvisited p.

(* the table of the functions written directly in class bodies (C02) *)
Notation methtab := (list (path * option ident * (bool * bool))) (only parsing).

(* ------------------------------------------------------------------ one module *)
Section OneModule.
  Variable bi : list ident.
  Variable inh : path -> ident -> option binding.
  Variable rt : rscope.
  Variable init call : ident.
  Variable meths : methtab.
  Variable kwlike : N -> bool.
  Variable ts : list tok.

  Definition pn_at := rope_pyname_at bi inh rt init call meths kwlike.

  (* rename_in_module: the ids of the tokens ChangeCollector is asked to replace *)
  Definition rename_ids (q : tok) : list N :=
    map t_id (rope_occurrences bi inh rt init call meths kwlike ts q).

  (* _is_local(pyname) *)
  Definition assigned_kind (k : option nkind) : bool :=
    match k with Some NAssigned | Some (NGlobal false) => true | _ => false end.
  Definition is_local_pn (pn : pyname) : bool :=
    match pn with
    | PName (BScope P) x false =>
        match scope_at rt P with
        | Some s => skind_eqb (rk s) KFunction && assigned_kind (entry (revs s) x)
        | None => false
        end
    | _ => false
    end.
End OneModule.

(* Rename for a project that consists of this one module *)
Inductive outcome :=
| Refused                       (* RefactoringError *)
| Raised                        (* another exception escapes *)
| Unmodelled
| Renamed (p' : program) (ids : list N).

Definition rename_module (bi ids : list ident) (init call : ident) (odd : list ident) (prop : ident) (kwl : list N)
           (p : program) (qid : N) (n : ident) (n_is_keyword : bool) : outcome :=
  let rt := rope_tree p in
  let inh := inh_of (fst (rope_inh bi rt ids)) in
  let ms := methods odd prop p in
  let ts := toks p in
  match find (fun t => N.eqb (t_id t) qid) ts with
  | None => Unmodelled
  | Some q =>
      match pn_at bi inh rt init call ms (kw_of kwl) q with
      | PNone => Refused
      | PError => Raised
      | PUnmodelled => Unmodelled
      | _ =>
          if n_is_keyword then Refused
          else let r := rename_ids bi inh rt init call ms (kw_of kwl) ts q in
               Renamed (relabel (respell r n) p) r
      end
  end.

(* ------------------------------------------------------------------ a project of flat modules *)
Inductive itarget :=
| TMod (a : ident)               (* import a / import a as k *)
| TName (a y : ident)            (* from a import y [as k] *)
| TOther.                        (* dotted, relative: not modelled *)

Definition import_targets (n : list occ * option occ) : list (ident * itarget) :=
  match n with
  | ([o], Some a) => [(oname a, TMod (oname o))]
  | (_, Some a) => [(oname a, TOther)]
  | ([o], None) => [(oname o, TMod (oname o))]
  | (o :: _, None) => [(oname o, TOther)]
  | ([], None) => []
  end.
Definition from_targets (level : N) (m : list occ) (n : occ * option occ) : ident * itarget :=
  let bound := match snd n with Some a => oname a | None => oname (fst n) end in
  match level, m with
  | 0%N, [mo] => (bound, TName (oname mo) (oname (fst n)))
  | _, _ => (bound, TOther)
  end.

(* the import statements the module's own visitor meets (it does not enter def / class), in source order *)
Fixpoint s_imports (s : stmt) : list (ident * itarget) :=
  match s with
  | SImport _ ns => flat_map import_targets ns
  | SFrom _ lv m (Some ns) => map (from_targets lv m) ns
  | SIf _ _ b o | SWhile _ _ b o | SFor _ _ _ b o => flat_map s_imports b ++ flat_map s_imports o
  | SWith _ _ b => flat_map s_imports b
  | STry _ b hs o f =>
      flat_map s_imports b
      ++ flat_map (fun h => match h with Handler _ _ _ hb => flat_map s_imports hb end) hs
      ++ flat_map s_imports o ++ flat_map s_imports f
  | _ => []
  end.

(* names[x] = ... : the last import statement binding x *)
Definition last_import (imps : list (ident * itarget)) (x : ident) : option itarget :=
  fold_left (fun acc e => if N.eqb (fst e) x then Some (snd e) else acc) imps None.

Record mctx := MCtx {
  x_name : ident;                  (* the module is <name>.py in the project root *)
  x_rt : rscope;
  x_inh : inh_table;
  x_ms : methtab;
  x_kw : list N;
  x_ts : list tok;
  x_imports : list (ident * itarget)
}.

Definition mk_ctx (bi ids : list ident) (odd : list ident) (prop : ident) (name : ident) (kwl : list N) (p : program) : mctx :=
  let rt := rope_tree p in
  MCtx name rt (fst (rope_inh bi rt ids)) (methods odd prop p) kwl (toks p) (flat_map s_imports p).

Inductive gkey :=
| GNone                               (* None *)
| GErr                                (* the evaluation raises *)
| GUnm                                (* not modelled *)
| GVar (m : nat) (b : binding) (x : ident)   (* the PyName the names of scope b of module m hold under x *)
| GBuiltin (x : ident)                (* the PyName of a builtin: one for the whole project *)
| GMod (m : nat)                      (* ImportedModule of project module m *)
| GUnres.                             (* an import PyName that resolves to nothing *)

Section Project.
  Variable bi : list ident.
  Variable init call : ident.
  Variable cx : list mctx.

  Definition ctx_at (m : nat) : option mctx := nth_error cx m.

  Definition find_mod (a : ident) : option nat :=
    (fix go (i : nat) (l : list mctx) : option nat :=
       match l with
       | [] => None
       | c :: r => if N.eqb (x_name c) a then Some i else go (S i) r
       end) 0%nat cx.

  (* a name that is not a flat module of the project may be a package or a library module: not modelled *)
  Definition mod_key (a : ident) : gkey := match find_mod a with Some i => GMod i | None => GUnm end.

  (* module m's own PyName for y, imports followed (ImportedName._get_imported_pyname) *)
  Fixpoint name_in (fuel : nat) (m : nat) (y : ident) : gkey :=
    match fuel with
    | O => GUnm
    | S fu =>
        match ctx_at m with
        | None => GUnres
        | Some c =>
            match entry (revs (x_rt c)) y with
            | None => GUnres
            | Some NImport =>
                match last_import (x_imports c) y with
                | Some (TMod a) => mod_key a
                | Some (TName a z) => match find_mod a with Some i => name_in fu i z | None => GUnm end
                | _ => GUnm
                end
            | Some _ => GVar m (BScope []) y
            end
        end
    end.

  Definition fuel0 : nat := S (S (length cx)).

  (* the key of the PyName C02's model computes for a token of module m *)
  Definition key_of_pn (m : nat) (pn : pyname) : gkey :=
    match pn with
    | PNone => GNone
    | PError => GErr
    | PUnmodelled => GUnm
    | PFreshImport => GUnm
    | PName BBuiltin x false => GBuiltin x
    | PName b x false => GVar m b x
    | PName (BScope []) x true => name_in fuel0 m x
    | PName _ _ true => GUnm
    end.

  Definition is_modpart (t : tok) : bool :=
    match okind_of (t_occ t) with KImportMod => true | _ => false end.

  Definition gkey_of (m : nat) (c : mctx) (t : tok) : gkey :=
    let inh := inh_of (x_inh c) in
    let kwl := kw_of (x_kw c) in
    let plain h x := key_of_pn m (plain_at bi inh (x_rt c) h x) in
    match t_role t with
    | ROther =>
        (* the module of a from statement / of an aliased import: ScopeNameFinder._find_module *)
        if is_modpart t then mod_key (t_name t) else GUnm
    | RAttr (Some b) =>
        match plain (t_hold t) b with
        | GMod a => name_in fuel0 a (t_name t)
        | GUnres => GNone
        | GVar m' _ _ =>
            if Nat.eqb m' m
            then match key_of_pn m (rope_pyname_at bi inh (x_rt c) init call (x_ms c) kwl t) with
                 | GNone =>
                     (* no such attribute as far as this module goes: a base class that is imported may provide it *)
                     match x_imports c with [] => GNone | _ => GUnm end
                 | k => k
                 end
            else GUnm
        | GNone => GNone
        | _ => GUnm
        end
    | RKw (CName g) =>
        match plain (t_hold t) g with
        | GVar m' _ _ =>
            if Nat.eqb m' m
            then key_of_pn m (rope_pyname_at bi inh (x_rt c) init call (x_ms c) kwl t)
            else GUnm
        | GNone | GUnres => key_of_pn m (rope_pyname_at bi inh (x_rt c) init call (x_ms c) kwl t)
        | _ => GUnm
        end
    | _ => key_of_pn m (rope_pyname_at bi inh (x_rt c) init call (x_ms c) kwl t)
    end.

  (* occurrences.same_pyname on keys: identity, or - when a side is an import - equal definition location and
     object, which is equality of what the imports resolve to; unresolved imports all look alike *)
  Definition same_key (a b : gkey) : bool :=
    match a, b with
    | GVar m x n, GVar m' y n' => Nat.eqb m m' && binding_eqb x y && N.eqb n n'
    | GMod m, GMod m' => Nat.eqb m m'
    | GBuiltin x, GBuiltin y => N.eqb x y
    | GUnres, GUnres => true
    | _, _ => false
    end.

  (* _is_local *)
  Definition is_local (k : gkey) : bool :=
    match k with
    | GVar m (BScope P) x =>
        match ctx_at m with
        | Some c =>
            match scope_at (x_rt c) P with
            | Some s => skind_eqb (rk s) KFunction && assigned_kind (entry (revs s) x)
            | None => false
            end
        | None => false
        end
    | _ => false
    end.

  Definition token_of (m : nat) (qid : N) : option (mctx * tok) :=
    match ctx_at m with
    | Some c => match find (fun t => N.eqb (t_id t) qid) (x_ts c) with Some t => Some (c, t) | None => None end
    | None => None
    end.

  (* the tokens of module j rewritten for the query key [kq] spelled [x]; [cmp] restricts to the compared tokens *)
  Definition edits_in (cmp : nat -> tok -> bool) (kq : gkey) (x : ident) (j : nat) (c : mctx) : list N :=
    (* nested ifs: vm_compute evaluates both arguments of && *)
    map t_id (filter (fun t => if N.eqb (t_name t) x
                               then (if cmp j t then same_key kq (gkey_of j c t) else false)
                               else false) (x_ts c)).

  Fixpoint enum_from {A} (i : nat) (l : list A) : list (nat * A) :=
    match l with [] => [] | a :: r => (i, a) :: enum_from (S i) r end.

  Inductive result :=
  | RRefused | RRaised | RUnmodelled
  | RChanges (local : bool) (edits : list (nat * list N)) (moves : list nat).

  (* get_changes for the PyName with key [kq], found under the spelling [x] in module [m].
     [repaired] = true is the code as it is now: a builtin is refused (commit 3758d0a) and the file of a module is
     moved only when the renamed name is the module's own name, not an alias of it (commit 94dbab8).
     [repaired] = false is the code as it was found (findings C01-builtin-renamed and C01-module-alias-moves-module,
     now fixed); it is kept only for the theorems that document these two defects. *)
  Definition module_named (a : nat) (x : ident) : bool :=
    match ctx_at a with Some c => N.eqb (x_name c) x | None => false end.

  Definition rename_key (repaired : bool) (cmp : nat -> tok -> bool) (m : nat) (x : ident) (kq : gkey)
             (n_is_keyword : bool) : result :=
    match kq with
    | GNone => RRefused
    | GErr => RRaised
    | GUnm => RUnmodelled
    | _ =>
        if match kq with GBuiltin _ => repaired | _ => false end then RRefused
        else if n_is_keyword then RRefused
        else
          let loc := is_local kq in
          let searched := filter (fun jc => if loc then Nat.eqb (fst jc) m else true) (enum_from 0 cx) in
          let edits := flat_map (fun jc => match edits_in cmp kq x (fst jc) (snd jc) with
                                           | [] => []
                                           | l => [(fst jc, l)]
                                           end) searched in
          RChanges loc edits (match kq with
                              | GMod a => if repaired && negb (module_named a x) then [] else [a]
                              | _ => []
                              end)
    end.

  (* Rename(project, resource, offset).get_changes(new_name) *)
  Definition project_rename_gen (repaired : bool) (cmp : nat -> tok -> bool) (m : nat) (qid : N)
             (n_is_keyword : bool) : result :=
    match token_of m qid with
    | None => RUnmodelled
    | Some (c, q) => rename_key repaired cmp m (t_name q) (gkey_of m c q) n_is_keyword
    end.
  Definition project_rename := project_rename_gen true.
  Definition project_rename_as_found := project_rename_gen false.

  (* Rename(project, resource).get_changes(new_name): the module itself *)
  Definition module_rename (cmp : nat -> tok -> bool) (m : nat) (n_is_keyword : bool) : result :=
    match ctx_at m with
    | Some c => rename_key true cmp m (x_name c) (GMod m) n_is_keyword
    | None => RUnmodelled
    end.

  (* all the tokens of the project that carry the key of the query, whatever module they are in: what a search of
     every module finds (used to state that the _is_local shortcut loses nothing) *)
  Definition occurrences_everywhere (kq : gkey) (x : ident) : list (nat * N) :=
    flat_map (fun jc => map (fun i => (fst jc, i)) (edits_in (fun _ _ => true) kq x (fst jc) (snd jc))) (enum_from 0 cx).
End Project.
