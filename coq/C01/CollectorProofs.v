(* Proofs about the ChangeCollector model (Collector.v):
     - the sorted list of changes does not depend on the order in which changes with distinct (start, end) keys were
       added, hence neither does get_changed when the ranges are non-empty and pairwise disjoint;
     - when the changes are the word ranges of selected words of a text, get_changed is the text with exactly those
       words replaced (rename at text level = relabelling of tokens). *)
From Coq Require Import List NArith Bool PeanoNat Lia Permutation.
From RopeVerif.Lib Require Import Text.
From RopeVerif.C01 Require Import Collector.
Import ListNotations.

Definition key (c : change) : nat * nat := (c_start c, c_end c).

Lemma key_leb_spec a b :
  key_leb a b = true <-> (c_start a < c_start b \/ (c_start a = c_start b /\ c_end a <= c_end b)).
Proof.
  unfold key_leb. rewrite orb_true_iff, andb_true_iff, Nat.ltb_lt, Nat.eqb_eq, Nat.leb_le. tauto.
Qed.

Lemma key_leb_false a b :
  key_leb a b = false <-> (c_start b < c_start a \/ (c_start a = c_start b /\ c_end b < c_end a)).
Proof.
  destruct (key_leb a b) eqn:E.
  - apply key_leb_spec in E. split; [discriminate | lia].
  - split; [intros _ | reflexivity].
    assert (H : ~ (c_start a < c_start b \/ (c_start a = c_start b /\ c_end a <= c_end b))).
    { intros H. apply key_leb_spec in H. congruence. }
    lia.
Qed.

Lemma key_neq a b : key a <> key b -> c_start a <> c_start b \/ c_end a <> c_end b.
Proof.
  unfold key. intros H.
  destruct (Nat.eq_dec (c_start a) (c_start b)) as [E1|]; [|now left].
  destruct (Nat.eq_dec (c_end a) (c_end b)) as [E2|]; [|now right].
  exfalso. apply H. now rewrite E1, E2.
Qed.

(* insertion of two changes with different keys commutes - for every list, sorted or not *)
Lemma insert_comm a b l : key a <> key b -> insert a (insert b l) = insert b (insert a l).
Proof.
  intros Hk. apply key_neq in Hk.
  induction l as [|d r IH]; cbn [insert].
  - destruct (key_leb a b) eqn:Eab, (key_leb b a) eqn:Eba; try reflexivity.
    + apply key_leb_spec in Eab, Eba. lia.
    + apply key_leb_false in Eab, Eba. lia.
  - destruct (key_leb b d) eqn:Ebd, (key_leb a d) eqn:Ead; cbn [insert]; rewrite ?Ebd, ?Ead.
    + destruct (key_leb a b) eqn:Eab, (key_leb b a) eqn:Eba; try reflexivity.
      * apply key_leb_spec in Eab, Eba. lia.
      * apply key_leb_false in Eab, Eba. lia.
    + destruct (key_leb a b) eqn:Eab; [|reflexivity].
      apply key_leb_spec in Eab, Ebd. apply key_leb_false in Ead. lia.
    + destruct (key_leb b a) eqn:Eba; [|reflexivity].
      apply key_leb_spec in Eba, Ead. apply key_leb_false in Ebd. lia.
    + now rewrite IH.
Qed.

Lemma sort_perm l l' :
  Permutation l l' -> NoDup (map key l) -> sort_changes l = sort_changes l'.
Proof.
  induction 1 as [|x l l' P IH|x y l|l l' l'' P1 IH1 P2 IH2]; intros ND.
  - reflexivity.
  - change (insert x (sort_changes l) = insert x (sort_changes l')).
    cbn in ND. inversion ND; subst. now rewrite IH.
  - change (insert y (insert x (sort_changes l)) = insert x (insert y (sort_changes l))).
    cbn in ND. inversion ND as [|? ? N1 N2]; subst.
    apply insert_comm. intros E. apply N1. left. now symmetry.
  - rewrite IH1 by assumption. apply IH2.
    eapply Permutation_NoDup; [|exact ND]. now apply Permutation_map.
Qed.

Lemma apart_key a b : apart a b -> key a <> key b.
Proof. unfold apart, key. intros H E. injection E as E1 E2. lia. Qed.

Lemma pairwise_apart_nodup l : pairwise apart l -> NoDup (map key l).
Proof.
  induction l as [|x r IH]; cbn; intros H; [constructor|].
  destruct H as [F P]. constructor; [|now apply IH].
  intros I. apply in_map_iff in I as (y & E & Iy).
  rewrite Forall_forall in F. specialize (F y Iy). apply apart_key in F. congruence.
Qed.

(* the result of get_changed is independent of the order in which non-overlapping, non-empty changes were added *)
Theorem collector_order_independent t cs cs' :
  Permutation cs cs' -> pairwise apart cs -> get_changed t cs = get_changed t cs'.
Proof.
  intros P A. unfold get_changed.
  destruct cs as [|c r].
  - apply Permutation_nil in P. now subst.
  - destruct cs' as [|c' r']; [apply Permutation_sym, Permutation_nil in P; discriminate|].
    rewrite (sort_perm _ _ P (pairwise_apart_nodup _ A)). reflexivity.
Qed.

(* ------------------------------------------------------------------ ascending lists are left alone *)
Lemma insert_head c l : Forall (fun d => key_leb c d = true) l -> insert c l = c :: l.
Proof. destruct l as [|d r]; cbn; [reflexivity|]. intros F. inversion F; subst. now rewrite H1. Qed.

Fixpoint ascending (l : list change) : Prop :=
  match l with
  | [] => True
  | c :: r => Forall (fun d => key_leb c d = true) r /\ ascending r
  end.

Lemma sort_ascending l : ascending l -> sort_changes l = l.
Proof.
  induction l as [|c r IH]; [reflexivity|]. intros [F A].
  change (insert c (sort_changes r) = c :: r). rewrite IH by assumption. now apply insert_head.
Qed.

(* ------------------------------------------------------------------ word ranges *)
Lemma word_changes_bounds segs : forall off sel nw,
  Forall (fun c => off <= c_start c /\ c_start c <= c_end c) (word_changes off segs sel nw).
Proof.
  induction segs as [|[g w] r IH]; intros off sel nw; cbn [word_changes]; [constructor|].
  destruct sel as [|[|] sl]; [constructor| |].
  - constructor; [cbn; lia|].
    eapply Forall_impl; [|apply IH]. cbn. intros c [H1 H2]. lia.
  - eapply Forall_impl; [|apply IH]. cbn. intros c [H1 H2]. lia.
Qed.

Lemma word_changes_ascending segs : forall off sel nw, ascending (word_changes off segs sel nw).
Proof.
  induction segs as [|[g w] r IH]; intros off sel nw; cbn [word_changes]; [exact I|].
  destruct sel as [|[|] sl]; [exact I| |apply IH].
  cbn [ascending]. split; [|apply IH].
  eapply Forall_impl; [|apply word_changes_bounds]. cbn. intros c [H1 H2].
  apply key_leb_spec. cbn. lia.
Qed.

Definition words_nonempty (segs : segments) : Prop := Forall (fun gw => snd gw <> []) segs.

Lemma word_changes_strict segs : forall off sel nw,
  words_nonempty segs ->
  Forall (fun c => off <= c_start c /\ c_start c < c_end c) (word_changes off segs sel nw).
Proof.
  induction segs as [|[g w] r IH]; intros off sel nw Hn; cbn [word_changes]; [constructor|].
  inversion Hn as [|? ? Hw Hr]; subst. cbn in Hw.
  assert (Lw : 0 < length w) by (destruct w; [congruence | cbn; lia]).
  destruct sel as [|[|] sl]; [constructor| |].
  - constructor; [cbn; lia|].
    eapply Forall_impl; [|apply IH; assumption]. cbn. intros c [H1 H2]. lia.
  - eapply Forall_impl; [|apply IH; assumption]. cbn. intros c [H1 H2]. lia.
Qed.

Lemma word_changes_apart segs : forall off sel nw,
  words_nonempty segs -> pairwise apart (word_changes off segs sel nw).
Proof.
  induction segs as [|[g w] r IH]; intros off sel nw Hn; cbn [word_changes]; [exact I|].
  inversion Hn as [|? ? Hw Hr]; subst. cbn in Hw.
  assert (Lw : 0 < length w) by (destruct w; [congruence | cbn; lia]).
  destruct sel as [|[|] sl]; [exact I| |now apply IH].
  cbn [pairwise]. split; [|now apply IH].
  eapply Forall_impl; [|apply word_changes_strict; assumption].
  cbn. intros c [H1 H2]. unfold apart. cbn. lia.
Qed.

(* ------------------------------------------------------------------ splicing word ranges = relabelling *)
Lemma skipn_app_length {A} (a b : list A) : skipn (length a) (a ++ b) = b.
Proof. induction a; cbn; auto. Qed.

Lemma firstn_app_length {A} (a b : list A) : firstn (length a) (a ++ b) = a.
Proof. induction a; cbn; [now destruct b | now f_equal]. Qed.

(* [pre] is the text before last_changed, [pend] the unchanged text accumulated since *)
Lemma pieces_words segs : forall pre pend sel nw tail,
  pieces (pre ++ pend ++ render segs tail) (length pre)
         (word_changes (length pre + length pend) segs sel nw)
  = pend ++ render_sel segs sel nw tail.
Proof.
  induction segs as [|[g w] r IH]; intros pre pend sel nw tail.
  - cbn [word_changes pieces render render_sel].
    rewrite skipn_app_length.
    destruct (Nat.ltb_spec (length pre) (length (pre ++ pend ++ tail))) as [L|L]; [reflexivity|].
    rewrite !app_length in L. destruct pend, tail; cbn in *; try lia. reflexivity.
  - cbn [word_changes render render_sel].
    destruct sel as [|[|] sl].
    + (* no flags left: nothing more is selected *)
      cbn [pieces]. rewrite skipn_app_length.
      assert (E : render_sel r [] nw tail = render r tail).
      { clear. induction r as [|[g' w'] r IH]; cbn; [reflexivity | now rewrite IH]. }
      rewrite E.
      destruct (Nat.ltb_spec (length pre) (length (pre ++ pend ++ g ++ w ++ render r tail))) as [L|L]; [reflexivity|].
      rewrite !app_length in L.
      destruct pend, g, w, (render r tail); cbn in *; try lia. reflexivity.
    + (* selected *)
      cbn [pieces c_start c_end c_new]. unfold slice.
      replace (length pre + length pend + length g - length pre) with (length (pend ++ g))
        by (rewrite app_length; lia).
      rewrite skipn_app_length.
      replace (pend ++ g ++ w ++ render r tail) with ((pend ++ g) ++ w ++ render r tail)
        by now rewrite <- app_assoc.
      rewrite firstn_app_length.
      specialize (IH (pre ++ pend ++ g ++ w) [] sl nw tail).
      cbn [app length] in IH. rewrite Nat.add_0_r in IH.
      replace (length (pre ++ pend ++ g ++ w)) with (length pre + length pend + length g + length w) in IH
        by (rewrite !app_length; lia).
      replace ((pre ++ pend ++ g ++ w) ++ render r tail) with (pre ++ (pend ++ g) ++ w ++ render r tail) in IH
        by (now rewrite <- !app_assoc).
      rewrite IH. now rewrite <- app_assoc.
    + (* not selected: the word joins the pending text *)
      specialize (IH pre (pend ++ g ++ w) sl nw tail).
      replace (length pre + length (pend ++ g ++ w)) with (length pre + length pend + length g + length w) in IH
        by (rewrite !app_length; lia).
      replace ((pend ++ g ++ w) ++ render r tail) with (pend ++ g ++ w ++ render r tail) in IH
        by (now rewrite <- !app_assoc).
      rewrite IH. now rewrite <- !app_assoc.
Qed.

Lemma pieces_word_changes segs sel nw tail :
  pieces (render segs tail) 0 (word_changes 0 segs sel nw) = render_sel segs sel nw tail.
Proof. exact (pieces_words segs [] [] sel nw tail). Qed.

(* whatever the order in which rename_in_module adds the word ranges of the selected words: the collector returns
   the text in which exactly those words read [nw] (None when nothing was added or nothing changed) *)
Theorem collector_words segs sel nw tail cs :
  words_nonempty segs ->
  Permutation cs (word_changes 0 segs sel nw) ->
  get_changed (render segs tail) cs
  = match cs with
    | [] => None
    | _ => let r := render_sel segs sel nw tail in
           if text_eqb r (render segs tail) then None else Some r
    end.
Proof.
  intros Hn P.
  rewrite <- (collector_order_independent _ _ _ (Permutation_sym P)).
  2:{ apply word_changes_apart. exact Hn. }
  unfold get_changed.
  destruct cs as [|c r].
  - apply Permutation_nil in P. now rewrite P.
  - destruct (word_changes 0 segs sel nw) as [|c' r'] eqn:E.
    + apply Permutation_sym, Permutation_nil in P. discriminate.
    + rewrite <- E, sort_ascending by apply word_changes_ascending.
      now rewrite pieces_word_changes.
Qed.

(* non-vacuity: "ab x(y, x)" with the two x selected and renamed to "new", added in reverse order *)
Definition ex_segs : segments :=
  [([], [97; 98]); ([32], [120]); ([40], [121]); ([44; 32], [120])]%N.
Definition ex_tail : text := [41]%N.
Definition ex_sel := [false; true; false; true].
Definition ex_new : text := [110; 101; 119]%N.

Lemma collector_example :
  words_nonempty ex_segs
  /\ Permutation (rev (word_changes 0 ex_segs ex_sel ex_new)) (word_changes 0 ex_segs ex_sel ex_new)
  /\ get_changed (render ex_segs ex_tail) (rev (word_changes 0 ex_segs ex_sel ex_new))
     = Some [97; 98; 32; 110; 101; 119; 40; 121; 44; 32; 110; 101; 119; 41]%N.
Proof.
  split; [repeat constructor; discriminate|]. split; [apply Permutation_sym, Permutation_rev|].
  vm_compute. reflexivity.
Qed.

(* overlapping changes DO depend on ... nothing: the sort is deterministic; but the spliced text is then not a
   replacement of ranges.  Kept as an executable remark: two changes sharing a key keep their insertion order. *)
Lemma stable_example :
  sort_changes [Ch 1 2 [1%N]; Ch 1 2 [2%N]] = [Ch 1 2 [1%N]; Ch 1 2 [2%N]]
  /\ sort_changes [Ch 1 2 [2%N]; Ch 1 2 [1%N]] = [Ch 1 2 [2%N]; Ch 1 2 [1%N]].
Proof. split; reflexivity. Qed.

(* ------------------------------------------------------------------ the renamed text keeps the token skeleton *)
Lemma render_sel_relabel segs : forall sel nw tail,
  render_sel segs sel nw tail = render (relabel_segs segs sel nw) tail.
Proof.
  induction segs as [|[g w] r IH]; intros sel nw tail; cbn; [reflexivity|].
  destruct sel as [|[|] s]; cbn; now rewrite IH.
Qed.

Lemma relabel_gaps segs : forall sel nw, map fst (relabel_segs segs sel nw) = map fst segs.
Proof.
  induction segs as [|[g w] r IH]; intros sel nw; cbn; [reflexivity|].
  destruct sel as [|[|] s]; cbn; now rewrite IH.
Qed.

Lemma relabel_word segs : forall sel nw k g w,
  nth_error segs k = Some (g, w) ->
  nth_error (relabel_segs segs sel nw) k = Some (g, if nth k sel false then nw else w).
Proof.
  induction segs as [|[g0 w0] r IH]; intros sel nw k g w H; [destruct k; discriminate|].
  destruct k as [|k]; cbn in H.
  - inversion H; subst. destruct sel as [|[|] s]; reflexivity.
  - destruct sel as [|b s]; cbn [relabel_segs].
    + cbn. rewrite (IH [] nw k g w H). now destruct k.
    + destruct b; cbn; exact (IH s nw k g w H).
Qed.

(* What rename_in_module returns for a module, whatever the order in which the occurrences were met: the same
   gaps (everything that is not an identifier token: layout, comments, strings, operators, keywords) in the same
   order, the same number of words, the k-th word respelled exactly when its id is among the renamed ids *)
Theorem rename_text_skeleton segs wids ids nw tail r :
  words_nonempty segs ->
  rename_text segs wids ids nw tail = Some r ->
  let segs' := relabel_segs segs (map (fun i => memNid i ids) wids) nw in
  r = render segs' tail
  /\ map fst segs' = map fst segs
  /\ length segs' = length segs
  /\ forall k g w, nth_error segs k = Some (g, w) ->
       nth_error segs' k = Some (g, if memNid (nth k wids 0%N) ids && Nat.ltb k (length wids) then nw else w).
Proof.
  intros Hn H segs'. unfold rename_text in H.
  rewrite (collector_words segs _ nw tail _ Hn (Permutation_refl _)) in H.
  destruct (word_changes 0 segs (map (fun i => memNid i ids) wids) nw); [discriminate|].
  cbn zeta in H. destruct (text_eqb _ _); [discriminate|]. inversion H; subst r.
  split; [apply render_sel_relabel|]. split; [apply relabel_gaps|].
  split; [unfold segs'; rewrite <- (map_length fst (relabel_segs _ _ _)), relabel_gaps; apply map_length|].
  intros k g w Hk. unfold segs'. rewrite (relabel_word segs _ nw k g w Hk). f_equal.
  destruct (Nat.ltb_spec k (length wids)) as [L|L].
  - rewrite andb_true_r. rewrite (nth_indep _ false (memNid 0%N ids)) by (now rewrite map_length).
    now rewrite (map_nth (fun i => memNid i ids)).
  - rewrite andb_false_r, nth_overflow; [reflexivity | now rewrite map_length].
Qed.

Lemma rename_text_example :
  rename_text ex_segs [0; 1; 2; 3]%N [1; 3]%N ex_new ex_tail
  = Some [97; 98; 32; 110; 101; 119; 40; 121; 44; 32; 110; 101; 119; 41]%N.
Proof. vm_compute. reflexivity. Qed.
