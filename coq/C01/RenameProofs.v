(* Proofs about the project-level model (Rename.v):
     - the key of a token of module j either lives in module j or is a MODULE-LEVEL binding of another module
       (it got there through an import or through an attribute of a module);
     - hence a name that _is_local accepts (an AssignedName held by a function scope) has no occurrence outside its
       own module: searching only that module loses nothing ([local_shortcut_complete], [local_shortcut_same_edits]). *)
From Coq Require Import List NArith Bool PeanoNat.
From RopeVerif.C15 Require Import Syntax Scoping RopeScopes Fragment.
From RopeVerif.C02 Require Import Occurrences OccurrencesProofs.
From RopeVerif.C01 Require Import Rename.
Import ListNotations.

Section P.
  Variable bi : list ident.
  Variable init call : ident.
  Variable cx : list mctx.

  Definition module_level_or (j : nat) (k : gkey) : Prop :=
    match k with GVar m b _ => m = j \/ b = BScope [] | _ => True end.

  Lemma name_in_shape fuel : forall m y, module_level_or m (name_in cx fuel m y) /\
                                        match name_in cx fuel m y with GVar _ b _ => b = BScope [] | _ => True end.
  Proof.
    induction fuel as [|fu IH]; intros m y; cbn [name_in]; [split; exact I|].
    destruct (ctx_at cx m) as [c|]; [|split; exact I].
    destruct (entry (revs (x_rt c)) y) as [k|]; [|split; exact I].
    destruct k; try (split; [right|]; reflexivity).
    destruct (last_import (x_imports c) y) as [[a|a z|]|]; try (split; exact I).
    - unfold mod_key. destruct (find_mod cx a); split; exact I.
    - destruct (find_mod cx a) as [i|]; [|split; exact I].
      destruct (IH i z) as [_ H]. split; [|exact H].
      destruct (name_in cx fu i z); try exact I. right. exact H.
  Qed.

  Lemma key_of_pn_shape j pn : module_level_or j (key_of_pn cx j pn).
  Proof.
    destruct pn as [| b y imp | | |]; try exact I.
    destruct b as [[|i r]| |], imp; cbn [key_of_pn module_level_or]; try exact I; try (now left).
    destruct (name_in_shape (fuel0 cx) j y) as [_ H].
    destruct (name_in cx (fuel0 cx) j y); try exact I. right. exact H.
  Qed.

  Lemma gkey_shape j c t : module_level_or j (gkey_of bi init call cx j c t).
  Proof.
    unfold gkey_of.
    destruct (t_role t) as [| | | f | [g|] | [b|] | a |]; try apply key_of_pn_shape.
    - (* keyword argument of a callee that is a plain name *)
      destruct (key_of_pn cx j (plain_at bi (inh_of (x_inh c)) (x_rt c) (t_hold t) g)); try exact I;
        try apply key_of_pn_shape.
      destruct (Nat.eqb m j); [apply key_of_pn_shape | exact I].
    - (* attribute of a plain name *)
      destruct (key_of_pn cx j (plain_at bi (inh_of (x_inh c)) (x_rt c) (t_hold t) b)); try exact I.
      + destruct (Nat.eqb m j); [|exact I].
        pose proof (key_of_pn_shape j (rope_pyname_at bi (inh_of (x_inh c)) (x_rt c) init call (x_ms c)
                                                       (kw_of (x_kw c)) t)) as S.
        destruct (key_of_pn cx j (rope_pyname_at bi (inh_of (x_inh c)) (x_rt c) init call (x_ms c)
                                                  (kw_of (x_kw c)) t)); try exact S; try exact I.
        destruct (x_imports c); exact I.
      + destruct (name_in_shape (fuel0 cx) m (t_name t)) as [_ H].
        destruct (name_in cx (fuel0 cx) m (t_name t)); try exact I. right. exact H.
    - (* module part of an import statement *)
      destruct (is_modpart t); [|exact I]. unfold mod_key. destruct (find_mod cx (t_name t)); exact I.
  Qed.

  (* every module is a module: the root of its scope tree has kind Module (true of rope_tree by construction) *)
  Definition roots_ok : Prop := forall c, In c cx -> rk (x_rt c) = KModule.

  Lemma local_not_module_level kq :
    roots_ok -> is_local cx kq = true ->
    exists m P y, kq = GVar m (BScope P) y /\ P <> [].
  Proof.
    intros HR H. destruct kq as [| | |m [P| |] y| | |]; try discriminate.
    exists m, P, y. split; [reflexivity|]. intros ->.
    cbn [is_local] in H. unfold ctx_at in H. destruct (nth_error cx m) as [c|] eqn:En; [|discriminate].
    assert (Hc : In c cx) by (eapply nth_error_In; eassumption).
    unfold scope_at, rchain in H. cbn in H. rewrite (HR c Hc) in H. discriminate.
  Qed.

  Lemma same_key_GVar m b y k : same_key (GVar m b y) k = true -> k = GVar m b y.
  Proof.
    destruct k; cbn; try discriminate. intros H.
    apply andb_prop in H as [H Hy]. apply andb_prop in H as [Hm Hb].
    apply Nat.eqb_eq in Hm. apply binding_eqb_eq in Hb. apply N.eqb_eq in Hy. now subst.
  Qed.

  Lemma in_enum {A} (l : list A) : forall i j a, In (j, a) (enum_from i l) -> nth_error l (j - i) = Some a /\ i <= j.
  Proof.
    induction l as [|b r IH]; intros i j a H; [destruct H|].
    cbn in H. destruct H as [H|H].
    - inversion H; subst. rewrite Nat.sub_diag. split; [reflexivity | apply le_n].
    - destruct (IH (S i) j a H) as [Hn Hle]. split; [|apply Nat.lt_le_incl; exact Hle].
      replace (j - i) with (S (j - S i)); [exact Hn|].
      rewrite <- Nat.sub_succ_l by exact Hle. reflexivity.
  Qed.

  (* a search of every module finds a local name in its own module only *)
  Theorem local_shortcut_complete kq x j i :
    roots_ok -> is_local cx kq = true ->
    In (j, i) (occurrences_everywhere bi init call cx kq x) ->
    exists b y, kq = GVar j b y.
  Proof.
    intros HR HL Hin.
    destruct (local_not_module_level kq HR HL) as (m & P & y & -> & HP).
    unfold occurrences_everywhere in Hin. apply in_flat_map in Hin as ([j' c] & Hjc & Hi).
    apply in_map_iff in Hi as (i' & E & Hi). cbn [fst snd] in *. inversion E; subst j' i'. clear E.
    unfold edits_in in Hi. apply in_map_iff in Hi as (t & _ & Ht). apply filter_In in Ht as [_ Ht].
    cbv beta in Ht. repeat match type of Ht with (if ?b then _ else _) = true => destruct b; [|discriminate] end.
    rename Ht into Hs.
    apply same_key_GVar in Hs.
    pose proof (gkey_shape j c t) as S. rewrite Hs in S. cbn in S.
    destruct S as [->|E]; [now exists (BScope P), y | inversion E; contradiction].
  Qed.

  (* ... so the edits computed with the shortcut are the edits computed without it *)
  Lemma flat_map_filter_nil {A B} (f : A -> list B) (p : A -> bool) l :
    (forall a, In a l -> p a = false -> f a = []) -> flat_map f (filter p l) = flat_map f l.
  Proof.
    induction l as [|a r IH]; intros H; cbn; [reflexivity|].
    destruct (p a) eqn:E; cbn; rewrite IH by (intros b Hb; apply H; now right); [reflexivity|].
    now rewrite (H a (or_introl eq_refl) E).
  Qed.

  Theorem local_shortcut_same_edits cmp kq x m :
    roots_ok -> is_local cx kq = true -> (exists b y, kq = GVar m b y) ->
    let f := fun jc : nat * mctx => match edits_in bi init call cx cmp kq x (fst jc) (snd jc) with
                                    | [] => []
                                    | l => [(fst jc, l)]
                                    end in
    flat_map f (filter (fun jc => Nat.eqb (fst jc) m) (enum_from 0 cx)) = flat_map f (enum_from 0 cx).
  Proof.
    intros HR HL (b & y & ->) f. apply flat_map_filter_nil. intros [j c] Hjc Hne. cbn [fst] in Hne.
    unfold f. cbn [fst snd].
    destruct (edits_in bi init call cx cmp (GVar m b y) x j c) as [|i r] eqn:E; [reflexivity|].
    exfalso.
    assert (Hi : In i (edits_in bi init call cx cmp (GVar m b y) x j c)) by (rewrite E; now left).
    unfold edits_in in Hi. apply in_map_iff in Hi as (t & _ & Ht). apply filter_In in Ht as [_ Ht].
    cbv beta in Ht. repeat match type of Ht with (if ?b then _ else _) = true => destruct b; [|discriminate] end.
    rename Ht into Hs.
    apply same_key_GVar in Hs.
    pose proof (gkey_shape j c t) as S. rewrite Hs in S. cbn in S.
    destruct (local_not_module_level _ HR HL) as (m' & P & y' & E' & HP). inversion E'; subst.
    destruct S as [->|E2]; [rewrite Nat.eqb_refl in Hne; discriminate | inversion E2; contradiction].
  Qed.
End P.
