(* The scope tree of the SPEC (coq/C15/Scoping.v) with the identifier TOKENS in place of their spellings.
   Every function here is the twin of the function of the same name in Scoping.v and differs from it only in
   returning the occurrence [o] where the original returns [oname o]; OccTreeProofs.v proves
       to_s oname (spec_otree nl p) = spec_tree nl p                    (forgetting the tokens gives the SPEC tree)
       spec_otree nl (relabel f p)  = omap f (spec_otree nl p)          (relabelling commutes with the construction)
   so that the SPEC tree of a renamed program is the old token tree read through the new spellings.
   Definitions only. *)
From Coq Require Import List NArith Bool.
From RopeVerif.C15 Require Import Syntax Scoping.
Import ListNotations.

Inductive oscope :=
| OScope (k : skind) (start stop : N) (bound globals nonlocals : list occ) (children : list oscope).
Definition ok (s : oscope) := let 'OScope k _ _ _ _ _ _ := s in k.
Definition obound (s : oscope) := let 'OScope _ _ _ b _ _ _ := s in b.
Definition oglobals (s : oscope) := let 'OScope _ _ _ _ g _ _ := s in g.
Definition ononlocals (s : oscope) := let 'OScope _ _ _ _ _ n _ := s in n.
Definition ochildren (s : oscope) := let 'OScope _ _ _ _ _ _ c := s in c.

(* read the tokens through a spelling function *)
Fixpoint to_s (nm : occ -> ident) (t : oscope) : sscope :=
  let 'OScope k a b bo gl nl ch := t in
  SScope k a b (map nm bo) (map nm gl) (map nm nl) (map (to_s nm) ch).

(* relabel the tokens *)
Fixpoint omap (f : occ -> occ) (t : oscope) : oscope :=
  let 'OScope k a b bo gl nl ch := t in
  OScope k a b (map f bo) (map f gl) (map f nl) (map (omap f) ch).

(* ------------------------------------------------------------------ expressions *)
Fixpoint o_target_names (e : expr) : list occ :=
  match e with
  | EName o => [o]
  | ETuple es => flat_map o_target_names es
  | _ => []
  end.

Fixpoint oe_walrus (e : expr) : list occ :=
  match e with
  | EName _ | EConst => []
  | EAttr e _ => oe_walrus e
  | ESub e i => oe_walrus e ++ oe_walrus i
  | ETuple es | EOp es => flat_map oe_walrus es
  | ECall f args => oe_walrus f ++ flat_map oe_walrus args
  | EKw _ e => oe_walrus e
  | ENamed o v => o :: oe_walrus v
  | ELambda _ _ _ ae _ => flat_map oe_walrus ae
  | EComp _ _ _ elts gens => flat_map oe_walrus elts ++ flat_map oc_walrus gens
  end
with oc_walrus (c : comp) : list occ :=
  match c with Comp t i ifs => oe_walrus t ++ oe_walrus i ++ flat_map oe_walrus ifs end.

Definition oc_targets (c : comp) : list occ := match c with Comp t _ _ => o_target_names t end.

Fixpoint oe_scopes (e : expr) : list oscope :=
  match e with
  | EName _ | EConst => []
  | EAttr e _ => oe_scopes e
  | ESub e i => oe_scopes e ++ oe_scopes i
  | ETuple es | EOp es => flat_map oe_scopes es
  | ECall f args => oe_scopes f ++ flat_map oe_scopes args
  | EKw _ e => oe_scopes e
  | ENamed _ v => oe_scopes v
  | ELambda l s ps ae body =>
      OScope KLambda l s (map pocc ps ++ oe_walrus body) [] [] (oe_scopes body) :: flat_map oe_scopes ae
  | EComp _ l s elts gens =>
      match gens with
      | [] => []
      | Comp t0 i0 ifs0 :: rest =>
          OScope KComp l s (o_target_names t0 ++ flat_map oc_targets rest) [] []
                 (flat_map oe_scopes elts ++ oe_scopes t0 ++ flat_map oe_scopes ifs0 ++ flat_map oc_scopes rest)
          :: oe_scopes i0
      end
  end
with oc_scopes (c : comp) : list oscope :=
  match c with Comp t i ifs => oe_scopes t ++ oe_scopes i ++ flat_map oe_scopes ifs end.

Definition ooe_walrus (o : option expr) : list occ := match o with Some e => oe_walrus e | None => [] end.
Definition ooe_scopes (o : option expr) : list oscope := match o with Some e => oe_scopes e | None => [] end.

(* ------------------------------------------------------------------ statements *)
Definition o_import_bound (n : list occ * option occ) : list occ :=
  match n with
  | (_, Some a) => [a]
  | (o :: _, None) => [o]
  | ([], None) => []
  end.
Definition o_from_bound (n : occ * option occ) : occ :=
  match n with (_, Some a) => a | (o, None) => o end.

Definition o_item_binds (it : expr * option expr) : list occ :=
  match it with
  | (c, Some v) => oe_walrus c ++ o_target_names v ++ oe_walrus v
  | (c, None) => oe_walrus c
  end.
Definition o_item_scopes (it : expr * option expr) : list oscope :=
  match it with
  | (c, Some v) => oe_scopes c ++ oe_scopes v
  | (c, None) => oe_scopes c
  end.

(* twin of [s_binds] = [s_binds_gen true] *)
Fixpoint os_binds (s : stmt) : list occ :=
  match s with
  | SExpr _ es => flat_map oe_walrus es
  | SReturn _ e => ooe_walrus e
  | SAssign _ ts v => flat_map o_target_names ts ++ flat_map oe_walrus ts ++ oe_walrus v
  | SAug _ t v => o_target_names t ++ oe_walrus t ++ oe_walrus v
  | SAnn _ t a v => o_target_names t ++ oe_walrus t ++ oe_walrus a ++ ooe_walrus v
  | SDel _ ts => flat_map o_target_names ts ++ flat_map oe_walrus ts
  | SPass _ => []
  | SIf _ t b o | SWhile _ t b o =>
      oe_walrus t ++ flat_map os_binds b ++ flat_map os_binds o
  | SFor _ t i b o =>
      o_target_names t ++ oe_walrus t ++ oe_walrus i ++ flat_map os_binds b ++ flat_map os_binds o
  | SWith _ items b => flat_map o_item_binds items ++ flat_map os_binds b
  | STry _ b hs o f =>
      flat_map os_binds b
      ++ flat_map (fun h => match h with
                            | Handler _ ty nm hb =>
                                ooe_walrus ty ++ opt_list nm ++ flat_map os_binds hb
                            end) hs
      ++ flat_map os_binds o ++ flat_map os_binds f
  | SDef _ _ d n _ ae r _ => flat_map oe_walrus d ++ n :: flat_map oe_walrus ae ++ ooe_walrus r
  | SClass _ _ d n bs _ => flat_map oe_walrus d ++ n :: flat_map oe_walrus bs
  | SImport _ ns => flat_map o_import_bound ns
  | SFrom _ _ _ (Some ns) => map o_from_bound ns
  | SFrom _ _ _ None => []
  | SGlobal _ _ | SNonlocal _ _ => []
  end.

Fixpoint os_globals (s : stmt) : list occ :=
  match s with
  | SGlobal _ ns => ns
  | SIf _ _ b o | SWhile _ _ b o | SFor _ _ _ b o => flat_map os_globals b ++ flat_map os_globals o
  | SWith _ _ b => flat_map os_globals b
  | STry _ b hs o f =>
      flat_map os_globals b ++ flat_map (fun h => match h with Handler _ _ _ hb => flat_map os_globals hb end) hs
      ++ flat_map os_globals o ++ flat_map os_globals f
  | _ => []
  end.

Fixpoint os_nonlocals (s : stmt) : list occ :=
  match s with
  | SNonlocal _ ns => ns
  | SIf _ _ b o | SWhile _ _ b o | SFor _ _ _ b o => flat_map os_nonlocals b ++ flat_map os_nonlocals o
  | SWith _ _ b => flat_map os_nonlocals b
  | STry _ b hs o f =>
      flat_map os_nonlocals b ++ flat_map (fun h => match h with Handler _ _ _ hb => flat_map os_nonlocals hb end) hs
      ++ flat_map os_nonlocals o ++ flat_map os_nonlocals f
  | _ => []
  end.

Fixpoint os_scopes (s : stmt) : list oscope :=
  match s with
  | SExpr _ es => flat_map oe_scopes es
  | SReturn _ e => ooe_scopes e
  | SAssign _ ts v => flat_map oe_scopes ts ++ oe_scopes v
  | SAug _ t v => oe_scopes t ++ oe_scopes v
  | SAnn _ t a v => oe_scopes t ++ oe_scopes a ++ ooe_scopes v
  | SDel _ ts => flat_map oe_scopes ts
  | SPass _ => []
  | SIf _ t b o | SWhile _ t b o => oe_scopes t ++ flat_map os_scopes b ++ flat_map os_scopes o
  | SFor _ t i b o => oe_scopes t ++ oe_scopes i ++ flat_map os_scopes b ++ flat_map os_scopes o
  | SWith _ items b => flat_map o_item_scopes items ++ flat_map os_scopes b
  | STry _ b hs o f =>
      flat_map os_scopes b
      ++ flat_map (fun h => match h with Handler _ ty _ hb => ooe_scopes ty ++ flat_map os_scopes hb end) hs
      ++ flat_map os_scopes o ++ flat_map os_scopes f
  | SDef l st d n ps ae r body =>
      flat_map oe_scopes d
      ++ OScope KFunction l st (map pocc ps ++ flat_map os_binds body)
                (flat_map os_globals body) (flat_map os_nonlocals body) (flat_map os_scopes body)
      :: flat_map oe_scopes ae ++ ooe_scopes r
  | SClass l st d n bs body =>
      flat_map oe_scopes d
      ++ OScope KClass l st (flat_map os_binds body)
                (flat_map os_globals body) (flat_map os_nonlocals body) (flat_map os_scopes body)
      :: flat_map oe_scopes bs
  | SImport _ _ | SFrom _ _ _ _ | SGlobal _ _ | SNonlocal _ _ => []
  end.

Definition spec_otree (nlines : N) (p : program) : oscope :=
  OScope KModule 1 nlines (flat_map os_binds p) (flat_map os_globals p) (flat_map os_nonlocals p)
         (flat_map os_scopes p).

(* ------------------------------------------------------------------ chains *)
Fixpoint ochain_from (t : oscope) (pre p : path) (acc : list (path * oscope)) : option (list (path * oscope)) :=
  match p with
  | [] => Some ((pre, t) :: acc)
  | i :: r =>
      match nth_error (ochildren t) i with
      | Some c => ochain_from c (pre ++ [i]) r ((pre, t) :: acc)
      | None => None
      end
  end.
Definition ochain (t : oscope) (p : path) : option (list (path * oscope)) := ochain_from t [] p [].

Definition to_se (nm : occ -> ident) (e : path * oscope) : path * sscope := (fst e, to_s nm (snd e)).

Fixpoint o_all (t : oscope) : list oscope := t :: flat_map o_all (ochildren t).
(* every token that sits in a bound / globals / nonlocals list of the tree *)
Definition o_occs (t : oscope) : list occ :=
  flat_map (fun s => obound s ++ oglobals s ++ ononlocals s) (o_all t).
