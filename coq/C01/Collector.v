(* MODEL of rope/base/codeanalyze.py ChangeCollector (text level) - definitions only.

     class ChangeCollector:
         def add_change(self, start, end, new_text=None): self.changes.append((start, end, new_text))
         def get_changed(self):
             if not self.changes: return None
             self.changes.sort(key=lambda x: x[:2])
             pieces = []; last_changed = 0
             for start, end, text in self.changes:
                 pieces.append(self.text[last_changed:start] + text); last_changed = end
             if last_changed < len(self.text): pieces.append(self.text[last_changed:])
             result = "".join(pieces)
             if result != self.text: return result

   Texts are lists of code points, offsets are [nat] (the runner converts from N).  [list.sort] is stable; it is
   modelled by insertion from the right, which keeps the relative order of changes with equal keys.
   Python's slice [text[a:b]] for 0 <= a, b is [firstn (b - a) (skipn a text)] (empty when b <= a, clamped at the
   end of the text), which is what [slice] computes with truncated subtraction. *)
From Coq Require Import List NArith Bool PeanoNat.
From RopeVerif.Lib Require Import Text.
Import ListNotations.

Record change := Ch { c_start : nat; c_end : nat; c_new : text }.

(* key(a) <= key(b) for the key (start, end), compared lexicographically *)
Definition key_leb (a b : change) : bool :=
  Nat.ltb (c_start a) (c_start b) || (Nat.eqb (c_start a) (c_start b) && Nat.leb (c_end a) (c_end b)).

Fixpoint insert (c : change) (l : list change) : list change :=
  match l with
  | [] => [c]
  | d :: r => if key_leb c d then c :: l else d :: insert c r
  end.

(* self.changes.sort(key=lambda x: x[:2]) *)
Definition sort_changes (l : list change) : list change := fold_right insert [] l.

Definition slice (t : text) (a b : nat) : text := firstn (b - a) (skipn a t).

(* the loop over the sorted changes followed by the trailing piece; [last] is last_changed *)
Fixpoint pieces (t : text) (last : nat) (cs : list change) : text :=
  match cs with
  | [] => if Nat.ltb last (length t) then skipn last t else []
  | c :: r => slice t last (c_start c) ++ c_new c ++ pieces t (c_end c) r
  end.

Definition get_changed (t : text) (cs : list change) : option text :=
  match cs with
  | [] => None
  | _ => let r := pieces t 0 (sort_changes cs) in
         if text_eqb r t then None else Some r
  end.

(* ------------------------------------------------------------------ texts as token streams *)
(* A text cut into identifier words and the gaps between them: [(gap, word)] followed by a final gap.  This is
   the view in which rename is a relabelling: the changes rename_in_module adds are the word ranges of the
   selected words, each replaced by the new name. *)
Notation segments := (list (text * text)).

Fixpoint render (segs : segments) (tail : text) : text :=
  match segs with
  | [] => tail
  | (g, w) :: r => g ++ w ++ render r tail
  end.

(* the same text with the words selected by [sel] (a flag per word) replaced by [nw] *)
Fixpoint render_sel (segs : segments) (sel : list bool) (nw : text) (tail : text) : text :=
  match segs with
  | [] => tail
  | (g, w) :: r =>
      match sel with
      | true :: s => g ++ nw ++ render_sel r s nw tail
      | _ :: s => g ++ w ++ render_sel r s nw tail
      | [] => g ++ w ++ render_sel r [] nw tail
      end
  end.

(* the word ranges of the selected words, in text order, when the first segment starts at offset [off] *)
Fixpoint word_changes (off : nat) (segs : segments) (sel : list bool) (nw : text) : list change :=
  match segs with
  | [] => []
  | (g, w) :: r =>
      let s := off + length g in
      let e := s + length w in
      match sel with
      | true :: sl => Ch s e nw :: word_changes e r sl nw
      | _ :: sl => word_changes e r sl nw
      | [] => []
      end
  end.

(* ------------------------------------------------------------------ side conditions *)
(* two changes do not overlap and neither is empty (word ranges are never empty) *)
Definition apart (a b : change) : Prop :=
  c_start a < c_end a /\ c_start b < c_end b /\ (c_end a <= c_start b \/ c_end b <= c_start a).

Definition same_key (a b : change) : Prop := c_start a = c_start b /\ c_end a = c_end b.

Fixpoint pairwise {A} (R : A -> A -> Prop) (l : list A) : Prop :=
  match l with
  | [] => True
  | x :: r => Forall (R x) r /\ pairwise R r
  end.

(* the segments of the renamed text: same gaps, the selected words replaced *)
Fixpoint relabel_segs (segs : segments) (sel : list bool) (nw : text) : segments :=
  match segs with
  | [] => []
  | (g, w) :: r =>
      match sel with
      | true :: s => (g, nw) :: relabel_segs r s nw
      | _ :: s => (g, w) :: relabel_segs r s nw
      | [] => (g, w) :: relabel_segs r [] nw
      end
  end.

(* rename_in_module on the text of a module whose identifier tokens are the words of [segs], carrying the ids [wids]:
   ChangeCollector is given the word range of every token whose id is in [ids] *)
Definition memNid (x : N) (l : list N) : bool := existsb (N.eqb x) l.
Definition rename_text (segs : segments) (wids ids : list N) (nw tail : text) : option text :=
  get_changed (render segs tail) (word_changes 0 segs (map (fun i => memNid i ids) wids) nw).
