(* Correspondence runner for C13.  The harness abstracts the live rope project before and after every
   primitive event, external batch + validate, and controlled query (module_map, concluded
   ImportedModule cells, file list, watched resources with their indicators compared with the disk, the
   directory tree) and writes both states with the operation; the model's step is computed and compared
   here.  Uncontrolled read-only activity of rope (refactoring computations, rich queries) is written as
   [KFree]: only the invariants are evaluated on it. *)
From stdpp Require Import gmap list sets.
From Coq Require Import NArith.
From RopeVerif.C13 Require Import Observer.

Inductive ckind :=
| KStep (o : op) (ans : option answer)
| KPendX (x : xop)          (* one change behind rope's back, no validate yet (queries may follow) *)
| KValidate (f : list N)    (* project.validate(f) after such a phase *)
| KFree.

Record case := { c_pre : state; c_kind : ckind; c_post : state }.

Definition mk (d : list (list N * node)) (m : list (list N * parsed)) (c : list ((list N * N) * list N))
              (f : option (list (list N))) (w : list (list N * option (N * N))) (c0 : config) (t : N) : state :=
  State (list_to_map d) (list_to_map m) (list_to_map c) (list_to_set <$> f) (list_to_map w) c0 t.
Definition pkg (ch : option (list (list N))) : parsed := PPkg (list_to_set <$> ch).
Definition afiles (l : list (list N)) : answer := AFiles (list_to_set l).
Definition achildren (l : option (list (list N))) : answer := AChildren (list_to_set <$> l).

(* 0 agree; 1 tree; 2 module cache; 3 concluded cells; 4 file list; 5 watched resources; 6 answer;
   7 the tree changed during read-only activity *)
(* Modification times are abstracted by the harness to their ranks, and the model draws new ones from its
   clock: the tree is compared up to modification times, the watched set up to "stored indicator is None /
   equals the current (mtime, size) / differs from it". *)
Definition dview (s : state) : gmap (list N) (option content) := kind_of <$> dsk s.
Definition wview (s : state) : gmap (list N) N :=
  map_imap (fun r w => Some (match w with
                             | None => 0%N
                             | Some i => if bool_decide (stampw s r = Some i) then 1%N else 2%N
                             end)) (watched s).

Definition state_diff (a b : state) : N :=
  if negb (bool_decide (dview a = dview b)) then 1%N
  else if negb (bool_decide (mods a = mods b)) then 2%N
  else if negb (bool_decide (cells a = cells b)) then 3%N
  else if negb (bool_decide (flist a = flist b)) then 4%N
  else if negb (bool_decide (wview a = wview b)) then 5%N
  else 0%N.

Definition run_case (c : case) : N :=
  match c_kind c with
  | KStep (OQuery q) ans =>
      let '(s', a) := run_query (c_pre c) q in
      let d := state_diff s' (c_post c) in
      if negb (N.eqb d 0) then d
      else match ans with Some a' => if bool_decide (a = a') then 0%N else 6%N | None => 0%N end
  | KStep o _ => state_diff (step (c_pre c) o) (c_post c)
  | KPendX x => state_diff (xstep (c_pre c) x) (c_post c)
  | KValidate f => state_diff (validate_in f (c_pre c)) (c_post c)
  | KFree => if bool_decide (dview (c_pre c) = dview (c_post c)) then 0%N else 7%N
  end.

Definition b2n (b : bool) (k : N) : N := if b then k else 0%N.

(* bit 1: CacheCoherent pre; 2: Coherent pre; 4: CacheCoherent post; 8: Coherent post;
   16: the step is inside the domain of C13_coherent_inv_partial (resolution_unaffected);
   32: (query steps) the model's warm answer equals the model's fresh answer;
   64: the step makes rope raise ([raises], the recorded folder-move defect);
   128: [ext_ok]: a batch behind rope's back is confined to the validated folder and visible in the
        (mtime, size) indicators *)
Definition flags (c : case) : N :=
  (b2n (bool_decide (CacheCoherent (c_pre c))) 1 + b2n (bool_decide (Coherent (c_pre c))) 2
   + b2n (bool_decide (CacheCoherent (c_post c))) 4 + b2n (bool_decide (Coherent (c_post c))) 8
   + match c_kind c with
     | KStep o _ =>
         b2n (bool_decide (resolution_unaffected (c_pre c) o)) 16 + b2n (raises (c_pre c) o) 64
         + b2n (bool_decide (ext_ok (c_pre c) o)) 128
         + match o with
           | OQuery q => b2n (bool_decide ((run_query (c_pre c) q).2 = (run_query (fresh (c_pre c)) q).2)) 32
           | _ => 0
           end
     | KPendX x => 16 + b2n (bool_decide (x_sound (c_pre c) x)) 128
     | KValidate _ => 16 + 128
     | KFree => 16 + 128
     end)%N.

Fixpoint mismatches_from (i : N) (cs : list case) : list (N * N) :=
  match cs with
  | [] => []
  | c :: r =>
      let code := run_case c in
      if N.eqb code 0 then mismatches_from (N.succ i) r else (i, code) :: mismatches_from (N.succ i) r
  end.
Definition mismatches (cs : list case) : list (N * N) := mismatches_from 0 cs.
Definition all_flags (cs : list case) : list N := map flags cs.
Require RopeVerif.C13.AIRunner.
