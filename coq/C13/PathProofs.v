(* Path and tree lemmas for the C13 model (proofs only). *)
From stdpp Require Import gmap list sets.
From Coq Require Import NArith Lia.
From RopeVerif.C13 Require Import Observer.

Lemma strip_spec p k r : strip p k = Some r <-> k = p ++ r.
Proof.
  revert k; induction p as [|x p IH]; intros k; cbn.
  - split; congruence.
  - destruct k as [|y k]; [split; discriminate|].
    destruct (N.eqb_spec x y) as [->|Hne].
    + rewrite IH. split; congruence.
    + split; [discriminate|]. intros [=]. congruence.
Qed.

Lemma under_spec p k : under p k = true <-> exists r, k = p ++ r.
Proof.
  unfold under. destruct (strip p k) as [r|] eqn:E.
  - apply strip_spec in E. split; eauto.
  - split; [discriminate|]. intros [r Hr]. apply strip_spec in Hr. congruence.
Qed.

Lemma under_false p k : under p k = false <-> forall r, k <> p ++ r.
Proof.
  rewrite <- not_true_iff_false, under_spec. split.
  - intros H r Hr. apply H; eauto.
  - intros H [r Hr]. exact (H r Hr).
Qed.

Lemma under_refl p : under p p = true.
Proof. apply under_spec. exists []. by rewrite app_nil_r. Qed.

Lemma under_app p r : under p (p ++ r) = true.
Proof. apply under_spec; eauto. Qed.

Lemma under_trans p q k : under p q = true -> under q k = true -> under p k = true.
Proof.
  rewrite !under_spec. intros [r ->] [r' ->]. exists (r ++ r'). by rewrite app_assoc.
Qed.

Lemma parent_app_nonnil (p r : list N) : r <> [] -> parent (p ++ r) = p ++ parent r.
Proof. intros. unfold parent. by apply removelast_app. Qed.

Lemma parent_snoc (p : list N) x : parent (p ++ [x]) = p.
Proof. unfold parent. by rewrite removelast_last. Qed.

Lemma nonroot_spec (k : list N) : nonroot k = true <-> k <> [].
Proof. destruct k; cbn; split; congruence. Qed.

Lemma nonroot_snoc (k : list N) : k <> [] -> exists x, k = parent k ++ [x].
Proof.
  intros Hk. destruct (exists_last Hk) as (l & x & ->). exists x. by rewrite parent_snoc.
Qed.

(* k below p, k <> p  ==>  parent k below p *)
Lemma under_parent p k : under p k = true -> k <> p -> under p (parent k) = true.
Proof.
  rewrite !under_spec. intros [r ->] Hne.
  destruct r as [|x r]; [by rewrite app_nil_r in Hne|].
  exists (parent (x :: r)). by apply parent_app_nonnil.
Qed.

Lemma under_of_parent p k : under p (parent k) = true -> nonroot k = true -> under p k = true.
Proof.
  rewrite nonroot_spec. intros H Hk. destruct (nonroot_snoc k Hk) as [x Hx].
  rewrite Hx. eapply under_trans; [exact H|]. apply under_app.
Qed.

Lemma under_nil_r p : under p [] = true -> p = [].
Proof. rewrite under_spec. intros [r Hr]. symmetry in Hr. by apply app_eq_nil in Hr as [-> _]. Qed.

Lemma under_length p k : under p k = true -> length p <= length k.
Proof. rewrite under_spec. intros [r ->]. rewrite app_length. lia. Qed.

Lemma parent_length (k : list N) : k <> [] -> length (parent k) < length k.
Proof.
  intros Hk. destruct (nonroot_snoc k Hk) as [x Hx]. rewrite Hx at 2. rewrite app_length. cbn. lia.
Qed.

Lemma not_under_parent_self (k : list N) : k <> [] -> under k (parent k) = false.
Proof.
  intros Hk. apply not_true_iff_false. intros H%under_length.
  pose proof (parent_length k Hk). lia.
Qed.

Lemma child_of_spec r k : child_of r k = true <-> k <> [] /\ parent k = r.
Proof.
  unfold child_of. rewrite andb_true_iff, nonroot_spec, bool_decide_eq_true. tauto.
Qed.

(* a child of r lies below p only if it is p or r lies below p *)
Lemma child_under p r k :
  child_of r k = true -> under p k = true -> k = p \/ under p r = true.
Proof.
  rewrite child_of_spec. intros [Hk <-] Hu.
  destruct (decide (k = p)); [by left|right]. by apply under_parent.
Qed.

(* ------------------------------------------------------------------------------- swapf *)
Section swap.
  Context (p q : list N) (Hpq : under p q = false) (Hqp : under q p = false).

  Lemma swapf_under_p r : swapf p q (p ++ r) = q ++ r.
  Proof. unfold swapf. by rewrite (proj2 (strip_spec p (p ++ r) r) eq_refl). Qed.

  Lemma strip_p_q_none r : strip p (q ++ r) = None.
  Proof.
    destruct (strip p (q ++ r)) as [t|] eqn:E; [|done].
    apply strip_spec in E. exfalso.
    (* q ++ r = p ++ t: one of p, q is a prefix of the other *)
    assert (under p q = true \/ under q p = true) as [H|H]; [|congruence..].
    clear Hpq Hqp. revert q E. induction p as [|x p' IH]; intros q' E.
    - left. apply under_spec. eauto.
    - destruct q' as [|y q'']; [right; apply under_spec; eauto|].
      cbn in E. injection E as -> E. destruct (IH _ E) as [H|H].
      + left. apply under_spec in H as [u ->]. apply under_spec. by exists u.
      + right. apply under_spec in H as [u ->]. apply under_spec. by exists u.
  Qed.

  Lemma swapf_under_q r : swapf p q (q ++ r) = p ++ r.
  Proof.
    unfold swapf. rewrite strip_p_q_none. by rewrite (proj2 (strip_spec q (q ++ r) r) eq_refl).
  Qed.

  Lemma swapf_other k : under p k = false -> under q k = false -> swapf p q k = k.
  Proof.
    unfold under, swapf. intros H1 H2.
    destruct (strip p k); [discriminate|]. destruct (strip q k); [discriminate|done].
  Qed.

  Lemma strip_q_p_none r : strip q (p ++ r) = None.
  Proof.
    destruct (strip q (p ++ r)) as [t|] eqn:E; [|done].
    apply strip_spec in E. exfalso.
    assert (strip p (q ++ t) = Some r) as H by (apply strip_spec; done).
    by rewrite strip_p_q_none in H.
  Qed.

  Lemma swapf_invol k : swapf p q (swapf p q k) = k.
  Proof.
    destruct (under p k) eqn:Hp.
    - apply under_spec in Hp as [r ->]. by rewrite swapf_under_p, swapf_under_q.
    - destruct (under q k) eqn:Hq.
      + apply under_spec in Hq as [r ->]. by rewrite swapf_under_q, swapf_under_p.
      + rewrite (swapf_other k) by done. by apply swapf_other.
  Qed.

  Global Instance swapf_inj : Inj (=) (=) (swapf p q).
  Proof. intros a b H. by rewrite <- (swapf_invol a), H, swapf_invol. Qed.

  Lemma move_tree_lookup {A} (d : gmap (list N) A) k :
    move_tree p q d !! k = if under p k then None else d !! (swapf p q k).
  Proof.
    unfold move_tree. rewrite map_filter_lookup.
    assert (kmap (swapf p q) d !! k = d !! swapf p q k) as ->.
    { rewrite <- (swapf_invol k) at 1. apply (lookup_kmap (swapf p q)). }
    destruct (d !! swapf p q k); cbn; [|by destruct (under p k)].
    case_option_guard; destruct (under p k); congruence.
  Qed.

  Lemma move_tree_lookup_other {A} (d : gmap (list N) A) k :
    under p k = false -> under q k = false -> move_tree p q d !! k = d !! k.
  Proof. intros H1 H2. by rewrite move_tree_lookup, H1, swapf_other. Qed.

  Lemma move_tree_lookup_q {A} (d : gmap (list N) A) r : move_tree p q d !! (q ++ r) = d !! (p ++ r).
  Proof.
    rewrite move_tree_lookup, swapf_under_q.
    destruct (under p (q ++ r)) eqn:E; [|done].
    unfold under in E. by rewrite strip_p_q_none in E.
  Qed.
End swap.

Lemma remove_tree_lookup {A} (d : gmap (list N) A) p k :
  remove_tree p d !! k = if under p k then None else d !! k.
Proof.
  unfold remove_tree. rewrite map_filter_lookup.
  destruct (d !! k); cbn; [|by destruct (under p k)].
  case_option_guard; destruct (under p k); congruence.
Qed.

(* ------------------------------------------------------------------------------- well-formed trees *)
Lemma disdir_spec d k : disdir d k = true <-> k = [] \/ exists t, d !! k = Some (Dir t).
Proof.
  unfold disdir. destruct k; [naive_solver|].
  destruct (d !! (n :: k)) as [[c t|t]|]; naive_solver.
Qed.

Lemma dexists_spec d k : dexists d k = true <-> k = [] \/ is_Some (d !! k).
Proof.
  unfold dexists. destruct k; [naive_solver|]. rewrite bool_decide_eq_true. naive_solver.
Qed.

Lemma disdir_dexists d k : disdir d k = true -> dexists d k = true.
Proof. rewrite disdir_spec, dexists_spec. naive_solver. Qed.

(* in a well-formed tree every nonempty proper prefix of an existing path is a folder *)
Lemma wf_prefix_dir d p r :
  wf_disk d -> is_Some (d !! (p ++ r)) -> r <> [] -> disdir d p = true.
Proof.
  intros Hwf. revert p. induction r as [|x r IH] using rev_ind; [done|].
  intros p [n Hn] _. rewrite app_assoc in Hn.
  destruct (Hwf _ _ Hn) as [_ Hd]. rewrite parent_snoc in Hd.
  destruct r as [|y r'] using rev_ind; [by rewrite app_nil_r in Hd|clear IHr'].
  apply IH; [|by destruct r'].
  apply disdir_spec in Hd as [Hd|[t Hd]]; [by destruct p, r'|eauto].
Qed.

Lemma wf_under_exists d p k :
  wf_disk d -> is_Some (d !! k) -> under p k = true -> dexists d p = true.
Proof.
  intros Hwf Hk [r ->]%under_spec.
  destruct r as [|x r]; [rewrite app_nil_r in Hk; apply dexists_spec; by right|].
  apply disdir_dexists. by eapply (wf_prefix_dir d p (x :: r)).
Qed.

Lemma wf_under_dir d p k :
  wf_disk d -> is_Some (d !! k) -> under p k = true -> k <> p -> disdir d p = true.
Proof.
  intros Hwf Hk [r ->]%under_spec Hne.
  destruct r as [|x r]; [by rewrite app_nil_r in Hne|].
  by eapply (wf_prefix_dir d p (x :: r)).
Qed.

(* nothing exists below a path that does not exist *)
Lemma wf_not_exists_under d q k :
  wf_disk d -> q <> [] -> dexists d q = false -> under q k = true -> d !! k = None.
Proof.
  intros Hwf Hq Hn Hu. destruct (d !! k) eqn:E; [|done].
  assert (dexists d q = true) by (eapply wf_under_exists; eauto). congruence.
Qed.

(* changing a modification time changes nothing else *)
Lemma set_mt_lookup (t : N) (r : list N) (d : disk) (k : list N) :
  set_mt t r d !! k = if decide (k = r) then set_node_mt t <$> d !! k else d !! k.
Proof.
  unfold set_mt. destruct (decide (k = r)) as [->|Hne]; [by rewrite lookup_alter|by rewrite lookup_alter_ne].
Qed.

Lemma set_mt_kind (t : N) (r : list N) (d : disk) (k : list N) : kind_of <$> set_mt t r d !! k = kind_of <$> d !! k.
Proof. rewrite set_mt_lookup. destruct (decide (k = r)); [|done]. by destruct (d !! k) as [[]|]. Qed.

Lemma set_mt_is_Some (t : N) (r : list N) (d : disk) (k : list N) : is_Some (set_mt t r d !! k) <-> is_Some (d !! k).
Proof. rewrite set_mt_lookup. destruct (decide (k = r)); [|done]. by rewrite fmap_is_Some. Qed.

Lemma set_mt_disdir (t : N) (r : list N) (d : disk) (k : list N) : disdir (set_mt t r d) k = disdir d k.
Proof.
  unfold disdir. destruct k; [done|]. rewrite set_mt_lookup.
  destruct (decide (n :: k = r)); [|done]. by destruct (d !! (n :: k)) as [[]|].
Qed.

Lemma set_mt_dexists (t : N) (r : list N) (d : disk) (k : list N) : dexists (set_mt t r d) k = dexists d k.
Proof. unfold dexists. destruct k; [done|]. apply bool_decide_ext, set_mt_is_Some. Qed.

Lemma set_mt_wf (t : N) (r : list N) (d : disk) : wf_disk d -> wf_disk (set_mt t r d).
Proof.
  intros Hwf k n Hk. assert (is_Some (d !! k)) as [n' Hn'] by (apply (set_mt_is_Some t r); eauto).
  destruct (Hwf _ _ Hn') as [? Hd]. split; [done|]. by rewrite set_mt_disdir.
Qed.

Lemma touch_under_lookup (t : N) (q : list N) (d : disk) (k : list N) :
  touch_under t q d !! k = (fun n => if under q k then set_node_mt t n else n) <$> d !! k.
Proof. unfold touch_under. rewrite map_lookup_imap. by destruct (d !! k). Qed.

Lemma touch_under_other (t : N) (q : list N) (d : disk) (k : list N) :
  under q k = false -> touch_under t q d !! k = d !! k.
Proof. intros H. rewrite touch_under_lookup, H. by destruct (d !! k). Qed.

Lemma touch_under_is_Some (t : N) (q : list N) (d : disk) (k : list N) :
  is_Some (touch_under t q d !! k) <-> is_Some (d !! k).
Proof. rewrite touch_under_lookup. by rewrite fmap_is_Some. Qed.

Lemma touch_under_disdir (t : N) (q : list N) (d : disk) (k : list N) :
  disdir (touch_under t q d) k = disdir d k.
Proof.
  unfold disdir. destruct k; [done|]. rewrite touch_under_lookup.
  destruct (d !! (n :: k)) as [[]|]; cbn; try done; by destruct (under q (n :: k)).
Qed.

Lemma touch_under_wf (t : N) (q : list N) (d : disk) : wf_disk d -> wf_disk (touch_under t q d).
Proof.
  intros Hwf k n Hk. assert (is_Some (d !! k)) as [n' Hn'] by (apply (touch_under_is_Some t q); eauto).
  destruct (Hwf _ _ Hn') as [? Hd]. split; [done|]. by rewrite touch_under_disdir.
Qed.
