(* Computed witnesses: the two recorded defects and the non-vacuity example. *)
From stdpp Require Import gmap list sets.
From Coq Require Import NArith.
From RopeVerif.C13 Require Import Observer PathProofs ObserverProofs.

(* ================================================================================ witnesses *)
(* the tree as found: automatic_soa on, neither fix *)
Definition cfg0 : config := Config true false false true.
Definition cfg_fixed : config := Config true true true true.

Definition wit_disk : gmap (list N) node :=
  list_to_map [([4%N], Dir 0); ([4%N; 9%N], File (Content 1 true [] 6) 0); ([1%N], File (Content 2 true [2%N] 11) 0)].
(* zm0.py ("import zm2") has been asked what zm2 is: zm1/zm2.py *)
Definition wit_warm : state := (run_query (init wit_disk cfg0) (QResolve [1%N] 2%N)).1.
(* now zm2.py is created at the root through rope *)
Definition wit_op : op := ORope (XCreate [9%N] false).

Lemma shadowing_creation_refuted :
  exists s o q, Coherent s /\ raises s o = false /\ ~ Coherent (step s o)
                /\ (run_query (step s o) q).2 <> (run_query (fresh (step s o)) q).2.
Proof.
  exists wit_warm, wit_op, (QResolve [1%N] 2%N).
  split; [apply (bool_decide_unpack _); by vm_compute|].
  split; [by vm_compute|].
  split; [apply (bool_decide_eq_false_1 (Coherent (step wit_warm wit_op))); by vm_compute|].
  apply (bool_decide_eq_false_1 (_ = _)). by vm_compute.
Qed.

Lemma shadowing_creation_example :
  Coherent wit_warm /\ CacheCoherent (step wit_warm wit_op)
  /\ (run_query wit_warm (QResolve [1%N] 2%N)).2 = ATarget (Some (Some [4%N; 9%N]))
  /\ (run_query (step wit_warm wit_op) (QResolve [1%N] 2%N)).2 = ATarget (Some (Some [4%N; 9%N]))
  /\ (run_query (fresh (step wit_warm wit_op)) (QResolve [1%N] 2%N)).2 = ATarget (Some (Some [9%N])).
Proof.
  split; [apply (bool_decide_unpack _); by vm_compute|].
  split; [apply (bool_decide_unpack _); by vm_compute|].
  split; [by vm_compute|]. split; by vm_compute.
Qed.

(* folder zm0 with zm0/zm1.py written (static analysis loads it), rewritten with a syntax error (dropped
   from the cache, still watched), removed (watch entry stays with indicator None); zm0/zm2.py cached *)
Definition wit2_ops : list op :=
  [ORope (XCreate [0%N] true); ORope (XCreate [0%N; 5%N] false);
   ORope (XWrite [0%N; 5%N] (Content 1 true [] 6) false); ORope (XWrite [0%N; 5%N] (Content 2 false [] 7) false);
   ORope (XRemove [0%N; 5%N]); ORope (XCreate [0%N; 9%N] false); OQuery (QLoad [0%N; 9%N])].
Definition wit2_state : state := run (init ∅ cfg0) wit2_ops.
Definition wit2_op : op := ORope (XMove [0%N] [12%N]).

Lemma folder_move_raises_refuted :
  exists ops o, admissible (init ∅ cfg0) ops /\ Coherent (run (init ∅ cfg0) ops)
                /\ raises (run (init ∅ cfg0) ops) o = true
                /\ ~ CacheCoherent (step (run (init ∅ cfg0) ops) o).
Proof.
  exists wit2_ops, wit2_op.
  split; [apply admissible_b_spec; by vm_compute|].
  split; [apply (bool_decide_unpack _); by vm_compute|].
  split; [by vm_compute|].
  apply (bool_decide_eq_false_1 (CacheCoherent _)). by vm_compute.
Qed.

(* non-vacuity of the invariant theorems: a history with a package, a cached package with its child
   list, a resolved import, an external batch and a folder move, inside the domain of every theorem *)
Definition ex_ops : list op :=
  [ORope (XCreate [4%N] true); ORope (XCreate [4%N; 3%N] false); ORope (XCreate [4%N; 9%N] false);
   ORope (XWrite [4%N; 9%N] (Content 1 true [] 6) false); ORope (XCreate [1%N] false);
   ORope (XWrite [1%N] (Content 2 true [1%N] 7) false); OQuery (QResolve [1%N] 1%N); OQuery (QChildren [4%N]);
   OQuery QFiles;
   OExternal [] [XWrite [4%N; 9%N] (Content 3 true [2%N] 8) false; XCreate [4%N; 13%N] false];
   OQuery (QLoad [4%N; 9%N]);
   (* a rewrite that keeps the modification time (the size differs), then validate of the sub-folder only *)
   OExternal [4%N] [XWrite [4%N; 9%N] (Content 4 true [2%N] 11) true];
   OQuery (QResolve [1%N] 1%N); ORope (XMove [4%N] [8%N]); OQuery (QLoad [8%N; 9%N])].

Lemma example_history :
  admissible (init ∅ cfg0) ex_ops /\ Coherent (run (init ∅ cfg0) ex_ops)
  /\ size (mods (run (init ∅ cfg0) ex_ops)) = 2
  /\ (run_query (run (init ∅ cfg0) (take 9 ex_ops)) (QResolve [1%N] 1%N)).2 = ATarget (Some (Some [4%N])).
Proof.
  split; [apply admissible_b_spec; by vm_compute|].
  split; [apply (bool_decide_unpack _); by vm_compute|]. split; by vm_compute.
Qed.

(* with both fixes the two witnesses are harmless: the creation forgets the concluded cell, the move does
   not raise *)
Lemma fixed_witnesses :
  Coherent (run (init wit_disk cfg_fixed) [OQuery (QResolve [1%N] 2%N); wit_op])
  /\ (run_query (run (init wit_disk cfg_fixed) [OQuery (QResolve [1%N] 2%N); wit_op]) (QResolve [1%N] 2%N)).2
     = ATarget (Some (Some [9%N]))
  /\ raises (run (init ∅ cfg_fixed) wit2_ops) wit2_op = false
  /\ Coherent (run (init ∅ cfg_fixed) (wit2_ops ++ [wit2_op])).
Proof.
  split; [apply (bool_decide_unpack _); by vm_compute|]. split; [by vm_compute|].
  split; [by vm_compute|]. apply (bool_decide_unpack _); by vm_compute.
Qed.

(* ------------------------------------------------------------ why the indicator is a pair *)
(* zm0.py is cached; it is rewritten behind rope's back with the modification time kept and a different
   size (cp -p, rsync -t, two writes within one timestamp tick) *)
Definition wit3_disk : gmap (list N) node := list_to_map [([1%N], File (Content 1 true [] 6) 5)].
Definition wit3_xs : list xop := [XWrite [1%N] (Content 2 true [] 9) true].
Definition wit3 (full : bool) : state :=
  (run_query (init_at wit3_disk (Config true true true full) 6) (QLoad [1%N])).1.

(* with the indicator "modification time only" (seeded mutation C13-1) validate leaves the stale module
   cached although the modification changed a component of the (mtime, size) pair *)
Lemma mtime_only_indicator_refuted :
  exists s xs, ind_size (cfg s) = false /\ Coherent s /\ forallb (xunder []) xs = true
               /\ pair_sound s (foldl xstep s xs)
               /\ ~ CacheCoherent (validate (foldl xstep s xs))
               /\ (run_query (validate (foldl xstep s xs)) (QLoad [1%N])).2
                  <> (run_query (fresh (validate (foldl xstep s xs))) (QLoad [1%N])).2.
Proof.
  exists (wit3 false), wit3_xs.
  split; [by vm_compute|]. split; [apply (bool_decide_unpack _); by vm_compute|]. split; [by vm_compute|].
  split; [apply (bool_decide_unpack _); by vm_compute|].
  split; [apply (bool_decide_eq_false_1 (CacheCoherent _)); by vm_compute|].
  apply (bool_decide_eq_false_1 (_ = _)). by vm_compute.
Qed.

(* with the pair the same batch is visible ([ind_sound] holds) and validate drops the stale module *)
Lemma pair_indicator_example :
  Coherent (wit3 true) /\ ext_ok (wit3 true) (OExternal [] wit3_xs)
  /\ Coherent (step (wit3 true) (OExternal [] wit3_xs))
  /\ mods (step (wit3 true) (OExternal [] wit3_xs)) = ∅.
Proof.
  split; [apply (bool_decide_unpack _); by vm_compute|]. split; [apply (bool_decide_unpack _); by vm_compute|].
  split; [apply (bool_decide_unpack _); by vm_compute|]. by vm_compute.
Qed.

(* [ind_sound] cannot be dropped: a rewrite that keeps both the modification time and the size is
   invisible to validate (rope's design; outside the property's domain) *)
Lemma validate_needs_indicator_sound_refuted :
  exists s xs, Coherent s /\ forallb (xunder []) xs = true /\ ~ ind_sound s (foldl xstep s xs)
               /\ ~ CacheCoherent (validate (foldl xstep s xs)).
Proof.
  exists (wit3 true), [XWrite [1%N] (Content 2 true [] 6) true].
  split; [apply (bool_decide_unpack _); by vm_compute|]. split; [by vm_compute|].
  split; [apply (bool_decide_eq_false_1 (ind_sound _ _)); by vm_compute|].
  apply (bool_decide_eq_false_1 (CacheCoherent _)). by vm_compute.
Qed.

(* the history of seeded mutation C13-6, in the model: a module is cached, edited behind rope's back
   (validate), deleted (validate: its watch entry stays with indicator None), re-created and asked for
   BEFORE the next validate, edited again, validate *)
Definition wit4 : state :=
  run (init (list_to_map [([1%N], File (Content 1 true [] 6) 0)]) (code_cfg true))
      [OQuery (QLoad [1%N]); OExternal [] [XWrite [1%N] (Content 2 true [] 9) false]; OExternal [] [XRemove [1%N]]].
Definition wit4_ps : list pstep :=
  [PX (XCreate [1%N] false); PX (XWrite [1%N] (Content 3 true [] 7) false); PQ (QLoad [1%N]);
   PX (XWrite [1%N] (Content 4 true [] 12) false)].

Lemma pending_example :
  Coherent wit4 /\ watched wit4 !! [1%N] = Some None /\ pend_sound wit4 wit4_ps
  /\ is_Some (mods (foldl pend_step wit4 wit4_ps) !! [1%N])
  /\ ~ CacheCoherent (foldl pend_step wit4 wit4_ps)
  /\ Coherent (validate (foldl pend_step wit4 wit4_ps))
  /\ (run_query (validate (foldl pend_step wit4 wit4_ps)) (QLoad [1%N])).2
     = ALoad (Some (Some (Content 4 true [] 12))).
Proof.
  split; [apply (bool_decide_unpack _); by vm_compute|]. split; [by vm_compute|].
  split; [apply pend_sound_b_spec; by vm_compute|]. split; [apply (bool_decide_unpack _); by vm_compute|].
  split; [apply (bool_decide_eq_false_1 (CacheCoherent _)); by vm_compute|].
  split; [apply (bool_decide_unpack _); by vm_compute|]. by vm_compute.
Qed.
