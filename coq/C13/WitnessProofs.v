(* Computed witnesses: the two recorded defects and the non-vacuity example. *)
From stdpp Require Import gmap list sets.
From Coq Require Import NArith.
From RopeVerif.C13 Require Import Observer PathProofs ObserverProofs.

(* ================================================================================ witnesses *)
(* the tree as found: automatic_soa on, neither fix *)
Definition cfg0 : config := Config true false false.
Definition cfg_fixed : config := Config true true true.

Definition wit_disk : gmap (list N) node :=
  list_to_map [([4%N], Dir); ([4%N; 9%N], File (Content 1 true [])); ([1%N], File (Content 2 true [2%N]))].
(* zm0.py ("import zm2") has been asked what zm2 is: zm1/zm2.py *)
Definition wit_warm : state := (run_query (init wit_disk cfg0) (QResolve [1%N] 2%N)).1.
(* now zm2.py is created at the root through rope *)
Definition wit_op : op := ORope (XCreate [9%N] false).

Lemma shadowing_creation_refuted :
  exists s o q, Coherent s /\ raises s o = false /\ ~ Coherent (step s o)
                /\ (run_query (step s o) q).2 <> (run_query (fresh (step s o)) q).2.
Proof.
  exists wit_warm, wit_op, (QResolve [1%N] 2%N).
  split; [apply (bool_decide_unpack _); by vm_compute|].
  split; [by vm_compute|].
  split; [apply (bool_decide_eq_false_1 (Coherent (step wit_warm wit_op))); by vm_compute|].
  apply (bool_decide_eq_false_1 (_ = _)). by vm_compute.
Qed.

Lemma shadowing_creation_example :
  Coherent wit_warm /\ CacheCoherent (step wit_warm wit_op)
  /\ (run_query wit_warm (QResolve [1%N] 2%N)).2 = ATarget (Some (Some [4%N; 9%N]))
  /\ (run_query (step wit_warm wit_op) (QResolve [1%N] 2%N)).2 = ATarget (Some (Some [4%N; 9%N]))
  /\ (run_query (fresh (step wit_warm wit_op)) (QResolve [1%N] 2%N)).2 = ATarget (Some (Some [9%N])).
Proof.
  split; [apply (bool_decide_unpack _); by vm_compute|].
  split; [apply (bool_decide_unpack _); by vm_compute|].
  split; [by vm_compute|]. split; by vm_compute.
Qed.

(* folder zm0 with zm0/zm1.py written (static analysis loads it), rewritten with a syntax error (dropped
   from the cache, still watched), removed (watch entry stays with indicator None); zm0/zm2.py cached *)
Definition wit2_ops : list op :=
  [ORope (XCreate [0%N] true); ORope (XCreate [0%N; 5%N] false);
   ORope (XWrite [0%N; 5%N] (Content 1 true [])); ORope (XWrite [0%N; 5%N] (Content 2 false []));
   ORope (XRemove [0%N; 5%N]); ORope (XCreate [0%N; 9%N] false); OQuery (QLoad [0%N; 9%N])].
Definition wit2_state : state := run (init ∅ cfg0) wit2_ops.
Definition wit2_op : op := ORope (XMove [0%N] [12%N]).

Lemma folder_move_raises_refuted :
  exists ops o, admissible (init ∅ cfg0) ops /\ Coherent (run (init ∅ cfg0) ops)
                /\ raises (run (init ∅ cfg0) ops) o = true
                /\ ~ CacheCoherent (step (run (init ∅ cfg0) ops) o).
Proof.
  exists wit2_ops, wit2_op.
  split; [apply admissible_b_spec; by vm_compute|].
  split; [apply (bool_decide_unpack _); by vm_compute|].
  split; [by vm_compute|].
  apply (bool_decide_eq_false_1 (CacheCoherent _)). by vm_compute.
Qed.

(* non-vacuity of the invariant theorems: a history with a package, a cached package with its child
   list, a resolved import, an external batch and a folder move, inside the domain of every theorem *)
Definition ex_ops : list op :=
  [ORope (XCreate [4%N] true); ORope (XCreate [4%N; 3%N] false); ORope (XCreate [4%N; 9%N] false);
   ORope (XWrite [4%N; 9%N] (Content 1 true [])); ORope (XCreate [1%N] false);
   ORope (XWrite [1%N] (Content 2 true [1%N])); OQuery (QResolve [1%N] 1%N); OQuery (QChildren [4%N]);
   OQuery QFiles;
   OExternal [XWrite [4%N; 9%N] (Content 3 true [2%N]); XCreate [4%N; 13%N] false];
   OQuery (QResolve [1%N] 1%N); ORope (XMove [4%N] [8%N]); OQuery (QLoad [8%N; 9%N])].

Lemma example_history :
  admissible (init ∅ cfg0) ex_ops /\ Coherent (run (init ∅ cfg0) ex_ops)
  /\ size (mods (run (init ∅ cfg0) ex_ops)) = 2
  /\ (run_query (run (init ∅ cfg0) (take 9 ex_ops)) (QResolve [1%N] 1%N)).2 = ATarget (Some (Some [4%N])).
Proof.
  split; [apply admissible_b_spec; by vm_compute|].
  split; [apply (bool_decide_unpack _); by vm_compute|]. split; by vm_compute.
Qed.

(* with both fixes the two witnesses are harmless: the creation forgets the concluded cell, the move does
   not raise *)
Lemma fixed_witnesses :
  Coherent (run (init wit_disk cfg_fixed) [OQuery (QResolve [1%N] 2%N); wit_op])
  /\ (run_query (run (init wit_disk cfg_fixed) [OQuery (QResolve [1%N] 2%N); wit_op]) (QResolve [1%N] 2%N)).2
     = ATarget (Some (Some [9%N]))
  /\ raises (run (init ∅ cfg_fixed) wit2_ops) wit2_op = false
  /\ Coherent (run (init ∅ cfg_fixed) (wit2_ops ++ [wit2_op])).
Proof.
  split; [apply (bool_decide_unpack _); by vm_compute|]. split; [by vm_compute|].
  split; [by vm_compute|]. apply (bool_decide_unpack _); by vm_compute.
Qed.
