(* Proofs about the C13 model. *)
From stdpp Require Import gmap list sets.
From Coq Require Import NArith Lia.
From RopeVerif.C13 Require Import Observer PathProofs.

Local Arguments find_module : simpl never.
Local Arguments children : simpl never.
Local Arguments files_of : simpl never.
Local Arguments shape : simpl never.

Local Ltac bool_simp :=
  repeat match goal with
  | H : _ && _ = true |- _ => apply andb_true_iff in H as [? ?]
  | H : _ || _ = false |- _ => apply orb_false_iff in H as [? ?]
  | H : negb _ = true |- _ => apply negb_true_iff in H
  | H : negb _ = false |- _ => apply negb_false_iff in H
  | H : bool_decide _ = true |- _ => apply bool_decide_eq_true in H
  | H : bool_decide _ = false |- _ => apply bool_decide_eq_false in H
  end.

(* =============================================================== the tree under the primitives *)
Lemma guard_move_parts d p q :
  xguard d (XMove p q) = true ->
  p <> [] /\ q <> [] /\ dexists d p = true /\ dexists d q = false /\ disdir d (parent q) = true
  /\ under p q = false /\ under q p = false.
Proof.
  cbn. intros H. bool_simp. rewrite nonroot_spec in *. done.
Qed.

(* a resource the modification does not touch keeps its node, modification time included *)
Lemma xdisk_untouched t d x r :
  wf_disk d -> xguard d x = true -> xtouch x r = false -> xdisk t d x !! r = d !! r.
Proof.
  intros Hwf Hg Ht.
  destruct x as [p c kp|p isd|p|p q]; [| | |apply guard_move_parts in Hg as (?&?&?&?&?&?&?)]; cbn in *; bool_simp.
  - destruct (d !! p) as [[c' mt|mt]|]; try done. by rewrite lookup_insert_ne.
  - rewrite set_mt_lookup. destruct (decide (r = parent p)); [done|]. by rewrite lookup_insert_ne.
  - rewrite set_mt_lookup. destruct (decide (r = parent p)); [done|].
    rewrite remove_tree_lookup. by destruct (under p r).
  - rewrite !set_mt_lookup. destruct (decide (r = parent q)); [done|]. destruct (decide (r = parent p)); [done|].
    rewrite touch_under_other by done. by apply move_tree_lookup_other.
Qed.

(* ... and so is the existence of each of its children *)
Lemma xdisk_child_exists t d x r k :
  wf_disk d -> xguard d x = true -> xtouch x r = false -> child_of r k = true ->
  is_Some (xdisk t d x !! k) <-> is_Some (d !! k).
Proof.
  intros Hwf Hg Ht Hc.
  destruct x as [p c kp|p isd|p|p q]; [| | |apply guard_move_parts in Hg as (?&?&?&?&?&?&?)]; cbn in *; bool_simp.
  - destruct (d !! p) as [[c' mt|mt]|] eqn:Ep; try done.
    destruct (decide (k = p)) as [->|]; [rewrite lookup_insert, Ep; by split|by rewrite lookup_insert_ne].
  - rewrite set_mt_is_Some. destruct (decide (k = p)) as [->|]; [|by rewrite lookup_insert_ne].
    apply child_of_spec in Hc as [_ Hc]. congruence.
  - rewrite set_mt_is_Some, remove_tree_lookup. destruct (under p k) eqn:Eu; [|done].
    destruct (child_under p r k Hc Eu) as [->|?]; [|congruence].
    apply child_of_spec in Hc as [_ Hc]. congruence.
  - rewrite !set_mt_is_Some, touch_under_is_Some. rewrite move_tree_lookup_other; [done|done|done| |].
    + destruct (under p k) eqn:Eu; [|done].
      destruct (child_under p r k Hc Eu) as [->|?]; [|congruence].
      apply child_of_spec in Hc as [_ Hc]. congruence.
    + destruct (under q k) eqn:Eu; [|done].
      destruct (child_under q r k Hc Eu) as [->|?]; [|congruence].
      apply child_of_spec in Hc as [_ Hc]. congruence.
Qed.

Lemma is_submodule_ext d d' r k :
  (forall k', child_of r k' = true -> is_Some (d' !! k') <-> is_Some (d !! k')) ->
  child_of r k = true -> is_submodule d' k = is_submodule d k.
Proof.
  intros H Hc. unfold is_submodule.
  apply child_of_spec in Hc as [Hk Hp].
  assert (child_of r (parent k ++ [(last_seg k + 1)%N]) = true) as Hs.
  { apply child_of_spec. split; [by destruct (parent k)|]. rewrite parent_snoc. done. }
  specialize (H _ Hs). f_equal. f_equal. f_equal.
  apply bool_decide_ext. done.
Qed.

Lemma children_ext d d' r :
  (forall k, child_of r k = true -> is_Some (d' !! k) <-> is_Some (d !! k)) ->
  children d' r = children d r.
Proof.
  intros H. unfold children. apply set_eq. intros k.
  rewrite !elem_of_dom. unfold is_Some. setoid_rewrite map_filter_lookup_Some. cbn.
  split; intros (v & Hv & Hc); apply andb_true_iff in Hc as [Hc Hs].
  - destruct (proj1 (H k Hc) (ex_intro _ v Hv)) as [v' Hv']. exists v'. split; [done|].
    rewrite Hc. cbn. by rewrite <- (is_submodule_ext d d' r k H Hc).
  - destruct (proj2 (H k Hc) (ex_intro _ v Hv)) as [v' Hv']. exists v'. split; [done|].
    rewrite Hc. cbn. by rewrite (is_submodule_ext d d' r k H Hc).
Qed.

Lemma xdisk_children t d x r :
  wf_disk d -> xguard d x = true -> xtouch x r = false -> children (xdisk t d x) r = children d r.
Proof. intros. apply children_ext. intros. by apply (xdisk_child_exists t d x r). Qed.

(* [matches] only looks at what the resource is and at its child list *)
Lemma matches_rview d d' r v : rview d' r = rview d r -> matches d r v -> matches d' r v.
Proof.
  unfold rview. intros [= Hk Hc]. destruct v as [c|ch]; cbn; rewrite Hk; [done|].
  intros [? Hch]. split; [done|]. destruct ch; [|done]. by rewrite Hc.
Qed.

Lemma xdisk_rview t d x r :
  wf_disk d -> xguard d x = true -> xtouch x r = false -> rview (xdisk t d x) r = rview d r.
Proof. intros. unfold rview. by rewrite xdisk_untouched, xdisk_children. Qed.

Lemma xdisk_cur_ind c t d x r :
  wf_disk d -> xguard d x = true -> xtouch x r = false -> cur_ind c (xdisk t d x) r = cur_ind c d r.
Proof. intros. unfold cur_ind. destruct r; [done|]. by rewrite xdisk_untouched. Qed.

(* the file list does not depend on contents or modification times *)
Lemma files_of_write d p c mt c' mt' :
  d !! p = Some (File c mt) -> files_of (<[p := File c' mt']> d) = files_of d.
Proof.
  intros Hp. unfold files_of. apply set_eq. intros k.
  rewrite !elem_of_dom. unfold is_Some. setoid_rewrite map_filter_lookup_Some. cbn.
  destruct (decide (k = p)) as [->|].
  - rewrite lookup_insert, Hp. split; intros (v & [= <-] & ?); eauto.
  - by rewrite lookup_insert_ne.
Qed.

Lemma shape_write d p c mt c' mt' :
  d !! p = Some (File c mt) -> shape (<[p := File c' mt']> d) = shape d.
Proof.
  intros Hp. unfold shape. rewrite fmap_insert. cbn.
  apply insert_id. by rewrite lookup_fmap, Hp.
Qed.

(* ------------------------------------------------------------------ well-formedness is preserved *)
Lemma disdir_insert_file d p c mt k :
  d !! p = None \/ (exists c' mt', d !! p = Some (File c' mt')) ->
  disdir d k = true -> disdir (<[p := File c mt]> d) k = true.
Proof.
  intros Hp. rewrite !disdir_spec. intros [->|[t Hk]]; [by left|right]. exists t.
  rewrite lookup_insert_ne; [done|]. intros ->. destruct Hp as [Hp|(c' & mt' & Hp)]; congruence.
Qed.

Lemma disdir_insert_new d p n k :
  d !! p = None -> disdir d k = true -> disdir (<[p := n]> d) k = true.
Proof.
  intros Hp. rewrite !disdir_spec. intros [->|[t Hk]]; [by left|right]. exists t.
  rewrite lookup_insert_ne; [done|]. congruence.
Qed.

Lemma xdisk_wf t d x : wf_disk d -> xguard d x = true -> wf_disk (xdisk t d x).
Proof.
  intros Hwf Hg. destruct x as [p c kp|p isd|p|p q]; cbn in *.
  - destruct (d !! p) as [[c' mt|mt]|] eqn:Ep; try done.
    intros k n Hk. destruct (decide (k = p)) as [->|Hne].
    + destruct (Hwf _ _ Ep) as [? Hd]. split; [done|]. apply disdir_insert_file; eauto.
    + rewrite lookup_insert_ne in Hk by done. destruct (Hwf _ _ Hk) as [? Hd].
      split; [done|]. apply disdir_insert_file; eauto.
  - apply set_mt_wf. bool_simp. rewrite nonroot_spec in *.
    assert (d !! p = None) as Ep.
    { destruct p; [done|]. cbn in *. bool_simp. by apply eq_None_not_Some. }
    intros k n Hk. destruct (decide (k = p)) as [->|Hne].
    + split; [done|]. by apply disdir_insert_new.
    + rewrite lookup_insert_ne in Hk by done. destruct (Hwf _ _ Hk) as [? Hd].
      split; [done|]. by apply disdir_insert_new.
  - apply set_mt_wf. intros k n Hk. rewrite remove_tree_lookup in Hk.
    destruct (under p k) eqn:Eu; [done|]. destruct (Hwf _ _ Hk) as [Hk0 Hd]. split; [done|].
    apply disdir_spec in Hd as [Hd|[t' Hd]]; apply disdir_spec; [by left|right]. exists t'.
    rewrite remove_tree_lookup. destruct (under p (parent k)) eqn:Eu'; [|done].
    rewrite (under_of_parent p k Eu') in Eu; [done|by apply nonroot_spec].
  - apply set_mt_wf, set_mt_wf, touch_under_wf.
    apply guard_move_parts in Hg as (Hp0 & Hq0 & Hpe & Hqe & Hqd & Hpq & Hqp).
    intros k n Hk. rewrite move_tree_lookup in Hk by done.
    destruct (under p k) eqn:Eup; [done|].
    destruct (under q k) eqn:Euq.
    + apply under_spec in Euq as [r ->]. rewrite swapf_under_q in Hk by done.
      split; [by destruct q|].
      destruct r as [|x r].
      * rewrite app_nil_r. apply disdir_spec in Hqd as [Hqd|[t' Hqd]]; apply disdir_spec; [by left|right]. exists t'.
        rewrite move_tree_lookup_other; [done|done|done| |].
        -- destruct (under p (parent q)) eqn:E; [|done].
           rewrite (under_of_parent p q E) in Hpq; [done|by apply nonroot_spec].
        -- by apply not_under_parent_self.
      * rewrite parent_app_nonnil by done. apply disdir_spec. right.
        destruct (Hwf _ _ Hk) as [_ Hd]. rewrite parent_app_nonnil in Hd by done.
        apply disdir_spec in Hd as [Hd|[t' Hd]]; [by destruct p|]. exists t'.
        by rewrite move_tree_lookup_q.
    + rewrite swapf_other in Hk by done. destruct (Hwf _ _ Hk) as [Hk0 Hd]. split; [done|].
      apply disdir_spec in Hd as [Hd|[t' Hd]]; apply disdir_spec; [by left|right]. exists t'.
      rewrite move_tree_lookup_other; [done|done|done| |].
      * destruct (under p (parent k)) eqn:E; [|done].
        rewrite (under_of_parent p k E) in Eup; [done|by apply nonroot_spec].
      * destruct (under q (parent k)) eqn:E; [|done].
        rewrite (under_of_parent q k E) in Euq; [done|by apply nonroot_spec].
Qed.

(* ============================================================= changes behind rope's back: frames *)
Lemma xstep_parts s x :
  mods (xstep s x) = mods s /\ cells (xstep s x) = cells s /\ flist (xstep s x) = flist s
  /\ watched (xstep s x) = watched s /\ cfg (xstep s x) = cfg s.
Proof. unfold xstep. by destruct (xguard (dsk s) x). Qed.

Lemma xsteps_parts s xs :
  mods (foldl xstep s xs) = mods s /\ cells (foldl xstep s xs) = cells s /\ flist (foldl xstep s xs) = flist s
  /\ watched (foldl xstep s xs) = watched s /\ cfg (foldl xstep s xs) = cfg s.
Proof.
  revert s. induction xs as [|x xs IH]; intros s; cbn; [done|].
  destruct (IH (xstep s x)) as (->&->&->&->&->). apply xstep_parts.
Qed.

Lemma xstep_wf s x : wf_disk (dsk s) -> wf_disk (dsk (xstep s x)).
Proof. intros. unfold xstep. destruct (xguard (dsk s) x) eqn:Hg; [|done]. by apply xdisk_wf. Qed.

Lemma xsteps_wf s xs : wf_disk (dsk s) -> wf_disk (dsk (foldl xstep s xs)).
Proof. revert s. induction xs as [|x xs IH]; intros s H; cbn; [done|]. by apply IH, xstep_wf. Qed.

(* what no modification of the batch touches is as before *)
Lemma xsteps_untouched s xs r :
  wf_disk (dsk s) -> (forall x, x ∈ xs -> xtouch x r = false) ->
  dsk (foldl xstep s xs) !! r = dsk s !! r /\ children (dsk (foldl xstep s xs)) r = children (dsk s) r.
Proof.
  revert s. induction xs as [|x xs IH]; intros s Hwf Hx; cbn; [done|].
  destruct (IH (xstep s x)) as [-> ->]; [by apply xstep_wf|intros; apply Hx; by right|].
  unfold xstep. destruct (xguard (dsk s) x) eqn:Hg; [|done]. cbn.
  rewrite xdisk_untouched, xdisk_children; try done; apply Hx; by left.
Qed.

(* a modification below f only touches what validate(f) looks at *)
Lemma inside_spec f r : inside f r = true <-> under f r = true.
Proof.
  unfold inside, contains. split.
  - intros [->%bool_decide_eq_true|[? _]%andb_true_iff]%orb_true_iff; [apply under_refl|done].
  - intros H. destruct (decide (r = f)) as [->|Hne]; [by rewrite bool_decide_eq_true_2|].
    apply orb_true_iff. right. rewrite H. cbn. apply negb_true_iff, bool_decide_eq_false. congruence.
Qed.

Lemma contains_under f p : contains f p = true -> under f p = true /\ p <> f.
Proof. unfold contains. intros [? ?%negb_true_iff%bool_decide_eq_false]%andb_true_iff. split; congruence. Qed.

Lemma xunder_touch f x r : xunder f x = true -> xtouch x r = true -> inside f r = true.
Proof.
  intros Hu Ht. apply inside_spec.
  assert (forall p, contains f p = true -> r = p \/ under p r = true \/ r = parent p -> under f r = true) as H.
  { intros p [Hp Hne]%contains_under [->|[Hr| ->]]; [done|by eapply under_trans|by apply under_parent]. }
  destruct x as [p c kp|p isd|p|p q]; cbn in *; bool_simp.
  - apply (H p); auto.
  - apply orb_true_iff in Ht as [Ht|Ht]; bool_simp; apply (H p); auto.
  - apply orb_true_iff in Ht as [Ht|Ht]; bool_simp; apply (H p); auto.
  - apply orb_true_iff in Ht as [Ht|Ht]; bool_simp; [|apply (H q); auto].
    apply orb_true_iff in Ht as [Ht|Ht]; bool_simp; [|apply (H p); auto].
    apply orb_true_iff in Ht as [Ht|Ht]; [apply (H p); auto|apply (H q); auto].
Qed.

(* ================================================================ _perform_changes + the callback *)
Lemma apply_changes_dsk chg mov cre s : dsk (apply_changes chg mov cre s) = dsk s.
Proof. done. Qed.

Lemma apply_changes_stampw chg mov cre s r : stampw (apply_changes chg mov cre s) r = stampw s r.
Proof. done. Qed.

Lemma apply_changes_mods_lookup chg mov cre s r v :
  mods (apply_changes chg mov cre s) !! r = Some v <->
  mods s !! r = Some v /\ ((chg r || mov r) && is_watched s r) = false.
Proof. unfold apply_changes. cbn. by rewrite map_filter_lookup_Some. Qed.

(* nothing was dropped: the module cache is unchanged *)
Lemma filter_none_id (m : gmap (list N) parsed) (drop : list N -> bool) :
  filter (fun kv : list N * parsed => drop kv.1 = true) m = ∅ ->
  filter (fun kv : list N * parsed => drop kv.1 = false) m = m.
Proof.
  intros He. apply map_eq. intros r. rewrite map_filter_lookup.
  destruct (m !! r) as [v|] eqn:Hr; cbn; [|done].
  pose proof (map_filter_empty_not_lookup _ _ r v He) as Hn. cbn in Hn.
  rewrite option_guard_True; [done|]. destruct (drop r); [|done]. by exfalso; apply Hn.
Qed.

Lemma apply_changes_cells chg mov cre s :
  C_cells s -> C_cells (apply_changes chg mov cre s).
Proof.
  intros Hc. unfold C_cells, apply_changes. cbn.
  case_bool_decide as He; cbn.
  - rewrite (filter_none_id (mods s) (fun r => (chg r || mov r) && is_watched s r) He). done.
  - apply map_Forall_empty.
Qed.

(* cells either all survive with the module cache unchanged, or are all forgotten *)
Lemma apply_changes_cells_cases chg mov cre s :
  (cells (apply_changes chg mov cre s) = cells s /\ mods (apply_changes chg mov cre s) = mods s)
  \/ cells (apply_changes chg mov cre s) = ∅.
Proof.
  unfold apply_changes. cbn. case_bool_decide as He; cbn; [left|by right].
  split; [done|]. by apply (filter_none_id (mods s) (fun r => (chg r || mov r) && is_watched s r)).
Qed.

(* The heart of the matter.  If every cached module that is not dropped is still what its stored
   indicator vouches for, and every watched resource whose stored indicator is out of date is named by
   the changes, then afterwards everything cached is current and no stored indicator is out of date. *)
Lemma apply_changes_core chg mov cre s :
  wf_disk (dsk s) -> C_cells s ->
  (forall r v, mods s !! r = Some v ->
     exists i, watched s !! r = Some (Some i) /\
               ((chg r || mov r) = false -> stampw s r = Some i -> matches (dsk s) r v)) ->
  (forall r i, watched s !! r = Some (Some i) -> stampw s r <> Some i ->
               (chg r || mov r) = true \/ (cre r = true /\ mods s !! r = None)) ->
  wf_disk (dsk (apply_changes chg mov cre s)) /\ C_mods (apply_changes chg mov cre s)
  /\ C_watched (apply_changes chg mov cre s) /\ C_cells (apply_changes chg mov cre s).
Proof.
  intros Hwf Hc Hm Hst. split; [done|]. split; [|split; [|by apply apply_changes_cells]].
  - intros r v Hr. apply apply_changes_mods_lookup in Hr as [Hr Hd].
    destruct (Hm r v Hr) as (i & Hwr & Hma).
    assert (is_watched s r = true) as Hiw by (unfold is_watched; rewrite Hwr; by apply bool_decide_eq_true).
    rewrite Hiw, andb_true_r in Hd. pose proof Hd as Hd'. apply orb_false_iff in Hd as [Hchg Hmov].
    rewrite apply_changes_dsk, apply_changes_stampw. unfold apply_changes. cbn.
    rewrite map_lookup_imap, Hwr. cbn. rewrite Hmov, Hchg. cbn.
    destruct (decide (stampw s r = Some i)) as [Hi|Hni].
    + rewrite Hi. split; [eauto|]. split; [by destruct (cre r)|]. by apply Hma.
    + destruct (Hst r i Hwr Hni) as [Hx|[_ Hx]]; congruence.
  - intros r w' Hr. rewrite apply_changes_stampw. unfold apply_changes in Hr. cbn in Hr.
    rewrite map_lookup_imap in Hr.
    destruct (watched s !! r) as [w|] eqn:Hwr; [|done]. cbn in Hr.
    destruct (mov r) eqn:Hmov.
    + destruct (in_mods s r); [done|]. by injection Hr as <-.
    + destruct (chg r || cre r) eqn:Hcc.
      * injection Hr as <-. by destruct (stampw s r).
      * injection Hr as <-. apply orb_false_iff in Hcc as [Hchg Hcre]. destruct w as [i|]; [|done].
        destruct (decide (stampw s r = Some i)) as [Hi|Hni]; [done|].
        destruct (Hst r i Hwr Hni) as [Hx|[Hx _]]; [|congruence]. rewrite Hchg, Hmov in Hx. done.
Qed.

Lemma core_of_parts s :
  wf_disk (dsk s) -> C_mods s -> C_flist s -> C_watched s -> C_cells s -> CacheCoherent s.
Proof. intros. unfold CacheCoherent. tauto. Qed.

(* ============================================================================== validate *)
Lemma forget_all_core s : CacheCoherent s -> CacheCoherent (forget_all s).
Proof.
  intros (?&?&?&?&?). split; [done|]. split; [done|]. split; [done|]. split; [done|].
  apply map_Forall_empty.
Qed.

Lemma stampw_root s : stampw s [] = Some (0%N, 0%N).
Proof. done. Qed.

Lemma stampw_exists s r : is_Some (stampw s r) <-> dexists (dsk s) r = true.
Proof.
  unfold stampw, cur_ind. rewrite dexists_spec. destruct r; [split; eauto|].
  rewrite fmap_is_Some. naive_solver.
Qed.

(* whatever was done behind rope's back below the folder f, in a way that is visible in the indicators,
   validate(f) re-establishes coherence *)
Lemma validate_core f s xs :
  CacheCoherent s -> forallb (xunder f) xs = true -> ind_sound s (foldl xstep s xs) ->
  CacheCoherent (validate_in f (foldl xstep s xs)).
Proof.
  intros (Hwf & Hm & Hf & Hw & Hc) Hu Hs. set (s' := foldl xstep s xs) in *.
  destruct (xsteps_parts s xs) as (Hmo & Hce & Hfl & Hwa & Hcf). fold s' in Hmo, Hce, Hfl, Hwa, Hcf.
  assert (wf_disk (dsk s')) as Hwf' by (by apply xsteps_wf).
  assert (forall r, stampw s' r = cur_ind (cfg s) (dsk s') r) as Hst' by (intros; unfold stampw; by rewrite Hcf).
  (* outside f nothing changed *)
  assert (forall r, inside f r = false -> stampw s' r = stampw s r) as Hout.
  { intros r Hi. rewrite Hst'. unfold stampw, cur_ind. destruct r; [done|].
    assert (dsk s' !! (n :: r) = dsk s !! (n :: r)) as ->; [|done].
    apply (xsteps_untouched s xs (n :: r) Hwf).
    intros x Hx. destruct (xtouch x (n :: r)) eqn:Ht; [|done].
    rewrite forallb_forall in Hu. specialize (Hu x (proj1 (elem_of_list_In _ _) Hx)).
    rewrite (xunder_touch f x _ Hu Ht) in Hi. done. }
  unfold validate_in.
  assert (CacheCoherent (apply_changes (v_chg s' f) (w_gone s' f) (w_created s' f) (set_flist s' None))) as HC;
    [|destruct (fix_forget (cfg s')); [by apply forget_all_core|done]].
  destruct (apply_changes_core (v_chg s' f) (w_gone s' f) (w_created s' f) (set_flist s' None)) as (H1 & H2 & H3 & H4).
  - done.
  - unfold C_cells. cbn. rewrite Hce, Hmo. done.
  - cbn. rewrite Hmo, Hwa. intros r v Hr. destruct (Hm r v Hr) as ([i Hi] & Hwr & Hma).
    exists i. split; [by rewrite Hwr, Hi|]. intros _ Hcur.
    change (stampw (set_flist s' None) r) with (stampw s' r) in Hcur.
    eapply matches_rview; [|exact Hma]. rewrite Hst' in Hcur.
    rewrite Hi in Hwr. exact (Hs r (Some i) Hwr Hcur).
  - cbn. rewrite Hmo, Hwa. intros r i Hwr Hne. left.
    change (stampw (set_flist s' None) r) with (stampw s' r) in Hne.
    pose proof (Hw r (Some i) Hwr) as Hcur. cbn in Hcur.
    destruct (inside f r) eqn:Hin; [|by rewrite Hout, Hcur in Hne].
    assert (is_watched s' r = true) as Hiw by (unfold is_watched; rewrite Hwa, Hwr; by apply bool_decide_eq_true).
    unfold v_chg, w_gone, w_stale. rewrite Hin, Hiw. cbn.
    assert (out_of_date s' r = true) as ->.
    { unfold out_of_date. rewrite Hwa, Hwr. apply negb_true_iff, bool_decide_eq_false. exact Hne. }
    destruct (dexists (dsk s') r); done.
  - apply core_of_parts; done.
Qed.

(* =================================================================== loading modules into the cache *)
Lemma add_mod_core s p v :
  CacheCoherent s -> matches (dsk s) p v -> dexists (dsk s) p = true -> CacheCoherent (add_mod s p v).
Proof.
  intros (Hwf & Hm & Hf & Hw & Hc) Hma He. apply stampw_exists in He.
  apply core_of_parts; try done.
  - intros r v' Hr. change (stampw (add_mod s p v) r) with (stampw s r). cbn in *.
    destruct (decide (r = p)) as [->|Hne].
    + rewrite lookup_insert in Hr. injection Hr as <-. by rewrite lookup_insert.
    + rewrite lookup_insert_ne in Hr by done. rewrite lookup_insert_ne by done. by apply Hm.
  - intros r w Hr. change (stampw (add_mod s p v) r) with (stampw s r). cbn in *.
    destruct (decide (r = p)) as [->|Hne].
    + rewrite lookup_insert in Hr. injection Hr as <-. by destruct (stampw s p).
    + rewrite lookup_insert_ne in Hr by done. by apply (Hw r w).
  - intros k t Hk. cbn in *. specialize (Hc k t Hk). cbn in Hc.
    destruct (decide (t = p)) as [->|Hne]; [by rewrite lookup_insert|by rewrite lookup_insert_ne].
Qed.

(* what loading does not touch, and what it keeps *)
Definition frame (s s' : state) : Prop :=
  dsk s' = dsk s /\ cells s' = cells s /\ flist s' = flist s /\ (cfg s' = cfg s /\ clock s' = clock s)
  /\ (forall r v, mods s !! r = Some v -> mods s' !! r = Some v).

Lemma frame_refl s : frame s s.
Proof. by repeat split. Qed.

Lemma frame_trans s1 s2 s3 : frame s1 s2 -> frame s2 s3 -> frame s1 s3.
Proof.
  intros (A1 & A2 & A3 & [A4 A6] & A5) (B1 & B2 & B3 & [B4 B6] & B5).
  repeat split; try congruence. intros r v Hr. by apply B5, A5.
Qed.

Lemma frame_add_mod s p v : mods s !! p = None -> frame s (add_mod s p v).
Proof.
  intros Hp. repeat split; try done. intros r v' Hr. cbn.
  rewrite lookup_insert_ne; [done|]. congruence.
Qed.

Lemma load_file_frame s p : frame s (load_file s p).1.
Proof.
  unfold load_file. destruct (mods s !! p) eqn:Hp; [apply frame_refl|].
  destruct (dsk s !! p) as [[c mt|mt]|]; try apply frame_refl.
  destruct (cok c); [by apply frame_add_mod|apply frame_refl].
Qed.

Lemma load_file_core s p : CacheCoherent s -> CacheCoherent (load_file s p).1.
Proof.
  intros HC. unfold load_file. destruct (mods s !! p) eqn:Hp; [done|].
  destruct (dsk s !! p) as [[c mt|mt]|] eqn:Hd; try done.
  destruct (cok c) eqn:Hok; [|done]. cbn. apply add_mod_core; [done|cbn; by rewrite Hd|].
  apply dexists_spec. right. by rewrite Hd.
Qed.

Lemma load_frame s p : frame s (load s p).1.
Proof.
  unfold load. destruct (mods s !! p) eqn:Hp; [apply frame_refl|].
  destruct (dsk s !! p) as [[c mt|mt]|] eqn:Hd; [apply load_file_frame| |apply frame_refl].
  cbn. set (s1 := match dsk s !! (p ++ [init_seg]) with Some (File _ _) => (load_file s (p ++ [init_seg])).1 | _ => s end).
  assert (frame s s1) as Hf.
  { subst s1. destruct (dsk s !! (p ++ [init_seg])) as [[c mt'|mt']|]; try apply frame_refl. apply load_file_frame. }
  destruct (mods s1 !! p) eqn:Hp1.
  - (* p itself cannot have been added by loading p/__init__.py *)
    exfalso. subst s1. destruct (dsk s !! (p ++ [init_seg])) as [[c mt'|mt']|] eqn:Hi; try congruence.
    unfold load_file in Hp1. destruct (mods s !! (p ++ [init_seg])); [cbn in Hp1; congruence|].
    rewrite Hi in Hp1. destruct (cok c); cbn in Hp1; [|congruence].
    rewrite lookup_insert_ne in Hp1; [congruence|].
    intros E. apply (f_equal length) in E. rewrite app_length in E. cbn in E. lia.
  - eapply frame_trans; [exact Hf|]. by apply frame_add_mod.
Qed.

Lemma load_core s p : CacheCoherent s -> CacheCoherent (load s p).1.
Proof.
  intros HC. unfold load. destruct (mods s !! p) eqn:Hp; [done|].
  destruct (dsk s !! p) as [[c mt|mt]|] eqn:Hd; [by apply load_file_core| |done].
  cbn. set (s1 := match dsk s !! (p ++ [init_seg]) with Some (File _ _) => (load_file s (p ++ [init_seg])).1 | _ => s end).
  assert (CacheCoherent s1 /\ dsk s1 = dsk s) as [HC1 Hd1].
  { subst s1. destruct (dsk s !! (p ++ [init_seg])) as [[c mt'|mt']|]; try done.
    split; [by apply load_file_core|]. apply load_file_frame. }
  apply add_mod_core; [done| |].
  - cbn. by rewrite Hd1, Hd.
  - rewrite Hd1. apply dexists_spec. right. by rewrite Hd.
Qed.

(* whether loading succeeds, and what ends up cached, is a function of the disk in a coherent state *)
Definition disk_ok (d : disk) (p : list N) : bool :=
  match kind_of <$> d !! p with Some (Some c) => cok c | Some None => true | None => false end.

Lemma load_ok s p : CacheCoherent s -> (load s p).2 = disk_ok (dsk s) p.
Proof.
  intros (_ & Hm & _). unfold load, disk_ok. destruct (mods s !! p) as [v|] eqn:Hp.
  - destruct (Hm p v Hp) as (_ & _ & Hma). destruct v as [c|ch]; cbn in Hma; destruct Hma as [-> ?]; done.
  - destruct (dsk s !! p) as [[c mt|mt]|] eqn:Hd; try done.
    unfold load_file. rewrite Hp, Hd. cbn. by destruct (cok c).
Qed.

Lemma load_lookup s p :
  CacheCoherent s ->
  mods (load s p).1 !! p =
    match mods s !! p with
    | Some v => Some v
    | None => match kind_of <$> dsk s !! p with
              | Some (Some c) => if cok c then Some (PFile c) else None
              | Some None => Some (PPkg None)
              | None => None
              end
    end.
Proof.
  intros _. unfold load. destruct (mods s !! p) as [v|] eqn:Hp; [done|].
  destruct (dsk s !! p) as [[c mt|mt]|] eqn:Hd; cbn; try done.
  - unfold load_file. rewrite Hp, Hd. destruct (cok c); cbn; [by rewrite lookup_insert|done].
  - by rewrite lookup_insert.
Qed.

(* ================================================================== a change made through rope *)
(* every watched resource whose indicator the change touches is named by the event translation *)
Lemma touch_covered s x r i :
  CacheCoherent s -> xguard (dsk s) x = true -> xtouch x r = true -> watched s !! r = Some (Some i) ->
  let e := event_of (dsk s) x in
  (ev_chg e r || ev_mov e r) = true \/ (ev_cre e r = true /\ mods s !! r = None).
Proof.
  intros (Hwf & Hm & _ & Hw & _) Hg Ht Hr.
  assert (dexists (dsk s) r = true) as He.
  { apply stampw_exists. pose proof (Hw r (Some i) Hr) as H. cbn in H. rewrite H. eauto. }
  assert (forall p, p <> [] -> under p r = true -> is_Some (dsk s !! r)) as Hex.
  { intros p Hp Hu. apply dexists_spec in He as [->|?]; [|done]. apply under_nil_r in Hu. done. }
  destruct x as [p c kp|p isd|p|p q]; cbn -[contains] in *.
  - left. by rewrite Ht.
  - apply orb_true_iff in Ht as [Ht|Ht]; [right|left; by rewrite Ht].
    split; [done|]. apply bool_decide_eq_true in Ht as ->.
    destruct (mods s !! p) as [v|] eqn:Hp; [exfalso|done].
    destruct (Hm p v Hp) as (_ & _ & Hma). bool_simp.
    assert (is_Some (dsk s !! p)) as Hs.
    { destruct v; cbn in Hma; destruct Hma as [Hk _]; destruct (dsk s !! p); cbn in Hk; [eauto|done|eauto|done]. }
    assert (dexists (dsk s) p = true) by (apply dexists_spec; by right). congruence.
  - left. apply orb_true_iff in Ht as [Ht|Ht]; [|by rewrite Ht].
    apply orb_true_iff. right. bool_simp. rewrite nonroot_spec in *.
    destruct (decide (r = p)) as [->|Hne]; [by rewrite bool_decide_eq_true_2|].
    apply orb_true_iff. right. apply andb_true_iff. split.
    + eapply wf_under_dir; eauto.
    + unfold contains. rewrite Ht. cbn. apply negb_true_iff, bool_decide_eq_false. congruence.
  - left. apply guard_move_parts in Hg as (Hp0 & Hq0 & Hpe & Hqe & Hqd & Hpq & Hqp).
    apply orb_true_iff in Ht as [Ht|Ht]; [|apply orb_true_iff; left; by rewrite Ht, orb_true_r].
    apply orb_true_iff in Ht as [Ht|Ht]; [|apply orb_true_iff; left; by rewrite Ht].
    apply orb_true_iff in Ht as [Ht|Ht].
    + apply orb_true_iff. right.
      destruct (decide (r = p)) as [->|Hne]; [by rewrite bool_decide_eq_true_2|].
      apply orb_true_iff. right. apply andb_true_iff. split.
      * eapply wf_under_dir; eauto.
      * unfold contains. rewrite Ht. cbn. apply negb_true_iff, bool_decide_eq_false. congruence.
    + exfalso. pose proof (wf_not_exists_under _ q r Hwf Hq0 Hqe Ht) as Hn.
      destruct (Hex q Hq0 Ht) as [? ?]. congruence.
Qed.


Lemma soa_changed_core s p : CacheCoherent s -> CacheCoherent (soa_changed s p).
Proof.
  intros HC. unfold soa_changed. destruct (soa s && is_py_seg (last_seg p)); [|done].
  destruct (dsk s !! p) as [[c mt|mt]|]; try done.
  destruct (load_file s p) as [s1 ok] eqn:E. destruct ok; [|done].
  apply forget_all_core. change s1 with (s1, true).1. rewrite <- E. by apply load_file_core.
Qed.

Lemma set_flist_parts s l :
  dsk (set_flist s l) = dsk s /\ mods (set_flist s l) = mods s /\ cells (set_flist s l) = cells s
  /\ watched (set_flist s l) = watched s.
Proof. done. Qed.

Lemma handle_core s x :
  CacheCoherent s -> xguard (dsk s) x = true ->
  (forall p c kp, x = XWrite p c kp -> kp = false) ->
  CacheCoherent (handle (xstep s x) (event_of (dsk s) x)).
Proof.
  intros HC Hg Hfresh. pose proof HC as (Hwf & Hm & Hf & Hw & Hc).
  set (e := event_of (dsk s) x). set (s1 := xstep s x) in *.
  destruct (xstep_parts s x) as (Hmo & Hce & Hfl & Hwa & Hcf). fold s1 in Hmo, Hce, Hfl, Hwa, Hcf.
  assert (dsk s1 = xdisk (clock s) (dsk s) x) as Hd by (subst s1; unfold xstep; by rewrite Hg).
  assert (wf_disk (dsk s1)) as Hwf1 by (subst s1; by apply xstep_wf).
  (* what the change does not touch has the same indicator and looks the same *)
  assert (forall r, xtouch x r = false -> stampw s1 r = stampw s r /\ rview (dsk s1) r = rview (dsk s) r) as Hun.
  { intros r Ht. unfold stampw. rewrite Hcf, Hd. split; [by apply xdisk_cur_ind|by apply xdisk_rview]. }
  unfold handle. fold e.
  set (s1' := match e with EChanged _ => s1 | _ => set_flist s1 None end).
  assert (watched s1' = watched s /\ mods s1' = mods s /\ dsk s1' = dsk s1 /\ cells s1' = cells s
          /\ (forall r, stampw s1' r = stampw s1 r) /\ cfg s1' = cfg s) as (Hw' & Hm' & Hd' & Hc' & Hs' & Hcf').
  { subst s1'. destruct e; cbn; rewrite ?Hwa, ?Hmo, ?Hce, ?Hcf; done. }
  destruct (apply_changes_core (ev_chg e) (ev_mov e) (ev_cre e) s1') as (A1 & A2 & A3 & A4).
  - by rewrite Hd'.
  - unfold C_cells. rewrite Hc', Hm'. done.
  - rewrite Hm', Hw', Hd'. intros r v Hr. destruct (Hm r v Hr) as ([i Hi] & Hwr & Hma).
    exists i. split; [by rewrite Hwr, Hi|]. intros Hnd _.
    destruct (xtouch x r) eqn:Ht.
    + (* a touched cached module is always named by the event *)
      rewrite Hi in Hwr. destruct (touch_covered s x r i HC Hg Ht Hwr) as [Hx|[_ Hx]]; fold e in Hx; congruence.
    + eapply matches_rview; [apply Hun, Ht|done].
  - rewrite Hm', Hw'. intros r i Hwr Hne. rewrite Hs' in Hne.
    pose proof (Hw r (Some i) Hwr) as Hcur. cbn in Hcur.
    destruct (xtouch x r) eqn:Ht; [by apply touch_covered with i|].
    destruct (Hun r Ht) as [Hx _]. congruence.
  - assert (CacheCoherent (apply_changes (ev_chg e) (ev_mov e) (ev_cre e) s1')) as HC2.
    { apply core_of_parts; try done.
      unfold C_flist. cbn. subst s1'. destruct x as [p c kp|p isd|p|p q]; cbn; try done.
      rewrite Hfl, Hd. cbn. unfold C_flist in Hf. destruct (flist s) as [l|]; [|done].
      cbn in Hg. destruct (dsk s !! p) as [[c' mt|mt]|] eqn:Ep; try done.
      rewrite Hf. symmetry. by eapply files_of_write. }
    destruct e; try (destruct (fix_forget _); [by apply forget_all_core|done]). by apply soa_changed_core.
Qed.

Lemma fresh_x_guard d x : xguard d (fresh_x x) = xguard d x.
Proof. by destruct x. Qed.

Lemma rstep_core_guarded s x :
  CacheCoherent s -> xguard (dsk s) (fresh_x x) = true -> move_raises s (fresh_x x) = false ->
  CacheCoherent (if move_raises s (fresh_x x) then set_flist (xstep s (fresh_x x)) None
                 else handle (xstep s (fresh_x x)) (event_of (dsk s) (fresh_x x))).
Proof.
  intros HC Hg Hr. rewrite Hr. apply handle_core; [done|done|]. intros p c kp. destruct x; cbn; congruence.
Qed.

(* ========================================================================================= queries *)
Lemma load_ok_cached s p :
  CacheCoherent s -> (load s p).2 = true -> is_Some (mods (load s p).1 !! p).
Proof.
  intros HC Hok. rewrite load_ok in Hok by done. rewrite load_lookup by done.
  unfold disk_ok in Hok. destruct (mods s !! p); [eauto|].
  destruct (kind_of <$> dsk s !! p) as [[c|]|]; [rewrite Hok| |done]; eauto.
Qed.

Lemma set_cell_core s k t : CacheCoherent s -> is_Some (mods s !! t) -> CacheCoherent (set_cell s k t).
Proof.
  intros (?&?&?&?&Hc) Ht. apply core_of_parts; try done.
  unfold C_cells. cbn. apply map_Forall_insert_2; done.
Qed.

Lemma set_mod_children_core s p :
  CacheCoherent s -> mods s !! p = Some (PPkg None) ->
  CacheCoherent (set_mod s p (PPkg (Some (children (dsk s) p)))).
Proof.
  intros (Hwf & Hm & Hf & Hw & Hc) Hp. apply core_of_parts; try done.
  - intros r v Hr. change (stampw (set_mod s p (PPkg (Some (children (dsk s) p)))) r) with (stampw s r).
    cbn in *. destruct (decide (r = p)) as [->|Hne].
    + rewrite lookup_insert in Hr. injection Hr as <-. destruct (Hm p _ Hp) as (? & ? & [? _]). done.
    + rewrite lookup_insert_ne in Hr by done. by apply Hm.
  - intros k t Hk. cbn. specialize (Hc k t Hk). cbn in Hc.
    destruct (decide (t = p)) as [->|Hne]; [by rewrite lookup_insert|by rewrite lookup_insert_ne].
Qed.

Lemma frame_dcc s s' : frame s s' -> dsk s' = dsk s /\ cfg s' = cfg s /\ clock s' = clock s.
Proof. intros (?&?&?&[? ?]&?). done. Qed.

Lemma run_query_dsk s q :
  dsk (run_query s q).1 = dsk s /\ cfg (run_query s q).1 = cfg s /\ clock (run_query s q).1 = clock s.
Proof.
  destruct q as [|p|m n|p]; cbn.
  - by destruct (flist s).
  - destruct (load s p) as [s1 ok] eqn:E. cbn. pose proof (load_frame s p) as Hf. rewrite E in Hf.
    by apply frame_dcc.
  - destruct (load s m) as [s1 ok] eqn:E. pose proof (load_frame s m) as Hf. rewrite E in Hf.
    apply frame_dcc in Hf as (Hd & Hs & Hk). cbn in Hd, Hs, Hk.
    destruct (mods s1 !! m) as [[c|]|]; try done.
    destruct (ok && bool_decide (n ∈ cimports c)); [|done].
    destruct (cells s1 !! (m, n)); [done|].
    destruct (find_module (shape (dsk s1)) (parent m) n) as [t|]; [|done].
    destruct (load s1 t) as [s2 ok2] eqn:E2. pose proof (load_frame s1 t) as Hf2. rewrite E2 in Hf2.
    apply frame_dcc in Hf2 as (Hd2 & Hs2 & Hk2). cbn in Hd2, Hs2, Hk2.
    destruct ok2; cbn; repeat split; congruence.
  - destruct (load s p) as [s1 ok] eqn:E. pose proof (load_frame s p) as Hf. rewrite E in Hf.
    apply frame_dcc in Hf as (Hd & Hs & Hk). cbn in Hd, Hs, Hk.
    destruct (mods s1 !! p) as [[c|[l|]]|]; done.
Qed.

Lemma run_query_core s q : CacheCoherent s -> CacheCoherent (run_query s q).1.
Proof.
  intros HC. destruct q as [|p|m n|p]; cbn.
  - destruct (flist s) eqn:Hf; [done|]. cbn. destruct HC as (?&?&?&?&?). by apply core_of_parts.
  - destruct (load s p) as [s1 ok] eqn:E. cbn. change s1 with (s1, ok).1. rewrite <- E. by apply load_core.
  - destruct (load s m) as [s1 ok] eqn:E.
    assert (CacheCoherent s1) as HC1 by (change s1 with (s1, ok).1; rewrite <- E; by apply load_core).
    destruct (mods s1 !! m) as [[c|]|]; try done.
    destruct (ok && bool_decide (n ∈ cimports c)); [|done].
    destruct (cells s1 !! (m, n)); [done|].
    destruct (find_module (shape (dsk s1)) (parent m) n) as [t|]; [|done].
    destruct (load s1 t) as [s2 ok2] eqn:E2.
    assert (CacheCoherent s2) as HC2 by (change s2 with (s2, ok2).1; rewrite <- E2; by apply load_core).
    destruct ok2; [|done]. cbn. apply set_cell_core; [done|].
    change s2 with (s2, true).1. rewrite <- E2. apply load_ok_cached; [done|by rewrite E2].
  - destruct (load s p) as [s1 ok] eqn:E.
    assert (CacheCoherent s1) as HC1 by (change s1 with (s1, ok).1; rewrite <- E; by apply load_core).
    destruct (mods s1 !! p) as [[c|[l|]]|] eqn:Hp; try done.
    cbn. by apply set_mod_children_core.
Qed.

Lemma run_query_resolution s q : Coherent s -> C_resolution (run_query s q).1.
Proof.
  intros [HC HR]. destruct q as [|p|m n|p]; cbn.
  - by destruct (flist s).
  - destruct (load s p) as [s1 ok] eqn:E. cbn. pose proof (load_frame s p) as Hf. rewrite E in Hf.
    destruct Hf as (Hd&Hc&_). unfold C_resolution. cbn in *. by rewrite Hd, Hc.
  - destruct (load s m) as [s1 ok] eqn:E. pose proof (load_frame s m) as Hf. rewrite E in Hf.
    destruct Hf as (Hd&Hc&_). cbn in Hd, Hc.
    assert (C_resolution s1) as HR1 by (unfold C_resolution; by rewrite Hd, Hc).
    destruct (mods s1 !! m) as [[c|]|]; try done.
    destruct (ok && bool_decide (n ∈ cimports c)); [|done].
    destruct (cells s1 !! (m, n)); [done|].
    destruct (find_module (shape (dsk s1)) (parent m) n) as [t|] eqn:Ef; [|done].
    destruct (load s1 t) as [s2 ok2] eqn:E2. pose proof (load_frame s1 t) as Hf2. rewrite E2 in Hf2.
    destruct Hf2 as (Hd2&Hc2&_). cbn in Hd2, Hc2.
    assert (C_resolution s2) as HR2 by (unfold C_resolution; by rewrite Hd2, Hc2).
    destruct ok2; [|done]. unfold C_resolution. cbn.
    apply map_Forall_insert_2; [cbn; by rewrite Hd2|done].
  - destruct (load s p) as [s1 ok] eqn:E. pose proof (load_frame s p) as Hf. rewrite E in Hf.
    destruct Hf as (Hd&Hc&_). cbn in Hd, Hc.
    assert (C_resolution s1) as HR1 by (unfold C_resolution; by rewrite Hd, Hc).
    destruct (mods s1 !! p) as [[c|[l|]]|]; done.
Qed.

Lemma run_query_coherent s q : Coherent s -> Coherent (run_query s q).1.
Proof. intros H. split; [apply run_query_core, H|by apply run_query_resolution]. Qed.

(* ================================================================================ every step *)
Lemma raises_fresh s x : raises s (ORope x) = xguard (dsk s) (fresh_x x) && move_raises s (fresh_x x).
Proof. by destruct x. Qed.

Theorem cache_coherent_inv s o :
  CacheCoherent s -> raises s o = false -> ext_ok s o -> CacheCoherent (step s o).
Proof.
  intros HC Hr He. destruct o as [x|f xs|q]; cbn [step].
  - rewrite raises_fresh in Hr. unfold rstep. destruct (xguard (dsk s) (fresh_x x)) eqn:Hg; [|done].
    cbn in Hr. by apply rstep_core_guarded.
  - destruct He as (_ & Hu & Hs). by apply validate_core.
  - by apply run_query_core.
Qed.

Lemma xstep_cells s x : cells (xstep s x) = cells s.
Proof. apply xstep_parts. Qed.

Lemma xsteps_cells s xs : cells (foldl xstep s xs) = cells s.
Proof. apply xsteps_parts. Qed.

Lemma soa_changed_cells s p : cells (soa_changed s p) = cells s \/ cells (soa_changed s p) = ∅.
Proof.
  unfold soa_changed. destruct (soa s && is_py_seg (last_seg p)); [|by left].
  destruct (dsk s !! p) as [[c mt|mt]|]; try by left.
  destruct (load_file s p) as [s1 ok] eqn:E. destruct ok; [by right|by left].
Qed.

(* concluded cells are never added by a change: they survive as they are or are all forgotten *)
Lemma step_cells s o :
  (forall q, o <> OQuery q) -> cells (step s o) = cells s \/ cells (step s o) = ∅.
Proof.
  intros Hq. destruct o as [x|f xs|q]; [| |by destruct (Hq q)]; cbn [step].
  - unfold rstep. set (x' := fresh_x x). destruct (xguard (dsk s) x') eqn:Hg; [|by left].
    destruct (move_raises s x'); [left; cbn; apply xstep_cells|].
    unfold handle. set (e := event_of (dsk s) x').
    set (s1' := match e with EChanged _ => xstep s x' | _ => set_flist (xstep s x') None end).
    assert (cells s1' = cells s) as Hc1 by (subst s1'; destruct e; cbn; apply xstep_cells).
    set (s2 := apply_changes (ev_chg e) (ev_mov e) (ev_cre e) s1').
    assert (cells s2 = cells s \/ cells s2 = ∅) as H2.
    { destruct (apply_changes_cells_cases (ev_chg e) (ev_mov e) (ev_cre e) s1') as [[Hc _]|Hc];
        [left; subst s2; congruence|by right]. }
    destruct e; try (destruct (fix_forget _); [by right|done]).
    destruct (soa_changed_cells s2 p) as [H|H]; [|by right].
    destruct H2 as [H2|H2]; [left|right]; congruence.
  - unfold validate_in. destruct (fix_forget _); [by right|].
    destruct (apply_changes_cells_cases (v_chg (foldl xstep s xs) f) (w_gone (foldl xstep s xs) f)
                (w_created (foldl xstep s xs) f) (set_flist (foldl xstep s xs) None)) as [[Hc _]|Hc].
    + left. rewrite Hc. cbn. apply xsteps_cells.
    + by right.
Qed.

Theorem coherent_inv_partial s o :
  Coherent s -> raises s o = false -> ext_ok s o -> resolution_unaffected s o -> Coherent (step s o).
Proof.
  intros [HC HR] Hr He Hun.
  assert ((exists q, o = OQuery q) \/ ~ (exists q, o = OQuery q)) as [[q ->]|Hnq].
  { destruct o; [right|right|left]; try (intros [q Hq]; discriminate). eauto. }
  { cbn. by apply run_query_coherent. }
  split; [by apply cache_coherent_inv|].
  destruct (step_cells s o) as [Hc|Hc]; [intros q ->; apply Hnq; eauto| |].
  - unfold C_resolution. unfold resolution_unaffected in Hun. rewrite Hc in *.
    intros k t Hk. rewrite (Hun k t Hk). by apply HR.
  - unfold C_resolution. rewrite Hc. apply map_Forall_empty.
Qed.

(* ------------------------------------------------------------- the answers are those of the disk *)
Definition disk_answer (d : disk) (q : query) : answer :=
  match q with
  | QFiles => AFiles (files_of d)
  | QLoad p =>
      ALoad (match kind_of <$> d !! p with
             | Some (Some c) => if cok c then Some (Some c) else None
             | Some None => Some None
             | None => None
             end)
  | QResolve m n =>
      match kind_of <$> d !! m with
      | Some (Some c) =>
          if cok c && bool_decide (n ∈ cimports c) then
            match find_module (shape d) (parent m) n with
            | None => ATarget (Some None)
            | Some t => if disk_ok d t then ATarget (Some (Some t)) else ATarget None
            end
          else ATarget None
      | _ => ATarget None
      end
  | QChildren p =>
      match kind_of <$> d !! p with
      | Some None => AChildren (Some (children d p))
      | _ => AChildren None
      end
  end.

(* what is cached for p after loading it, in terms of the disk *)
Lemma load_lookup_disk s p :
  CacheCoherent s ->
  match mods (load s p).1 !! p with
  | Some (PFile c) => kind_of <$> dsk s !! p = Some (Some c) /\ cok c = true /\ (load s p).2 = true
  | Some (PPkg ch) => kind_of <$> dsk s !! p = Some None /\ (load s p).2 = true
                      /\ match ch with Some l => l = children (dsk s) p | None => True end
  | None => (load s p).2 = false \/ False
  end.
Proof.
  intros HC. pose proof HC as (_ & Hm & _). rewrite load_lookup, load_ok by done. unfold disk_ok.
  destruct (mods s !! p) as [v|] eqn:Hp.
  - destruct (Hm p v Hp) as (_ & _ & Hma). destruct v as [c|ch]; cbn in Hma; destruct Hma as [Hd ?]; rewrite Hd; done.
  - destruct (kind_of <$> dsk s !! p) as [[c|]|]; [destruct (cok c) eqn:Hc| |]; try done; by left.
Qed.

Lemma query_disk_gen s q :
  CacheCoherent s -> lookup_free q = true \/ C_resolution s -> (run_query s q).2 = disk_answer (dsk s) q.
Proof.
  intros HC HR. pose proof HC as (Hwf & Hm & Hf & Hw & Hc).
  destruct q as [|p|m n|p]; [| |destruct HR as [HR|HR]; [discriminate|]|]; cbn.
  - unfold C_flist in Hf. destruct (flist s); cbn; congruence.
  - destruct (load s p) as [s1 ok] eqn:E. cbn.
    pose proof (load_lookup_disk s p HC) as HL. rewrite E in HL. cbn in HL.
    pose proof (load_ok s p HC) as Hok. rewrite E in Hok. cbn in Hok. unfold disk_ok in Hok.
    destruct (mods s1 !! p) as [[c|ch]|]; cbn.
    + destruct HL as (-> & -> & ->). done.
    + destruct HL as (-> & -> & _). done.
    + destruct HL as [->|[]]. destruct (kind_of <$> dsk s !! p) as [[c|]|]; try done. by rewrite <- Hok.
  - destruct (load s m) as [s1 ok] eqn:E.
    pose proof (load_lookup_disk s m HC) as HL. rewrite E in HL. cbn in HL.
    pose proof (load_frame s m) as HF. rewrite E in HF. destruct HF as (Hd1 & Hc1 & _). cbn in Hd1, Hc1.
    assert (CacheCoherent s1) as HC1 by (change s1 with (s1, ok).1; rewrite <- E; by apply load_core).
    destruct (mods s1 !! m) as [[c|ch]|].
    + destruct HL as (-> & -> & ->). cbn.
      destruct (bool_decide (n ∈ cimports c)); [|done].
      rewrite Hc1, Hd1.
      destruct (cells s !! (m, n)) as [t|] eqn:Hcell.
      * pose proof (HR _ _ Hcell) as Hres.
        change (find_module (shape (dsk s)) (parent m) n = Some t) in Hres. rewrite Hres. cbn.
        destruct (Hc _ _ Hcell) as [v Hv]. destruct (Hm t v Hv) as (_ & _ & Hma).
        unfold disk_ok. destruct v as [c'|ch']; cbn in Hma; destruct Hma as [-> ?]; [|done].
        by rewrite H.
      * destruct (find_module (shape (dsk s)) (parent m) n) as [t|]; [|done].
        destruct (load s1 t) as [s2 ok2] eqn:E2.
        pose proof (load_ok s1 t HC1) as Hok2. rewrite E2, Hd1 in Hok2. cbn in Hok2. rewrite <- Hok2.
        by destruct ok2.
    + destruct HL as (-> & _). done.
    + destruct HL as [->|[]].
      pose proof (load_ok s m HC) as Hok. rewrite E in Hok. cbn in Hok. unfold disk_ok in Hok.
      destruct (kind_of <$> dsk s !! m) as [[c|]|]; try done. by rewrite <- Hok.
  - destruct (load s p) as [s1 ok] eqn:E.
    pose proof (load_lookup_disk s p HC) as HL. rewrite E in HL. cbn in HL.
    pose proof (load_frame s p) as HF. rewrite E in HF. destruct HF as (Hd1 & _). cbn in Hd1.
    destruct (mods s1 !! p) as [[c|[l|]]|]; cbn.
    + destruct HL as (-> & _). done.
    + destruct HL as (-> & _ & ->). done.
    + destruct HL as (-> & _). by rewrite Hd1.
    + destruct HL as [->|[]].
      pose proof (load_ok s p HC) as Hok. rewrite E in Hok. cbn in Hok. unfold disk_ok in Hok.
      destruct (kind_of <$> dsk s !! p) as [[c|]|]; try done.
Qed.

Theorem query_disk s q : Coherent s -> (run_query s q).2 = disk_answer (dsk s) q.
Proof. intros [HC HR]. apply query_disk_gen; auto. Qed.

Lemma fresh_coherent s : wf_disk (dsk s) -> Coherent (fresh s).
Proof.
  intros Hwf. split; [apply core_of_parts; try done; apply map_Forall_empty|apply map_Forall_empty].
Qed.

Theorem query_agrees s q : Coherent s -> (run_query s q).2 = (run_query (fresh s) q).2.
Proof.
  intros HC. rewrite query_disk by done.
  rewrite (query_disk (fresh s)) by (apply fresh_coherent, HC). done.
Qed.

(* ============================================================ the code with the two proposed fixes *)
Lemma soa_changed_frame s p : dsk (soa_changed s p) = dsk s /\ cfg (soa_changed s p) = cfg s.
Proof.
  unfold soa_changed. destruct (soa s && is_py_seg (last_seg p)); [|done].
  destruct (dsk s !! p) as [[c mt|mt]|]; try done.
  destruct (load_file s p) as [s1 ok] eqn:E. pose proof (load_file_frame s p) as HF. rewrite E in HF.
  apply frame_dcc in HF as (Hd & Hc & _). destruct ok; done.
Qed.

Lemma handle_frame s e : dsk (handle s e) = dsk s /\ cfg (handle s e) = cfg s.
Proof.
  unfold handle. destruct e; try (destruct (fix_forget _); done).
  destruct (soa_changed_frame (apply_changes (ev_chg (EChanged p)) (ev_mov (EChanged p)) (ev_cre (EChanged p)) s) p)
    as [-> ->]. done.
Qed.

Lemma xstep_cfg s x : cfg (xstep s x) = cfg s.
Proof. apply xstep_parts. Qed.

Lemma xsteps_cfg s xs : cfg (foldl xstep s xs) = cfg s.
Proof. apply xsteps_parts. Qed.

Lemma step_cfg s o : cfg (step s o) = cfg s.
Proof.
  destruct o as [x|f xs|q]; cbn [step].
  - unfold rstep. destruct (xguard (dsk s) (fresh_x x)); [|done].
    destruct (move_raises s (fresh_x x)); [cbn; apply xstep_cfg|].
    destruct (handle_frame (xstep s (fresh_x x)) (event_of (dsk s) (fresh_x x))) as [_ ->]. apply xstep_cfg.
  - unfold validate_in. destruct (fix_forget _); cbn; apply xsteps_cfg.
  - apply run_query_dsk.
Qed.

Lemma raises_fixed s o : fix_move (cfg s) = true -> raises s o = false.
Proof.
  intros Hf. destruct o as [x| |]; try done. cbn. destruct x; cbn; try by rewrite andb_false_r.
  rewrite Hf. cbn. by rewrite andb_false_r.
Qed.

Lemma resolution_unaffected_fixed s o :
  fix_forget (cfg s) = true -> raises s o = false -> resolution_unaffected s o.
Proof.
  intros Hf Hr. unfold resolution_unaffected.
  destruct o as [x|f xs|q]; cbn [step].
  - rewrite raises_fresh in Hr. unfold rstep. destruct (xguard (dsk s) (fresh_x x)) eqn:Hg; [|by intros k t _].
    cbn in Hr. rewrite Hr.
    destruct x as [p c kp|p isd|p|p q]; cbn [fresh_x] in *.
    + (* a write does not change the shape of the tree *)
      intros k t _.
      destruct (handle_frame (xstep s (XWrite p c false)) (event_of (dsk s) (XWrite p c false))) as [-> _].
      unfold xstep. rewrite Hg. cbn. cbn in Hg. destruct (dsk s !! p) as [[c' mt|mt]|] eqn:Ep; try done.
      by erewrite shape_write.
    + unfold handle. cbn. rewrite xstep_cfg, Hf. apply map_Forall_empty.
    + unfold handle. cbn. rewrite xstep_cfg, Hf. apply map_Forall_empty.
    + unfold handle. cbn. rewrite xstep_cfg, Hf. apply map_Forall_empty.
  - unfold validate_in. rewrite xsteps_cfg, Hf. apply map_Forall_empty.
  - intros k t _. by destruct (run_query_dsk s q) as [-> _].
Qed.

(* with both fixes the invariant holds at full strength for every step: the only hypothesis left is the
   one the property itself makes about changes behind rope's back ([ext_ok]: they are confined to the
   validated folder and visible in the (mtime, size) indicators) *)
Theorem coherent_inv_fixed s o :
  fix_move (cfg s) = true -> fix_forget (cfg s) = true -> ext_ok s o -> Coherent s -> Coherent (step s o).
Proof.
  intros Hm Hf He HC. apply coherent_inv_partial; [done|by apply raises_fixed|done|].
  apply resolution_unaffected_fixed; [done|by apply raises_fixed].
Qed.

Lemma run_coherent_fixed s ops :
  fix_move (cfg s) = true -> fix_forget (cfg s) = true -> ext_sound s ops -> Coherent s -> Coherent (run s ops).
Proof.
  revert s. induction ops as [|o ops IH]; intros s Hm Hf Hes HC; cbn; [done|].
  destruct Hes as [He Hes]. apply IH; rewrite ?step_cfg; try done. by apply coherent_inv_fixed.
Qed.

(* ================================================================================ whole histories *)
Lemma run_coherent s ops : Coherent s -> admissible s ops -> Coherent (run s ops).
Proof.
  revert s. induction ops as [|o ops IH]; intros s HC Ha; cbn; [done|].
  destruct Ha as (Hr & He & Hu & Ha). apply IH; [|done]. by apply coherent_inv_partial.
Qed.

Lemma run_cache_coherent s ops : CacheCoherent s -> no_raise s ops -> CacheCoherent (run s ops).
Proof.
  revert s. induction ops as [|o ops IH]; intros s HC Ha; cbn; [done|].
  destruct Ha as (Hr & He & Ha). apply IH; [|done]. by apply cache_coherent_inv.
Qed.

Lemma init_coherent d b : wf_disk d -> Coherent (init d b).
Proof. intros. by apply (fresh_coherent (init d b)). Qed.

(* ... and every history of every length is answered like by a brand-new project *)
Theorem history_agrees_fixed d c ops q :
  fix_move c = true -> fix_forget c = true -> wf_disk d -> ext_sound (init d c) ops ->
  (run_query (run (init d c) ops) q).2 = (run_query (fresh (run (init d c) ops)) q).2.
Proof.
  intros Hm Hf Hwf He. apply query_agrees, run_coherent_fixed; [done|done|done|by apply init_coherent].
Qed.

Theorem code_history_agrees d b ops q :
  wf_disk d -> ext_sound (init d (code_cfg b)) ops ->
  (run_query (run (init d (code_cfg b)) ops) q).2 = (run_query (fresh (run (init d (code_cfg b)) ops)) q).2.
Proof. intros. by apply history_agrees_fixed. Qed.

Theorem history_agrees d b ops q :
  wf_disk d -> admissible (init d b) ops ->
  (run_query (run (init d b) ops) q).2 = (run_query (fresh (run (init d b) ops)) q).2.
Proof. intros Hwf Ha. apply query_agrees, run_coherent; [by apply init_coherent|done]. Qed.

(* the queries that do not go through module lookup need no side condition on resolution *)
Theorem cache_query_agrees s q :
  CacheCoherent s -> lookup_free q = true -> (run_query s q).2 = (run_query (fresh s) q).2.
Proof.
  intros HC Hq. rewrite query_disk_gen by auto.
  rewrite (query_disk_gen (fresh s)); [done| |by left]. apply fresh_coherent, HC.
Qed.

(* validate(f) catches up with anything done behind rope's back below f, provided each modification of a
   watched resource changes at least one component of its stored (mtime, size) indicator *)
Theorem validate_catches_up f s xs :
  CacheCoherent s -> forallb (xunder f) xs = true -> ind_sound s (foldl xstep s xs) ->
  CacheCoherent (validate_in f (foldl xstep s xs)).
Proof. apply validate_core. Qed.

Lemma admissible_b_spec s ops : admissible_b s ops = true -> admissible s ops.
Proof.
  revert s. induction ops as [|o ops IH]; intros s H; cbn in *; [done|].
  apply andb_true_iff in H as [H H4]. apply andb_true_iff in H as [H H3]. apply andb_true_iff in H as [H1 H2].
  apply negb_true_iff in H1. apply bool_decide_eq_true in H2. apply bool_decide_eq_true in H3. auto.
Qed.

Lemma ext_sound_b_spec s ops : ext_sound_b s ops = true -> ext_sound s ops.
Proof.
  revert s. induction ops as [|o ops IH]; intros s H; cbn in *; [done|].
  apply andb_true_iff in H as [H1 H2]. apply bool_decide_eq_true in H1. auto.
Qed.

Theorem history_cache_agrees d b ops q :
  wf_disk d -> no_raise (init d b) ops -> lookup_free q = true ->
  (run_query (run (init d b) ops) q).2 = (run_query (fresh (run (init d b) ops)) q).2.
Proof.
  intros Hwf Ha Hq. apply cache_query_agrees; [|done].
  apply run_cache_coherent; [apply init_coherent, Hwf|done].
Qed.

(* change sets, refactorings, undo and redo are sequences of primitives made through rope *)
Theorem primitives_cache_coherent s xs :
  CacheCoherent s -> no_raise s (map ORope xs) -> CacheCoherent (run s (map ORope xs)).
Proof. apply run_cache_coherent. Qed.

(* ============================================ queries between changes behind rope's back and validate *)
(* what survives while indicators may be out of date: a cached module whose stored indicator is (still)
   the current one is what is on disk *)
Definition Pending (s : state) : Prop :=
  wf_disk (dsk s) /\ C_cells s /\
  map_Forall (fun r v => exists i, watched s !! r = Some (Some i) /\ (stampw s r = Some i -> matches (dsk s) r v))
             (mods s).

Lemma coherent_pending s : CacheCoherent s -> Pending s.
Proof.
  intros (Hwf & Hm & _ & _ & Hc). split; [done|]. split; [done|].
  intros r v Hr. destruct (Hm r v Hr) as ([i Hi] & Hw & Hma). exists i. by rewrite Hw, Hi.
Qed.

Lemma pending_xstep s x : Pending s -> x_sound s x -> Pending (xstep s x).
Proof.
  intros (Hwf & Hc & Hm) Hs. destruct (xstep_parts s x) as (Hmo & Hce & _ & Hwa & _).
  split; [by apply xstep_wf|]. split; [unfold C_cells; by rewrite Hce, Hmo|].
  rewrite Hmo. intros r v Hr. destruct (Hm r v Hr) as (i & Hw & Hma). exists i. rewrite Hwa. split; [done|].
  intros Hcur. destruct (Hs r (Some i) Hw Hcur) as [Hold Hv]. eapply matches_rview; [exact Hv|by apply Hma].
Qed.

Lemma add_mod_pending s p v :
  Pending s -> matches (dsk s) p v -> dexists (dsk s) p = true -> Pending (add_mod s p v).
Proof.
  intros (Hwf & Hc & Hm) Hma He. apply stampw_exists in He as [i Hi].
  split; [done|]. split.
  - intros k t Hk. cbn in *. specialize (Hc k t Hk). cbn in Hc.
    destruct (decide (t = p)) as [->|Hne]; [by rewrite lookup_insert|by rewrite lookup_insert_ne].
  - intros r v' Hr. change (stampw (add_mod s p v) r) with (stampw s r). cbn in *.
    destruct (decide (r = p)) as [->|Hne].
    + rewrite lookup_insert in Hr. injection Hr as <-. exists i. by rewrite lookup_insert, Hi.
    + rewrite lookup_insert_ne in Hr by done. rewrite lookup_insert_ne by done. by apply Hm.
Qed.

Lemma load_file_pending s p : Pending s -> Pending (load_file s p).1.
Proof.
  intros HP. unfold load_file. destruct (mods s !! p) eqn:Hp; [done|].
  destruct (dsk s !! p) as [[c mt|mt]|] eqn:Hd; try done.
  destruct (cok c) eqn:Hok; [|done]. cbn. apply add_mod_pending; [done|cbn; by rewrite Hd|].
  apply dexists_spec. right. by rewrite Hd.
Qed.

Lemma load_pending s p : Pending s -> Pending (load s p).1.
Proof.
  intros HP. unfold load. destruct (mods s !! p) eqn:Hp; [done|].
  destruct (dsk s !! p) as [[c mt|mt]|] eqn:Hd; [by apply load_file_pending| |done].
  cbn. set (s1 := match dsk s !! (p ++ [init_seg]) with Some (File _ _) => (load_file s (p ++ [init_seg])).1 | _ => s end).
  assert (Pending s1 /\ dsk s1 = dsk s) as [HP1 Hd1].
  { subst s1. destruct (dsk s !! (p ++ [init_seg])) as [[c mt'|mt']|]; try done.
    split; [by apply load_file_pending|]. apply load_file_frame. }
  apply add_mod_pending; [done| |].
  - cbn. by rewrite Hd1, Hd.
  - rewrite Hd1. apply dexists_spec. right. by rewrite Hd.
Qed.

Lemma load_true_cached s p : (load s p).2 = true -> is_Some (mods (load s p).1 !! p).
Proof.
  unfold load. destruct (mods s !! p) as [v|] eqn:Hp; [cbn; rewrite Hp; eauto|].
  destruct (dsk s !! p) as [[c mt|mt]|] eqn:Hd; cbn.
  - unfold load_file. rewrite Hp, Hd. destruct (cok c); cbn; [rewrite lookup_insert; eauto|done].
  - rewrite lookup_insert. eauto.
  - done.
Qed.

Lemma pending_query s q : Pending s -> Pending (run_query s q).1.
Proof.
  intros HP. destruct q as [|p|m n|p]; cbn.
  - by destruct (flist s).
  - destruct (load s p) as [s1 ok] eqn:E. cbn. change s1 with (s1, ok).1. rewrite <- E. by apply load_pending.
  - destruct (load s m) as [s1 ok] eqn:E.
    assert (Pending s1) as HP1 by (change s1 with (s1, ok).1; rewrite <- E; by apply load_pending).
    destruct (mods s1 !! m) as [[c|]|]; try done.
    destruct (ok && bool_decide (n ∈ cimports c)); [|done].
    destruct (cells s1 !! (m, n)); [done|].
    destruct (find_module (shape (dsk s1)) (parent m) n) as [t|]; [|done].
    destruct (load s1 t) as [s2 ok2] eqn:E2.
    assert (Pending s2) as HP2 by (change s2 with (s2, ok2).1; rewrite <- E2; by apply load_pending).
    destruct ok2; [|done]. cbn. destruct HP2 as (Hwf & Hc & Hm). split; [done|]. split; [|done].
    unfold C_cells. cbn. apply map_Forall_insert_2; [|done].
    change s2 with (s2, true).1. rewrite <- E2. apply load_true_cached. by rewrite E2.
  - destruct (load s p) as [s1 ok] eqn:E.
    assert (Pending s1) as HP1 by (change s1 with (s1, ok).1; rewrite <- E; by apply load_pending).
    destruct (mods s1 !! p) as [[c|[l|]]|] eqn:Hp; try done.
    cbn. destruct HP1 as (Hwf & Hc & Hm). split; [done|]. split.
    + intros k t Hk. cbn. specialize (Hc k t Hk). cbn in Hc.
      destruct (decide (t = p)) as [->|Hne]; [by rewrite lookup_insert|by rewrite lookup_insert_ne].
    + intros r v Hr. change (stampw (set_mod s1 p (PPkg (Some (children (dsk s1) p)))) r) with (stampw s1 r).
      cbn in *. destruct (decide (r = p)) as [->|Hne].
      * rewrite lookup_insert in Hr. injection Hr as <-. destruct (Hm p _ Hp) as (i & Hw & Hma).
        exists i. split; [done|]. intros Hcur. destruct (Hma Hcur) as [? _]. done.
      * rewrite lookup_insert_ne in Hr by done. by apply Hm.
Qed.

Lemma pending_steps s ps : Pending s -> pend_sound s ps -> Pending (foldl pend_step s ps).
Proof.
  revert s. induction ps as [|[x|q] ps IH]; intros s HP Hs; cbn in *; [done| |].
  - destruct Hs as [Hx Hs]. apply IH; [by apply pending_xstep|done].
  - apply IH; [by apply pending_query|done].
Qed.

(* validate(f) catches up from any such state, provided everything that is out of date lies below f *)
Theorem validate_pending f s :
  Pending s ->
  (forall r i, watched s !! r = Some (Some i) -> stampw s r <> Some i -> inside f r = true) ->
  CacheCoherent (validate_in f s).
Proof.
  intros (Hwf & Hc & Hm) Hin. unfold validate_in.
  assert (CacheCoherent (apply_changes (v_chg s f) (w_gone s f) (w_created s f) (set_flist s None))) as HC;
    [|destruct (fix_forget (cfg s)); [by apply forget_all_core|done]].
  destruct (apply_changes_core (v_chg s f) (w_gone s f) (w_created s f) (set_flist s None)) as (H1 & H2 & H3 & H4).
  - done.
  - done.
  - cbn. intros r v Hr. destruct (Hm r v Hr) as (i & Hw & Hma). exists i. split; [done|]. intros _. exact Hma.
  - cbn. intros r i Hw Hne. left. change (stampw (set_flist s None) r) with (stampw s r) in Hne.
    pose proof (Hin r i Hw Hne) as Hi.
    assert (is_watched s r = true) as Hiw by (unfold is_watched; rewrite Hw; by apply bool_decide_eq_true).
    unfold v_chg, w_gone, w_stale. rewrite Hi, Hiw. cbn.
    assert (out_of_date s r = true) as ->.
    { unfold out_of_date. rewrite Hw. apply negb_true_iff, bool_decide_eq_false. exact Hne. }
    destruct (dexists (dsk s) r); done.
  - apply core_of_parts; done.
Qed.

(* project.validate() after any interleaving of sound changes behind rope's back and queries *)
Theorem validate_after_queries s ps :
  CacheCoherent s -> pend_sound s ps -> CacheCoherent (validate (foldl pend_step s ps)).
Proof.
  intros HC Hs. apply validate_pending; [by apply pending_steps; [apply coherent_pending|]|].
  intros r i Hw Hne. apply inside_spec. apply under_spec. by exists r.
Qed.

Lemma pend_sound_b_spec s ps : pend_sound_b s ps = true -> pend_sound s ps.
Proof.
  revert s. induction ps as [|[x|q] ps IH]; intros s H; cbn in *; [done| |by apply IH].
  apply andb_true_iff in H as [H1 H2]. apply bool_decide_eq_true in H1. auto.
Qed.
