(* Proofs about the C13 model. *)
From stdpp Require Import gmap list sets.
From Coq Require Import NArith Lia.
From RopeVerif.C13 Require Import Observer PathProofs.

Local Arguments find_module : simpl never.
Local Arguments children : simpl never.
Local Arguments files_of : simpl never.
Local Arguments shape : simpl never.

Local Ltac bool_simp :=
  repeat match goal with
  | H : _ && _ = true |- _ => apply andb_true_iff in H as [? ?]
  | H : _ || _ = false |- _ => apply orb_false_iff in H as [? ?]
  | H : negb _ = true |- _ => apply negb_true_iff in H
  | H : negb _ = false |- _ => apply negb_false_iff in H
  | H : bool_decide _ = true |- _ => apply bool_decide_eq_true in H
  | H : bool_decide _ = false |- _ => apply bool_decide_eq_false in H
  end.

(* =============================================================== the tree under the primitives *)
Lemma guard_move_parts d p q :
  xguard d (XMove p q) = true ->
  p <> [] /\ q <> [] /\ dexists d p = true /\ dexists d q = false /\ disdir d (parent q) = true
  /\ under p q = false /\ under q p = false.
Proof.
  cbn. intros H. bool_simp. rewrite nonroot_spec in *. done.
Qed.

(* a resource whose indicator the modification does not touch is unchanged *)
Lemma xdisk_untouched d x r :
  wf_disk d -> xguard d x = true -> xtouch x r = false -> xdisk d x !! r = d !! r.
Proof.
  intros Hwf Hg Ht.
  destruct x as [p c|p isd|p|p q]; [| | |apply guard_move_parts in Hg as (?&?&?&?&?&?&?)]; cbn in *; bool_simp.
  - by rewrite lookup_insert_ne.
  - by rewrite lookup_insert_ne.
  - rewrite remove_tree_lookup. by destruct (under p r).
  - by apply move_tree_lookup_other.
Qed.

(* ... and so is the existence of each of its children *)
Lemma xdisk_child_exists d x r k :
  wf_disk d -> xguard d x = true -> xtouch x r = false -> child_of r k = true ->
  is_Some (xdisk d x !! k) <-> is_Some (d !! k).
Proof.
  intros Hwf Hg Ht Hc.
  destruct x as [p c|p isd|p|p q]; [| | |apply guard_move_parts in Hg as (?&?&?&?&?&?&?)]; cbn in *; bool_simp.
  - destruct (d !! p) as [[c'|]|] eqn:Ep; try done.
    destruct (decide (k = p)) as [->|]; [rewrite lookup_insert, Ep; by split|by rewrite lookup_insert_ne].
  - destruct (decide (k = p)) as [->|]; [|by rewrite lookup_insert_ne].
    apply child_of_spec in Hc as [_ Hc]. congruence.
  - rewrite remove_tree_lookup. destruct (under p k) eqn:Eu; [|done].
    destruct (child_under p r k Hc Eu) as [->|?]; [|congruence].
    apply child_of_spec in Hc as [_ Hc]. congruence.
  - rewrite move_tree_lookup_other; [done|done|done| |].
    + destruct (under p k) eqn:Eu; [|done].
      destruct (child_under p r k Hc Eu) as [->|?]; [|congruence].
      apply child_of_spec in Hc as [_ Hc]. congruence.
    + destruct (under q k) eqn:Eu; [|done].
      destruct (child_under q r k Hc Eu) as [->|?]; [|congruence].
      apply child_of_spec in Hc as [_ Hc]. congruence.
Qed.

Lemma is_submodule_ext d d' r k :
  (forall k', child_of r k' = true -> is_Some (d' !! k') <-> is_Some (d !! k')) ->
  child_of r k = true -> is_submodule d' k = is_submodule d k.
Proof.
  intros H Hc. unfold is_submodule.
  apply child_of_spec in Hc as [Hk Hp].
  assert (child_of r (parent k ++ [(last_seg k + 1)%N]) = true) as Hs.
  { apply child_of_spec. split; [by destruct (parent k)|]. rewrite parent_snoc. done. }
  specialize (H _ Hs). f_equal. f_equal. f_equal.
  apply bool_decide_ext. done.
Qed.

Lemma children_ext d d' r :
  (forall k, child_of r k = true -> is_Some (d' !! k) <-> is_Some (d !! k)) ->
  children d' r = children d r.
Proof.
  intros H. unfold children. apply set_eq. intros k.
  rewrite !elem_of_dom. unfold is_Some. setoid_rewrite map_filter_lookup_Some. cbn.
  split; intros (v & Hv & Hc); apply andb_true_iff in Hc as [Hc Hs].
  - destruct (proj1 (H k Hc) (ex_intro _ v Hv)) as [v' Hv']. exists v'. split; [done|].
    rewrite Hc. cbn. by rewrite <- (is_submodule_ext d d' r k H Hc).
  - destruct (proj2 (H k Hc) (ex_intro _ v Hv)) as [v' Hv']. exists v'. split; [done|].
    rewrite Hc. cbn. by rewrite (is_submodule_ext d d' r k H Hc).
Qed.

Lemma xdisk_children d x r :
  wf_disk d -> xguard d x = true -> xtouch x r = false -> children (xdisk d x) r = children d r.
Proof. intros. apply children_ext. intros. by apply (xdisk_child_exists d x r). Qed.

Lemma xdisk_matches d x r v :
  wf_disk d -> xguard d x = true -> xtouch x r = false -> matches d r v -> matches (xdisk d x) r v.
Proof.
  intros Hwf Hg Ht. destruct v as [c|ch]; cbn.
  - by rewrite xdisk_untouched.
  - rewrite xdisk_untouched by done. intros [? Hch]. split; [done|].
    destruct ch; [|done]. by rewrite xdisk_children.
Qed.

Lemma xdisk_dexists d x r :
  wf_disk d -> xguard d x = true -> xtouch x r = false -> dexists (xdisk d x) r = dexists d r.
Proof.
  intros. destruct r; [done|]. unfold dexists. by rewrite xdisk_untouched.
Qed.

(* the file list does not depend on contents *)
Lemma files_of_write d p c c' :
  d !! p = Some (File c) -> files_of (<[p := File c']> d) = files_of d.
Proof.
  intros Hp. unfold files_of. apply set_eq. intros k.
  rewrite !elem_of_dom. unfold is_Some. setoid_rewrite map_filter_lookup_Some. cbn.
  destruct (decide (k = p)) as [->|].
  - rewrite lookup_insert, Hp. split; intros (v & [= <-] & ?); eauto.
  - by rewrite lookup_insert_ne.
Qed.

Lemma shape_write d p c c' :
  d !! p = Some (File c) -> shape (<[p := File c']> d) = shape d.
Proof.
  intros Hp. unfold shape. rewrite fmap_insert. cbn.
  apply insert_id. by rewrite lookup_fmap, Hp.
Qed.

(* ------------------------------------------------------------------ well-formedness is preserved *)
Lemma disdir_insert_file d p c k :
  d !! p = None \/ (exists c', d !! p = Some (File c')) ->
  disdir d k = true -> disdir (<[p := File c]> d) k = true.
Proof.
  intros Hp. rewrite !disdir_spec. intros [->|Hk]; [by left|right].
  rewrite lookup_insert_ne; [done|]. intros ->. destruct Hp as [Hp|[c' Hp]]; congruence.
Qed.

Lemma disdir_insert_new d p n k :
  d !! p = None -> disdir d k = true -> disdir (<[p := n]> d) k = true.
Proof.
  intros Hp. rewrite !disdir_spec. intros [->|Hk]; [by left|right].
  rewrite lookup_insert_ne; [done|]. congruence.
Qed.

Lemma xdisk_wf d x : wf_disk d -> xguard d x = true -> wf_disk (xdisk d x).
Proof.
  intros Hwf Hg. destruct x as [p c|p isd|p|p q]; cbn in *.
  - destruct (d !! p) as [[c'|]|] eqn:Ep; try done.
    intros k n Hk. destruct (decide (k = p)) as [->|Hne].
    + destruct (Hwf _ _ Ep) as [? Hd]. split; [done|]. apply disdir_insert_file; eauto.
    + rewrite lookup_insert_ne in Hk by done. destruct (Hwf _ _ Hk) as [? Hd].
      split; [done|]. apply disdir_insert_file; eauto.
  - bool_simp. rewrite nonroot_spec in *.
    assert (d !! p = None) as Ep.
    { destruct p; [done|]. cbn in *. bool_simp. by apply eq_None_not_Some. }
    intros k n Hk. destruct (decide (k = p)) as [->|Hne].
    + split; [done|]. by apply disdir_insert_new.
    + rewrite lookup_insert_ne in Hk by done. destruct (Hwf _ _ Hk) as [? Hd].
      split; [done|]. by apply disdir_insert_new.
  - intros k n Hk. rewrite remove_tree_lookup in Hk.
    destruct (under p k) eqn:Eu; [done|]. destruct (Hwf _ _ Hk) as [Hk0 Hd]. split; [done|].
    apply disdir_spec in Hd as [Hd|Hd]; apply disdir_spec; [by left|right].
    rewrite remove_tree_lookup. destruct (under p (parent k)) eqn:Eu'; [|done].
    rewrite (under_of_parent p k Eu') in Eu; [done|by apply nonroot_spec].
  - apply guard_move_parts in Hg as (Hp0 & Hq0 & Hpe & Hqe & Hqd & Hpq & Hqp).
    intros k n Hk. rewrite move_tree_lookup in Hk by done.
    destruct (under p k) eqn:Eup; [done|].
    destruct (under q k) eqn:Euq.
    + apply under_spec in Euq as [r ->]. rewrite swapf_under_q in Hk by done.
      split; [by destruct q|].
      destruct r as [|x r].
      * rewrite app_nil_r. apply disdir_spec in Hqd as [Hqd|Hqd]; apply disdir_spec; [by left|right].
        rewrite move_tree_lookup_other; [done|done|done| |].
        -- destruct (under p (parent q)) eqn:E; [|done].
           rewrite (under_of_parent p q E) in Hpq; [done|by apply nonroot_spec].
        -- by apply not_under_parent_self.
      * rewrite parent_app_nonnil by done. apply disdir_spec. right.
        rewrite move_tree_lookup_q by done.
        destruct (Hwf _ _ Hk) as [_ Hd]. rewrite parent_app_nonnil in Hd by done.
        apply disdir_spec in Hd as [Hd|Hd]; [by destruct p|done].
    + rewrite swapf_other in Hk by done. destruct (Hwf _ _ Hk) as [Hk0 Hd]. split; [done|].
      apply disdir_spec in Hd as [Hd|Hd]; apply disdir_spec; [by left|right].
      rewrite move_tree_lookup_other; [done|done|done| |].
      * destruct (under p (parent k)) eqn:E; [|done].
        rewrite (under_of_parent p k E) in Eup; [done|by apply nonroot_spec].
      * destruct (under q (parent k)) eqn:E; [|done].
        rewrite (under_of_parent q k E) in Euq; [done|by apply nonroot_spec].
Qed.

(* ====================================================== the invariant while indicators may be stale *)
Definition P_mods (s : state) : Prop :=
  map_Forall (fun r v => exists w, watched s !! r = Some w /\ w <> WNone /\ (w = WCur -> matches (dsk s) r v))
             (mods s).
Definition P_watched (s : state) : Prop :=
  map_Forall (fun r w => w = WCur -> dexists (dsk s) r = true) (watched s).
Definition PendInv (s : state) : Prop :=
  wf_disk (dsk s) /\ P_mods s /\ P_watched s /\ C_cells s.

Lemma coherent_pend s : CacheCoherent s -> PendInv s.
Proof.
  intros (Hwf & Hm & _ & Hw & Hc). split; [done|]. split; [|split; [|done]].
  - intros r v Hr. destruct (Hm r v Hr) as [Hwr Hma]. exists WCur. done.
  - intros r w Hr. by destruct (Hw r w Hr).
Qed.

Lemma stale_of_cur w : stale_of w = WCur -> False.
Proof. by destruct w. Qed.

Lemma stale_of_none w : stale_of w = WNone -> w = WNone.
Proof. by destruct w. Qed.

Lemma xstep_watched s x r :
  xguard (dsk s) x = true ->
  watched (xstep s x) !! r = (fun w => if xtouch x r then stale_of w else w) <$> watched s !! r.
Proof.
  intros Hg. unfold xstep. rewrite Hg. cbn. rewrite map_lookup_imap.
  by destruct (watched s !! r).
Qed.

Lemma xstep_pend s x : PendInv s -> PendInv (xstep s x).
Proof.
  intros (Hwf & Hm & Hw & Hc).
  destruct (xguard (dsk s) x) eqn:Hg; [|unfold xstep; by rewrite Hg].
  assert (dsk (xstep s x) = xdisk (dsk s) x) as Hd by (unfold xstep; by rewrite Hg).
  assert (mods (xstep s x) = mods s) as Hmo by (unfold xstep; by rewrite Hg).
  assert (cells (xstep s x) = cells s) as Hce by (unfold xstep; by rewrite Hg).
  split; [rewrite Hd; by apply xdisk_wf|]. split; [|split].
  - intros r v Hr. rewrite Hmo in Hr. destruct (Hm r v Hr) as (w & Hwr & Hn & Hma).
    rewrite xstep_watched, Hwr by done. cbn. eexists. split; [done|].
    destruct (xtouch x r) eqn:Ht.
    + split; [by intros ?%stale_of_none|]. by intros ?%stale_of_cur.
    + split; [done|]. intros ->. rewrite Hd. apply xdisk_matches; auto.
  - intros r w Hr. rewrite xstep_watched in Hr by done.
    destruct (watched s !! r) as [w0|] eqn:Hw0; [|done]. cbn in Hr. injection Hr as <-.
    destruct (xtouch x r) eqn:Ht; [by intros ?%stale_of_cur|].
    intros ->. rewrite Hd, xdisk_dexists by done. by apply (Hw r WCur).
  - unfold C_cells. rewrite Hce, Hmo. done.
Qed.

Lemma xsteps_pend s xs : PendInv s -> PendInv (foldl xstep s xs).
Proof. revert s. induction xs as [|x xs IH]; intros s H; cbn; [done|]. apply IH. by apply xstep_pend. Qed.

(* ================================================================ _perform_changes + the callback *)
Lemma apply_changes_dsk chg mov cre s : dsk (apply_changes chg mov cre s) = dsk s.
Proof. done. Qed.

Lemma apply_changes_mods_lookup chg mov cre s r v :
  mods (apply_changes chg mov cre s) !! r = Some v <->
  mods s !! r = Some v /\ ((chg r || mov r) && is_watched s r) = false.
Proof. unfold apply_changes. cbn. by rewrite map_filter_lookup_Some. Qed.

(* nothing was dropped: the module cache is unchanged *)
Lemma filter_none_id (m : gmap (list N) parsed) (drop : list N -> bool) :
  filter (fun kv : list N * parsed => drop kv.1 = true) m = ∅ ->
  filter (fun kv : list N * parsed => drop kv.1 = false) m = m.
Proof.
  intros He. apply map_eq. intros r. rewrite map_filter_lookup.
  destruct (m !! r) as [v|] eqn:Hr; cbn; [|done].
  pose proof (map_filter_empty_not_lookup _ _ r v He) as Hn. cbn in Hn.
  rewrite option_guard_True; [done|]. destruct (drop r); [|done]. by exfalso; apply Hn.
Qed.

Lemma apply_changes_cells chg mov cre s :
  C_cells s -> C_cells (apply_changes chg mov cre s).
Proof.
  intros Hc. unfold C_cells, apply_changes. cbn.
  case_bool_decide as He; cbn.
  - rewrite (filter_none_id (mods s) (fun r => (chg r || mov r) && is_watched s r) He). done.
  - apply map_Forall_empty.
Qed.

(* cells either all survive with the module cache unchanged, or are all forgotten *)
Lemma apply_changes_cells_cases chg mov cre s :
  (cells (apply_changes chg mov cre s) = cells s /\ mods (apply_changes chg mov cre s) = mods s)
  \/ cells (apply_changes chg mov cre s) = ∅.
Proof.
  unfold apply_changes. cbn. case_bool_decide as He; cbn; [left|by right].
  split; [done|]. by apply (filter_none_id (mods s) (fun r => (chg r || mov r) && is_watched s r)).
Qed.

Lemma apply_changes_core chg mov cre s :
  PendInv s ->
  (forall r, watched s !! r = Some WStale ->
             (chg r || mov r) = true \/ (cre r = true /\ mods s !! r = None)) ->
  wf_disk (dsk (apply_changes chg mov cre s)) /\ C_mods (apply_changes chg mov cre s)
  /\ C_watched (apply_changes chg mov cre s) /\ C_cells (apply_changes chg mov cre s).
Proof.
  intros (Hwf & Hm & Hw & Hc) Hst. split; [done|]. split; [|split; [|by apply apply_changes_cells]].
  - intros r v Hr. apply apply_changes_mods_lookup in Hr as [Hr Hd].
    destruct (Hm r v Hr) as (w & Hwr & Hn & Hma).
    assert (is_watched s r = true) as Hiw by (unfold is_watched; rewrite Hwr; by apply bool_decide_eq_true).
    rewrite Hiw, andb_true_r in Hd. apply orb_false_iff in Hd as [Hchg Hmov].
    rewrite apply_changes_dsk. unfold apply_changes. cbn.
    rewrite map_lookup_imap, Hwr. cbn. rewrite Hmov, Hchg. cbn.
    destruct w; [done| |].
    + specialize (Hw r WCur Hwr eq_refl). split; [|by apply Hma].
      destruct (cre r); [|done]. unfold stampw. by rewrite Hw.
    + destruct (Hst r Hwr) as [Hx|[_ Hx]]; [|congruence].
      rewrite Hchg, Hmov in Hx. done.
  - intros r w' Hr. rewrite apply_changes_dsk. unfold apply_changes in Hr. cbn in Hr.
    rewrite map_lookup_imap in Hr.
    destruct (watched s !! r) as [w|] eqn:Hwr; [|done]. cbn in Hr.
    destruct (mov r) eqn:Hmov.
    + destruct (in_mods s r); [done|]. injection Hr as <-. done.
    + destruct (chg r || cre r) eqn:Hcc.
      * injection Hr as <-. unfold stampw. destruct (dexists (dsk s) r); done.
      * injection Hr as <-. apply orb_false_iff in Hcc as [Hchg Hcre]. split.
        -- intros ->. destruct (Hst r Hwr) as [Hx|[Hx _]]; [|congruence].
           rewrite Hchg, Hmov in Hx. done.
        -- by apply (Hw r w Hwr).
Qed.

(* ============================================================================== validate *)
Lemma pend_set_flist s l : PendInv s -> PendInv (set_flist s l).
Proof. done. Qed.

Lemma forget_all_core s : CacheCoherent s -> CacheCoherent (forget_all s).
Proof.
  intros (?&?&?&?&?). split; [done|]. split; [done|]. split; [done|]. split; [done|].
  apply map_Forall_empty.
Qed.

Lemma validate_core s : PendInv s -> CacheCoherent (validate s).
Proof.
  intros HP. unfold validate.
  assert (CacheCoherent (apply_changes (v_chg s) (w_gone s) (w_created s) (set_flist s None))) as HC;
    [|destruct (fix_forget (cfg s)); [by apply forget_all_core|done]].
  destruct (apply_changes_core (v_chg s) (w_gone s) (w_created s) (set_flist s None)) as (H1 & H2 & H3 & H4).
  - by apply pend_set_flist.
  - cbn. intros r Hr. left.
    assert (is_watched s r = true) as Hiw by (unfold is_watched; rewrite Hr; by apply bool_decide_eq_true).
    unfold v_chg, w_gone, w_stale. rewrite Hiw. cbn.
    rewrite (bool_decide_eq_true_2 _ Hr).
    destruct (dexists (dsk s) r); done.
  - split; [done|]. split; [done|]. split; [|done]. done.
Qed.

(* =================================================================== loading modules into the cache *)
Lemma add_mod_core s p v :
  CacheCoherent s -> matches (dsk s) p v -> dexists (dsk s) p = true -> CacheCoherent (add_mod s p v).
Proof.
  intros (Hwf & Hm & Hf & Hw & Hc) Hma He. split; [done|]. split; [|split; [done|split]].
  - intros r v' Hr. cbn in *. destruct (decide (r = p)) as [->|Hne].
    + rewrite lookup_insert in Hr. injection Hr as <-. rewrite lookup_insert. unfold stampw. by rewrite He.
    + rewrite lookup_insert_ne in Hr by done. rewrite lookup_insert_ne by done. by apply Hm.
  - intros r w Hr. cbn in *. destruct (decide (r = p)) as [->|Hne].
    + rewrite lookup_insert in Hr. injection Hr as <-. unfold stampw. by rewrite He.
    + rewrite lookup_insert_ne in Hr by done. by apply (Hw r w).
  - intros k t Hk. cbn in *. specialize (Hc k t Hk). cbn in Hc.
    destruct (decide (t = p)) as [->|Hne]; [by rewrite lookup_insert|by rewrite lookup_insert_ne].
Qed.

(* what loading does not touch, and what it keeps *)
Definition frame (s s' : state) : Prop :=
  dsk s' = dsk s /\ cells s' = cells s /\ flist s' = flist s /\ cfg s' = cfg s
  /\ (forall r v, mods s !! r = Some v -> mods s' !! r = Some v).

Lemma frame_refl s : frame s s.
Proof. by repeat split. Qed.

Lemma frame_trans s1 s2 s3 : frame s1 s2 -> frame s2 s3 -> frame s1 s3.
Proof.
  intros (A1 & A2 & A3 & A4 & A5) (B1 & B2 & B3 & B4 & B5).
  repeat split; try congruence. intros r v Hr. by apply B5, A5.
Qed.

Lemma frame_add_mod s p v : mods s !! p = None -> frame s (add_mod s p v).
Proof.
  intros Hp. repeat split; try done. intros r v' Hr. cbn.
  rewrite lookup_insert_ne; [done|]. congruence.
Qed.

Lemma load_file_frame s p : frame s (load_file s p).1.
Proof.
  unfold load_file. destruct (mods s !! p) eqn:Hp; [apply frame_refl|].
  destruct (dsk s !! p) as [[c|]|]; try apply frame_refl.
  destruct (cok c); [by apply frame_add_mod|apply frame_refl].
Qed.

Lemma load_file_core s p : CacheCoherent s -> CacheCoherent (load_file s p).1.
Proof.
  intros HC. unfold load_file. destruct (mods s !! p) eqn:Hp; [done|].
  destruct (dsk s !! p) as [[c|]|] eqn:Hd; try done.
  destruct (cok c) eqn:Hok; [|done]. cbn. apply add_mod_core; [done|by cbn|].
  apply dexists_spec. right. by rewrite Hd.
Qed.

Lemma load_frame s p : frame s (load s p).1.
Proof.
  unfold load. destruct (mods s !! p) eqn:Hp; [apply frame_refl|].
  destruct (dsk s !! p) as [[c|]|] eqn:Hd; [apply load_file_frame| |apply frame_refl].
  cbn. set (s1 := match dsk s !! (p ++ [init_seg]) with Some (File _) => (load_file s (p ++ [init_seg])).1 | _ => s end).
  assert (frame s s1) as Hf.
  { subst s1. destruct (dsk s !! (p ++ [init_seg])) as [[c|]|]; try apply frame_refl. apply load_file_frame. }
  destruct (mods s1 !! p) eqn:Hp1.
  - (* p itself cannot have been added by loading p/__init__.py *)
    exfalso. subst s1. destruct (dsk s !! (p ++ [init_seg])) as [[c|]|] eqn:Hi; try congruence.
    unfold load_file in Hp1. destruct (mods s !! (p ++ [init_seg])); [cbn in Hp1; congruence|].
    rewrite Hi in Hp1. destruct (cok c); cbn in Hp1; [|congruence].
    rewrite lookup_insert_ne in Hp1; [congruence|].
    intros E. apply (f_equal length) in E. rewrite app_length in E. cbn in E. lia.
  - eapply frame_trans; [exact Hf|]. by apply frame_add_mod.
Qed.

Lemma load_core s p : CacheCoherent s -> CacheCoherent (load s p).1.
Proof.
  intros HC. unfold load. destruct (mods s !! p) eqn:Hp; [done|].
  destruct (dsk s !! p) as [[c|]|] eqn:Hd; [by apply load_file_core| |done].
  cbn. set (s1 := match dsk s !! (p ++ [init_seg]) with Some (File _) => (load_file s (p ++ [init_seg])).1 | _ => s end).
  assert (CacheCoherent s1 /\ dsk s1 = dsk s) as [HC1 Hd1].
  { subst s1. destruct (dsk s !! (p ++ [init_seg])) as [[c|]|]; try done.
    split; [by apply load_file_core|]. apply load_file_frame. }
  apply add_mod_core; [done| |].
  - cbn. rewrite Hd1. done.
  - rewrite Hd1. apply dexists_spec. right. by rewrite Hd.
Qed.

(* whether loading succeeds, and what ends up cached, is a function of the disk in a coherent state *)
Definition disk_ok (d : disk) (p : list N) : bool :=
  match d !! p with Some (File c) => cok c | Some Dir => true | None => false end.

Lemma load_ok s p : CacheCoherent s -> (load s p).2 = disk_ok (dsk s) p.
Proof.
  intros (_ & Hm & _). unfold load, disk_ok. destruct (mods s !! p) as [v|] eqn:Hp.
  - destruct (Hm p v Hp) as [_ Hma]. destruct v as [c|ch]; cbn in Hma; destruct Hma as [-> ?]; done.
  - destruct (dsk s !! p) as [[c|]|] eqn:Hd; try done.
    unfold load_file. rewrite Hp, Hd. by destruct (cok c).
Qed.

Lemma load_lookup s p :
  CacheCoherent s ->
  mods (load s p).1 !! p =
    match mods s !! p with
    | Some v => Some v
    | None => match dsk s !! p with
              | Some (File c) => if cok c then Some (PFile c) else None
              | Some Dir => Some (PPkg None)
              | None => None
              end
    end.
Proof.
  intros _. unfold load. destruct (mods s !! p) as [v|] eqn:Hp; [done|].
  destruct (dsk s !! p) as [[c|]|] eqn:Hd; try done.
  - unfold load_file. rewrite Hp, Hd. destruct (cok c); cbn; [by rewrite lookup_insert|done].
  - cbn. by rewrite lookup_insert.
Qed.


(* ================================================================== a change made through rope *)
(* every watched resource whose indicator the change touches is named by the event translation *)
Lemma touch_covered s x r :
  CacheCoherent s -> xguard (dsk s) x = true -> xtouch x r = true -> watched s !! r = Some WCur ->
  let e := event_of (dsk s) x in
  (ev_chg e r || ev_mov e r) = true \/ (ev_cre e r = true /\ mods s !! r = None).
Proof.
  intros (Hwf & Hm & _ & Hw & _) Hg Ht Hr.
  destruct (Hw r WCur Hr) as [_ He]. specialize (He eq_refl).
  assert (forall p, p <> [] -> under p r = true -> is_Some (dsk s !! r)) as Hex.
  { intros p Hp Hu. apply dexists_spec in He as [->|?]; [|done]. apply under_nil_r in Hu. done. }
  destruct x as [p c|p isd|p|p q]; cbn -[contains] in *.
  - left. by rewrite Ht.
  - apply orb_true_iff in Ht as [Ht|Ht]; [right|left; by rewrite Ht].
    split; [done|]. apply bool_decide_eq_true in Ht as ->.
    destruct (mods s !! p) as [v|] eqn:Hp; [exfalso|done].
    destruct (Hm p v Hp) as [_ Hma]. bool_simp.
    assert (is_Some (dsk s !! p)) as Hs by (destruct v; cbn in Hma; destruct Hma as [-> _]; eauto).
    assert (dexists (dsk s) p = true) by (apply dexists_spec; by right). congruence.
  - left. apply orb_true_iff in Ht as [Ht|Ht]; [|by rewrite Ht].
    apply orb_true_iff. right. bool_simp. rewrite nonroot_spec in *.
    destruct (decide (r = p)) as [->|Hne]; [by rewrite bool_decide_eq_true_2|].
    apply orb_true_iff. right. apply andb_true_iff. split.
    + eapply wf_under_dir; eauto.
    + unfold contains. rewrite Ht. cbn. apply negb_true_iff, bool_decide_eq_false. congruence.
  - left. apply guard_move_parts in Hg as (Hp0 & Hq0 & Hpe & Hqe & Hqd & Hpq & Hqp).
    apply orb_true_iff in Ht as [Ht|Ht]; [|apply orb_true_iff; left; by rewrite Ht, orb_true_r].
    apply orb_true_iff in Ht as [Ht|Ht]; [|apply orb_true_iff; left; by rewrite Ht].
    apply orb_true_iff in Ht as [Ht|Ht].
    + apply orb_true_iff. right.
      destruct (decide (r = p)) as [->|Hne]; [by rewrite bool_decide_eq_true_2|].
      apply orb_true_iff. right. apply andb_true_iff. split.
      * eapply wf_under_dir; eauto.
      * unfold contains. rewrite Ht. cbn. apply negb_true_iff, bool_decide_eq_false. congruence.
    + exfalso. pose proof (wf_not_exists_under _ q r Hwf Hq0 Hqe Ht) as Hn.
      destruct (Hex q Hq0 Ht) as [? ?]. congruence.
Qed.

Lemma core_of_parts s :
  wf_disk (dsk s) -> C_mods s -> C_flist s -> C_watched s -> C_cells s -> CacheCoherent s.
Proof. intros. unfold CacheCoherent. tauto. Qed.

Lemma soa_changed_core s p : CacheCoherent s -> CacheCoherent (soa_changed s p).
Proof.
  intros HC. unfold soa_changed. destruct (soa s && is_py_seg (last_seg p)); [|done].
  destruct (dsk s !! p) as [[c|]|]; try done.
  destruct (load_file s p) as [s1 ok] eqn:E. destruct ok; [|done].
  apply forget_all_core. change s1 with (s1, true).1. rewrite <- E. by apply load_file_core.
Qed.

Lemma set_flist_parts s l :
  dsk (set_flist s l) = dsk s /\ mods (set_flist s l) = mods s /\ cells (set_flist s l) = cells s
  /\ watched (set_flist s l) = watched s.
Proof. done. Qed.

Lemma handle_core s x :
  CacheCoherent s -> xguard (dsk s) x = true ->
  CacheCoherent (handle (xstep s x) (event_of (dsk s) x)).
Proof.
  intros HC Hg. pose proof HC as (Hwf & Hm & Hf & Hw & Hc).
  pose proof (xstep_pend s x (coherent_pend s HC)) as HP.
  set (e := event_of (dsk s) x). set (s1 := xstep s x) in *.
  assert (mods s1 = mods s) as Hmo by (subst s1; unfold xstep; by rewrite Hg).
  assert (dsk s1 = xdisk (dsk s) x) as Hd by (subst s1; unfold xstep; by rewrite Hg).
  assert (flist s1 = flist s) as Hfl by (subst s1; unfold xstep; by rewrite Hg).
  assert (forall r, watched s1 !! r = Some WStale ->
                    (ev_chg e r || ev_mov e r) = true \/ (ev_cre e r = true /\ mods s1 !! r = None)) as Hst.
  { intros r Hr. subst s1. rewrite xstep_watched in Hr by done.
    destruct (watched s !! r) as [w0|] eqn:Hw0; [|done]. cbn in Hr. injection Hr as Hr.
    destruct (Hw r w0 Hw0) as [Hns _].
    destruct (xtouch x r) eqn:Ht; [|congruence].
    destruct w0; cbn in Hr; try congruence.
    rewrite Hmo. by apply touch_covered. }
  unfold handle. fold e.
  set (s1' := match e with EChanged _ => s1 | _ => set_flist s1 None end).
  assert (PendInv s1' /\ watched s1' = watched s1 /\ mods s1' = mods s1 /\ dsk s1' = dsk s1) as (HP' & Hw' & Hm' & Hd').
  { subst s1'. destruct e; done. }
  destruct (apply_changes_core (ev_chg e) (ev_mov e) (ev_cre e) s1' HP') as (A1 & A2 & A3 & A4).
  { rewrite Hw', Hm'. exact Hst. }
  assert (CacheCoherent (apply_changes (ev_chg e) (ev_mov e) (ev_cre e) s1')) as HC2.
  { apply core_of_parts; try done.
    unfold C_flist. cbn. subst s1'. destruct x as [p c|p isd|p|p q]; cbn; try done.
    rewrite Hfl, Hd. cbn. unfold C_flist in Hf. destruct (flist s) as [l|]; [|done].
    cbn in Hg. destruct (dsk s !! p) as [[c'|]|] eqn:Ep; try done.
    rewrite Hf. symmetry. by eapply files_of_write. }
  assert (cfg s1' = cfg s1) as Hcf by (subst s1'; by destruct e).
  destruct e; try (destruct (fix_forget _); [by apply forget_all_core|done]). by apply soa_changed_core.
Qed.

Lemma rstep_core s x : CacheCoherent s -> move_raises s x = false -> CacheCoherent (rstep s x).
Proof.
  intros HC Hr. unfold rstep. destruct (xguard (dsk s) x) eqn:Hg; [|done].
  rewrite Hr. by apply handle_core.
Qed.

(* ========================================================================================= queries *)
Lemma load_ok_cached s p :
  CacheCoherent s -> (load s p).2 = true -> is_Some (mods (load s p).1 !! p).
Proof.
  intros HC Hok. rewrite load_ok in Hok by done. rewrite load_lookup by done.
  unfold disk_ok in Hok. destruct (mods s !! p); [eauto|].
  destruct (dsk s !! p) as [[c|]|]; [rewrite Hok| |done]; eauto.
Qed.

Lemma set_cell_core s k t : CacheCoherent s -> is_Some (mods s !! t) -> CacheCoherent (set_cell s k t).
Proof.
  intros (?&?&?&?&Hc) Ht. apply core_of_parts; try done.
  unfold C_cells. cbn. apply map_Forall_insert_2; done.
Qed.

Lemma set_mod_children_core s p :
  CacheCoherent s -> mods s !! p = Some (PPkg None) ->
  CacheCoherent (set_mod s p (PPkg (Some (children (dsk s) p)))).
Proof.
  intros (Hwf & Hm & Hf & Hw & Hc) Hp. apply core_of_parts; try done.
  - intros r v Hr. cbn in *. destruct (decide (r = p)) as [->|Hne].
    + rewrite lookup_insert in Hr. injection Hr as <-. destruct (Hm p _ Hp) as [? [? _]]. done.
    + rewrite lookup_insert_ne in Hr by done. by apply Hm.
  - intros k t Hk. cbn. specialize (Hc k t Hk). cbn in Hc.
    destruct (decide (t = p)) as [->|Hne]; [by rewrite lookup_insert|by rewrite lookup_insert_ne].
Qed.

Lemma run_query_dsk s q : dsk (run_query s q).1 = dsk s /\ cfg (run_query s q).1 = cfg s.
Proof.
  destruct q as [|p|m n|p]; cbn.
  - by destruct (flist s).
  - destruct (load s p) as [s1 ok] eqn:E. cbn. pose proof (load_frame s p) as Hf. rewrite E in Hf.
    destruct Hf as (?&?&?&?&?). done.
  - destruct (load s m) as [s1 ok] eqn:E. pose proof (load_frame s m) as Hf. rewrite E in Hf.
    destruct Hf as (Hd&?&?&Hs&?). cbn in Hd, Hs.
    destruct (mods s1 !! m) as [[c|]|]; try done.
    destruct (ok && bool_decide (n ∈ cimports c)); [|done].
    destruct (cells s1 !! (m, n)); [done|].
    destruct (find_module (shape (dsk s1)) (parent m) n) as [t|]; [|done].
    destruct (load s1 t) as [s2 ok2] eqn:E2. pose proof (load_frame s1 t) as Hf2. rewrite E2 in Hf2.
    destruct Hf2 as (Hd2&?&?&Hs2&?). cbn in Hd2, Hs2. destruct ok2; cbn; split; congruence.
  - destruct (load s p) as [s1 ok] eqn:E. pose proof (load_frame s p) as Hf. rewrite E in Hf.
    destruct Hf as (Hd&?&?&Hs&?). cbn in Hd, Hs.
    destruct (mods s1 !! p) as [[c|[l|]]|]; done.
Qed.

Lemma run_query_core s q : CacheCoherent s -> CacheCoherent (run_query s q).1.
Proof.
  intros HC. destruct q as [|p|m n|p]; cbn.
  - destruct (flist s) eqn:Hf; [done|]. cbn. destruct HC as (?&?&?&?&?). by apply core_of_parts.
  - destruct (load s p) as [s1 ok] eqn:E. cbn. change s1 with (s1, ok).1. rewrite <- E. by apply load_core.
  - destruct (load s m) as [s1 ok] eqn:E.
    assert (CacheCoherent s1) as HC1 by (change s1 with (s1, ok).1; rewrite <- E; by apply load_core).
    destruct (mods s1 !! m) as [[c|]|]; try done.
    destruct (ok && bool_decide (n ∈ cimports c)); [|done].
    destruct (cells s1 !! (m, n)); [done|].
    destruct (find_module (shape (dsk s1)) (parent m) n) as [t|]; [|done].
    destruct (load s1 t) as [s2 ok2] eqn:E2.
    assert (CacheCoherent s2) as HC2 by (change s2 with (s2, ok2).1; rewrite <- E2; by apply load_core).
    destruct ok2; [|done]. cbn. apply set_cell_core; [done|].
    change s2 with (s2, true).1. rewrite <- E2. apply load_ok_cached; [done|by rewrite E2].
  - destruct (load s p) as [s1 ok] eqn:E.
    assert (CacheCoherent s1) as HC1 by (change s1 with (s1, ok).1; rewrite <- E; by apply load_core).
    destruct (mods s1 !! p) as [[c|[l|]]|] eqn:Hp; try done.
    cbn. by apply set_mod_children_core.
Qed.

Lemma run_query_resolution s q : Coherent s -> C_resolution (run_query s q).1.
Proof.
  intros [HC HR]. destruct q as [|p|m n|p]; cbn.
  - by destruct (flist s).
  - destruct (load s p) as [s1 ok] eqn:E. cbn. pose proof (load_frame s p) as Hf. rewrite E in Hf.
    destruct Hf as (Hd&Hc&_). unfold C_resolution. cbn in *. by rewrite Hd, Hc.
  - destruct (load s m) as [s1 ok] eqn:E. pose proof (load_frame s m) as Hf. rewrite E in Hf.
    destruct Hf as (Hd&Hc&_). cbn in Hd, Hc.
    assert (C_resolution s1) as HR1 by (unfold C_resolution; by rewrite Hd, Hc).
    destruct (mods s1 !! m) as [[c|]|]; try done.
    destruct (ok && bool_decide (n ∈ cimports c)); [|done].
    destruct (cells s1 !! (m, n)); [done|].
    destruct (find_module (shape (dsk s1)) (parent m) n) as [t|] eqn:Ef; [|done].
    destruct (load s1 t) as [s2 ok2] eqn:E2. pose proof (load_frame s1 t) as Hf2. rewrite E2 in Hf2.
    destruct Hf2 as (Hd2&Hc2&_). cbn in Hd2, Hc2.
    assert (C_resolution s2) as HR2 by (unfold C_resolution; by rewrite Hd2, Hc2).
    destruct ok2; [|done]. unfold C_resolution. cbn.
    apply map_Forall_insert_2; [cbn; by rewrite Hd2|done].
  - destruct (load s p) as [s1 ok] eqn:E. pose proof (load_frame s p) as Hf. rewrite E in Hf.
    destruct Hf as (Hd&Hc&_). cbn in Hd, Hc.
    assert (C_resolution s1) as HR1 by (unfold C_resolution; by rewrite Hd, Hc).
    destruct (mods s1 !! p) as [[c|[l|]]|]; done.
Qed.

Lemma run_query_coherent s q : Coherent s -> Coherent (run_query s q).1.
Proof. intros H. split; [apply run_query_core, H|by apply run_query_resolution]. Qed.

(* ================================================================================ every step *)
Theorem cache_coherent_inv s o : CacheCoherent s -> raises s o = false -> CacheCoherent (step s o).
Proof.
  intros HC Hr. destruct o as [x|xs|q]; cbn in *.
  - unfold rstep. destruct (xguard (dsk s) x) eqn:Hg; [|done]. cbn in Hr. rewrite Hr. by apply handle_core.
  - by apply validate_core, xsteps_pend, coherent_pend.
  - by apply run_query_core.
Qed.

Lemma xstep_cells s x : cells (xstep s x) = cells s.
Proof. unfold xstep. by destruct (xguard (dsk s) x). Qed.

Lemma xsteps_cells s xs : cells (foldl xstep s xs) = cells s.
Proof. revert s. induction xs as [|x xs IH]; intros s; cbn; [done|]. by rewrite IH, xstep_cells. Qed.

Lemma soa_changed_cells s p : cells (soa_changed s p) = cells s \/ cells (soa_changed s p) = ∅.
Proof.
  unfold soa_changed. destruct (soa s && is_py_seg (last_seg p)); [|by left].
  destruct (dsk s !! p) as [[c|]|]; try by left.
  destruct (load_file s p) as [s1 ok] eqn:E. destruct ok; [by right|by left].
Qed.

(* concluded cells are never added by a change: they survive as they are or are all forgotten *)
Lemma step_cells s o :
  (forall q, o <> OQuery q) -> cells (step s o) = cells s \/ cells (step s o) = ∅.
Proof.
  intros Hq. destruct o as [x|xs|q]; [| |by destruct (Hq q)]; cbn [step].
  - unfold rstep. destruct (xguard (dsk s) x) eqn:Hg; [|by left].
    destruct (move_raises s x); [left; cbn; apply xstep_cells|].
    unfold handle. set (e := event_of (dsk s) x).
    set (s1' := match e with EChanged _ => xstep s x | _ => set_flist (xstep s x) None end).
    assert (cells s1' = cells s) as Hc1 by (subst s1'; destruct e; cbn; apply xstep_cells).
    set (s2 := apply_changes (ev_chg e) (ev_mov e) (ev_cre e) s1').
    assert (cells s2 = cells s \/ cells s2 = ∅) as H2.
    { destruct (apply_changes_cells_cases (ev_chg e) (ev_mov e) (ev_cre e) s1') as [[Hc _]|Hc];
        [left; subst s2; congruence|by right]. }
    destruct e; try (destruct (fix_forget _); [by right|done]).
    destruct (soa_changed_cells s2 p) as [H|H]; [|by right].
    destruct H2 as [H2|H2]; [left|right]; congruence.
  - unfold validate. destruct (fix_forget _); [by right|].
    destruct (apply_changes_cells_cases (v_chg (foldl xstep s xs)) (w_gone (foldl xstep s xs))
                (w_created (foldl xstep s xs)) (set_flist (foldl xstep s xs) None)) as [[Hc _]|Hc].
    + left. rewrite Hc. cbn. apply xsteps_cells.
    + by right.
Qed.

Theorem coherent_inv_partial s o :
  Coherent s -> raises s o = false -> resolution_unaffected s o -> Coherent (step s o).
Proof.
  intros [HC HR] Hr Hun.
  assert ((exists q, o = OQuery q) \/ ~ (exists q, o = OQuery q)) as [[q ->]|Hnq].
  { destruct o; [right|right|left]; try (intros [q Hq]; discriminate). eauto. }
  { cbn. by apply run_query_coherent. }
  split; [by apply cache_coherent_inv|].
  destruct (step_cells s o) as [Hc|Hc]; [intros q ->; apply Hnq; eauto| |].
  - unfold C_resolution. unfold resolution_unaffected in Hun. rewrite Hc in *.
    intros k t Hk. rewrite (Hun k t Hk). by apply HR.
  - unfold C_resolution. rewrite Hc. apply map_Forall_empty.
Qed.

(* ------------------------------------------------------------- the answers are those of the disk *)
Definition disk_answer (d : disk) (q : query) : answer :=
  match q with
  | QFiles => AFiles (files_of d)
  | QLoad p =>
      ALoad (match d !! p with
             | Some (File c) => if cok c then Some (Some c) else None
             | Some Dir => Some None
             | None => None
             end)
  | QResolve m n =>
      match d !! m with
      | Some (File c) =>
          if cok c && bool_decide (n ∈ cimports c) then
            match find_module (shape d) (parent m) n with
            | None => ATarget (Some None)
            | Some t => if disk_ok d t then ATarget (Some (Some t)) else ATarget None
            end
          else ATarget None
      | _ => ATarget None
      end
  | QChildren p =>
      match d !! p with
      | Some Dir => AChildren (Some (children d p))
      | _ => AChildren None
      end
  end.

(* what is cached for p after loading it, in terms of the disk *)
Lemma load_lookup_disk s p :
  CacheCoherent s ->
  match mods (load s p).1 !! p with
  | Some (PFile c) => dsk s !! p = Some (File c) /\ cok c = true /\ (load s p).2 = true
  | Some (PPkg ch) => dsk s !! p = Some Dir /\ (load s p).2 = true
                      /\ match ch with Some l => l = children (dsk s) p | None => True end
  | None => (load s p).2 = false \/ False
  end.
Proof.
  intros HC. pose proof HC as (_ & Hm & _). rewrite load_lookup, load_ok by done. unfold disk_ok.
  destruct (mods s !! p) as [v|] eqn:Hp.
  - destruct (Hm p v Hp) as [_ Hma]. destruct v as [c|ch]; cbn in Hma; destruct Hma as [Hd ?]; rewrite Hd; done.
  - destruct (dsk s !! p) as [[c|]|]; [destruct (cok c) eqn:Hc| |]; try done; by left.
Qed.

Lemma query_disk_gen s q :
  CacheCoherent s -> lookup_free q = true \/ C_resolution s -> (run_query s q).2 = disk_answer (dsk s) q.
Proof.
  intros HC HR. pose proof HC as (Hwf & Hm & Hf & Hw & Hc).
  destruct q as [|p|m n|p]; [| |destruct HR as [HR|HR]; [discriminate|]|]; cbn.
  - unfold C_flist in Hf. destruct (flist s); cbn; congruence.
  - destruct (load s p) as [s1 ok] eqn:E. cbn.
    pose proof (load_lookup_disk s p HC) as HL. rewrite E in HL. cbn in HL.
    pose proof (load_ok s p HC) as Hok. rewrite E in Hok. cbn in Hok. unfold disk_ok in Hok.
    destruct (mods s1 !! p) as [[c|ch]|]; cbn.
    + destruct HL as (-> & -> & ->). done.
    + destruct HL as (-> & -> & _). done.
    + destruct HL as [->|[]]. destruct (dsk s !! p) as [[c|]|]; try done. by rewrite <- Hok.
  - destruct (load s m) as [s1 ok] eqn:E.
    pose proof (load_lookup_disk s m HC) as HL. rewrite E in HL. cbn in HL.
    pose proof (load_frame s m) as HF. rewrite E in HF. destruct HF as (Hd1 & Hc1 & _). cbn in Hd1, Hc1.
    assert (CacheCoherent s1) as HC1 by (change s1 with (s1, ok).1; rewrite <- E; by apply load_core).
    destruct (mods s1 !! m) as [[c|ch]|].
    + destruct HL as (-> & -> & ->). cbn.
      destruct (bool_decide (n ∈ cimports c)); [|done].
      rewrite Hc1, Hd1.
      destruct (cells s !! (m, n)) as [t|] eqn:Hcell.
      * pose proof (HR _ _ Hcell) as Hres.
        change (find_module (shape (dsk s)) (parent m) n = Some t) in Hres. rewrite Hres. cbn.
        destruct (Hc _ _ Hcell) as [v Hv]. destruct (Hm t v Hv) as [_ Hma].
        unfold disk_ok. destruct v as [c'|ch']; cbn in Hma; destruct Hma as [-> ?]; [|done].
        by rewrite H.
      * destruct (find_module (shape (dsk s)) (parent m) n) as [t|]; [|done].
        destruct (load s1 t) as [s2 ok2] eqn:E2.
        pose proof (load_ok s1 t HC1) as Hok2. rewrite E2, Hd1 in Hok2. cbn in Hok2. rewrite <- Hok2.
        by destruct ok2.
    + destruct HL as (-> & _). done.
    + destruct HL as [->|[]].
      pose proof (load_ok s m HC) as Hok. rewrite E in Hok. cbn in Hok. unfold disk_ok in Hok.
      destruct (dsk s !! m) as [[c|]|]; try done. by rewrite <- Hok.
  - destruct (load s p) as [s1 ok] eqn:E.
    pose proof (load_lookup_disk s p HC) as HL. rewrite E in HL. cbn in HL.
    pose proof (load_frame s p) as HF. rewrite E in HF. destruct HF as (Hd1 & _). cbn in Hd1.
    destruct (mods s1 !! p) as [[c|[l|]]|]; cbn.
    + destruct HL as (-> & _). done.
    + destruct HL as (-> & _ & ->). done.
    + destruct HL as (-> & _). by rewrite Hd1.
    + destruct HL as [->|[]].
      pose proof (load_ok s p HC) as Hok. rewrite E in Hok. cbn in Hok. unfold disk_ok in Hok.
      destruct (dsk s !! p) as [[c|]|]; try done.
Qed.

Theorem query_disk s q : Coherent s -> (run_query s q).2 = disk_answer (dsk s) q.
Proof. intros [HC HR]. apply query_disk_gen; auto. Qed.

Lemma fresh_coherent s : wf_disk (dsk s) -> Coherent (fresh s).
Proof.
  intros Hwf. split; [apply core_of_parts; try done; apply map_Forall_empty|apply map_Forall_empty].
Qed.

Theorem query_agrees s q : Coherent s -> (run_query s q).2 = (run_query (fresh s) q).2.
Proof.
  intros HC. rewrite query_disk by done.
  rewrite (query_disk (fresh s)) by (apply fresh_coherent, HC). done.
Qed.

(* ============================================================ the code with the two proposed fixes *)
Lemma soa_changed_frame s p : dsk (soa_changed s p) = dsk s /\ cfg (soa_changed s p) = cfg s.
Proof.
  unfold soa_changed. destruct (soa s && is_py_seg (last_seg p)); [|done].
  destruct (dsk s !! p) as [[c|]|]; try done.
  destruct (load_file s p) as [s1 ok] eqn:E. pose proof (load_file_frame s p) as HF. rewrite E in HF.
  destruct HF as (Hd & _ & _ & Hc & _). destruct ok; done.
Qed.

Lemma handle_frame s e : dsk (handle s e) = dsk s /\ cfg (handle s e) = cfg s.
Proof.
  unfold handle. destruct e; try (destruct (fix_forget _); done).
  destruct (soa_changed_frame (apply_changes (ev_chg (EChanged p)) (ev_mov (EChanged p)) (ev_cre (EChanged p)) s) p)
    as [-> ->]. done.
Qed.

Lemma xstep_cfg s x : cfg (xstep s x) = cfg s.
Proof. unfold xstep. by destruct (xguard (dsk s) x). Qed.

Lemma xsteps_cfg s xs : cfg (foldl xstep s xs) = cfg s.
Proof. revert s. induction xs as [|x xs IH]; intros s; cbn; [done|]. by rewrite IH, xstep_cfg. Qed.

Lemma step_cfg s o : cfg (step s o) = cfg s.
Proof.
  destruct o as [x|xs|q]; cbn [step].
  - unfold rstep. destruct (xguard (dsk s) x); [|done].
    destruct (move_raises s x); [cbn; apply xstep_cfg|].
    destruct (handle_frame (xstep s x) (event_of (dsk s) x)) as [_ ->]. apply xstep_cfg.
  - unfold validate. destruct (fix_forget _); cbn; apply xsteps_cfg.
  - apply run_query_dsk.
Qed.

Lemma raises_fixed s o : fix_move (cfg s) = true -> raises s o = false.
Proof.
  intros Hf. destruct o as [x| |]; try done. cbn. destruct x; cbn; try by rewrite andb_false_r.
  rewrite Hf. cbn. by rewrite andb_false_r.
Qed.

Lemma resolution_unaffected_fixed s o :
  fix_forget (cfg s) = true -> raises s o = false -> resolution_unaffected s o.
Proof.
  intros Hf Hr. unfold resolution_unaffected.
  destruct o as [x|xs|q]; cbn [step].
  - unfold rstep. cbn in Hr. destruct (xguard (dsk s) x) eqn:Hg; [|by intros k t _].
    cbn in Hr. rewrite Hr.
    destruct x as [p c|p isd|p|p q].
    + (* a write does not change the shape of the tree *)
      intros k t _. destruct (handle_frame (xstep s (XWrite p c)) (event_of (dsk s) (XWrite p c))) as [-> _].
      unfold xstep. rewrite Hg. cbn. cbn in Hg. destruct (dsk s !! p) as [[c'|]|] eqn:Ep; try done.
      by erewrite shape_write.
    + unfold handle. cbn. rewrite xstep_cfg, Hf. apply map_Forall_empty.
    + unfold handle. cbn. rewrite xstep_cfg, Hf. apply map_Forall_empty.
    + unfold handle. cbn. rewrite xstep_cfg, Hf. apply map_Forall_empty.
  - unfold validate. rewrite xsteps_cfg, Hf. apply map_Forall_empty.
  - intros k t _. by destruct (run_query_dsk s q) as [-> _].
Qed.

(* with both fixes the invariant holds at full strength for every step ... *)
Theorem coherent_inv_fixed s o :
  fix_move (cfg s) = true -> fix_forget (cfg s) = true -> Coherent s -> Coherent (step s o).
Proof.
  intros Hm Hf HC. apply coherent_inv_partial; [done|by apply raises_fixed|].
  apply resolution_unaffected_fixed; [done|by apply raises_fixed].
Qed.

Lemma run_coherent_fixed s ops :
  fix_move (cfg s) = true -> fix_forget (cfg s) = true -> Coherent s -> Coherent (run s ops).
Proof.
  revert s. induction ops as [|o ops IH]; intros s Hm Hf HC; cbn; [done|].
  apply IH; rewrite ?step_cfg; try done. by apply coherent_inv_fixed.
Qed.

(* ================================================================================ whole histories *)
Lemma run_coherent s ops : Coherent s -> admissible s ops -> Coherent (run s ops).
Proof.
  revert s. induction ops as [|o ops IH]; intros s HC Ha; cbn; [done|].
  destruct Ha as (Hr & Hu & Ha). apply IH; [|done]. by apply coherent_inv_partial.
Qed.

Lemma run_cache_coherent s ops : CacheCoherent s -> no_raise s ops -> CacheCoherent (run s ops).
Proof.
  revert s. induction ops as [|o ops IH]; intros s HC Ha; cbn; [done|].
  destruct Ha as (Hr & Ha). apply IH; [|done]. by apply cache_coherent_inv.
Qed.

Lemma init_coherent d b : wf_disk d -> Coherent (init d b).
Proof. intros. by apply (fresh_coherent (init d b)). Qed.

(* ... and every history of every length is answered like by a brand-new project, unconditionally *)
Theorem history_agrees_fixed d c ops q :
  fix_move c = true -> fix_forget c = true -> wf_disk d ->
  (run_query (run (init d c) ops) q).2 = (run_query (fresh (run (init d c) ops)) q).2.
Proof.
  intros Hm Hf Hwf. apply query_agrees, run_coherent_fixed; [done|done|by apply init_coherent].
Qed.

Theorem code_history_agrees d b ops q :
  wf_disk d ->
  (run_query (run (init d (code_cfg b)) ops) q).2 = (run_query (fresh (run (init d (code_cfg b)) ops)) q).2.
Proof. intros. by apply history_agrees_fixed. Qed.

Theorem history_agrees d b ops q :
  wf_disk d -> admissible (init d b) ops ->
  (run_query (run (init d b) ops) q).2 = (run_query (fresh (run (init d b) ops)) q).2.
Proof. intros Hwf Ha. apply query_agrees, run_coherent; [by apply init_coherent|done]. Qed.

(* the queries that do not go through module lookup need no side condition on resolution *)
Theorem cache_query_agrees s q :
  CacheCoherent s -> lookup_free q = true -> (run_query s q).2 = (run_query (fresh s) q).2.
Proof.
  intros HC Hq. rewrite query_disk_gen by auto.
  rewrite (query_disk_gen (fresh s)); [done| |by left]. apply fresh_coherent, HC.
Qed.

(* validate catches up with anything done behind rope's back *)
Theorem validate_catches_up s xs : CacheCoherent s -> CacheCoherent (validate (foldl xstep s xs)).
Proof. intros. by apply validate_core, xsteps_pend, coherent_pend. Qed.


Lemma admissible_b_spec s ops : admissible_b s ops = true -> admissible s ops.
Proof.
  revert s. induction ops as [|o ops IH]; intros s H; cbn in *; [done|].
  apply andb_true_iff in H as [H H3]. apply andb_true_iff in H as [H1 H2].
  apply negb_true_iff in H1. apply bool_decide_eq_true in H2. auto.
Qed.

Theorem history_cache_agrees d b ops q :
  wf_disk d -> no_raise (init d b) ops -> lookup_free q = true ->
  (run_query (run (init d b) ops) q).2 = (run_query (fresh (run (init d b) ops)) q).2.
Proof.
  intros Hwf Ha Hq. apply cache_query_agrees; [|done].
  apply run_cache_coherent; [apply init_coherent, Hwf|done].
Qed.

(* change sets, refactorings, undo and redo are sequences of primitives made through rope *)
Theorem primitives_cache_coherent s xs :
  CacheCoherent s -> no_raise s (map ORope xs) -> CacheCoherent (run s (map ORope xs)).
Proof. apply run_cache_coherent. Qed.
