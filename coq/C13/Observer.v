(* C13 — a long-lived project answers like a freshly opened one.

   Executable model of rope's cache layers and of the observers that keep them coherent with the
   file system (rope/base/project.py _FileListCacher, rope/base/pycore.py PyCore / _ModuleCache,
   rope/base/resourceobserver.py FilteredResourceObserver / _Changes, rope/base/pynames.py
   ImportedModule's concluded cell, rope/base/pyobjectsdef.py PyPackage).

   State
     dsk      the project tree: path -> File content | Dir  (the root [] is not a key)
     mods     _ModuleCache.module_map: path -> PFile (content at parse time) | PPkg (child cache)
     cells    the concluded ImportedModule.pymodule cells: (importing module, imported name) -> target
     flist    _FileListCacher.files (None = not computed)
     watched  FilteredResourceObserver.resources of PyCore.observer: path -> stored indicator, None ("did not
              exist") or the PAIR (modification time, size) of ChangeIndicator.get_indicator.  Modification times
              are values of a logical clock ([clock], the next one): a change through rope or behind its back
              stamps what it touches with the current time (a rewrite behind rope's back may keep the old time:
              cp -p, rsync -t, two writes in one timestamp tick); a folder's time changes when an entry is added,
              removed or renamed.  validate compares stored and current pairs.  DESIGN's [indicator_sound] is the
              explicit hypothesis [ind_sound]: a watched resource whose current pair equals the stored one has
              not been modified.  The harness abstracts real modification times to their ranks and computes the
              reference pair itself.
     clock    the next modification time
     cfg      the project preference automatic_soa, and which of the two proposed fixes the code has
              (proposed_fixes/C13-*.diff, now repo commits d932e8e / b19aaa7): both true = the current code
              ([code_cfg]), both false = the tree as found, kept to document the two fixed defects

   Names.  A path segment is an N whose value determines the kind of resource that may carry it:
     s mod 4 = 0  folder named like module (s / 4)        s mod 4 = 1  file "<module (s/4)>.py"
     s mod 4 = 2  a non-Python file                       s = 3        "__init__.py"
     s mod 4 = 3, s <> 3  an ignored file "<module>.py~" (default ignored_resources pattern "*~")
   (the harness only ever creates resources that respect this discipline, so that rope's
   File/Folder resource classes, which take part in resource equality, are determined by the path).

   Contents.  A file's content is abstracted to (text id, syntactically valid?, names n of its
   module-level "import n" statements).

   Restrictions of the model (enforced by the generator, stated in the manifest):
   "__init__.py" files are always syntactically valid; imports are absolute single names; the modelled
   sources contain no calls (static object analysis then loads the changed module and forgets concluded
   data, nothing else); python_path / sys.path never provide a module of the name pool. *)
From stdpp Require Import gmap list sets.
From Coq Require Import NArith.

Notation path := (list N) (only parsing).

(* ------------------------------------------------------------------------------------ names *)
Definition init_seg : N := 3%N.
Definition dirseg (n : N) : N := (4 * n)%N.
Definition pyseg (n : N) : N := (4 * n + 1)%N.
(* resource.name.endswith(".py") *)
Definition is_py_seg (s : N) : bool := N.eqb (N.modulo s 4) 1 || N.eqb s 3.
Definition last_seg (p : path) : N := List.last p 0%N.

(* ------------------------------------------------------------------------------------ paths *)
Fixpoint strip (p k : path) : option path :=
  match p, k with
  | [], _ => Some k
  | x :: p', y :: k' => if N.eqb x y then strip p' k' else None
  | _ :: _, [] => None
  end.
(* k is p or lies below p *)
Definition under (p k : path) : bool := match strip p k with Some _ => true | None => false end.
(* rope: Folder.contains = proper prefix *)
Definition contains (p k : path) : bool := under p k && negb (bool_decide (p = k)).
Definition parent (p : path) : path := removelast p.
Definition nonroot (p : path) : bool := match p with [] => false | _ => true end.
(* k is a child of r *)
Definition child_of (r k : path) : bool := nonroot k && bool_decide (parent k = r).

(* --------------------------------------------------------------------------------- contents *)
Record content := Content { ctext : N; cok : bool; cimports : list N; csize : N }.
Global Instance content_eq_dec : EqDecision content.
Proof. solve_decision. Defined.
Definition empty_content : content := Content 0 true [] 0.

(* a node carries its modification time: a value of the logical clock of the state *)
Inductive node := File (c : content) (mt : N) | Dir (mt : N).
Global Instance node_eq_dec : EqDecision node.
Proof. solve_decision. Defined.
Notation disk := (gmap (list N) node).

Definition dexists (d : disk) (p : path) : bool :=
  match p with [] => true | _ => bool_decide (is_Some (d !! p)) end.
Definition disdir (d : disk) (p : path) : bool :=
  match p with [] => true | _ => match d !! p with Some (Dir _) => true | _ => false end end.
Definition isfile_node (n : node) : bool := match n with File _ _ => true | Dir _ => false end.
Definition isdir_node (n : node) : bool := match n with File _ _ => false | Dir _ => true end.
(* what a node is, apart from its modification time *)
Definition kind_of (n : node) : option content := match n with File c _ => Some c | Dir _ => None end.
Definition node_mt (n : node) : N := match n with File _ t | Dir t => t end.
Definition set_node_mt (t : N) (n : node) : node := match n with File c _ => File c t | Dir _ => Dir t end.
(* os.utime / the mtime update of a folder whose entries change; the root is not a key *)
Definition set_mt (t : N) (r : path) (d : disk) : disk := alter (set_node_mt t) r d.
(* touch everything at and below q *)
Definition touch_under (t : N) (q : path) (d : disk) : disk :=
  map_imap (fun k n => Some (if under q k then set_node_mt t n else n)) d.

(* ChangeIndicator.get_indicator: the pair (modification time, size).  [full = false] is the weaker
   indicator "modification time only" (it only documents why the size component is needed). *)
Notation ind := (N * N)%type.
Definition ind_of_node (full : bool) (n : node) : ind :=
  (node_mt n, if full then match n with File c _ => csize c | Dir _ => 0%N end else 0%N).

(* a name matching the default ignored_resources pattern "*~" (an editor backup "<module>.py~"): s mod 4 = 3
   apart from "__init__.py".  Ignored files exist, are written, moved and removed through rope like any other
   (every observer is told), but are not part of the file list and are not Python files. *)
Definition is_ignored_seg (s : N) : bool := N.eqb (N.modulo s 4) 3 && negb (N.eqb s 3).
(* the set of files: Project.get_files skips ignored resources *)
Definition files_of (d : disk) : gset (list N) :=
  dom (filter (fun kv : list N * node => isfile_node kv.2 && negb (is_ignored_seg (last_seg kv.1)) = true) d).
(* PyPackage._get_child_resources: a dict from module names to the sub-folders and the .py files other than
   __init__.py of folder r; when folder "n" and file "n.py" both exist the file is listed later (sorted
   listing) and replaces the folder *)
Definition is_submodule (d : disk) (k : path) : bool :=
  let s := last_seg k in
  N.eqb (N.modulo s 4) 1
  || (N.eqb (N.modulo s 4) 0 && negb (bool_decide (is_Some (d !! (parent k ++ [(s + 1)%N]))))).
Definition children (d : disk) (r : path) : gset (list N) :=
  dom (filter (fun kv : list N * node => child_of r kv.1 && is_submodule d kv.1 = true) d).

(* subtree operations *)
Definition remove_tree {A} (p : path) (d : gmap (list N) A) : gmap (list N) A :=
  filter (fun kv : list N * A => under p kv.1 = false) d.
Definition swapf (p q k : path) : path :=
  match strip p k with
  | Some r => q ++ r
  | None => match strip q k with Some r => p ++ r | None => k end
  end.
(* the subtree at p becomes the subtree at q (q free, p and q not nested) *)
Definition move_tree {A} (p q : path) (d : gmap (list N) A) : gmap (list N) A :=
  filter (fun kv : list N * A => under p kv.1 = false) (kmap (swapf p q) d).

(* the shape of the tree (which paths exist, and whether each is a folder): all that module lookup sees *)
Notation shape_t := (gmap (list N) bool).
Definition shape (d : disk) : shape_t := isdir_node <$> d.

(* ------------------------------------------------------------------------ module lookup *)
Definition sh_isdir (sh : shape_t) (f : path) : bool :=
  match f with [] => true | _ => bool_decide (sh !! f = Some true) end.

Fixpoint insert_sorted (x : N * bool) (l : list (N * bool)) : list (N * bool) :=
  match l with
  | [] => [x]
  | y :: l' => if N.leb x.1 y.1 then x :: l else y :: insert_sorted x l'
  end.
Definition sort_children (l : list (N * bool)) : list (N * bool) := foldr insert_sorted [] l.

(* Folder.get_children in the (sorted) listing order the harness imposes on os.listdir *)
Definition sh_children (sh : shape_t) (f : path) : list (N * bool) :=
  sort_children (omap (fun kb : list N * bool => if child_of f kb.1 then Some (last_seg kb.1, kb.2) else None)
                      (map_to_list sh)).

(* PyCore._is_package *)
Definition is_package (sh : shape_t) (f : path) : bool := bool_decide (sh !! (f ++ [init_seg]) = Some false).

(* PyCore._find_source_folders; fuel bounds the depth of the tree (fuel = number of nodes + 1 suffices) *)
Fixpoint find_src (fuel : nat) (sh : shape_t) (f : path) : list (list N) :=
  match fuel with
  | O => []
  | S fuel' =>
      let ch := sh_children sh f in
      let dirs := omap (fun sb : N * bool => if sb.2 then Some (f ++ [sb.1]) else None) ch in
      if existsb (is_package sh) dirs then [f]
      else (if existsb (fun sb : N * bool => negb sb.2 && is_py_seg sb.1) ch then [f] else [])
             ++ flat_map (find_src fuel' sh) dirs
  end.
Definition source_folders (sh : shape_t) : list (list N) := find_src (S (size sh)) sh [].

(* project._find_module_in_folder for a single name *)
Definition find_in (sh : shape_t) (n : N) (f : path) : option (list N) :=
  if sh_isdir sh f then
    if bool_decide (sh !! (f ++ [dirseg n]) = Some true) then Some (f ++ [dirseg n])
    else if bool_decide (sh !! (f ++ [pyseg n]) = Some false) then Some (f ++ [pyseg n])
    else None
  else None.

Fixpoint first_some {A B} (f : A -> option B) (l : list A) : option B :=
  match l with
  | [] => None
  | x :: l' => match f x with Some y => Some y | None => first_some f l' end
  end.

(* Project.find_module(name, folder): source folders in order, then the importing module's own folder *)
Definition find_module (sh : shape_t) (folder : path) (n : N) : option (list N) :=
  first_some (find_in sh n) (source_folders sh ++ [folder]).

(* ------------------------------------------------------------------------------------ state *)
Inductive parsed := PFile (c : content) | PPkg (ch : option (gset (list N))).
Global Instance parsed_eq_dec : EqDecision parsed.
Proof. solve_decision. Defined.

(* the project preference automatic_soa + the variant of the code:
   fix_move    FilteredResourceObserver._calculate_new_resource no longer calls get_resource
               (proposed_fixes/C13-folder-move-stale-watch.diff)
   fix_forget  PyCore forgets all concluded data at every creation / move / removal and at validate
               (proposed_fixes/C13-forget-concluded-data-on-structure-change.diff)
   ind_size    the indicator has its size component (true in every version of the code; false only
               documents, with C13_mtime_only_indicator_refuted, why validate needs it) *)
Record config := Config { soa_on : bool; fix_move : bool; fix_forget : bool; ind_size : bool }.
Global Instance config_eq_dec : EqDecision config.
Proof. solve_decision. Defined.

(* the code as it is now (repo commits d932e8e and b19aaa7 are the two fixes) *)
Definition code_cfg (soa_pref : bool) : config := Config soa_pref true true true.

Record state := State {
  dsk : gmap (list N) node;
  mods : gmap (list N) parsed;
  cells : gmap (list N * N) (list N);
  flist : option (gset (list N));
  watched : gmap (list N) (option ind);   (* FilteredResourceObserver.resources: None = "did not exist" *)
  cfg : config;
  clock : N                                (* the next modification time *)
}.
Definition soa (s : state) : bool := soa_on (cfg s).

Definition init_at (d : disk) (c : config) (t : N) : state := State d ∅ ∅ None ∅ c t.
Definition init (d : disk) (c : config) : state := init_at d c 0.
(* a brand-new project opened on the same directory *)
Definition fresh (s : state) : state := init_at (dsk s) (cfg s) (clock s).

Definition in_mods (s : state) (r : path) : bool := bool_decide (is_Some (mods s !! r)).
Definition is_watched (s : state) (r : path) : bool := bool_decide (is_Some (watched s !! r)).

(* the current indicator of a resource (None: it does not exist); the root is not a key and is never
   watched in the modelled histories *)
Definition cur_ind (c : config) (d : disk) (r : path) : option ind :=
  match r with [] => Some (0%N, 0%N) | _ => ind_of_node (ind_size c) <$> d !! r end.
(* FilteredResourceObserver.add_resource / the indicator stored after a callback *)
Definition stampw (s : state) (r : path) : option ind := cur_ind (cfg s) (dsk s) r.
(* the stored indicator of a watched resource differs from the current one (or the resource is gone) *)
Definition out_of_date (s : state) (r : path) : bool :=
  match watched s !! r with
  | Some (Some i) => negb (bool_decide (cur_ind (cfg s) (dsk s) r = Some i))
  | _ => false
  end.

(* --------------------------------------------------------- changes behind rope's back: disk only *)
Inductive xop :=
| XWrite (p : path) (c : content) (keep_mtime : bool)   (* keep_mtime: cp -p, rsync -t, same timestamp tick *)
| XCreate (p : path) (isdir : bool)
| XRemove (p : path)
| XMove (p q : path).

Definition xguard (d : disk) (x : xop) : bool :=
  match x with
  | XWrite p _ _ => match d !! p with Some (File _ _) => true | _ => false end
  | XCreate p _ => nonroot p && negb (dexists d p) && disdir d (parent p)
  | XRemove p => nonroot p && dexists d p
  | XMove p q => nonroot p && nonroot q && dexists d p && negb (dexists d q) && disdir d (parent q)
                 && negb (under p q) && negb (under q p)
  end.

(* the change of the tree at time t: a rewritten file gets the mtime t unless the old one is kept; a folder
   whose entries change gets the mtime t; what is moved is touched as well (mv keeps modification times: a
   moved file whose (mtime, size) happens to be the stored indicator of the destination path would be
   invisible to rope, so the harness touches what it moves behind rope's back; through rope every
   watched resource at or below the destination is re-stamped or dropped anyway) *)
Definition xdisk (t : N) (d : disk) (x : xop) : disk :=
  match x with
  | XWrite p c keep =>
      match d !! p with
      | Some (File _ mt) => <[p := File c (if keep then mt else t)]> d
      | _ => d
      end
  | XCreate p isdir => set_mt t (parent p) (<[p := if isdir then Dir t else File empty_content t]> d)
  | XRemove p => set_mt t (parent p) (remove_tree p d)
  | XMove p q => set_mt t (parent q) (set_mt t (parent p) (touch_under t q (move_tree p q d)))
  end.

(* the resources whose node may change (a rewritten file; POSIX: a folder's mtime changes when an entry is
   added, removed or renamed in it) *)
Definition xtouch (x : xop) (r : path) : bool :=
  match x with
  | XWrite p _ _ => bool_decide (r = p)
  | XCreate p _ => bool_decide (r = p) || bool_decide (r = parent p)
  | XRemove p => under p r || bool_decide (r = parent p)
  | XMove p q => under p r || under q r || bool_decide (r = parent p) || bool_decide (r = parent q)
  end.

(* a change behind rope's back: the tree and the clock, nothing else *)
Definition xstep (s : state) (x : xop) : state :=
  if xguard (dsk s) x then
    State (xdisk (clock s) (dsk s) x) (mods s) (cells s) (flist s) (watched s) (cfg s) (N.succ (clock s))
  else s.

(* ------------------------------------------------------- the observers' reaction to one event *)
Inductive event :=
| EChanged (p : path)
| ECreated (p : path)
| EMoved (p q : path) (isdir : bool)
| ERemoved (p : path) (isdir : bool).

(* _ModuleCache.forget_all_data *)
Definition forget_all (s : state) : state :=
  State (dsk s) (mods s) ∅ (flist s) (watched s) (cfg s) (clock s).

(* FilteredResourceObserver._perform_changes composed with PyCore's callback
   (_ModuleCache._invalidate_resource): [chg], [mov], [cre] are the members of _Changes.changes,
   .moves, .creations (they only ever contain watched resources).
     changes:   callback (drop the module if cached: forget_all_data, remove_resource, del), then
                resources[r] = current indicator
     moves:     resources[r] = None, then callback (which deletes the entry again iff r was cached)
     creations: no callback (PyCore passes created=None), resources[r] = current indicator *)
Definition apply_changes (chg mov cre : list N -> bool) (s : state) : state :=
  let drop := fun r => (chg r || mov r) && is_watched s r in
  let hit := negb (bool_decide (filter (fun kv : list N * parsed => drop kv.1 = true) (mods s) = ∅)) in
  State (dsk s)
        (filter (fun kv : list N * parsed => drop kv.1 = false) (mods s))
        (if hit then ∅ else cells s)
        (flist s)
        (map_imap (fun r w =>
                     if mov r then (if in_mods s r then None else Some None)
                     else if chg r || cre r then Some (stampw s r)
                     else Some w) (watched s))
        (cfg s) (clock s).

Definition ev_chg (e : event) (r : path) : bool :=
  match e with
  | EChanged p => bool_decide (r = p) || bool_decide (r = parent p)
  | ECreated p => bool_decide (r = parent p)
  | EMoved p q _ => bool_decide (r = parent p) || bool_decide (r = parent q)
  | ERemoved p _ => bool_decide (r = parent p)
  end.
Definition ev_mov (e : event) (r : path) : bool :=
  match e with
  | EMoved p _ isdir | ERemoved p isdir => bool_decide (r = p) || (isdir && contains p r)
  | _ => false
  end.
Definition ev_cre (e : event) (r : path) : bool :=
  match e with
  | ECreated p => bool_decide (r = p)
  | EMoved _ q _ => bool_decide (r = q)
  | _ => false
  end.

Definition add_mod (s : state) (p : path) (v : parsed) : state :=
  State (dsk s) (<[p := v]> (mods s)) (cells s) (flist s) (<[p := stampw s p]> (watched s)) (cfg s) (clock s).

(* _ModuleCache.get_pymodule for a file: a module with syntax errors raises and is not cached *)
Definition load_file (s : state) (p : path) : state * bool :=
  match mods s !! p with
  | Some _ => (s, true)
  | None => match dsk s !! p with
            | Some (File c _) => if cok c then (add_mod s p (PFile c), true) else (s, false)
            | _ => (s, false)
            end
  end.

(* ... and for any resource: PyPackage.__init__ first loads __init__.py when there is one *)
Definition load (s : state) (p : path) : state * bool :=
  match mods s !! p with
  | Some _ => (s, true)
  | None => match dsk s !! p with
            | Some (File _ _) => load_file s p
            | Some (Dir _) =>
                let i := p ++ [init_seg] in
                let s1 := match dsk s !! i with Some (File _ _) => (load_file s i).1 | _ => s end in
                (add_mod s1 p (PPkg None), true)
            | None => (s, false)
            end
  end.

(* PyCore._file_changed_for_soa -> perform_soa_on_changed_scopes -> analyze_module: the changed Python
   file is (re)loaded, then module_cache.forget_all_data(); ModuleSyntaxError is suppressed *)
Definition soa_changed (s : state) (p : path) : state :=
  if soa s && is_py_seg (last_seg p) then
    match dsk s !! p with
    | Some (File _ _) => let '(s1, ok) := load_file s p in if ok then forget_all s1 else s
    | _ => s
    end
  else s.

Definition set_flist (s : state) (l : option (gset (list N))) : state :=
  State (dsk s) (mods s) (cells s) l (watched s) (cfg s) (clock s).

(* project.observers in registration order: _FileListCacher, PyCore.observer, the SOA observer *)
Definition handle (s : state) (e : event) : state :=
  let s1 := match e with EChanged _ => s | _ => set_flist s None end in
  let s2 := apply_changes (ev_chg e) (ev_mov e) (ev_cre e) s1 in
  match e with
  | EChanged p => soa_changed s2 p
  | _ => if fix_forget (cfg s) then forget_all s2 else s2
  end.

(* a change made through rope = the same change of the disk + the event *)
Definition event_of (d : disk) (x : xop) : event :=
  match x with
  | XWrite p _ _ => EChanged p
  | XCreate p _ => ECreated p
  | XRemove p => ERemoved p (disdir d p)
  | XMove p q => EMoved p q (disdir d p)
  end.

(* Moving a folder: FilteredResourceObserver._calculate_new_resource calls project.get_resource on the new
   path of every watched resource inside the folder, which raises ResourceNotFoundError for a watched
   resource that no longer exists (an entry with indicator None left behind by an earlier move/removal of
   a watched but uncached resource).  The exception escapes from project.do after the tree was changed
   and after _FileListCacher (the first observer) was told; PyCore.observer and the later observers are
   not. *)
Definition move_raises (s : state) (x : xop) : bool :=
  match x with
  | XMove p q =>
      negb (fix_move (cfg s)) && disdir (dsk s) p &&
      existsb (fun kw : list N * option ind => contains p kw.1 && negb (dexists (dsk s) kw.1))
              (map_to_list (watched s))
  | _ => false
  end.

(* a write through rope always gets a new modification time *)
Definition fresh_x (x : xop) : xop := match x with XWrite p c _ => XWrite p c false | _ => x end.

Definition rstep (s : state) (x : xop) : state :=
  let x := fresh_x x in
  if xguard (dsk s) x then
    if move_raises s x then set_flist (xstep s x) None
    else handle (xstep s x) (event_of (dsk s) x)
  else s.

(* ----------------------------------------------------------------- project.validate(folder) *)
(* the resources validate(f) looks at: f itself and what lies below it *)
Definition inside (f r : path) : bool := bool_decide (r = f) || contains f r.
Definition w_gone (s : state) (f r : path) : bool := inside f r && is_watched s r && negb (dexists (dsk s) r).
(* _is_changed: the stored indicator is not None and differs from the current (mtime, size) *)
Definition w_stale (s : state) (f r : path) : bool := inside f r && out_of_date s r && dexists (dsk s) r.
Definition w_created (s : state) (f r : path) : bool :=
  inside f r && bool_decide (watched s !! r = Some None) && dexists (dsk s) r.
(* some watched child of P is gone or out of date: _update_changes_caused_by_moved/_changed add the parent *)
Definition w_child_hit (s : state) (f P : path) : bool :=
  existsb (fun kw : list N * option ind => child_of P kw.1 && (w_gone s f kw.1 || w_stale s f kw.1))
          (map_to_list (watched s)).
Definition v_chg (s : state) (f r : path) : bool :=
  is_watched s r && dexists (dsk s) r && (w_stale s f r || w_child_hit s f r).

Definition validate_in (f : path) (s : state) : state :=
  let s' := apply_changes (v_chg s f) (w_gone s f) (w_created s f) (set_flist s None) in
  if fix_forget (cfg s) then forget_all s' else s'.
Definition validate (s : state) : state := validate_in [] s.

(* ----------------------------------------------------------------------------------- queries *)
Inductive query :=
| QFiles                       (* project.get_files() *)
| QLoad (p : path)             (* project.get_pymodule(resource) *)
| QResolve (m : path) (n : N)  (* project.get_pymodule(m)[n].get_object() for "import n" in m *)
| QChildren (p : path).        (* the structural attributes of the package p *)

Inductive answer :=
| AFiles (l : gset (list N))
| ALoad (r : option (option content))        (* None: raised; Some None: a package; Some (Some c): a module *)
| ATarget (r : option (option (list N)))     (* None: raised; Some None: unresolved; Some (Some t) *)
| AChildren (r : option (gset (list N))).
Global Instance answer_eq_dec : EqDecision answer.
Proof. solve_decision. Defined.

Definition view (v : parsed) : option content := match v with PFile c => Some c | PPkg _ => None end.

Definition set_cell (s : state) (k : list N * N) (t : path) : state :=
  State (dsk s) (mods s) (<[k := t]> (cells s)) (flist s) (watched s) (cfg s) (clock s).
Definition set_mod (s : state) (p : path) (v : parsed) : state :=
  State (dsk s) (<[p := v]> (mods s)) (cells s) (flist s) (watched s) (cfg s) (clock s).

Definition run_query (s : state) (q : query) : state * answer :=
  match q with
  | QFiles =>
      match flist s with
      | Some l => (s, AFiles l)
      | None => let l := files_of (dsk s) in (set_flist s (Some l), AFiles l)
      end
  | QLoad p =>
      let '(s1, ok) := load s p in
      (s1, ALoad (if ok then view <$> (mods s1 !! p) else None))
  | QResolve m n =>
      let '(s1, ok) := load s m in
      match mods s1 !! m with
      | Some (PFile c) =>
          if ok && bool_decide (n ∈ cimports c) then
            match cells s1 !! (m, n) with
            | Some t => (s1, ATarget (Some (Some t)))
            | None =>
                match find_module (shape (dsk s1)) (parent m) n with
                | None => (s1, ATarget (Some None))
                | Some t =>
                    let '(s2, ok2) := load s1 t in
                    if ok2 then (set_cell s2 (m, n) t, ATarget (Some (Some t)))
                    else (s2, ATarget None)
                end
            end
          else (s1, ATarget None)
      | _ => (s1, ATarget None)
      end
  | QChildren p =>
      let '(s1, ok) := load s p in
      match mods s1 !! p with
      | Some (PPkg (Some l)) => (s1, AChildren (Some l))
      | Some (PPkg None) =>
          let l := children (dsk s1) p in (set_mod s1 p (PPkg (Some l)), AChildren (Some l))
      | _ => (s1, AChildren None)
      end
  end.

(* ------------------------------------------------------------------------------------ steps *)
Inductive op :=
| ORope (x : xop)                 (* a primitive change made through rope *)
| OExternal (f : path) (xs : list xop)   (* changes behind rope's back, then project.validate(f) *)
| OQuery (q : query).

Definition step (s : state) (o : op) : state :=
  match o with
  | ORope x => rstep s x
  | OExternal f xs => validate_in f (foldl xstep s xs)
  | OQuery q => (run_query s q).1
  end.

Definition run (s : state) (ops : list op) : state := foldl step s ops.

(* the step makes rope raise (see [move_raises]) *)
Definition raises (s : state) (o : op) : bool :=
  match o with ORope x => xguard (dsk s) x && move_raises s x | _ => false end.

(* ---------------------------------------------------------------------------------- coherence *)
Definition matches (d : disk) (r : path) (v : parsed) : Prop :=
  match v with
  | PFile c => kind_of <$> d !! r = Some (Some c) /\ cok c = true
  | PPkg ch => kind_of <$> d !! r = Some None /\ match ch with Some l => l = children d r | None => True end
  end.
Global Instance matches_dec d r v : Decision (matches d r v).
Proof. destruct v as [c|[l|]]; cbn; apply _. Defined.

(* every cached module is the parse of the file on disk, and is watched with a current indicator *)
Definition C_mods (s : state) : Prop :=
  map_Forall (fun r v => is_Some (stampw s r) /\ watched s !! r = Some (stampw s r) /\ matches (dsk s) r v)
             (mods s).
(* the cached file list is the file list *)
Definition C_flist (s : state) : Prop :=
  match flist s with Some l => l = files_of (dsk s) | None => True end.
(* no stored indicator is out of date *)
Definition C_watched (s : state) : Prop :=
  map_Forall (fun r w => match w with Some i => stampw s r = Some i | None => True end) (watched s).
(* concluded cells only point to cached modules ... *)
Definition C_cells (s : state) : Prop :=
  map_Forall (fun (k : list N * N) t => is_Some (mods s !! t)) (cells s).
(* ... and to what module lookup answers now *)
Definition C_resolution (s : state) : Prop :=
  map_Forall (fun (k : list N * N) t => find_module (shape (dsk s)) (parent k.1) k.2 = Some t) (cells s).

(* the tree is a tree: the root is not a key and the parent of every key is a folder *)
Definition wf_disk (d : disk) : Prop :=
  map_Forall (fun k (_ : node) => k <> [] /\ disdir d (parent k) = true) d.

Definition CacheCoherent (s : state) : Prop :=
  wf_disk (dsk s) /\ C_mods s /\ C_flist s /\ C_watched s /\ C_cells s.
Definition Coherent (s : state) : Prop := CacheCoherent s /\ C_resolution s.

Global Instance C_watched_dec s : Decision (C_watched s).
Proof. unfold C_watched. apply map_Forall_dec. intros r [i|]; apply _. Defined.
Global Instance C_flist_dec s : Decision (C_flist s).
Proof. unfold C_flist; destruct (flist s); apply _. Defined.
Global Instance CacheCoherent_dec s : Decision (CacheCoherent s).
Proof. unfold CacheCoherent, wf_disk, C_mods, C_watched, C_cells; apply _. Defined.
Global Instance Coherent_dec s : Decision (Coherent s).
Proof. unfold Coherent, C_resolution; apply _. Defined.

(* the step does not change what module lookup answers for any concluded cell that survives it.
   Its negation is the shape of the recorded defect: PyCore.observer is told about changes, moves and
   removals of *cached* modules only, but the answer of find_module also depends on resources that are
   not cached (a new module or package earlier in the search order, a changed set of source folders). *)
Definition resolution_unaffected (s : state) (o : op) : Prop :=
  map_Forall (fun (k : list N * N) (_ : list N) =>
                find_module (shape (dsk (step s o))) (parent k.1) k.2 =
                find_module (shape (dsk s)) (parent k.1) k.2) (cells (step s o)).
Global Instance resolution_unaffected_dec s o : Decision (resolution_unaffected s o).
Proof. unfold resolution_unaffected; apply _. Defined.

(* ------------------------------------------------------------------ [indicator_sound], precisely *)
(* what a watcher of r can see of the tree: what r is (a file with this content / a folder) and, for a
   package, its child list — everything but modification times *)
Definition rview (d : disk) (r : path) : option (option content) * gset (list N) :=
  (kind_of <$> d !! r, children d r).
(* between s and s': a watched resource whose indicator is (again) the stored one has not been modified.
   Contrapositive: every modification of a watched resource changes at least one component of its
   (mtime, size) indicator, relative to the indicator rope stored. *)
Definition ind_sound (s s' : state) : Prop :=
  map_Forall (fun r w => match w with
                         | Some i => cur_ind (cfg s) (dsk s') r = Some i -> rview (dsk s') r = rview (dsk s) r
                         | None => True
                         end) (watched s).
(* the same for the full pair, whatever indicator the variant of the code compares, and relative to the
   actual pair before the batch: every modification of a watched resource changes its mtime or its size *)
Definition pair_sound (s s' : state) : Prop :=
  map_Forall (fun r (_ : option ind) =>
                ind_of_node true <$> dsk s' !! r = ind_of_node true <$> dsk s !! r ->
                rview (dsk s') r = rview (dsk s) r) (watched s).
Global Instance pair_sound_dec s s' : Decision (pair_sound s s').
Proof. unfold pair_sound. apply _. Defined.
(* every path the modification names lies strictly below f *)
Definition xunder (f : path) (x : xop) : bool :=
  match x with
  | XWrite p _ _ | XCreate p _ | XRemove p => contains f p
  | XMove p q => contains f p && contains f q
  end.
(* the side condition of a step "changes behind rope's back, then validate(f)": f is an existing folder,
   the changes are confined to f, and they are visible in the indicators *)
Definition ext_ok (s : state) (o : op) : Prop :=
  match o with
  | OExternal f xs =>
      disdir (dsk s) f = true /\ forallb (xunder f) xs = true /\ ind_sound s (foldl xstep s xs)
  | _ => True
  end.
Global Instance ind_sound_dec s s' : Decision (ind_sound s s').
Proof. unfold ind_sound. apply map_Forall_dec. intros r [i|]; apply _. Defined.
Global Instance ext_ok_dec s o : Decision (ext_ok s o).
Proof. destruct o; cbn; apply _. Defined.

(* --------------------------------------------------------------------------- whole histories *)
(* the queries that do not go through module lookup *)
Definition lookup_free (q : query) : bool := match q with QResolve _ _ => false | _ => true end.

(* no step makes rope raise, and no step changes the answer of module lookup under a live concluded cell *)
Fixpoint admissible (s : state) (ops : list op) : Prop :=
  match ops with
  | [] => True
  | o :: r => raises s o = false /\ ext_ok s o /\ resolution_unaffected s o /\ admissible (step s o) r
  end.
Fixpoint no_raise (s : state) (ops : list op) : Prop :=
  match ops with
  | [] => True
  | o :: r => raises s o = false /\ ext_ok s o /\ no_raise (step s o) r
  end.
(* every batch of changes behind rope's back is confined to the validated folder and visible in the indicators *)
Fixpoint ext_sound (s : state) (ops : list op) : Prop :=
  match ops with
  | [] => True
  | o :: r => ext_ok s o /\ ext_sound (step s o) r
  end.

(* boolean form, for computed examples and for the correspondence runner *)
Fixpoint admissible_b (s : state) (ops : list op) : bool :=
  match ops with
  | [] => true
  | o :: r => negb (raises s o) && bool_decide (ext_ok s o) && bool_decide (resolution_unaffected s o)
              && admissible_b (step s o) r
  end.
Fixpoint ext_sound_b (s : state) (ops : list op) : bool :=
  match ops with
  | [] => true
  | o :: r => bool_decide (ext_ok s o) && ext_sound_b (step s o) r
  end.


(* ------------------------------------------------------ queries between the changes and validate *)
(* Changes behind rope's back may be interleaved with queries before project.validate() is called (an IDE
   keeps asking while files change under it).  The answers in between may be out of date; what matters is
   that validate still catches up. *)
Inductive pstep :=
| PX (x : xop)        (* a change behind rope's back *)
| PQ (q : query).     (* a query on the long-lived project *)
Definition pend_step (s : state) (p : pstep) : state :=
  match p with PX x => xstep s x | PQ q => (run_query s q).1 end.

(* the modification does not bring the indicator of a watched resource (back) to the stored value, unless
   it is the stored value already and the resource is unchanged: every modification of a watched resource
   changes a component of its (mtime, size) indicator, relative to what rope stored *)
Definition x_sound (s : state) (x : xop) : Prop :=
  map_Forall (fun r w => match w with
                         | Some i => stampw (xstep s x) r = Some i ->
                                     stampw s r = Some i /\ rview (dsk (xstep s x)) r = rview (dsk s) r
                         | None => True
                         end) (watched s).
Global Instance x_sound_dec s x : Decision (x_sound s x).
Proof. unfold x_sound. apply map_Forall_dec. intros r [i|]; apply _. Defined.

Fixpoint pend_sound (s : state) (ps : list pstep) : Prop :=
  match ps with
  | [] => True
  | PX x :: r => x_sound s x /\ pend_sound (xstep s x) r
  | PQ q :: r => pend_sound (run_query s q).1 r
  end.
Fixpoint pend_sound_b (s : state) (ps : list pstep) : bool :=
  match ps with
  | [] => true
  | PX x :: r => bool_decide (x_sound s x) && pend_sound_b (xstep s x) r
  | PQ q :: r => pend_sound_b (run_query s q).1 r
  end.
